/-
  C05: the aggregation model (IpfixModel/Model/Agg.lean: create / update / resetStats / ingest)
  refines the declarative history-level specification of IpfixModel/Spec/C05.lean.
  One node's fields are a small state machine (`nodeStep`, `nodeReset`); the model's source /
  destination projections follow it (`aggNums_*`: under the exporter contract the early return of
  aggregateRecords is never taken) and so does `nodeExpected` (`nodeExpected_record_fills`,
  `nodeExpected_record_nofill`, `nodeExpected_reset`); `node_inv`, `end_inv`, `common_inv` are the
  inductions over the history (snoc induction, `rev_ind`).
  Main statements: `reset_clears_only`, `keys_independent`, `node_fields`, `end_latest`,
  `common_fields`.
-/
import IpfixModel.Spec.C05
namespace Ipfix.C05
open Agg

theorem getD_range_map (n : Nat) (f : Nat → Nat) (i : Nat) :
    ((List.range n).map f).getD i 0 = if i < n then f i else 0 := by
  by_cases h : i < n <;> simp [List.getD_eq_getElem?_getD, h]

theorem getD_of_le (l : List Nat) (i : Nat) (h : l.length ≤ i) : l.getD i 0 = 0 := by
  simp [List.getD_eq_getElem?_getD, h]

theorem range_map_getD (l : List Nat) : (List.range l.length).map (fun i => l.getD i 0) = l := by
  apply List.ext_getElem
  · simp
  · intro i h1 h2
    simp at h1
    simp [h1]

/-- the clearing function of `resetStats` -/
def clr (l : List Nat) : List Nat := (List.range l.length).map fun i => if isDelta i then 0 else l.getD i 0

theorem clr_getD (l : List Nat) (i : Nat) : (clr l).getD i 0 = if isDelta i then 0 else l.getD i 0 := by
  unfold clr
  rw [getD_range_map]
  by_cases h : i < l.length
  · simp [h]
  · simp [h]

theorem resetStats_eq (a : AggRec) : resetStats a =
    { a with stats := clr a.stats, srcStats := clr a.srcStats, dstStats := clr a.dstStats,
             thr := [0, 0], thrSrc := [0, 0], thrDst := [0, 0] } := rfl

/-- a reset clears delta counters and throughput fields only -/
theorem reset_clears_only (a : AggRec) :
    (∀ i, isDelta i = false → (resetStats a).stats.getD i 0 = a.stats.getD i 0 ∧ (resetStats a).srcStats.getD i 0 = a.srcStats.getD i 0 ∧ (resetStats a).dstStats.getD i 0 = a.dstStats.getD i 0) ∧
    (∀ i, isDelta i = true → (resetStats a).stats.getD i 0 = 0 ∧ (resetStats a).srcStats.getD i 0 = 0 ∧ (resetStats a).dstStats.getD i 0 = 0) ∧
    (resetStats a).thr = [0, 0] ∧ (resetStats a).thrSrc = [0, 0] ∧ (resetStats a).thrDst = [0, 0] ∧
    (resetStats a).end_ = a.end_ ∧ (resetStats a).endSrc = a.endSrc ∧ (resetStats a).endDst = a.endDst ∧
    (resetStats a).corr = a.corr ∧ (resetStats a).ready = a.ready ∧ (resetStats a).start = a.start ∧
    (resetStats a).endReason = a.endReason ∧ (resetStats a).tcpState = a.tcpState ∧ (resetStats a).flowType = a.flowType := by
  rw [resetStats_eq]
  refine ⟨?_, ?_, rfl, rfl, rfl, rfl, rfl, rfl, rfl, rfl, rfl, rfl, rfl, rfl⟩
  · intro i hi
    simp only [clr_getD, hi]
    simp
  · intro i hi
    simp only [clr_getD, hi]
    simp

theorem find_map_ne (l : List (Nat × AggRec)) (k' k : Nat) (a : AggRec) (hk : k' ≠ k) :
    (l.map fun p => if p.1 == k' then (k', a) else p).find? (·.1 == k) = l.find? (·.1 == k) := by
  induction l with
  | nil => rfl
  | cons p l ih =>
    simp only [List.map_cons, List.find?_cons, ih]
    by_cases h : p.1 = k'
    · have h2 : (k' == k) = false := by simp [hk]
      simp [h, h2]
    · simp [h]

theorem find_set_ne (s : State) (k' k : Nat) (a : AggRec) (hk : k' ≠ k) : (s.set k' a).find k = s.find k := by
  unfold State.set State.find
  split
  · simp only [find_map_ne _ _ _ _ hk]
  · simp [List.find?_append, hk]

/-- flows with different keys never affect each other -/
theorem keys_independent (s : State) (r : InRec) (k : Nat) (hk : r.key ≠ k) : (ingest s r).find k = s.find k := by
  unfold ingest
  split
  · simp only []
    split
    · exact find_set_ne _ _ _ _ hk
    · exact find_set_ne _ _ _ _ hk
  · exact find_set_ne _ _ _ _ hk

/-! ## Snoc lemmas for the declarative definitions -/

theorem rev_ind {α : Type} {P : List α → Prop} (nil : P []) (snoc : ∀ l x, P l → P (l ++ [x])) : ∀ l, P l := by
  intro l
  rw [← List.reverse_reverse l]
  induction l.reverse with
  | nil => exact nil
  | cons x t ih => rw [List.reverse_cons]; exact snoc _ _ ih

theorem sinceReset_record (h : List Ev) (r : InRec) : sinceReset (h ++ [.record r]) = sinceReset h ++ [.record r] := by
  simp [sinceReset, List.foldl_append]

theorem sinceReset_reset (h : List Ev) : sinceReset (h ++ [.reset]) = [] := by
  simp [sinceReset, List.foldl_append]

theorem recordsOf_append (fills : InRec → Bool) (h g : List Ev) :
    recordsOf fills (h ++ g) = recordsOf fills h ++ recordsOf fills g := by
  simp [recordsOf, List.filterMap_append]

theorem recordsOf_record (fills : InRec → Bool) (h : List Ev) (r : InRec) :
    recordsOf fills (h ++ [.record r]) = recordsOf fills h ++ (if fills r then [r] else []) := by
  rw [recordsOf_append]
  congr 1
  by_cases hf : fills r <;> simp [recordsOf, hf]

theorem recordsOf_reset (fills : InRec → Bool) (h : List Ev) :
    recordsOf fills (h ++ [.reset]) = recordsOf fills h := by
  rw [recordsOf_append]; simp [recordsOf]

theorem allRecords_record (h : List Ev) (r : InRec) : allRecords (h ++ [.record r]) = allRecords h ++ [r] := by
  simp [allRecords, List.filterMap_append]

theorem allRecords_reset (h : List Ev) : allRecords (h ++ [.reset]) = allRecords h := by
  simp [allRecords, List.filterMap_append]

theorem recordsOf_eq_filter (fills : InRec → Bool) (h : List Ev) :
    recordsOf fills h = (allRecords h).filter fills := by
  induction h with
  | nil => rfl
  | cons e t ih =>
    cases e with
    | reset => simpa [recordsOf, allRecords] using ih
    | record r =>
      simp only [recordsOf, allRecords, List.filterMap_cons] at ih ⊢
      by_cases hf : fills r <;> simp [hf, ih]

theorem allRecords_sinceReset_sub (h : List Ev) : ∀ r ∈ allRecords (sinceReset h), r ∈ allRecords h := by
  induction h using rev_ind with
  | nil => intro r hr; simpa [sinceReset] using hr
  | snoc l e ih =>
    cases e with
    | reset => intro r hr; simp [sinceReset_reset, allRecords] at hr
    | record x =>
      intro r hr
      rw [sinceReset_record, allRecords_record] at hr
      rw [allRecords_record]
      simp only [List.mem_append, List.mem_singleton] at hr ⊢
      rcases hr with hr | hr
      · exact Or.inl (ih r hr)
      · exact Or.inr hr

/-! ## One node's fields as a state machine -/

/-- `nodeExpected` as a function of the node's records (all / since the last reset) -/
def nodeOf (all recent : List InRec) : NodeExp :=
  match all.getLast? with
  | none => { stats := zeros nStats, end_ := 0, thr := [0, 0] }
  | some last =>
    let prev := all.dropLast.getLast?
    let prevEnd := match prev with | some p => p.end_ | none => last.start
    let prevTot (i : Nat) := match prev with | some p => p.stats.getD i 0 | none => 0
    { stats := (List.range nStats).map fun i =>
        if isDelta i then (recent.map (·.stats.getD i 0)).sum % u64 else last.stats.getD i 0,
      end_ := last.end_,
      thr := if recent.isEmpty then [0, 0]
             else [thrOf (last.stats.getD iOctetTotal 0) (prevTot iOctetTotal) last.end_ prevEnd,
                   thrOf (last.stats.getD iRevOctetTotal 0) (prevTot iRevOctetTotal) last.end_ prevEnd] }

theorem nodeExpected_eq (fills : InRec → Bool) (h : List Ev) :
    nodeExpected fills h = nodeOf (recordsOf fills h) (recordsOf fills (sinceReset h)) := rfl

/-- what a record of the node does to the node's fields -/
def nodeStep (r : InRec) (st : NodeExp) : NodeExp :=
  let prevEnd := if st.end_ == 0 then r.start else st.end_
  { stats := updNode st.stats r.stats, end_ := r.end_,
    thr := [thrOf (r.stats.getD iOctetTotal 0) (st.stats.getD iOctetTotal 0) r.end_ prevEnd,
            thrOf (r.stats.getD iRevOctetTotal 0) (st.stats.getD iRevOctetTotal 0) r.end_ prevEnd] }

/-- what a reset does to the node's fields -/
def nodeReset (st : NodeExp) : NodeExp := { stats := clr st.stats, end_ := st.end_, thr := [0, 0] }

def nodeZero : NodeExp := { stats := zeros nStats, end_ := 0, thr := [0, 0] }

/-- the per-record part of the exporter contract -/
def goodRec (r : InRec) : Prop := r.start < r.end_ ∧ r.stats.length = nStats ∧ ∀ x ∈ r.stats, x < u64

theorem zeros_getD (n i : Nat) : (zeros n).getD i 0 = 0 := by
  unfold zeros
  by_cases h : i < n <;> simp [List.getD_eq_getElem?_getD, h]

theorem nodeOf_nil (recent : List InRec) : nodeOf [] recent = nodeZero := rfl

theorem nodeOf_snoc (all recent : List InRec) (r : InRec) :
    nodeOf (all ++ [r]) recent =
      { stats := (List.range nStats).map fun i =>
          if isDelta i then (recent.map (·.stats.getD i 0)).sum % u64 else r.stats.getD i 0,
        end_ := r.end_,
        thr := if recent.isEmpty then [0, 0]
               else [thrOf (r.stats.getD iOctetTotal 0) (match all.getLast? with | some p => p.stats.getD iOctetTotal 0 | none => 0) r.end_
                       (match all.getLast? with | some p => p.end_ | none => r.start),
                     thrOf (r.stats.getD iRevOctetTotal 0) (match all.getLast? with | some p => p.stats.getD iRevOctetTotal 0 | none => 0) r.end_
                       (match all.getLast? with | some p => p.end_ | none => r.start)] } := by
  unfold nodeOf
  simp only [List.getLast?_append, List.getLast?_singleton, Option.some_or, List.dropLast_concat]

theorem nodeOf_stats_length (all recent : List InRec) : (nodeOf all recent).stats.length = nStats := by
  unfold nodeOf
  split <;> simp [zeros]

/-! ## The contract, snoc form -/

theorem chain_snoc (f : InRec × InRec → Bool) : ∀ (rs : List InRec) (r : InRec),
    ((rs ++ [r]).zip ((rs ++ [r]).drop 1)).all f = true →
    (rs.zip (rs.drop 1)).all f = true ∧ ∀ p, rs.getLast? = some p → f (p, r) = true
  | [], r, _ => by simp
  | [x], r, h => by simpa using h
  | x :: y :: t, r, h => by
    have ih := chain_snoc f (y :: t) r
    simp only [List.cons_append, List.drop_succ_cons, List.drop_zero, List.zip_cons_cons, List.all_cons,
      Bool.and_eq_true] at h ih ⊢
    have ih' := ih h.2
    refine ⟨⟨h.1, ih'.1⟩, ?_⟩
    intro p hp
    apply ih'.2
    simpa [List.getLast?_cons_cons] using hp

theorem contractNode_good (rs : List InRec) (hc : contractNode rs = true) : ∀ r ∈ rs, goodRec r := by
  intro r hr
  unfold contractNode at hc
  simp only [Bool.and_eq_true, List.all_eq_true] at hc
  have := hc.1 r hr
  simp only [decide_eq_true_eq, beq_iff_eq] at this
  exact ⟨this.1.1.1, this.1.1.2, this.1.2⟩

theorem contractNode_snoc (rs : List InRec) (r : InRec) (hc : contractNode (rs ++ [r]) = true) :
    contractNode rs = true ∧ goodRec r ∧ ∀ p, rs.getLast? = some p → p.end_ < r.end_ := by
  have hg := contractNode_good _ hc r (by simp)
  unfold contractNode at hc ⊢
  simp only [Bool.and_eq_true] at hc ⊢
  have h2 := chain_snoc _ rs r hc.2
  refine ⟨⟨?_, h2.1⟩, hg, ?_⟩
  · have := hc.1
    simp only [List.all_append, Bool.and_eq_true] at this
    exact this.1
  · intro p hp
    have := h2.2 p hp
    simp only [Bool.and_eq_true, decide_eq_true_eq] at this
    exact this.1

/-- within one node, every earlier record ends no later than the last one -/
theorem contractNode_le_last (rs : List InRec) : contractNode rs = true →
    ∀ p, rs.getLast? = some p → ∀ x ∈ rs, x.end_ ≤ p.end_ := by
  induction rs using rev_ind with
  | nil => intro _ p hp; simp at hp
  | snoc l r ih =>
    intro hc p hp x hx
    have ⟨hc', _, hlt⟩ := contractNode_snoc l r hc
    simp only [List.getLast?_append, List.getLast?_singleton, Option.some_or, Option.some.injEq] at hp
    subst hp
    simp only [List.mem_append, List.mem_singleton] at hx
    rcases hx with hx | hx
    · cases hl : l.getLast? with
      | none => simp [List.getLast?_eq_none_iff] at hl; subst hl; simp at hx
      | some q =>
        have := ih hc' q hl x hx
        have := hlt q hl
        omega
    · subst hx; exact Nat.le_refl _

theorem contractNode_snoc_lt (rs : List InRec) (r : InRec) (hc : contractNode (rs ++ [r]) = true) :
    ∀ x ∈ rs, x.end_ < r.end_ := by
  intro x hx
  have ⟨hc', _, hlt⟩ := contractNode_snoc rs r hc
  cases hl : rs.getLast? with
  | none => simp [List.getLast?_eq_none_iff] at hl; subst hl; simp at hx
  | some q =>
    have := contractNode_le_last rs hc' q hl x hx
    have := hlt q hl
    omega

/-! ## (B), (C): the declarative per-node fields follow the node state machine -/

theorem recordsOf_sinceReset_nil (fills : InRec → Bool) (h : List Ev) (hn : recordsOf fills h = []) :
    recordsOf fills (sinceReset h) = [] := by
  rw [recordsOf_eq_filter] at hn ⊢
  rw [List.filter_eq_nil_iff] at hn ⊢
  intro r hr
  exact hn r (allRecords_sinceReset_sub h r hr)

theorem nodeExpected_record_fills (fills : InRec → Bool) (h : List Ev) (r : InRec) (hf : fills r = true)
    (hc : contractNode (recordsOf fills h ++ [r]) = true) :
    nodeExpected fills (h ++ [.record r]) = nodeStep r (nodeExpected fills h) := by
  have ⟨hc', hg, hlt⟩ := contractNode_snoc _ r hc
  rw [nodeExpected_eq, nodeExpected_eq, sinceReset_record, recordsOf_record, recordsOf_record]
  simp only [hf, if_true]
  have hnil := recordsOf_sinceReset_nil fills h
  generalize recordsOf fills (sinceReset h) = recent at hnil ⊢
  generalize hall : recordsOf fills h = all at hnil hc' hlt ⊢
  rw [nodeOf_snoc]
  cases hl : all.getLast? with
  | none =>
    rw [List.getLast?_eq_none_iff] at hl
    subst hl
    rw [hnil rfl, nodeOf_nil]
    unfold nodeStep nodeZero updNode
    simp only [NodeExp.mk.injEq, hg.2.1, zeros_getD, true_and]
    refine ⟨?_, ?_⟩
    · apply List.map_congr_left
      intro i _
      simp
    · simp
  | some p =>
    obtain ⟨l, rfl⟩ := List.getLast?_eq_some_iff.mp hl
    have hp : goodRec p := contractNode_good _ hc' p (by simp)
    have hp0 : (p.end_ == 0) = false := by
      have := hp.1
      simp; omega
    rw [nodeOf_snoc]
    unfold nodeStep updNode
    simp only [NodeExp.mk.injEq, hg.2.1, hp0, true_and, getD_range_map]
    refine ⟨?_, ?_⟩
    · apply List.map_congr_left
      intro i hi
      rw [List.mem_range] at hi
      by_cases hd : isDelta i
      · simp [hd, hi, List.sum_append, Nat.add_comm]
      · simp [hd]
    · simp [iOctetTotal, iRevOctetTotal, nStats, isDelta]

theorem nodeExpected_record_nofill (fills : InRec → Bool) (h : List Ev) (r : InRec) (hf : fills r = false) :
    nodeExpected fills (h ++ [.record r]) = nodeExpected fills h := by
  rw [nodeExpected_eq, nodeExpected_eq, sinceReset_record, recordsOf_record, recordsOf_record]
  simp [hf]

theorem nodeExpected_reset (fills : InRec → Bool) (h : List Ev) :
    nodeExpected fills (h ++ [.reset]) = nodeReset (nodeExpected fills h) := by
  rw [nodeExpected_eq, nodeExpected_eq, sinceReset_reset, recordsOf_reset]
  generalize recordsOf fills (sinceReset h) = recent
  generalize recordsOf fills h = all
  cases hl : all.getLast? with
  | none =>
    rw [List.getLast?_eq_none_iff] at hl
    subst hl
    rw [nodeOf_nil, nodeOf_nil]
    decide
  | some p =>
    obtain ⟨l, rfl⟩ := List.getLast?_eq_some_iff.mp hl
    rw [nodeOf_snoc, nodeOf_snoc]
    unfold nodeReset clr
    simp only [NodeExp.mk.injEq, true_and, getD_range_map, List.length_map, List.length_range]
    refine ⟨?_, by simp [recordsOf]⟩
    apply List.map_congr_left
    intro i hi
    rw [List.mem_range] at hi
    by_cases hd : isDelta i <;> simp [hd, hi, recordsOf]

/-! ## (A): the model's per-node fields follow the node state machine -/

def srcN (n : Nums) : NodeExp := { stats := n.srcStats, end_ := n.endSrc, thr := n.thrSrc }
def dstN (n : Nums) : NodeExp := { stats := n.dstStats, end_ := n.endDst, thr := n.thrDst }

def prevEndOf (r : InRec) (st : NodeExp) : Nat := if st.end_ == 0 then r.start else st.end_

theorem update_nums (r : InRec) (a : AggRec) :
    (update r a).nums = aggNums r a.nums (fillsSrc r) (fillsDst r) := by
  unfold update fillsSrc fillsDst
  cases corrRequired r.flowType r.corr <;> cases fromSrc r.corr <;>
    cases (!a.ready && !sameNode r.corr a.corr) <;> rfl

theorem aggNums_src_only (r : InRec) (n : Nums) (hp : prevEndOf r (srcN n) < r.end_) :
    srcN (aggNums r n true false) = nodeStep r (srcN n) ∧ dstN (aggNums r n true false) = dstN n := by
  unfold prevEndOf srcN at hp
  simp only at hp
  unfold aggNums
  simp only [if_true, Bool.false_eq_true, if_false, Nat.not_le.mpr hp]
  unfold srcN dstN nodeStep thrOf
  simp

theorem aggNums_dst_only (r : InRec) (n : Nums) (hp : prevEndOf r (dstN n) < r.end_) :
    srcN (aggNums r n false true) = srcN n ∧ dstN (aggNums r n false true) = nodeStep r (dstN n) := by
  unfold prevEndOf dstN at hp
  simp only at hp
  unfold aggNums
  simp only [if_true, Bool.false_eq_true, if_false, Nat.not_le.mpr hp]
  unfold srcN dstN nodeStep thrOf
  simp

theorem aggNums_both (r : InRec) (n : Nums) (heq : srcN n = dstN n) (hp : prevEndOf r (dstN n) < r.end_) :
    srcN (aggNums r n true true) = nodeStep r (srcN n) ∧ dstN (aggNums r n true true) = nodeStep r (dstN n) := by
  rw [heq]
  unfold srcN dstN at heq
  simp only [NodeExp.mk.injEq] at heq
  unfold prevEndOf dstN at hp
  simp only at hp
  unfold aggNums
  simp only [if_true, Nat.not_le.mpr hp]
  unfold srcN dstN nodeStep thrOf
  simp [heq.1]

theorem aggNums_end (r : InRec) (n : Nums) (fs fd : Bool) :
    (aggNums r n fs fd).end_ = max n.end_ r.end_ := by
  unfold aggNums
  simp only [apply_ite Nums.end_, ite_self]
  exact Nat.max_def.symm

/-- the common fields after a record that the early return does not catch -/
theorem aggNums_common (r : InRec) (n : Nums) (fs fd : Bool)
    (hp : prevEndOf r (if fd then dstN n else srcN n) < r.end_) (hfill : fs = true ∨ fd = true) :
    (aggNums r n fs fd).stats = (List.range r.stats.length).map (fun i =>
      if r.end_ ≥ n.end_ then
        (if isDelta i then (if fd then dstN (aggNums r n fs fd) else srcN (aggNums r n fs fd)).stats.getD i 0
         else max (n.stats.getD i 0) (r.stats.getD i 0))
      else n.stats.getD i 0) ∧
    (aggNums r n fs fd).thr = if r.end_ ≥ n.end_ then (if fd then dstN (aggNums r n fs fd) else srcN (aggNums r n fs fd)).thr else n.thr := by
  unfold prevEndOf dstN srcN at hp
  have hmax : ∀ x y : Nat, (if x < y then y else x) = max x y := by
    intro x y; simp only [Nat.max_def]; split <;> split <;> omega
  cases fd
  · have hfs : fs = true := by simpa using hfill
    subst hfs
    simp only [Bool.false_eq_true, if_false] at hp
    unfold aggNums
    simp only [if_true, Bool.false_eq_true, if_false, Nat.not_le.mpr hp]
    unfold srcN
    simp only [hmax]
    simp
  · simp only [if_true] at hp
    unfold aggNums
    simp only [if_true, Nat.not_le.mpr hp]
    unfold dstN
    simp only [hmax]
    simp

/-! ## The history induction -/

def stepEv (a : AggRec) (e : Ev) : AggRec := match e with | .record r => update r a | .reset => resetStats a

theorem modelAfter_snoc (h : List Ev) (e : Ev) (hne : h ≠ []) :
    modelAfter (h ++ [e]) = (modelAfter h).map (fun a => stepEv a e) := by
  cases h with
  | nil => exact absurd rfl hne
  | cons x t =>
    cases x with
    | reset => rfl
    | record r =>
      simp only [List.cons_append, modelAfter, List.foldl_append, List.foldl_cons, List.foldl_nil, Option.map_some]
      cases e <;> rfl

theorem fills_or (r : InRec) : fillsSrc r = true ∨ fillsDst r = true := by
  unfold fillsSrc fillsDst
  cases corrRequired r.flowType r.corr <;> cases fromSrc r.corr <;> simp

theorem fills_both (r : InRec) (h1 : fillsSrc r = true) (h2 : fillsDst r = true) :
    corrRequired r.flowType r.corr = false := by
  unfold fillsSrc fillsDst at *
  cases hc : corrRequired r.flowType r.corr <;> cases hs : fromSrc r.corr <;> simp [hc, hs] at h1 h2 ⊢

theorem fills_of_not_required (r : InRec) (h : corrRequired r.flowType r.corr = false) :
    fillsSrc r = true ∧ fillsDst r = true := by
  unfold fillsSrc fillsDst
  simp [h]

theorem nodeExpected_congr (f g : InRec → Bool) (h : List Ev) (hfg : ∀ x ∈ allRecords h, f x = g x) :
    nodeExpected f h = nodeExpected g h := by
  simp only [nodeExpected_eq, recordsOf_eq_filter]
  rw [List.filter_congr hfg, List.filter_congr (fun x hx => hfg x (allRecords_sinceReset_sub h x hx))]

/-- all records agree on `corrRequired` (third part of the contract) -/
def agree (rs : List InRec) : Bool :=
  match rs with
  | [] => true
  | r :: t => t.all fun x => corrRequired x.flowType x.corr == corrRequired r.flowType r.corr

theorem contract_eq (h : List Ev) : contract h =
    (contractNode (recordsOf fillsSrc h) && contractNode (recordsOf fillsDst h) && agree (allRecords h)) := rfl

theorem agree_snoc (rs : List InRec) (x : InRec) (h : agree (rs ++ [x]) = true) :
    agree rs = true ∧ ∀ y ∈ rs, corrRequired y.flowType y.corr = corrRequired x.flowType x.corr := by
  cases rs with
  | nil => simp [agree]
  | cons r t =>
    simp only [agree, List.cons_append, List.all_append, List.all_cons, List.all_nil, Bool.and_true,
      Bool.and_eq_true, beq_iff_eq, List.all_eq_true] at h ⊢
    refine ⟨h.1, ?_⟩
    intro y hy
    rw [List.mem_cons] at hy
    rcases hy with hy | hy
    · subst hy; exact h.2.symm
    · rw [h.1 y hy, h.2]

theorem contract_reset (h : List Ev) : contract (h ++ [.reset]) = contract h := by
  simp only [contract_eq, recordsOf_reset, allRecords_reset]

theorem contract_record (h : List Ev) (r : InRec) (hc : contract (h ++ [.record r]) = true) :
    contract h = true ∧
    contractNode (recordsOf fillsSrc h ++ if fillsSrc r then [r] else []) = true ∧
    contractNode (recordsOf fillsDst h ++ if fillsDst r then [r] else []) = true ∧
    ∀ y ∈ allRecords h, corrRequired y.flowType y.corr = corrRequired r.flowType r.corr := by
  simp only [contract_eq, recordsOf_record, allRecords_record, Bool.and_eq_true] at hc ⊢
  have hag := agree_snoc _ _ hc.2
  refine ⟨⟨⟨?_, ?_⟩, hag.1⟩, hc.1.1, hc.1.2, hag.2⟩
  · have := hc.1.1
    split at this
    · exact (contractNode_snoc _ _ this).1
    · simpa using this
  · have := hc.1.2
    split at this
    · exact (contractNode_snoc _ _ this).1
    · simpa using this

theorem prevEnd_lt (fills : InRec → Bool) (h : List Ev) (r : InRec)
    (hc : contractNode (recordsOf fills h ++ [r]) = true) :
    prevEndOf r (nodeExpected fills h) < r.end_ := by
  have ⟨hc', hg, hlt⟩ := contractNode_snoc _ r hc
  rw [nodeExpected_eq]
  generalize recordsOf fills (sinceReset h) = recent
  generalize recordsOf fills h = all at hc' hlt
  unfold prevEndOf
  cases hl : all.getLast? with
  | none =>
    rw [List.getLast?_eq_none_iff] at hl
    subst hl
    simp only [nodeOf_nil, nodeZero]
    exact hg.1
  | some p =>
    have := hlt p hl
    obtain ⟨l, rfl⟩ := List.getLast?_eq_some_iff.mp hl
    rw [nodeOf_snoc]
    simp only
    split
    · exact hg.1
    · exact this

theorem getD_lt_u64 (l : List Nat) (hl : ∀ x ∈ l, x < u64) (i : Nat) : l.getD i 0 < u64 := by
  by_cases h : i < l.length
  · have : l.getD i 0 = l[i] := by simp [List.getD_eq_getElem?_getD, h]
    rw [this]
    exact hl _ (List.getElem_mem h)
  · rw [getD_of_le l i (Nat.le_of_not_lt h)]
    decide

theorem thrOf_zero (x e s : Nat) (hx : x < u64) : thrOf x 0 e s = (x * 8 % u64) / (e - s) := by
  unfold thrOf
  rw [Nat.sub_zero, Nat.add_mod_right, Nat.mod_eq_of_lt hx]

theorem nodeStep_zero (r : InRec) (hg : goodRec r) :
    nodeStep r nodeZero =
      { stats := r.stats, end_ := r.end_,
        thr := [(r.stats.getD iOctetTotal 0 * 8 % u64) / (r.end_ - r.start),
                (r.stats.getD iRevOctetTotal 0 * 8 % u64) / (r.end_ - r.start)] } := by
  unfold nodeStep nodeZero
  simp only [zeros_getD, beq_self_eq_true, if_true, thrOf_zero _ _ _ (getD_lt_u64 _ hg.2.2 _), NodeExp.mk.injEq,
    and_true]
  unfold updNode
  conv => rhs; rw [← range_map_getD r.stats]
  apply List.map_congr_left
  intro i _
  simp only [zeros_getD, Nat.add_zero, Nat.mod_eq_of_lt (getD_lt_u64 _ hg.2.2 i), ite_self]

theorem create_nodes (r : InRec) (hg : goodRec r) :
    srcN (create r).nums = (if fillsSrc r then nodeStep r nodeZero else nodeZero) ∧
    dstN (create r).nums = (if fillsDst r then nodeStep r nodeZero else nodeZero) := by
  rw [nodeStep_zero r hg]
  have h1 : r.end_ > r.start := hg.1
  unfold create srcN dstN AggRec.nums fillsSrc fillsDst nodeZero
  simp only [h1, if_true, hg.2.1]
  cases corrRequired r.flowType r.corr <;> cases fromSrc r.corr <;> exact ⟨rfl, rfl⟩

theorem goodRec_of_contract (l : List Ev) (r : InRec) (hc : contract (l ++ [.record r]) = true) : goodRec r := by
  have ⟨_, hs, hd, _⟩ := contract_record l r hc
  rcases fills_or r with hf | hf
  · simp only [hf, if_true] at hs; exact (contractNode_snoc _ _ hs).2.1
  · simp only [hf, if_true] at hd; exact (contractNode_snoc _ _ hd).2.1

theorem single_stream (l : List Ev) (r : InRec) (hfs : fillsSrc r = true) (hfd : fillsDst r = true)
    (hag : ∀ y ∈ allRecords l, corrRequired y.flowType y.corr = corrRequired r.flowType r.corr) :
    nodeExpected fillsSrc l = nodeExpected fillsDst l := by
  apply nodeExpected_congr
  intro y hy
  have := fills_of_not_required y ((hag y hy).trans (fills_both r hfs hfd))
  rw [this.1, this.2]

theorem node_inv (h : List Ev) : ∀ a, contract h = true → modelAfter h = some a →
    srcN a.nums = nodeExpected fillsSrc h ∧ dstN a.nums = nodeExpected fillsDst h := by
  induction h using rev_ind with
  | nil => intro a _ hm; simp [modelAfter] at hm
  | snoc l e ih =>
    intro a hc hm
    by_cases hl : l = []
    · subst hl
      cases e with
      | reset => simp [modelAfter] at hm
      | record r =>
        have hm' : create r = a := by simpa [modelAfter] using hm
        subst hm'
        have hg := goodRec_of_contract [] r hc
        have ⟨_, hs, hd, _⟩ := contract_record [] r hc
        have ⟨c1, c2⟩ := create_nodes r hg
        rw [c1, c2]
        constructor
        · cases hf : fillsSrc r
          · rw [nodeExpected_record_nofill _ _ _ hf]; rfl
          · simp only [hf, if_true] at hs ⊢; rw [nodeExpected_record_fills _ _ _ hf hs]; rfl
        · cases hf : fillsDst r
          · rw [nodeExpected_record_nofill _ _ _ hf]; rfl
          · simp only [hf, if_true] at hd ⊢; rw [nodeExpected_record_fills _ _ _ hf hd]; rfl
    · rw [modelAfter_snoc _ _ hl] at hm
      cases hm' : modelAfter l with
      | none => simp [hm'] at hm
      | some a' =>
        simp only [hm', Option.map_some, Option.some.injEq] at hm
        subst hm
        cases e with
        | reset =>
          rw [contract_reset] at hc
          have ⟨i1, i2⟩ := ih a' hc hm'
          rw [nodeExpected_reset, nodeExpected_reset, ← i1, ← i2]
          exact ⟨rfl, rfl⟩
        | record r =>
          have ⟨hc', hs, hd, hag⟩ := contract_record l r hc
          have ⟨i1, i2⟩ := ih a' hc' hm'
          show srcN (update r a').nums = _ ∧ dstN (update r a').nums = _
          rw [update_nums]
          cases hfs : fillsSrc r <;> cases hfd : fillsDst r
          · rcases fills_or r with hf | hf
            · rw [hfs] at hf; cases hf
            · rw [hfd] at hf; cases hf
          · simp only [hfd, if_true] at hd
            have hp := prevEnd_lt fillsDst l r hd
            rw [← i2] at hp
            have ⟨x1, x2⟩ := aggNums_dst_only r a'.nums hp
            rw [x1, x2, i1, i2, nodeExpected_record_nofill _ _ _ hfs, nodeExpected_record_fills _ _ _ hfd hd]
            exact ⟨rfl, rfl⟩
          · simp only [hfs, if_true] at hs
            have hp := prevEnd_lt fillsSrc l r hs
            rw [← i1] at hp
            have ⟨x1, x2⟩ := aggNums_src_only r a'.nums hp
            rw [x1, x2, i1, i2, nodeExpected_record_nofill _ _ _ hfd, nodeExpected_record_fills _ _ _ hfs hs]
            exact ⟨rfl, rfl⟩
          · simp only [hfs, hfd, if_true] at hs hd
            have heq : srcN a'.nums = dstN a'.nums := by rw [i1, i2]; exact single_stream l r hfs hfd hag
            have hp := prevEnd_lt fillsDst l r hd
            rw [← i2] at hp
            have ⟨x1, x2⟩ := aggNums_both r a'.nums heq hp
            rw [x1, x2, i1, i2, nodeExpected_record_fills _ _ _ hfs hs, nodeExpected_record_fills _ _ _ hfd hd]
            exact ⟨rfl, rfl⟩

/-- per-node fields: latest totals, sums of deltas since the last reset, latest end time, throughput -/
theorem node_fields (h : List Ev) (a : AggRec) (hc : contract h = true) (hm : modelAfter h = some a) :
    a.srcStats = (nodeExpected fillsSrc h).stats ∧ a.endSrc = (nodeExpected fillsSrc h).end_ ∧ a.thrSrc = (nodeExpected fillsSrc h).thr ∧
    a.dstStats = (nodeExpected fillsDst h).stats ∧ a.endDst = (nodeExpected fillsDst h).end_ ∧ a.thrDst = (nodeExpected fillsDst h).thr := by
  have ⟨i1, i2⟩ := node_inv h a hc hm
  rw [← i1, ← i2]
  exact ⟨rfl, rfl, rfl, rfl, rfl, rfl⟩

/-! ## The latest end time -/

def maxEnd (rs : List InRec) (m : Nat) : Nat := rs.foldl (fun m r => max m r.end_) m

theorem end_inv (h : List Ev) : ∀ a, modelAfter h = some a → a.end_ = maxEnd (allRecords h) 0 := by
  induction h using rev_ind with
  | nil => intro a hm; simp [modelAfter] at hm
  | snoc l e ih =>
    intro a hm
    by_cases hl : l = []
    · subst hl
      cases e with
      | reset => simp [modelAfter] at hm
      | record r =>
        have hm' : create r = a := by simpa [modelAfter] using hm
        subst hm'
        simp [create, allRecords, maxEnd]
    · rw [modelAfter_snoc _ _ hl] at hm
      cases hm' : modelAfter l with
      | none => simp [hm'] at hm
      | some a' =>
        simp only [hm', Option.map_some, Option.some.injEq] at hm
        subst hm
        cases e with
        | reset => rw [allRecords_reset, ← ih a' hm']; rfl
        | record r =>
          rw [allRecords_record]
          show (update r a').nums.end_ = _
          rw [update_nums, aggNums_end]
          simp only [maxEnd, List.foldl_append, List.foldl_cons, List.foldl_nil]
          rw [← maxEnd, ← ih a' hm']
          rfl

set_option linter.unusedVariables false in
/-- the aggregated record carries the latest end time (holds even without the contract) -/
theorem end_latest (h : List Ev) (a : AggRec) (hc : contract h = true) (hm : modelAfter h = some a) :
    a.end_ = (expected h).end_ := end_inv h a hm

/-! ## Leaders and the common fields -/

theorem leaders_snoc : ∀ (rs : List InRec) (m : Nat) (r : InRec),
    leaders (rs ++ [r]) m = leaders rs m ++ (if r.end_ ≥ maxEnd rs m then [r] else [])
  | [], m, r => by simp [leaders, maxEnd]
  | x :: t, m, r => by
    simp only [List.cons_append, leaders, maxEnd, List.foldl_cons]
    by_cases hx : x.end_ ≥ m
    · have : max m x.end_ = x.end_ := by omega
      simp only [hx, if_true, this, List.cons_append]
      rw [leaders_snoc t x.end_ r]; rfl
    · have : max m x.end_ = m := by omega
      simp only [hx, if_false, this]
      rw [leaders_snoc t m r]; rfl

theorem leaders_mem : ∀ (rs : List InRec) (m : Nat), ∀ l ∈ leaders rs m, l ∈ rs
  | [], _, l, hl => by simp [leaders] at hl
  | x :: t, m, l, hl => by
    simp only [leaders] at hl
    split at hl
    · rw [List.mem_cons] at hl ⊢
      rcases hl with hl | hl
      · exact Or.inl hl
      · exact Or.inr (leaders_mem t _ l hl)
    · exact List.mem_cons_of_mem _ (leaders_mem t _ l hl)

theorem maxEnd_snoc (rs : List InRec) (m : Nat) (r : InRec) : maxEnd (rs ++ [r]) m = max (maxEnd rs m) r.end_ := by
  simp [maxEnd, List.foldl_append]

/-- the last leader carries the running maximum -/
theorem leaders_last (rs : List InRec) :
    maxEnd rs 0 = ((leaders rs 0).getLast?.map (·.end_)).getD 0 := by
  induction rs using rev_ind with
  | nil => rfl
  | snoc l r ih =>
    rw [leaders_snoc, maxEnd_snoc]
    by_cases hr : r.end_ ≥ maxEnd l 0
    · simp only [hr, if_true, List.getLast?_append, List.getLast?_singleton, Option.some_or, Option.map_some,
        Option.getD_some]
      omega
    · simp only [hr, if_false, List.append_nil, ← ih]
      omega

def leaderNode (h : List Ev) : Option NodeExp :=
  (leaders (allRecords h) 0).getLast?.map fun l => if fillsDst l then nodeExpected fillsDst h else nodeExpected fillsSrc h

def commonOf (ln : Option NodeExp) (lead : List InRec) : List Nat :=
  (List.range nStats).map fun i =>
    if isDelta i then (match ln with | some n => n.stats.getD i 0 | none => 0)
    else lead.foldl (fun m r => max m (r.stats.getD i 0)) 0

def thrOfLn (ln : Option NodeExp) : List Nat := match ln with | some n => n.thr | none => [0, 0]

theorem expected_common (h : List Ev) : (expected h).common = commonOf (leaderNode h) (leaders (allRecords h) 0) := rfl
theorem expected_thr (h : List Ev) : (expected h).thr = thrOfLn (leaderNode h) := rfl

theorem leaderNode_reset (l : List Ev) : leaderNode (l ++ [.reset]) = (leaderNode l).map nodeReset := by
  unfold leaderNode
  rw [allRecords_reset, nodeExpected_reset, nodeExpected_reset]
  cases (leaders (allRecords l) 0).getLast? with
  | none => rfl
  | some x => simp only [Option.map_some]; split <;> rfl

theorem leaderNode_leader (l : List Ev) (r : InRec) (hr : r.end_ ≥ maxEnd (allRecords l) 0) :
    leaders (allRecords (l ++ [.record r])) 0 = leaders (allRecords l) 0 ++ [r] ∧
    leaderNode (l ++ [.record r]) = some (if fillsDst r then nodeExpected fillsDst (l ++ [.record r])
      else nodeExpected fillsSrc (l ++ [.record r])) := by
  unfold leaderNode
  rw [allRecords_record, leaders_snoc]
  simp [hr]

theorem leaderNode_nonleader (l : List Ev) (r : InRec) (hc : contract (l ++ [.record r]) = true)
    (hr : ¬ r.end_ ≥ maxEnd (allRecords l) 0) :
    leaders (allRecords (l ++ [.record r])) 0 = leaders (allRecords l) 0 ∧
    leaderNode (l ++ [.record r]) = leaderNode l := by
  have ⟨_, hs, hd, _⟩ := contract_record l r hc
  unfold leaderNode
  rw [allRecords_record, leaders_snoc]
  simp only [hr, if_false, List.append_nil, true_and]
  have hlast := leaders_last (allRecords l)
  cases hx : (leaders (allRecords l) 0).getLast? with
  | none => rfl
  | some x =>
    rw [hx] at hlast
    simp only [Option.map_some, Option.getD_some] at hlast ⊢
    have hxm : x ∈ allRecords l := leaders_mem _ _ x (List.mem_of_getLast? hx)
    have key : ∀ fills : InRec → Bool, fills x = true →
        contractNode (recordsOf fills l ++ (if fills r then [r] else [])) = true → fills r = false := by
      intro fills hfx hcn
      cases hfr : fills r with
      | false => rfl
      | true =>
        simp only [hfr, if_true] at hcn
        have := contractNode_snoc_lt _ r hcn x (by rw [recordsOf_eq_filter, List.mem_filter]; exact ⟨hxm, hfx⟩)
        omega
    cases hfx : fillsDst x with
    | true =>
      simp only [if_true]
      rw [nodeExpected_record_nofill _ _ _ (key fillsDst hfx hd)]
    | false =>
      have hfs : fillsSrc x = true := by
        rcases fills_or x with h | h
        · exact h
        · rw [hfx] at h; cases h
      simp only [Bool.false_eq_true, if_false]
      rw [nodeExpected_record_nofill _ _ _ (key fillsSrc hfs hs)]

theorem commonOf_length (ln : Option NodeExp) (lead : List InRec) : (commonOf ln lead).length = nStats := by
  simp [commonOf]

theorem commonOf_reset (ln : Option NodeExp) (lead : List InRec) :
    clr (commonOf ln lead) = commonOf (ln.map nodeReset) lead := by
  unfold clr
  rw [commonOf_length]
  unfold commonOf
  apply List.map_congr_left
  intro i hi
  rw [List.mem_range] at hi
  rw [getD_range_map]
  cases hd : isDelta i
  · simp [hi]
  · cases ln with
    | none => simp
    | some n => simp only [Option.map_some, nodeReset, clr_getD, hd, if_true]

theorem thrOfLn_reset (ln : Option NodeExp) : thrOfLn (ln.map nodeReset) = [0, 0] := by
  cases ln <;> rfl

theorem common_inv (h : List Ev) : ∀ a, contract h = true → modelAfter h = some a →
    a.stats = (expected h).common ∧ a.thr = (expected h).thr := by
  induction h using rev_ind with
  | nil => intro a _ hm; simp [modelAfter] at hm
  | snoc l e ih =>
    intro a hc hm
    have ⟨n1, n2⟩ := node_inv _ a hc hm
    rw [expected_common, expected_thr]
    by_cases hl : l = []
    · subst hl
      cases e with
      | reset => simp [modelAfter] at hm
      | record r =>
        have hm' : create r = a := by simpa [modelAfter] using hm
        subst hm'
        have hg := goodRec_of_contract [] r hc
        have ⟨ldr, ln⟩ := leaderNode_leader [] r (Nat.zero_le _)
        rw [ldr, ln, ← n1, ← n2]
        have ⟨c1, c2⟩ := create_nodes r hg
        rw [c1, c2, nodeStep_zero r hg]
        have hnode : ∀ X : NodeExp, (if fillsDst r = true then (if fillsDst r = true then X else nodeZero)
            else (if fillsSrc r = true then X else nodeZero)) = X := by
          intro X
          rcases fills_or r with hf | hf
          · cases hfd : fillsDst r <;> simp [hf]
          · simp [hf]
        rw [hnode]
        constructor
        · show r.stats = _
          unfold commonOf
          conv => lhs; rw [← range_map_getD r.stats, hg.2.1]
          apply List.map_congr_left
          intro i _
          simp [leaders, allRecords]
        · have h1 : r.end_ > r.start := hg.1
          simp [create, thrOfLn, h1]
    · rw [modelAfter_snoc _ _ hl] at hm
      cases hm' : modelAfter l with
      | none => simp [hm'] at hm
      | some a' =>
        simp only [hm', Option.map_some, Option.some.injEq] at hm
        subst hm
        cases e with
        | reset =>
          rw [contract_reset] at hc
          have ⟨i1, i2⟩ := ih a' hc hm'
          rw [expected_common] at i1
          rw [expected_thr] at i2
          rw [leaderNode_reset, allRecords_reset, ← commonOf_reset, thrOfLn_reset, ← i1]
          exact ⟨rfl, rfl⟩
        | record r =>
          have hg := goodRec_of_contract l r hc
          have ⟨hc', hs, hd, hag⟩ := contract_record l r hc
          have ⟨i1, i2⟩ := ih a' hc' hm'
          rw [expected_common] at i1
          rw [expected_thr] at i2
          have ⟨m1, m2⟩ := node_inv _ a' hc' hm'
          have hend : a'.nums.end_ = maxEnd (allRecords l) 0 := end_inv l a' hm'
          have hp : prevEndOf r (if fillsDst r = true then dstN a'.nums else srcN a'.nums) < r.end_ := by
            cases hfd : fillsDst r with
            | true =>
              simp only [hfd, if_true] at hd ⊢
              rw [m2]; exact prevEnd_lt fillsDst l r hd
            | false =>
              have hfs : fillsSrc r = true := by
                rcases fills_or r with h | h
                · exact h
                · rw [hfd] at h; cases h
              simp only [hfs, if_true] at hs
              simp only [Bool.false_eq_true, if_false]
              rw [m1]; exact prevEnd_lt fillsSrc l r hs
          have ⟨k1, k2⟩ := aggNums_common r a'.nums (fillsSrc r) (fillsDst r) hp (fills_or r)
          change srcN (update r a').nums = _ at n1
          change dstN (update r a').nums = _ at n2
          show (update r a').nums.stats = _ ∧ (update r a').nums.thr = _
          rw [update_nums] at n1 n2 ⊢
          rw [k1, k2, n1, n2, hend]
          have hst : a'.nums.stats = a'.stats := rfl
          have hth : a'.nums.thr = a'.thr := rfl
          rw [hst, hth, hg.2.1]
          by_cases hr : r.end_ ≥ maxEnd (allRecords l) 0
          · have ⟨ldr, ln⟩ := leaderNode_leader l r hr
            rw [ldr, ln]
            simp only [hr, if_true]
            refine ⟨?_, rfl⟩
            unfold commonOf
            apply List.map_congr_left
            intro i hi
            rw [List.mem_range] at hi
            cases hdl : isDelta i
            · simp only [Bool.false_eq_true, if_false, List.foldl_append, List.foldl_cons, List.foldl_nil]
              rw [i1]
              unfold commonOf
              rw [getD_range_map]
              simp [hi, hdl]
            · simp
          · have ⟨ldr, ln⟩ := leaderNode_nonleader l r hc hr
            rw [ldr, ln]
            simp only [hr, if_false]
            refine ⟨?_, i2⟩
            rw [← i1]
            have : nStats = a'.stats.length := by rw [i1, commonOf_length]
            rw [this]
            exact range_map_getD _

/-- the common fields follow the node that reported the latest end time -/
theorem common_fields (h : List Ev) (a : AggRec) (hc : contract h = true) (hm : modelAfter h = some a) :
    a.stats = (expected h).common ∧ a.thr = (expected h).thr := common_inv h a hc hm

end Ipfix.C05
