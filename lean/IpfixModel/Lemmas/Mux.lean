/-
  Lemmas for C12: invariants of the multiplexer model (Model/Mux.lean) under EVERY schedule, and the
  bridge from the executable predicates of Spec/C12 to their propositional meaning.
-/
import IpfixModel.Spec.C12
namespace Ipfix.Mux

/-! ## association lists and projections -/

theorem getL_setL_eq (l : List (ConnId × List Msg)) (c : ConnId) (v : List Msg) : getL (setL l c v) c = v := by
  induction l with
  | nil => simp [setL, getL]
  | cons hd t ih =>
    obtain ⟨k, x⟩ := hd
    by_cases hk : k = c
    · simp [setL, getL, hk]
    · simp [setL, getL, hk, ih]

theorem getL_setL_ne (l : List (ConnId × List Msg)) (c d : ConnId) (v : List Msg) (h : d ≠ c) :
    getL (setL l c v) d = getL l d := by
  induction l with
  | nil => simp [setL, getL, Ne.symm h]
  | cons hd t ih =>
    obtain ⟨k, x⟩ := hd
    by_cases hk : k = c
    · subst hk
      simp [setL, getL, Ne.symm h]
    · by_cases hd' : k = d
      · subst hd'
        simp [setL, getL, hk]
      · simp [setL, getL, hk, hd', ih]

theorem getL_ne_nil_mem {l : List (ConnId × List Msg)} {c : ConnId} (h : getL l c ≠ []) : c ∈ l.map (·.1) := by
  induction l with
  | nil => simp [getL] at h
  | cons hd t ih =>
    obtain ⟨k, x⟩ := hd
    by_cases hk : k = c
    · simp [hk]
    · simp [getL, hk] at h
      simp [ih h]

theorem proj_append_same (l : List (ConnId × Msg)) (c : ConnId) (m : Msg) : proj (l ++ [(c, m)]) c = proj l c ++ [m] := by
  simp [proj, List.filter_append]

theorem proj_append_other (l : List (ConnId × Msg)) (c d : ConnId) (m : Msg) (h : d ≠ c) :
    proj (l ++ [(c, m)]) d = proj l d := by
  have : (c == d) = false := by simpa using Ne.symm h
  simp [proj, List.filter_append, this]

theorem proj_nil (c : ConnId) : proj [] c = [] := rfl

theorem mem_proj {log : List (ConnId × Msg)} {c : ConnId} {m : Msg} : m ∈ proj log c ↔ (c, m) ∈ log := by
  simp only [proj, List.mem_map, List.mem_filter]
  constructor
  · rintro ⟨⟨k, x⟩, ⟨hm, hk⟩, rfl⟩
    have : k = c := by simpa using hk
    subst this; exact hm
  · intro h; exact ⟨(c, m), ⟨h, by simp⟩, rfl⟩

/-! ## the steps -/

theorem step_stopped (udp : Bool) (s : State) (ch : Choice) (h : s.stopped = true) : step udp s ch = s := by
  simp [step, h]

theorem run_stopped (udp : Bool) (s : State) (sched : List Choice) (h : s.stopped = true) : run udp s sched = s := by
  induction sched with
  | nil => rfl
  | cons ch r ih => simp only [run, List.foldl_cons, step_stopped udp s ch h]; exact ih

theorem run_cons (udp : Bool) (s : State) (ch : Choice) (r : List Choice) : run udp s (ch :: r) = run udp (step udp s ch) r := rfl

theorem run_append (udp : Bool) (s : State) (a b : List Choice) : run udp s (a ++ b) = run udp (run udp s a) b := by
  simp [run, List.foldl_append]

/-- the line of a connection: what was delivered, then what its reader holds, then what is still unread -/
def line (s : State) (c : ConnId) : List Msg := deliveredOf s c ++ getL s.hand c ++ getL s.pending c

/-- a step never changes a connection's line, except that over UDP a `drop` removes one pending message -/
theorem step_line (udp : Bool) (s : State) (ch : Choice) (c : ConnId) :
    (line (step udp s ch) c).Sublist (line s c) ∧ (udp = false → line (step udp s ch) c = line s c) := by
  have refl : (line s c).Sublist (line s c) ∧ (udp = false → line s c = line s c) := ⟨List.Sublist.refl _, fun _ => rfl⟩
  unfold step
  split
  · exact refl
  · cases ch with
    | accept c' =>
      dsimp only
      split
      · exact refl
      · exact refl
    | read c' =>
      dsimp only
      split
      next hg =>
        split
        next m rest hp =>
          have e : line { s with pending := setL s.pending c' rest, hand := setL s.hand c' [m],
                                 accepted := s.accepted ++ [(c', m)] } c = line s c := by
            by_cases hc : c = c'
            · subst hc
              simp [line, deliveredOf, getL_setL_eq, hg.2, hp]
            · simp [line, deliveredOf, getL_setL_ne _ _ _ _ hc]
          rw [e]; exact refl
        next => exact refl
      next => exact refl
    | push c' =>
      dsimp only
      split
      next m rest hh =>
        have e : line { s with hand := setL s.hand c' rest, delivered := s.delivered ++ [(c', m)] } c = line s c := by
          by_cases hc : c = c'
          · subst hc
            simp [line, deliveredOf, getL_setL_eq, hh, proj_append_same]
          · simp [line, deliveredOf, getL_setL_ne _ _ _ _ hc, proj_append_other _ _ _ _ hc]
        rw [e]; exact refl
      next => exact refl
    | drop c' =>
      dsimp only
      split
      next hu =>
        split
        next x rest hp =>
          constructor
          · by_cases hc : c = c'
            · subst hc
              simp only [line, deliveredOf, getL_setL_eq, hp]
              exact List.Sublist.append_left (List.Sublist.cons _ (List.Sublist.refl _)) _
            · simp only [line, deliveredOf, getL_setL_ne _ _ _ _ hc]
              exact List.Sublist.refl _
          · intro h; rw [h] at hu; exact absurd hu (by decide)
        next => exact refl
      next => exact refl
    | close c' =>
      dsimp only
      split
      · exact refl
      · exact refl
    | stop =>
      dsimp only
      split
      · exact refl
      · exact refl

theorem run_line_tcp (s : State) (sched : List Choice) (c : ConnId) : line (run false s sched) c = line s c := by
  induction sched generalizing s with
  | nil => rfl
  | cons ch r ih => rw [run_cons, ih, (step_line false s ch c).2 rfl]

theorem run_line_sublist (udp : Bool) (s : State) (sched : List Choice) (c : ConnId) :
    (line (run udp s sched) c).Sublist (line s c) := by
  induction sched generalizing s with
  | nil => exact List.Sublist.refl _
  | cons ch r ih => rw [run_cons]; exact (ih _).trans (step_line udp s ch c).1

theorem line_init (conns : List (ConnId × List Msg)) (c : ConnId) : line (init conns) c = getL conns c := by
  simp [line, init, deliveredOf, proj_nil, getL]

/-! ## accepted = delivered ++ in hand; at most one message in hand -/

def AccInv (s : State) : Prop :=
  ∀ c, acceptedOf s c = deliveredOf s c ++ getL s.hand c ∧ (getL s.hand c).length ≤ 1

theorem step_accInv (udp : Bool) (s : State) (ch : Choice) (h : AccInv s) : AccInv (step udp s ch) := by
  unfold step
  split
  · exact h
  · cases ch with
    | accept c' => dsimp only; split <;> exact h
    | read c' =>
      dsimp only
      split
      next hg =>
        split
        next m rest hp =>
          intro c
          by_cases hc : c = c'
          · subst hc
            have := h c
            simp [acceptedOf, deliveredOf, getL_setL_eq, proj_append_same, hg.2] at this ⊢
            exact this
          · have := h c
            simpa [acceptedOf, deliveredOf, getL_setL_ne _ _ _ _ hc, proj_append_other _ _ _ _ hc] using this
        next => exact h
      next => exact h
    | push c' =>
      dsimp only
      split
      next m rest hh =>
        intro c
        by_cases hc : c = c'
        · subst hc
          obtain ⟨h1, h2⟩ := h c
          rw [hh] at h1 h2
          have hr : rest = [] := by
            cases rest with
            | nil => rfl
            | cons a b => simp at h2
          subst hr
          simp [acceptedOf, deliveredOf, getL_setL_eq, proj_append_same] at h1 ⊢
          exact h1
        · have := h c
          simpa [acceptedOf, deliveredOf, getL_setL_ne _ _ _ _ hc, proj_append_other _ _ _ _ hc] using this
      next => exact h
    | drop c' =>
      dsimp only
      split
      · split
        · intro c; exact h c
        · exact h
      · exact h
    | close c' => dsimp only; split <;> exact h
    | stop => dsimp only; split <;> exact h

theorem run_accInv (udp : Bool) (s : State) (sched : List Choice) (h : AccInv s) : AccInv (run udp s sched) := by
  induction sched generalizing s with
  | nil => exact h
  | cons ch r ih => rw [run_cons]; exact ih _ (step_accInv udp s ch h)

theorem accInv_init (conns : List (ConnId × List Msg)) : AccInv (init conns) := by
  intro c; simp [acceptedOf, deliveredOf, init, proj_nil, getL]

/-! ## the client map -/

/-- `live` is exactly the set of handlers that have started and not finished -/
def LiveInv (s : State) : Prop :=
  s.live.Nodup ∧ (∀ c, c ∈ s.live ↔ (c ∈ s.started ∧ c ∉ s.done)) ∧ (∀ c, c ∈ s.done → c ∈ s.started)

theorem step_liveInv (udp : Bool) (s : State) (ch : Choice) (h : LiveInv s) : LiveInv (step udp s ch) := by
  obtain ⟨hn, hiff, hsub⟩ := h
  unfold step
  split
  · exact ⟨hn, hiff, hsub⟩
  · cases ch with
    | accept c' =>
      dsimp only
      split
      · exact ⟨hn, hiff, hsub⟩
      next hns =>
        have hnl : c' ∉ s.live := fun hl => hns ((hiff c').1 hl).1
        have hnd : c' ∉ s.done := fun hd => hns (hsub c' hd)
        refine ⟨List.nodup_cons.2 ⟨hnl, hn⟩, ?_, ?_⟩
        · intro c
          simp only [List.mem_cons]
          constructor
          · rintro (rfl | hl)
            · exact ⟨Or.inl rfl, hnd⟩
            · exact ⟨Or.inr ((hiff c).1 hl).1, ((hiff c).1 hl).2⟩
          · rintro ⟨rfl | hs, hd⟩
            · exact Or.inl rfl
            · exact Or.inr ((hiff c).2 ⟨hs, hd⟩)
        · intro c hd; exact List.mem_cons_of_mem _ (hsub c hd)
    | read c' =>
      dsimp only
      split
      · split
        · exact ⟨hn, hiff, hsub⟩
        · exact ⟨hn, hiff, hsub⟩
      · exact ⟨hn, hiff, hsub⟩
    | push c' =>
      dsimp only
      split
      · exact ⟨hn, hiff, hsub⟩
      · exact ⟨hn, hiff, hsub⟩
    | drop c' =>
      dsimp only
      split
      · split
        · exact ⟨hn, hiff, hsub⟩
        · exact ⟨hn, hiff, hsub⟩
      · exact ⟨hn, hiff, hsub⟩
    | close c' =>
      dsimp only
      split
      next hg =>
        refine ⟨hn.erase _, ?_, ?_⟩
        · intro c
          rw [hn.mem_erase_iff, hiff c]
          simp only [List.mem_cons]
          constructor
          · rintro ⟨hne, hs, hd⟩
            exact ⟨hs, fun h => h.elim hne hd⟩
          · rintro ⟨hs, hd⟩
            exact ⟨fun h => hd (Or.inl h), hs, fun h => hd (Or.inr h)⟩
        · intro c hd
          rcases List.mem_cons.1 hd with rfl | hd
          · exact ((hiff _).1 hg.1).1
          · exact hsub c hd
      · exact ⟨hn, hiff, hsub⟩
    | stop =>
      dsimp only
      split
      · refine ⟨List.nodup_nil, ?_, ?_⟩
        · intro c
          constructor
          · intro h; exact absurd h List.not_mem_nil
          · rintro ⟨hs, hnd⟩
            have hl : c ∉ s.live := fun hl => hnd (List.mem_append_left _ hl)
            have hd : c ∉ s.done := fun hd => hnd (List.mem_append_right _ hd)
            exact absurd ((hiff c).2 ⟨hs, hd⟩) hl
        · intro c hd
          rcases List.mem_append.1 hd with hl | hd
          · exact ((hiff c).1 hl).1
          · exact hsub c hd
      · exact ⟨hn, hiff, hsub⟩

theorem run_liveInv (udp : Bool) (s : State) (sched : List Choice) (h : LiveInv s) : LiveInv (run udp s sched) := by
  induction sched generalizing s with
  | nil => exact h
  | cons ch r ih => rw [run_cons]; exact ih _ (step_liveInv udp s ch h)

theorem liveInv_init (conns : List (ConnId × List Msg)) : LiveInv (init conns) := by
  refine ⟨List.nodup_nil, ?_, ?_⟩ <;> simp [init]

/-! ## Stop -/

theorem allEmpty_getL {l : List (ConnId × List Msg)} (h : l.all (fun p => p.2.isEmpty) = true) (c : ConnId) :
    getL l c = [] := by
  induction l with
  | nil => rfl
  | cons hd t ih =>
    obtain ⟨k, x⟩ := hd
    simp only [List.all_cons, Bool.and_eq_true] at h
    by_cases hk : k = c
    · simpa [getL, hk] using h.1
    · simpa [getL, hk] using ih h.2

theorem handsEmpty_getL {s : State} (h : handsEmpty s = true) (c : ConnId) : getL s.hand c = [] :=
  allEmpty_getL h c

/-- once `Stop()` has returned no reader holds a message, no handler is registered -/
def StopInv (s : State) : Prop := s.stopped = true → (∀ c, getL s.hand c = []) ∧ s.live = []

theorem step_stopInv (udp : Bool) (s : State) (ch : Choice) (h : StopInv s) : StopInv (step udp s ch) := by
  by_cases hs : s.stopped = true
  · rw [step_stopped udp s ch hs]; exact h
  · have hs' : s.stopped = false := by simpa using hs
    unfold step
    simp only [hs', Bool.false_eq_true, if_false]
    cases ch with
    | accept c' => dsimp only; split <;> (intro h'; simp_all)
    | read c' =>
      dsimp only
      split
      · split <;> (intro h'; simp_all)
      · intro h'; simp_all
    | push c' => dsimp only; split <;> (intro h'; simp_all)
    | drop c' =>
      dsimp only
      split
      · split <;> (intro h'; simp_all)
      · intro h'; simp_all
    | close c' => dsimp only; split <;> (intro h'; simp_all)
    | stop =>
      dsimp only
      split
      next he => intro _; exact ⟨fun c => handsEmpty_getL he c, rfl⟩
      next => intro h'; simp_all

theorem run_stopInv (udp : Bool) (s : State) (sched : List Choice) (h : StopInv s) : StopInv (run udp s sched) := by
  induction sched generalizing s with
  | nil => exact h
  | cons ch r ih => rw [run_cons]; exact ih _ (step_stopInv udp s ch h)

theorem stopInv_init (conns : List (ConnId × List Msg)) : StopInv (init conns) := by
  intro h; simp [init] at h

/-! ## the consumer's view is a trace: `replay` -/

open Ipfix.C12 in
theorem replay_append (q : List (ConnId × List Msg)) (d : List (ConnId × Msg)) (c : ConnId) (m : Msg) :
    replay q (d ++ [(c, m)]) = (replay q d).bind (fun q' => replay q' [(c, m)]) := by
  induction d generalizing q with
  | nil => simp [replay]
  | cons hd t ih =>
    obtain ⟨k, x⟩ := hd
    simp only [List.cons_append, replay]
    split
    · split
      · exact ih _
      · rfl
    · rfl

/-- the queues left after replaying the delivered list are the lines minus what was delivered -/
def ReplayInv (conns : List (ConnId × List Msg)) (s : State) : Prop :=
  ∃ q, C12.replay conns s.delivered = some q ∧ ∀ c, getL q c = getL s.hand c ++ getL s.pending c

open Ipfix.C12 in
theorem step_replayInv (conns : List (ConnId × List Msg)) (s : State) (ch : Choice) (h : ReplayInv conns s) :
    ReplayInv conns (step false s ch) := by
  obtain ⟨q, hq, hl⟩ := h
  unfold step
  split
  · exact ⟨q, hq, hl⟩
  · cases ch with
    | accept c' => dsimp only; split <;> exact ⟨q, hq, hl⟩
    | read c' =>
      dsimp only
      split
      next hg =>
        split
        next m rest hp =>
          refine ⟨q, hq, ?_⟩
          intro c
          by_cases hc : c = c'
          · subst hc; simp [getL_setL_eq, hl c, hg.2, hp]
          · simp [getL_setL_ne _ _ _ _ hc, hl c]
        next => exact ⟨q, hq, hl⟩
      next => exact ⟨q, hq, hl⟩
    | push c' =>
      dsimp only
      split
      next m rest hh =>
        refine ⟨setL q c' (rest ++ getL s.pending c'), ?_, ?_⟩
        · rw [replay_append, hq]
          have : getL q c' = m :: (rest ++ getL s.pending c') := by rw [hl c', hh]; rfl
          simp [replay, this]
        · intro c
          by_cases hc : c = c'
          · subst hc; simp [getL_setL_eq]
          · simp [getL_setL_ne _ _ _ _ hc, hl c]
      next => exact ⟨q, hq, hl⟩
    | drop c' => exact ⟨q, hq, hl⟩
    | close c' => dsimp only; split <;> exact ⟨q, hq, hl⟩
    | stop => dsimp only; split <;> exact ⟨q, hq, hl⟩

theorem run_replayInv (conns : List (ConnId × List Msg)) (s : State) (sched : List Choice) (h : ReplayInv conns s) :
    ReplayInv conns (run false s sched) := by
  induction sched generalizing s with
  | nil => exact h
  | cons ch r ih => rw [run_cons]; exact ih _ (step_replayInv conns s ch h)

theorem replayInv_init (conns : List (ConnId × List Msg)) : ReplayInv conns (init conns) :=
  ⟨conns, rfl, fun c => by simp [init, getL]⟩

/-! ## executable predicates and their meaning -/

open Ipfix.C12

theorem nodupB_iff (l : List Msg) : nodupB l = true ↔ l.Nodup := by
  induction l with
  | nil => simp [nodupB]
  | cons x r ih => simp [nodupB, ih, List.nodup_cons]

theorem connOK_exact {sent got : List Msg} : connOK .exact sent got = true ↔ got = sent := by
  simp [connOK]

theorem connOK_pref {sent got : List Msg} : connOK .pref sent got = true ↔ got <+: sent := by
  simp [connOK]

theorem connOK_subseq {sent got : List Msg} : connOK .subseq sent got = true ↔ got.Sublist sent ∧ got.Nodup := by
  simp [connOK, nodupB_iff]

/-- what `isPerConnFIFO` says, in propositions -/
theorem isPerConnFIFO_iff (mode : Mode) (acc : List (ConnId × List Msg)) (del : List (ConnId × Msg)) :
    isPerConnFIFO mode acc del = true ↔
      (∀ p ∈ del, p.1 ∈ keys acc) ∧ (∀ c ∈ keys acc, connOK mode (getL acc c) (proj del c) = true) := by
  simp [isPerConnFIFO]

/-- a delivered message of connection `c` whose projection is tied to `getL acc c` comes from a known connection -/
theorem delivered_conn_known {acc : List (ConnId × List Msg)} {del : List (ConnId × Msg)}
    (h : ∀ c, (proj del c).Sublist (getL acc c)) : ∀ p ∈ del, p.1 ∈ keys acc := by
  intro p hp
  obtain ⟨c, m⟩ := p
  have hm : m ∈ proj del c := mem_proj.2 hp
  have : getL acc c ≠ [] := by
    intro he
    have := (h c).subset hm
    rw [he] at this; exact absurd this (List.not_mem_nil)
  exact getL_ne_nil_mem this

/-- the four facts that make `fifoWhyOn` answer `none` -/
theorem fifoWhyOn_none {mode : Mode} {sent : List (ConnId × List Msg)} {del : List (ConnId × Msg)}
    (hsub : ∀ c, (proj del c).Sublist (getL sent c)) (hnd : ∀ c, (getL sent c).Nodup)
    (hfifo : isPerConnFIFO mode sent del = true) (htrace : mode ≠ .subseq → (replay sent del).isSome = true) :
    fifoWhyOn mode sent del = none := by
  have h1 : del.all (fun p => (keys sent).contains p.1 && (getL sent p.1).contains p.2) = true := by
    simp only [List.all_eq_true, Bool.and_eq_true, List.contains_iff_mem]
    intro p hp
    refine ⟨delivered_conn_known hsub p hp, ?_⟩
    obtain ⟨c, m⟩ := p
    exact (hsub c).subset (mem_proj.2 hp)
  have h2 : (keys sent).all (fun c => nodupB (proj del c)) = true := by
    simp only [List.all_eq_true]
    intro c _
    exact (nodupB_iff _).2 ((hnd c).sublist (hsub c))
  have h3 : (keys sent).all (fun c => (proj del c).isSublist (getL sent c)) = true := by
    simp only [List.all_eq_true]
    intro c _
    exact List.isSublist_iff_sublist.2 (hsub c)
  unfold fifoWhyOn
  simp only [h1, h2, h3, hfifo, Bool.not_true, Bool.false_eq_true, if_false]
  by_cases hm : mode = .subseq
  · subst hm; simp
  · have := htrace hm
    cases hr : replay sent del with
    | none => rw [hr] at this; simp at this
    | some q => simp

/-- the sent lists of a scenario are `List.range`s: duplicate-free -/
theorem getL_mem_or_nil (l : List (ConnId × List Msg)) (c : ConnId) : getL l c = [] ∨ (c, getL l c) ∈ l := by
  induction l with
  | nil => exact Or.inl rfl
  | cons hd t ih =>
    obtain ⟨k, x⟩ := hd
    by_cases hk : k = c
    · subst hk; simp [getL]
    · rcases ih with h | h
      · simp [getL, hk, h]
      · right; simp only [getL, hk, if_false]; exact List.mem_cons_of_mem _ h

theorem scenario_sent_nodup (sc : Scenario) (c : ConnId) : (getL sc.sent c).Nodup := by
  rcases getL_mem_or_nil sc.sent c with h | h
  · rw [h]; exact List.nodup_nil
  · generalize getL sc.sent c = v at h ⊢
    unfold Scenario.sent at h
    simp only [List.mem_map] at h
    obtain ⟨⟨i, cl⟩, _, he⟩ := h
    have : v = List.range cl.n := by simpa using (congrArg Prod.snd he).symm
    rw [this]; exact List.nodup_range

end Ipfix.Mux
