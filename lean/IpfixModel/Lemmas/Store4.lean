import IpfixModel.Lemmas.Collector
import IpfixModel.Spec.C04
namespace Ipfix

/-! lookup / insert / erase on the template store behave like a finite map -/

theorem CState.lookup_erase_same (s : CState) (k : TKey) : (s.erase k).lookup k = none := by
  unfold CState.lookup CState.erase
  simp

theorem CState.lookup_erase_other (s : CState) (k k' : TKey) (h : k' ≠ k) :
    (s.erase k).lookup k' = s.lookup k' := by
  unfold CState.lookup CState.erase
  simp only
  congr 1
  induction s.templates with
  | nil => rfl
  | cons p t ih =>
    by_cases hp : p.1 = k
    · have : (p.1 != k) = false := by simp [hp]
      have hne : (p.1 == k') = false := by simp [hp]; exact fun h' => h h'.symm
      simp [List.filter, this, List.find?, hne, ih]
    · have : (p.1 != k) = true := by simp [hp]
      simp only [List.filter, this, List.find?]
      split <;> simp_all

theorem CState.lookup_insert_same (s : CState) (k : TKey) (t : Template) : (s.insert k t).lookup k = some t := by
  simp [CState.lookup, CState.insert]

theorem CState.lookup_insert_other (s : CState) (k k' : TKey) (t : Template) (h : k' ≠ k) :
    (s.insert k t).lookup k' = s.lookup k' := by
  have : ((k == k') = false) := by simp; exact fun h' => h h'.symm
  rw [← CState.lookup_erase_other s k k' h]
  simp [CState.lookup, CState.insert, this]

end Ipfix
