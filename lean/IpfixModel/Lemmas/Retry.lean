/-
  Retry / drop bookkeeping of the expiry scan (IpfixModel/Model/Agg.lean, the branch of `scanLoop`
  for a due item whose flow is not `ready`): helper lemmas for Props/C07.lean.
  * what `State.set` / `State.del` / `ingest` do to `State.find`;
  * `Bnd` (every held flow has `retries ≤ MaxRetries`) is preserved by every operation;
  * the scan loop leaves a flow alone whose item is not in the queue (`scanLoop_frame`);
  * the scan loop, if it is not aborted, retries or drops an unready flow whose item is due
    (`scanLoop_retry`).
-/
import IpfixModel.Lemmas.Sched
namespace Ipfix.Agg

/-! ## `find` after `set` / `del` / `ingest` -/

theorem find_with_pq (s : State) (q : Array Item) (k : Nat) : ({ s with pq := q }).find k = s.find k := rfl
theorem find_with_now (s : State) (n : Nat) (k : Nat) : ({ s with now := n }).find k = s.find k := rfl

theorem list_find_replace (l : List (Nat × AggRec)) (k : Nat) (a : AggRec) (h : l.any (·.1 == k) = true) :
    (l.map fun p => if p.1 == k then (k, a) else p).find? (·.1 == k) = some (k, a) := by
  induction l with
  | nil => simp at h
  | cons p l ih =>
    by_cases hp : p.1 = k
    · simp [hp]
    · have hp' : (p.1 == k) = false := by simpa using hp
      simp only [List.any_cons, hp', Bool.false_or] at h
      simp only [List.map_cons, hp', Bool.false_eq_true, if_false]
      rw [List.find?_cons_of_neg (by simpa using hp)]
      exact ih h

theorem list_find_replace_ne (l : List (Nat × AggRec)) (k k' : Nat) (a : AggRec) (hne : k' ≠ k) :
    (l.map fun p => if p.1 == k then (k, a) else p).find? (·.1 == k') = l.find? (·.1 == k') := by
  induction l with
  | nil => rfl
  | cons p l ih =>
    by_cases hp : p.1 = k
    · have h1 : ¬ (k = k') := fun e => hne e.symm
      have h2 : ¬ (p.1 = k') := fun e => hne (e.symm.trans hp)
      simp only [List.map_cons, hp, beq_self_eq_true, if_true]
      rw [List.find?_cons_of_neg (by simpa using h1), List.find?_cons_of_neg (by simpa using hp ▸ h2)]
      simpa [hp] using ih
    · have hp' : (p.1 == k) = false := by simpa using hp
      simp only [List.map_cons, hp', Bool.false_eq_true, if_false]
      by_cases hq : p.1 = k'
      · rw [List.find?_cons_of_pos (by simpa using hq), List.find?_cons_of_pos (by simpa using hq)]
      · rw [List.find?_cons_of_neg (by simpa using hq), List.find?_cons_of_neg (by simpa using hq)]
        exact ih

theorem find_set_self (s : State) (k : Nat) (a : AggRec) : (s.set k a).find k = some a := by
  unfold State.set
  by_cases h : s.flows.any (·.1 == k) = true
  · rw [if_pos h]
    unfold State.find
    show Option.map (·.2) ((s.flows.map fun p => if p.1 == k then (k, a) else p).find? (·.1 == k)) = _
    rw [list_find_replace _ _ _ h]; rfl
  · rw [if_neg h]
    unfold State.find
    show Option.map (·.2) ((s.flows ++ [(k, a)]).find? (·.1 == k)) = _
    have hn : s.flows.find? (·.1 == k) = none := by
      rw [List.find?_eq_none]
      intro x hx hxk
      exact h (List.any_eq_true.mpr ⟨x, hx, hxk⟩)
    rw [List.find?_append, hn]
    simp

theorem find_set_ne (s : State) (k k' : Nat) (a : AggRec) (hne : k' ≠ k) :
    (s.set k a).find k' = s.find k' := by
  unfold State.set
  by_cases h : s.flows.any (·.1 == k) = true
  · rw [if_pos h]
    unfold State.find
    show Option.map (·.2) ((s.flows.map fun p => if p.1 == k then (k, a) else p).find? (·.1 == k')) = _
    rw [list_find_replace_ne _ _ _ _ hne]
  · rw [if_neg h]
    unfold State.find
    show Option.map (·.2) ((s.flows ++ [(k, a)]).find? (·.1 == k')) = _
    rw [List.find?_append]
    cases hf : s.flows.find? (·.1 == k') with
    | some x => rfl
    | none =>
      have : ¬ (k = k') := fun e => hne e.symm
      simp [this]

theorem find_del_self (s : State) (k : Nat) : (s.del k).find k = none := by
  rw [find_eq_none_iff, del_keys]
  simp

theorem find_del_ne (s : State) (k k' : Nat) (hne : k' ≠ k) : (s.del k).find k' = s.find k' := by
  unfold State.del State.find
  show Option.map (·.2) ((s.flows.filter (·.1 != k)).find? (·.1 == k')) = _
  congr 1
  induction s.flows with
  | nil => rfl
  | cons p l ih =>
    by_cases hp : p.1 = k
    · have h2 : ¬ (p.1 = k') := fun e => hne (e.symm.trans hp)
      rw [List.filter_cons_of_neg (by simpa using hp), List.find?_cons_of_neg (by simpa using h2)]
      exact ih
    · rw [List.filter_cons_of_pos (by simpa using hp)]
      by_cases hq : p.1 = k'
      · rw [List.find?_cons_of_pos (by simpa using hq), List.find?_cons_of_pos (by simpa using hq)]
      · rw [List.find?_cons_of_neg (by simpa using hq), List.find?_cons_of_neg (by simpa using hq)]
        exact ih

theorem find_ite_set_ne (c : Bool) (s : State) (k k' : Nat) (a : AggRec) (hne : k' ≠ k) :
    (if c = true then s.set k a else s).find k' = s.find k' := by
  split
  · exact find_set_ne s k k' a hne
  · rfl

/-- a held flow is an entry of the flow list -/
theorem find_some_entry {s : State} {k : Nat} {a : AggRec} (h : s.find k = some a) : (k, a) ∈ s.flows := by
  unfold State.find at h
  cases hf : s.flows.find? (·.1 == k) with
  | none => rw [hf] at h; cases h
  | some p =>
    rw [hf] at h
    have hm := List.mem_of_find?_eq_some hf
    have hk := List.find?_some hf
    have hk' : p.1 = k := by simpa using hk
    have ha : p.2 = a := by simpa using h
    rw [← hk', ← ha]
    exact hm

/-- an arrival for another flow leaves flow `k` alone -/
theorem ingest_find_ne (s : State) (r : InRec) (k : Nat) (hne : k ≠ r.key) : (ingest s r).find k = s.find k := by
  cases hf : s.find r.key with
  | none =>
    rw [ingest_new_eq s r hf, find_with_pq]
    exact find_set_ne s _ _ _ hne
  | some a =>
    cases hi : s.pq.toList.findIdx? (·.key == r.key) with
    | none => rw [ingest_upd_none_eq s r a hf hi]; exact find_set_ne s _ _ _ hne
    | some i =>
      rw [ingest_upd_eq s r a i hf hi, find_with_pq]
      exact find_set_ne s _ _ _ hne

theorem ingest_now (s : State) (r : InRec) : (ingest s r).now = s.now := by
  cases hf : s.find r.key with
  | none => rw [ingest_new_eq s r hf]; exact set_now _ _ _
  | some a =>
    cases hi : s.pq.toList.findIdx? (·.key == r.key) with
    | none => rw [ingest_upd_none_eq s r a hf hi]; exact set_now _ _ _
    | some i => rw [ingest_upd_eq s r a i hf hi]; exact set_now _ _ _

theorem ingest_activeT (s : State) (r : InRec) : (ingest s r).activeT = s.activeT := by
  cases hf : s.find r.key with
  | none => rw [ingest_new_eq s r hf]; exact set_activeT _ _ _
  | some a =>
    cases hi : s.pq.toList.findIdx? (·.key == r.key) with
    | none => rw [ingest_upd_none_eq s r a hf hi]; exact set_activeT _ _ _
    | some i => rw [ingest_upd_eq s r a i hf hi]; exact set_activeT _ _ _

theorem ingest_inactiveT (s : State) (r : InRec) : (ingest s r).inactiveT = s.inactiveT := by
  cases hf : s.find r.key with
  | none => rw [ingest_new_eq s r hf]; exact set_inactiveT _ _ _
  | some a =>
    cases hi : s.pq.toList.findIdx? (·.key == r.key) with
    | none => rw [ingest_upd_none_eq s r a hf hi]; exact set_inactiveT _ _ _
    | some i => rw [ingest_upd_eq s r a i hf hi]; exact set_inactiveT _ _ _

/-! ## the retry counter never exceeds MaxRetries -/

/-- every held flow has been retried at most MaxRetries times -/
def Bnd (s : State) : Prop := ∀ p ∈ s.flows, p.2.retries ≤ Generated.cMaxRetries

theorem bnd_init (a i : Nat) : Bnd { activeT := a, inactiveT := i } := by
  intro p hp; cases hp

theorem Bnd.set {s : State} (h : Bnd s) (k : Nat) (a : AggRec) (ha : a.retries ≤ Generated.cMaxRetries) :
    Bnd (s.set k a) := by
  unfold State.set
  split
  · intro p hp
    obtain ⟨q, hq, rfl⟩ := List.mem_map.mp hp
    split
    · exact ha
    · exact h q hq
  · intro p hp
    rcases List.mem_append.mp hp with hp | hp
    · exact h p hp
    · rw [List.mem_singleton.mp hp]; exact ha

theorem Bnd.del {s : State} (h : Bnd s) (k : Nat) : Bnd (s.del k) := by
  intro p hp
  exact h p (List.mem_filter.mp hp).1

theorem Bnd.ite_set {s : State} (h : Bnd s) (c : Bool) (k : Nat) (a : AggRec)
    (ha : a.retries ≤ Generated.cMaxRetries) : Bnd (if c = true then s.set k a else s) := by
  split
  · exact h.set k a ha
  · exact h

theorem Bnd.find {s : State} (h : Bnd s) {k : Nat} {a : AggRec} (hf : s.find k = some a) :
    a.retries ≤ Generated.cMaxRetries := h _ (find_some_entry hf)

theorem aggregate_retries (r : InRec) (a : AggRec) (fs fd : Bool) : (aggregate r a fs fd).retries = a.retries := rfl

/-- an arrival never changes the retry counter of an existing flow -/
theorem update_retries (r : InRec) (a : AggRec) : (update r a).retries = a.retries := by
  unfold update
  split
  · split <;> (simp only []; split <;> rfl)
  · rfl

theorem create_retries (r : InRec) : (create r).retries = 0 := rfl
theorem resetStats_retries (a : AggRec) : (resetStats a).retries = a.retries := rfl
theorem resetStats_ready (a : AggRec) : (resetStats a).ready = a.ready := rfl

theorem bnd_ingest (s : State) (r : InRec) (h : Bnd s) : Bnd (ingest s r) := by
  cases hf : s.find r.key with
  | none =>
    rw [ingest_new_eq s r hf]
    exact h.set _ _ (by rw [create_retries]; exact Nat.zero_le _)
  | some a =>
    have ha : (update r a).retries ≤ Generated.cMaxRetries := by rw [update_retries]; exact h.find hf
    cases hi : s.pq.toList.findIdx? (·.key == r.key) with
    | none => rw [ingest_upd_none_eq s r a hf hi]; exact h.set _ _ ha
    | some i => rw [ingest_upd_eq s r a i hf hi]; exact h.set _ _ ha

theorem bnd_scanLoop (fail : Nat → Bool) (ra : Bool) (fuel : Nat) (s : State) (tp : List Item)
    (o : ScanOut) (h : Bnd s) : Bnd (scanLoop fail ra fuel s tp o).1 := by
  fun_induction scanLoop fail ra fuel s tp o with
  | case1 s tp o => exact h
  | case2 fuel s tp o h0 => exact h
  | case3 fuel s tp o h0 top htop => exact h
  | case4 fuel s tp o h0 top hdue hpop => exact h
  | case5 fuel s tp o h0 top hdue it pq' hpop s1 hfind ih => exact ih h
  | case6 fuel s tp o h0 top hdue it pq' hpop s1 a hfind hnr a' hret ih =>
    exact ih (Bnd.del (s := s1) h _)
  | case7 fuel s tp o h0 top hdue it pq' hpop s1 a hfind hnr a' hret ih =>
    exact ih (Bnd.set (s := s1) h _ _ (Nat.le_of_not_lt hret))
  | case8 fuel s tp o h0 top hdue it pq' hpop s1 a hfind hr hfail => exact h
  | case9 fuel s tp o h0 top hdue it pq' hpop s1 a hfind hr hfail o1 s2 hin ih =>
    have ha : a.retries ≤ Generated.cMaxRetries := Bnd.find (s := s1) h hfind
    exact ih (Bnd.del (Bnd.ite_set (s := s1) h ra _ _ (by rw [resetStats_retries]; exact ha)) _)
  | case10 fuel s tp o h0 top hdue it pq' hpop s1 a hfind hr hfail o1 s2 hin ih =>
    have ha : a.retries ≤ Generated.cMaxRetries := Bnd.find (s := s1) h hfind
    exact ih (Bnd.ite_set (s := s1) h ra _ _ (by rw [resetStats_retries]; exact ha))

theorem bnd_scan (s : State) (fail : Nat → Bool) (ra : Bool) (h : Bnd s) : Bnd (scan s fail ra).1 := by
  rw [scan_fst]
  exact bnd_scanLoop fail ra _ s [] {} h

theorem bnd_step (s : State) (op : Op) (h : Bnd s) : Bnd (step s op) := by
  cases op with
  | record r => exact bnd_ingest s r h
  | adv d => exact h
  | scan f ra => exact bnd_scan s _ ra h

theorem bnd_foldl (ops : List Op) (s : State) (h : Bnd s) : Bnd (ops.foldl step s) := by
  induction ops generalizing s with
  | nil => exact h
  | cons op ops ih => exact ih _ (bnd_step s op h)

theorem bnd_reachable (a i : Nat) (ops : List Op) : Bnd (ops.foldl step { activeT := a, inactiveT := i }) :=
  bnd_foldl ops _ (bnd_init a i)

/-! ## the scan loop and one flow -/

theorem due_iff_deadline (now : Nat) (it : Item) : Due now it ↔ it.deadline ≤ now := by
  unfold Due Item.deadline
  split <;> omega

/-- what the loop does NOT do to flow `k` -/
structure Frame (k : Nat) (s : State) (tp : List Item) (o : ScanOut) (r : State × List Item × ScanOut) : Prop where
  find : r.1.find k = s.find k
  cb : ∀ p ∈ r.2.2.callbacks, p.1 = k → p ∈ o.callbacks
  tp : ∀ x ∈ tp, x ∈ r.2.1

theorem Frame.step {k : Nat} {s s' : State} {tp tp' : List Item} {o o' : ScanOut}
    {r : State × List Item × ScanOut} (h : Frame k s' tp' o' r) (hf : s'.find k = s.find k)
    (hcb : ∀ p ∈ o'.callbacks, p.1 = k → p ∈ o.callbacks) (htp : ∀ x ∈ tp, x ∈ tp') : Frame k s tp o r where
  find := h.find.trans hf
  cb := fun p hp hk => hcb p (h.cb p hp hk) hk
  tp := fun x hx => h.tp x (htp x hx)

theorem cb_append_ne {o : ScanOut} {k k' : Nat} {a : AggRec} (hne : k' ≠ k) :
    ∀ p ∈ o.callbacks ++ [(k', a)], p.1 = k → p ∈ o.callbacks := by
  intro p hp hk
  rcases List.mem_append.mp hp with h | h
  · exact h
  · rw [List.mem_singleton.mp h] at hk; exact absurd hk hne

/-- a flow whose item is not in the queue is not touched by the loop: its record stays, it is not
    handed to the callback, and the deferred pushes collected so far stay -/
theorem scanLoop_frame (fail : Nat → Bool) (ra : Bool) (fuel : Nat) (s : State) (tp : List Item)
    (o : ScanOut) (k : Nat) (hk : ∀ x ∈ s.pq.toList, x.key ≠ k) :
    Frame k s tp o (scanLoop fail ra fuel s tp o) := by
  fun_induction scanLoop fail ra fuel s tp o with
  | case1 s tp o => exact ⟨rfl, fun _ hp _ => hp, fun _ hx => hx⟩
  | case2 fuel s tp o h0 => exact ⟨rfl, fun _ hp _ => hp, fun _ hx => hx⟩
  | case3 fuel s tp o h0 top htop => exact ⟨rfl, fun _ hp _ => hp, fun _ hx => hx⟩
  | case4 fuel s tp o h0 top hdue hpop => exact ⟨rfl, fun _ hp _ => hp, fun _ hx => hx⟩
  | case5 fuel s tp o h0 top hdue it pq' hpop s1 hfind ih =>
    have hperm := Heap.pop_perm Item.deadline hpop
    exact (ih (fun x hx => hk x (hperm.mem_iff.mpr (List.mem_cons_of_mem _ hx)))).step rfl
      (fun _ hp _ => hp) (fun _ hx => hx)
  | case6 fuel s tp o h0 top hdue it pq' hpop s1 a hfind hnr a' hret ih =>
    have hperm := Heap.pop_perm Item.deadline hpop
    have hne : k ≠ it.key := fun e => hk it (hperm.mem_iff.mpr List.mem_cons_self) e.symm
    exact (ih (fun x hx => hk x (hperm.mem_iff.mpr (List.mem_cons_of_mem _ hx)))).step
      (find_del_ne s1 _ _ hne) (fun _ hp _ => hp) (fun _ hx => hx)
  | case7 fuel s tp o h0 top hdue it pq' hpop s1 a hfind hnr a' hret ih =>
    have hperm := Heap.pop_perm Item.deadline hpop
    have hne : k ≠ it.key := fun e => hk it (hperm.mem_iff.mpr List.mem_cons_self) e.symm
    refine (ih ?_).step (find_set_ne s1 _ _ _ hne) (fun _ hp _ => hp)
      (fun _ hx => List.mem_append_left _ hx)
    rw [set_pq]
    exact fun x hx => hk x (hperm.mem_iff.mpr (List.mem_cons_of_mem _ hx))
  | case8 fuel s tp o h0 top hdue it pq' hpop s1 a hfind hr hfail =>
    have hperm := Heap.pop_perm Item.deadline hpop
    have hne : it.key ≠ k := hk it (hperm.mem_iff.mpr List.mem_cons_self)
    exact ⟨rfl, cb_append_ne hne, fun _ hx => List.mem_append_left _ hx⟩
  | case9 fuel s tp o h0 top hdue it pq' hpop s1 a hfind hr hfail o1 s2 hin ih =>
    have hperm := Heap.pop_perm Item.deadline hpop
    have hne : it.key ≠ k := hk it (hperm.mem_iff.mpr List.mem_cons_self)
    have hpq2 : s2.pq = pq' := ite_set_pq ra _ _ _
    refine (ih ?_).step ((find_del_ne s2 _ _ hne.symm).trans (find_ite_set_ne ra s1 _ _ _ hne.symm))
      (cb_append_ne hne) (fun _ hx => hx)
    show ∀ x ∈ s2.pq.toList, _
    rw [hpq2]
    exact fun x hx => hk x (hperm.mem_iff.mpr (List.mem_cons_of_mem _ hx))
  | case10 fuel s tp o h0 top hdue it pq' hpop s1 a hfind hr hfail o1 s2 hin ih =>
    have hperm := Heap.pop_perm Item.deadline hpop
    have hne : it.key ≠ k := hk it (hperm.mem_iff.mpr List.mem_cons_self)
    have hpq2 : s2.pq = pq' := ite_set_pq ra _ _ _
    refine (ih ?_).step (find_ite_set_ne ra s1 _ _ _ hne.symm)
      (cb_append_ne hne) (fun _ hx => List.mem_append_left _ hx)
    rw [hpq2]
    exact fun x hx => hk x (hperm.mem_iff.mpr (List.mem_cons_of_mem _ hx))

/-- after `it` has been popped no other queued item carries its key -/
theorem Popped.others_ne {s : State} {it : Item} {tp : List Item} (h : Popped s it tp) :
    ∀ x ∈ s.pq.toList, x.key ≠ it.key := by
  have hnd := h.1.nodup_iff.mpr h.2.1
  rw [List.nodup_cons] at hnd
  intro x hx e
  apply hnd.1
  rw [← e]
  exact List.mem_map_of_mem (List.mem_append_left _ hx)

/-- what the loop DOES to an unready flow `k` whose item is due, when it is not aborted -/
structure Retry (k : Nat) (a : AggRec) (s : State) (tp : List Item) (o : ScanOut)
    (r : State × List Item × ScanOut) : Prop where
  cb : ∀ p ∈ r.2.2.callbacks, p.1 = k → p ∈ o.callbacks
  tp : ∀ x ∈ tp, x ∈ r.2.1
  drop : Generated.cMaxRetries ≤ a.retries → r.1.find k = none
  rearm : a.retries < Generated.cMaxRetries →
    r.1.find k = some { a with retries := a.retries + 1 } ∧
    { key := k, active := s.now + s.activeT, inactive := s.now + s.inactiveT } ∈ r.2.1

theorem Retry.step {k : Nat} {a : AggRec} {s s' : State} {tp tp' : List Item} {o o' : ScanOut}
    {r : State × List Item × ScanOut} (h : Retry k a s' tp' o' r)
    (hnow : s'.now = s.now) (hA : s'.activeT = s.activeT) (hI : s'.inactiveT = s.inactiveT)
    (hcb : ∀ p ∈ o'.callbacks, p.1 = k → p ∈ o.callbacks) (htp : ∀ x ∈ tp, x ∈ tp') : Retry k a s tp o r where
  cb := fun p hp hk => hcb p (h.cb p hp hk) hk
  tp := fun x hx => h.tp x (htp x hx)
  drop := h.drop
  rearm := by
    intro hlt
    have := h.rearm hlt
    rw [hnow, hA, hI] at this
    exact this

theorem scanLoop_retry (fail : Nat → Bool) (ra : Bool) (fuel : Nat) (s : State) (tp : List Item)
    (o : ScanOut) (k : Nat) (a : AggRec) (itk : Item)
    (hinv : LoopInv s tp) (hsz : s.pq.size < fuel)
    (hf : s.find k = some a) (hnr : a.ready = false)
    (hit : itk ∈ s.pq.toList) (hk : itk.key = k) (hd : Due s.now itk)
    (hok : (scanLoop fail ra fuel s tp o).2.2.failed = false) :
    Retry k a s tp o (scanLoop fail ra fuel s tp o) := by
  fun_induction scanLoop fail ra fuel s tp o with
  | case1 s tp o => exact absurd hsz (Nat.not_lt_zero _)
  | case2 fuel s tp o h0 =>
    have := List.length_pos_of_mem hit
    rw [Array.length_toList] at this
    omega
  | case3 fuel s tp o h0 top htop =>
    exfalso
    have hmin := Heap.ordered_root_min Item.deadline hinv.2.2 itk hit
    have h1 : Fut s.now s.pq[0]! := htop
    rw [fut_iff_deadline] at h1
    rw [due_iff_deadline] at hd
    omega
  | case4 fuel s tp o h0 top hdue hpop =>
    exact absurd ((Heap.pop_none_iff Item.deadline _).mp hpop) h0
  | case5 fuel s tp o h0 top hdue it pq' hpop s1 hfind ih =>
    exact absurd hfind (hinv.pop hpop).find
  | case6 fuel s tp o h0 top hdue it pq' hpop s1 a0 hfind hnr0 a' hret ih =>
    have hP : Popped s1 it tp := hinv.pop hpop
    obtain ⟨hmem, hd0, hsub, hsize⟩ := pop_facts hinv hpop hdue
    have hperm := Heap.pop_perm Item.deadline hpop
    by_cases hkey : it.key = k
    · -- this is `k`'s item: the flow is dropped, the rest of the loop leaves `k` alone
      have ha : a0 = a := by
        have : s1.find it.key = s.find k := by rw [hkey]; rfl
        rw [this, hf] at hfind
        exact (Option.some.inj hfind).symm
      have hfr := scanLoop_frame fail ra fuel (s1.del it.key) tp o k
        (fun x hx => hkey ▸ hP.others_ne x hx)
      refine ⟨hfr.cb, hfr.tp, fun _ => ?_, fun hlt => ?_⟩
      · rw [hfr.find, ← hkey]; exact find_del_self s1 _
      · exfalso
        have : a'.retries = a.retries + 1 := by rw [← ha]
        omega
    · have hit' : itk ∈ pq'.toList := by
        rcases List.mem_cons.mp (hperm.mem_iff.mp hit) with e | h
        · rw [e] at hk; exact absurd hk hkey
        · exact h
      exact (ih hP.del (show pq'.size < fuel by omega)
        ((find_del_ne s1 _ _ (Ne.symm hkey)).trans hf) hit' hd hok).step rfl rfl rfl
        (fun _ hp _ => hp) (fun _ hx => hx)
  | case7 fuel s tp o h0 top hdue it pq' hpop s1 a0 hfind hnr0 a' hret ih =>
    have hP : Popped s1 it tp := hinv.pop hpop
    obtain ⟨hmem, hd0, hsub, hsize⟩ := pop_facts hinv hpop hdue
    have hperm := Heap.pop_perm Item.deadline hpop
    by_cases hkey : it.key = k
    · have ha : a0 = a := by
        have : s1.find it.key = s.find k := by rw [hkey]; rfl
        rw [this, hf] at hfind
        exact (Option.some.inj hfind).symm
      have hfr := scanLoop_frame fail ra fuel (s1.set it.key a')
        (tp ++ [{ it with active := s1.now + s1.activeT, inactive := s1.now + s1.inactiveT }]) o k
        (by rw [set_pq]; exact fun x hx => hkey ▸ hP.others_ne x hx)
      refine ⟨hfr.cb, fun x hx => hfr.tp x (List.mem_append_left _ hx), fun hge => ?_, fun _ => ⟨?_, ?_⟩⟩
      · exfalso
        have : a'.retries = a.retries + 1 := by rw [← ha]
        omega
      · rw [hfr.find, ← hkey, find_set_self, ← ha]
      · apply hfr.tp
        apply List.mem_append_right
        rw [← hkey]
        exact List.mem_singleton.mpr rfl
    · have hit' : itk ∈ pq'.toList := by
        rcases List.mem_cons.mp (hperm.mem_iff.mp hit) with e | h
        · rw [e] at hk; exact absurd hk hkey
        · exact h
      refine (ih ((hP.set a').requeue _ rfl) ?_ ((find_set_ne s1 _ _ _ (Ne.symm hkey)).trans hf)
        ?_ ?_ hok).step (set_now _ _ _) (set_activeT _ _ _) (set_inactiveT _ _ _)
        (fun _ hp _ => hp) (fun _ hx => List.mem_append_left _ hx)
      · rw [set_pq]; show pq'.size < fuel; omega
      · rw [set_pq]; exact hit'
      · rw [set_now]; exact hd
  | case8 fuel s tp o h0 top hdue it pq' hpop s1 a0 hfind hr hfail =>
    cases hok
  | case9 fuel s tp o h0 top hdue it pq' hpop s1 a0 hfind hr hfail o1 s2 hin ih =>
    have hP : Popped s1 it tp := hinv.pop hpop
    obtain ⟨hmem, hd0, hsub, hsize⟩ := pop_facts hinv hpop hdue
    have hperm := Heap.pop_perm Item.deadline hpop
    have hkey : it.key ≠ k := by
      intro hkey
      have : s1.find it.key = s.find k := by rw [hkey]; rfl
      rw [this, hf] at hfind
      rw [← Option.some.inj hfind, hnr] at hr
      simp at hr
    have hit' : itk ∈ pq'.toList := by
      rcases List.mem_cons.mp (hperm.mem_iff.mp hit) with e | h
      · rw [e] at hk; exact absurd hk hkey
      · exact h
    have hP2 : Popped s2 it tp := hP.ite_set ra _
    have hpq2 : s2.pq = pq' := ite_set_pq ra _ _ _
    have hnow2 : s2.now = s.now := ite_set_now ra _ _ _
    refine (ih hP2.del ?_ ?_ ?_ ?_ hok).step hnow2 (ite_set_activeT ra _ _ _)
      (ite_set_inactiveT ra _ _ _) (cb_append_ne hkey) (fun _ hx => hx)
    · show s2.pq.size < fuel; rw [hpq2]; omega
    · exact ((find_del_ne s2 _ _ hkey.symm).trans (find_ite_set_ne ra s1 _ _ _ hkey.symm)).trans hf
    · show itk ∈ s2.pq.toList; rw [hpq2]; exact hit'
    · show Due s2.now itk; rw [hnow2]; exact hd
  | case10 fuel s tp o h0 top hdue it pq' hpop s1 a0 hfind hr hfail o1 s2 hin ih =>
    have hP : Popped s1 it tp := hinv.pop hpop
    obtain ⟨hmem, hd0, hsub, hsize⟩ := pop_facts hinv hpop hdue
    have hperm := Heap.pop_perm Item.deadline hpop
    have hkey : it.key ≠ k := by
      intro hkey
      have : s1.find it.key = s.find k := by rw [hkey]; rfl
      rw [this, hf] at hfind
      rw [← Option.some.inj hfind, hnr] at hr
      simp at hr
    have hit' : itk ∈ pq'.toList := by
      rcases List.mem_cons.mp (hperm.mem_iff.mp hit) with e | h
      · rw [e] at hk; exact absurd hk hkey
      · exact h
    have hP2 : Popped s2 it tp := hP.ite_set ra _
    have hpq2 : s2.pq = pq' := ite_set_pq ra _ _ _
    have hnow2 : s2.now = s.now := ite_set_now ra _ _ _
    refine (ih (hP2.requeue _ rfl) ?_ ?_ ?_ ?_ hok).step hnow2 (ite_set_activeT ra _ _ _)
      (ite_set_inactiveT ra _ _ _) (cb_append_ne hkey) (fun _ hx => List.mem_append_left _ hx)
    · rw [hpq2]; omega
    · exact (find_ite_set_ne ra s1 _ _ _ hkey.symm).trans hf
    · rw [hpq2]; exact hit'
    · rw [hnow2]; exact hd

/-! ## the whole scan -/

theorem scan_now (s : State) (fail : Nat → Bool) (ra : Bool) (h : Sched s) : (scan s fail ra).1.now = s.now := by
  rw [scan_fst]; exact (scan_spec s fail ra h).now
theorem scan_activeT (s : State) (fail : Nat → Bool) (ra : Bool) (h : Sched s) :
    (scan s fail ra).1.activeT = s.activeT := by
  rw [scan_fst]; exact (scan_spec s fail ra h).activeT
theorem scan_inactiveT (s : State) (fail : Nat → Bool) (ra : Bool) (h : Sched s) :
    (scan s fail ra).1.inactiveT = s.inactiveT := by
  rw [scan_fst]; exact (scan_spec s fail ra h).inactiveT

/-- a scan that is not aborted retries or drops every unready flow whose item is due -/
theorem scan_retry (s : State) (fail : Nat → Bool) (ra : Bool) (h : Sched s) (k : Nat) (a : AggRec)
    (itk : Item) (hf : s.find k = some a) (hnr : a.ready = false) (hit : itk ∈ s.pq.toList)
    (hk : itk.key = k) (hd : Due s.now itk) (hok : (scan s fail ra).2.failed = false) :
    (∀ p ∈ (scan s fail ra).2.callbacks, p.1 ≠ k) ∧
    (Generated.cMaxRetries ≤ a.retries → (scan s fail ra).1.find k = none) ∧
    (a.retries < Generated.cMaxRetries →
      (scan s fail ra).1.find k = some { a with retries := a.retries + 1 } ∧
      { key := k, active := s.now + s.activeT, inactive := s.now + s.inactiveT } ∈ (scan s fail ra).1.pq.toList) := by
  rw [scan_snd] at hok
  have hr := scanLoop_retry fail ra (s.pq.size + 1) s [] {} k a itk h.loopInv (Nat.lt_succ_self _)
    hf hnr hit hk hd hok
  have hs := scan_spec s fail ra h
  rw [scan_fst, scan_snd]
  generalize scanLoop fail ra (s.pq.size + 1) s [] {} = r at hr hs
  refine ⟨?_, ?_, ?_⟩
  · intro p hp e
    exact absurd (hr.cb p hp e) List.not_mem_nil
  · intro hge
    rw [find_with_pq]; exact hr.drop hge
  · intro hlt
    obtain ⟨h1, h2⟩ := hr.rearm hlt
    refine ⟨by rw [find_with_pq]; exact h1, ?_⟩
    obtain ⟨f1, _⟩ := foldl_push_spec r.2.1 r.1.pq hs.inv.2.2
    exact f1.mem_iff.mpr (List.mem_append_right _ h2)

end Ipfix.Agg
