/-
  Helper lemmas for C10 (Model/Timers.lean, Spec/C10.lean):
    * `inv_tpl_new` ... `inv_finish_delete`, `inv_next`: the invariant `Inv` is preserved by EVERY event;
    * `Ghost`, `ghost_next`: the history functions (clock, lastRefresh, withinTTL) agree with the state;
    * `step_ok`, `trace_ok`: every step / trace of the model satisfies the executable trace predicates.
-/
import IpfixModel.Spec.C10
namespace Ipfix.C10
open Ipfix.Timers

theorem snoc_ind {α : Type} {P : List α → Prop} (nil : P [])
    (snoc : ∀ l a, P l → P (l ++ [a])) : ∀ l, P l := by
  intro l
  have h : ∀ r : List α, P r.reverse := by
    intro r
    induction r with
    | nil => exact nil
    | cons a r ih => rw [List.reverse_cons]; exact snoc _ _ ih
  have := h l.reverse
  rwa [List.reverse_reverse] at this

/-- distinctness of `f` along a list makes `f` injective on its members -/
theorem pw_inj {α β : Type} (f : α → β) {l : List α} (h : l.Pairwise (fun a b => f a ≠ f b))
    {a b : α} (ha : a ∈ l) (hb : b ∈ l) (e : f a = f b) : a = b := by
  induction l with
  | nil => cases ha
  | cons x xs ih =>
    rw [List.pairwise_cons] at h
    rcases List.mem_cons.1 ha with rfl | ha' <;> rcases List.mem_cons.1 hb with rfl | hb'
    · rfl
    · exact absurd e (h.1 _ hb')
    · exact absurd e.symm (h.1 _ ha')
    · exact ih h.2 ha' hb'

theorem find_some {s : TState} {k : Key} {p : Key × Tpl} (h : s.find k = some p) : p ∈ s.tpls ∧ p.1 = k := by
  unfold TState.find at h
  refine ⟨List.mem_of_find?_eq_some h, ?_⟩
  have := List.find?_some h
  simpa using this

theorem find_none {s : TState} {k : Key} (h : s.find k = none) : ∀ p ∈ s.tpls, p.1 ≠ k := by
  unfold TState.find at h
  intro p hp
  have := List.find?_eq_none.1 h p hp
  simpa using this

/-- in a state with unique keys `find` is membership -/
theorem find_of_mem {s : TState} (hk : s.tpls.Pairwise (fun p q => p.1 ≠ q.1)) {p : Key × Tpl} (hp : p ∈ s.tpls) :
    s.find p.1 = some p := by
  cases hf : s.find p.1 with
  | none => exact absurd rfl (find_none hf p hp)
  | some q =>
    obtain ⟨hq, e⟩ := find_some hf
    rw [pw_inj (fun p : Key × Tpl => p.1) hk hq hp e]

/-! ### tpl -/

theorem inv_tpl_new {s : TState} (h : Inv s) {k : Key} (hf : s.find k = none) :
    Inv { s with tpls := (k, { oid := s.nextOid, expiry := s.now + s.ttl, refreshed := s.now }) :: s.tpls,
                 armed := { oid := s.nextOid, key := k, deadline := s.now + s.ttl } :: s.armed,
                 nextOid := s.nextOid + 1 } := by
  have hk := find_none hf
  have harmLt : ∀ a ∈ s.armed, a.oid < s.nextOid := by
    intro a ha
    obtain ⟨p, hp, _, e, _⟩ := h.armedOwner a ha
    rw [← e]; exact h.oidLt p hp
  constructor
  · simp only [List.pairwise_cons]
    exact ⟨fun q hq e => hk q hq e.symm, h.keys⟩
  · simp only [List.pairwise_cons]
    exact ⟨fun q hq e => by have := h.oidLt q hq; omega, h.oids⟩
  · intro p hp
    rcases List.mem_cons.1 hp with rfl | hp
    · simp
    · have := h.oidLt p hp; show p.2.oid < s.nextOid + 1; omega
  · simp only [List.pairwise_cons]
    exact ⟨fun a ha e => by have := harmLt a ha; have e' : s.nextOid = a.oid := e; omega, h.armedU⟩
  · intro a ha
    rcases List.mem_cons.1 ha with rfl | ha
    · exact ⟨_, List.mem_cons_self, rfl, rfl, rfl⟩
    · obtain ⟨p, hp, e⟩ := h.armedOwner a ha
      exact ⟨p, List.mem_cons_of_mem _ hp, e⟩
  · intro p hp
    rcases List.mem_cons.1 hp with rfl | hp
    · exact Or.inl ⟨_, List.mem_cons_self, rfl⟩
    · rcases h.pendingExpiry p hp with ⟨a, ha, e⟩ | r
      · exact Or.inl ⟨a, List.mem_cons_of_mem _ ha, e⟩
      · exact Or.inr r
  · intro c hc p hp e
    rcases List.mem_cons.1 hp with rfl | hp
    · have := (h.cbLt c hc).2; have e' : s.nextOid = c.oid := e; omega
    · exact h.cbKey c hc p hp e
  · exact h.cbU
  · intro c hc
    have := h.cbLt c hc
    exact ⟨this.1, by show c.oid < s.nextOid + 1; omega⟩
  · intro p hp
    rcases List.mem_cons.1 hp with rfl | hp
    · simp
    · exact h.ghost p hp
  · exact h.cbPast

theorem mem_filter_key {l : List (Key × Tpl)} {k : Key} {q : Key × Tpl} :
    q ∈ l.filter (fun p => p.1 != k) ↔ q ∈ l ∧ q.1 ≠ k := by
  simp [List.mem_filter]

theorem mem_filter_oid {l : List Armed} {o : Nat} {a : Armed} :
    a ∈ l.filter (fun b => b.oid != o) ↔ a ∈ l ∧ a.oid ≠ o := by
  simp [List.mem_filter]

theorem mem_filter_cid {l : List Cb} {c : Nat} {x : Cb} :
    x ∈ l.filter (fun b => b.cid != c) ↔ x ∈ l ∧ x.cid ≠ c := by
  simp [List.mem_filter]

/-- another stored template has another object id -/
theorem other_oid {s : TState} (h : Inv s) {p q : Key × Tpl} (hp : p ∈ s.tpls) (hq : q ∈ s.tpls) (ne : q.1 ≠ p.1) :
    q.2.oid ≠ p.2.oid := by
  intro e
  have := pw_inj (fun p : Key × Tpl => p.2.oid) h.oids hq hp e
  exact ne (by rw [this])

theorem same_key {s : TState} (h : Inv s) {p q : Key × Tpl} (hp : p ∈ s.tpls) (hq : q ∈ s.tpls) (e : q.1 = p.1) : q = p :=
  pw_inj (fun p : Key × Tpl => p.1) h.keys hq hp e

theorem same_oid {s : TState} (h : Inv s) {p q : Key × Tpl} (hp : p ∈ s.tpls) (hq : q ∈ s.tpls) (e : q.2.oid = p.2.oid) : q = p :=
  pw_inj (fun p : Key × Tpl => p.2.oid) h.oids hq hp e

theorem inv_tpl_refresh {s : TState} (h : Inv s) {k : Key} {p : Key × Tpl} (hf : s.find k = some p) :
    Inv { s with tpls := (k, { oid := p.2.oid, expiry := s.now + s.ttl, refreshed := s.now }) :: s.tpls.filter (fun q => q.1 != k),
                 armed := { oid := p.2.oid, key := k, deadline := s.now + s.ttl } :: s.armed.filter (fun a => a.oid != p.2.oid) } := by
  obtain ⟨hp, hpk⟩ := find_some hf
  subst hpk
  constructor
  · simp only [List.pairwise_cons]
    exact ⟨fun q hq e => (mem_filter_key.1 hq).2 e.symm, h.keys.filter _⟩
  · simp only [List.pairwise_cons]
    refine ⟨fun q hq e => ?_, h.oids.filter _⟩
    obtain ⟨hq, ne⟩ := mem_filter_key.1 hq
    exact other_oid h hp hq ne e.symm
  · intro q hq
    rcases List.mem_cons.1 hq with rfl | hq
    · exact h.oidLt p hp
    · exact h.oidLt q (mem_filter_key.1 hq).1
  · simp only [List.pairwise_cons]
    exact ⟨fun a ha e => (mem_filter_oid.1 ha).2 e.symm, h.armedU.filter _⟩
  · intro a ha
    rcases List.mem_cons.1 ha with rfl | ha
    · exact ⟨_, List.mem_cons_self, rfl, rfl, rfl⟩
    · obtain ⟨ha, ne⟩ := mem_filter_oid.1 ha
      obtain ⟨q, hq, e1, e2, e3⟩ := h.armedOwner a ha
      refine ⟨q, List.mem_cons_of_mem _ (mem_filter_key.2 ⟨hq, fun e => ?_⟩), e1, e2, e3⟩
      have := same_key h hp hq e
      subst this
      exact ne e2.symm
  · intro q hq
    rcases List.mem_cons.1 hq with rfl | hq
    · exact Or.inl ⟨_, List.mem_cons_self, rfl⟩
    · obtain ⟨hq, ne⟩ := mem_filter_key.1 hq
      rcases h.pendingExpiry q hq with ⟨a, ha, e⟩ | r
      · refine Or.inl ⟨a, List.mem_cons_of_mem _ (mem_filter_oid.2 ⟨ha, ?_⟩), e⟩
        rw [e]; exact other_oid h hp hq ne
      · exact Or.inr r
  · intro c hc q hq e
    rcases List.mem_cons.1 hq with rfl | hq
    · exact h.cbKey c hc p hp e
    · exact h.cbKey c hc q (mem_filter_key.1 hq).1 e
  · exact h.cbU
  · exact h.cbLt
  · intro q hq
    rcases List.mem_cons.1 hq with rfl | hq
    · exact ⟨rfl, Nat.le_refl _⟩
    · exact h.ghost q (mem_filter_key.1 hq).1
  · exact h.cbPast

/-! ### badTpl / deletion -/

theorem inv_delete {s : TState} (h : Inv s) {p : Key × Tpl} (hp : p ∈ s.tpls) : Inv (s.delete p.1 p.2) := by
  unfold TState.delete
  constructor
  · exact h.keys.filter _
  · exact h.oids.filter _
  · intro q hq; exact h.oidLt q (mem_filter_key.1 hq).1
  · exact h.armedU.filter _
  · intro a ha
    obtain ⟨ha, ne⟩ := mem_filter_oid.1 ha
    obtain ⟨q, hq, e1, e2, e3⟩ := h.armedOwner a ha
    refine ⟨q, mem_filter_key.2 ⟨hq, fun e => ?_⟩, e1, e2, e3⟩
    have := same_key h hp hq e
    subst this
    exact ne e2.symm
  · intro q hq
    obtain ⟨hq, ne⟩ := mem_filter_key.1 hq
    rcases h.pendingExpiry q hq with ⟨a, ha, e⟩ | r
    · refine Or.inl ⟨a, mem_filter_oid.2 ⟨ha, ?_⟩, e⟩
      rw [e]; exact other_oid h hp hq ne
    · exact Or.inr r
  · intro c hc q hq e
    exact h.cbKey c hc q (mem_filter_key.1 hq).1 e
  · exact h.cbU
  · exact h.cbLt
  · intro q hq; exact h.ghost q (mem_filter_key.1 hq).1
  · exact h.cbPast

/-! ### advance -/

theorem inv_advance {s : TState} (h : Inv s) (d : Nat) : Inv { s with now := s.now + d } := by
  constructor
  · exact h.keys
  · exact h.oids
  · exact h.oidLt
  · exact h.armedU
  · exact h.armedOwner
  · intro q hq
    rcases h.pendingExpiry q hq with l | ⟨le, r⟩
    · exact Or.inl l
    · exact Or.inr ⟨Nat.le_trans le (Nat.le_add_right _ _), r⟩
  · exact h.cbKey
  · exact h.cbU
  · exact h.cbLt
  · intro q hq
    have := h.ghost q hq
    exact ⟨this.1, Nat.le_trans this.2 (Nat.le_add_right _ _)⟩
  · intro c hc
    have := h.cbPast c hc
    unfold readInPast at this ⊢
    split
    · trivial
    · rename_i r hr
      rw [hr] at this
      exact Nat.le_trans this (Nat.le_add_right _ _)

/-! ### fire -/

theorem inv_fire {s : TState} (h : Inv s) {a : Armed} (ha : a ∈ s.armed) (hd : a.deadline ≤ s.now) :
    Inv { s with armed := s.armed.filter (fun b => b.oid != a.oid),
                 pending := { cid := s.nextCid, oid := a.oid, key := a.key, nowRead := none } :: s.pending,
                 nextCid := s.nextCid + 1 } := by
  obtain ⟨p, hp, e1, e2, e3⟩ := h.armedOwner a ha
  constructor
  · exact h.keys
  · exact h.oids
  · exact h.oidLt
  · exact h.armedU.filter _
  · intro b hb
    exact h.armedOwner b (mem_filter_oid.1 hb).1
  · intro q hq
    rcases h.pendingExpiry q hq with ⟨b, hb, e⟩ | ⟨le, c, hc, r⟩
    · by_cases hbo : b.oid = a.oid
      · have hqp : q = p := same_oid h hp hq (by rw [← e, hbo, e2])
        subst hqp
        refine Or.inr ⟨by show q.2.expiry ≤ s.now; omega, _, List.mem_cons_self, ?_, ?_⟩
        · exact e2.symm
        · simp [eff, readAtOrAfter]
      · exact Or.inl ⟨b, mem_filter_oid.2 ⟨hb, hbo⟩, e⟩
    · exact Or.inr ⟨le, c, List.mem_cons_of_mem _ hc, r⟩
  · intro c hc q hq e
    rcases List.mem_cons.1 hc with rfl | hc
    · have hqp : q = p := same_oid h hp hq (by rw [e2]; exact e)
      subst hqp
      exact e1
    · exact h.cbKey c hc q hq e
  · simp only [List.pairwise_cons]
    refine ⟨fun c hc e => ?_, h.cbU⟩
    have := (h.cbLt c hc).1
    have e' : s.nextCid = c.cid := e
    omega
  · intro c hc
    rcases List.mem_cons.1 hc with rfl | hc
    · refine ⟨by show s.nextCid < s.nextCid + 1; omega, ?_⟩
      show a.oid < s.nextOid
      rw [← e2]; exact h.oidLt p hp
    · have := h.cbLt c hc
      exact ⟨by show c.cid < s.nextCid + 1; omega, this.2⟩
  · exact h.ghost
  · intro c hc
    rcases List.mem_cons.1 hc with rfl | hc
    · simp [readInPast]
    · exact h.cbPast c hc

/-! ### cbReadNow -/

theorem markRead_cid (c n : Nat) (p : Cb) : (markRead c n p).cid = p.cid := by
  unfold markRead; split <;> rfl
theorem markRead_oid (c n : Nat) (p : Cb) : (markRead c n p).oid = p.oid := by
  unfold markRead; split <;> rfl
theorem markRead_key (c n : Nat) (p : Cb) : (markRead c n p).key = p.key := by
  unfold markRead; split <;> rfl
theorem markRead_nowRead (c n : Nat) (p : Cb) :
    (markRead c n p).nowRead = p.nowRead ∨ (p.nowRead = none ∧ (markRead c n p).nowRead = some n) := by
  unfold markRead
  split
  · rename_i hc
    right
    simp at hc
    exact ⟨hc.2, rfl⟩
  · left; rfl

theorem inv_read {s : TState} (h : Inv s) (c : Nat) : Inv { s with pending := s.pending.map (markRead c s.now) } := by
  constructor
  · exact h.keys
  · exact h.oids
  · exact h.oidLt
  · exact h.armedU
  · exact h.armedOwner
  · intro q hq
    rcases h.pendingExpiry q hq with l | ⟨le, x, hx, e, r⟩
    · exact Or.inl l
    · refine Or.inr ⟨le, markRead c s.now x, List.mem_map.2 ⟨x, hx, rfl⟩, by rw [markRead_oid]; exact e, ?_⟩
      unfold eff readAtOrAfter at r ⊢
      rcases markRead_nowRead c s.now x with e' | ⟨_, e'⟩
      · rw [e']; exact r
      · rw [e']; exact le
  · intro x hx q hq e
    obtain ⟨y, hy, rfl⟩ := List.mem_map.1 hx
    rw [markRead_key]
    rw [markRead_oid] at e
    exact h.cbKey y hy q hq e
  · show (s.pending.map (markRead c s.now)).Pairwise _
    rw [List.pairwise_map]
    refine h.cbU.imp ?_
    intro x y ne
    rw [markRead_cid, markRead_cid]; exact ne
  · intro x hx
    obtain ⟨y, hy, rfl⟩ := List.mem_map.1 hx
    rw [markRead_cid, markRead_oid]
    exact h.cbLt y hy
  · exact h.ghost
  · intro x hx
    obtain ⟨y, hy, rfl⟩ := List.mem_map.1 hx
    have := h.cbPast y hy
    unfold readInPast at this ⊢
    rcases markRead_nowRead c s.now y with e' | ⟨_, e'⟩
    · rw [e']; exact this
    · rw [e']; exact Nat.le_refl _

/-! ### cbFinish -/

theorem same_cid {s : TState} (h : Inv s) {x y : Cb} (hx : x ∈ s.pending) (hy : y ∈ s.pending) (e : y.cid = x.cid) : y = x :=
  pw_inj (fun c : Cb => c.cid) h.cbU hy hx e

theorem inv_finish_keep {s : TState} (h : Inv s) {cb : Cb} (hcb : cb ∈ s.pending) {r : Nat} (hr : cb.nowRead = some r)
    (hno : ∀ p, s.find cb.key = some p → ¬ p.2.expiry ≤ r) :
    Inv { s with pending := s.pending.filter (fun p => p.cid != cb.cid) } := by
  constructor
  · exact h.keys
  · exact h.oids
  · exact h.oidLt
  · exact h.armedU
  · exact h.armedOwner
  · intro q hq
    rcases h.pendingExpiry q hq with l | ⟨le, x, hx, e, ef⟩
    · exact Or.inl l
    · refine Or.inr ⟨le, x, mem_filter_cid.2 ⟨hx, fun ec => ?_⟩, e, ef⟩
      have := same_cid h hcb hx ec
      subst this
      have hk : q.1 = x.key := h.cbKey x hx q hq e.symm
      have hf := find_of_mem h.keys hq
      rw [hk] at hf
      apply hno q hf
      unfold eff readAtOrAfter at ef
      rw [hr] at ef
      exact ef
  · intro x hx q hq e
    exact h.cbKey x (mem_filter_cid.1 hx).1 q hq e
  · exact h.cbU.filter _
  · intro x hx; exact h.cbLt x (mem_filter_cid.1 hx).1
  · exact h.ghost
  · intro x hx; exact h.cbPast x (mem_filter_cid.1 hx).1

theorem inv_finish_delete {s : TState} (h : Inv s) {cb : Cb} (hcb : cb ∈ s.pending) {p : Key × Tpl} (hp : p ∈ s.tpls)
    (hk : p.1 = cb.key) :
    Inv (TState.delete { s with pending := s.pending.filter (fun p => p.cid != cb.cid) } p.1 p.2) := by
  unfold TState.delete
  constructor
  · exact h.keys.filter _
  · exact h.oids.filter _
  · intro q hq; exact h.oidLt q (mem_filter_key.1 hq).1
  · exact h.armedU.filter _
  · intro a ha
    obtain ⟨ha, ne⟩ := mem_filter_oid.1 ha
    obtain ⟨q, hq, e1, e2, e3⟩ := h.armedOwner a ha
    refine ⟨q, mem_filter_key.2 ⟨hq, fun e => ?_⟩, e1, e2, e3⟩
    have := same_key h hp hq e
    subst this
    exact ne e2.symm
  · intro q hq
    obtain ⟨hq, ne⟩ := mem_filter_key.1 hq
    rcases h.pendingExpiry q hq with ⟨a, ha, e⟩ | ⟨le, x, hx, e, ef⟩
    · refine Or.inl ⟨a, mem_filter_oid.2 ⟨ha, ?_⟩, e⟩
      rw [e]; exact other_oid h hp hq ne
    · refine Or.inr ⟨le, x, mem_filter_cid.2 ⟨hx, fun ec => ?_⟩, e, ef⟩
      have := same_cid h hcb hx ec
      subst this
      have : q.1 = x.key := h.cbKey x hx q hq e.symm
      exact ne (by rw [this, hk])
  · intro x hx q hq e
    exact h.cbKey x (mem_filter_cid.1 hx).1 q (mem_filter_key.1 hq).1 e
  · exact h.cbU.filter _
  · intro x hx; exact h.cbLt x (mem_filter_cid.1 hx).1
  · intro q hq; exact h.ghost q (mem_filter_key.1 hq).1
  · intro x hx; exact h.cbPast x (mem_filter_cid.1 hx).1

/-! ### every event -/

theorem inv_next {s : TState} (h : Inv s) (e : Event) : Inv (next s e).1 := by
  cases e with
  | tpl k =>
    simp only [next]
    split
    · rename_i hf; exact inv_tpl_new h hf
    · rename_i p hf; exact inv_tpl_refresh h hf
  | badTpl k =>
    simp only [next]
    split
    · exact h
    · rename_i p hf
      obtain ⟨hp, hk⟩ := find_some hf
      subst hk
      exact inv_delete h hp
  | data k => exact h
  | advance d => exact inv_advance h d
  | fire o =>
    simp only [next]
    split
    · exact h
    · rename_i a hf
      have ha := List.mem_of_find?_eq_some hf
      have ho : a.oid = o := by simpa using List.find?_some hf
      subst ho
      split
      · rename_i hd; exact inv_fire h ha hd
      · exact h
  | cbReadNow c =>
    simp only [next]
    split
    · exact h
    · exact inv_read h c
  | cbFinish c =>
    simp only [next]
    split
    · exact h
    · rename_i cb hf
      have hcb := List.mem_of_find?_eq_some hf
      have hc : cb.cid = c := by simpa using List.find?_some hf
      subst hc
      split
      · exact h
      · rename_i r hr
        split
        · rename_i hn
          exact inv_finish_keep h hcb hr (fun p hp => by rw [hn] at hp; cases hp)
        · rename_i p hfp
          obtain ⟨hp, hk⟩ := find_some hfp
          split
          · have := inv_finish_delete h hcb hp hk
            rw [hk] at this
            exact this
          · rename_i hgt
            exact inv_finish_keep h hcb hr (fun q hq => by rw [hfp] at hq; cases hq; exact hgt)

theorem run_snoc (ttl : Nat) (es : List Event) (e : Event) : run ttl (es ++ [e]) = (step (run ttl es) e).1 := by
  simp [run, List.foldl_append]

/-! ## the history functions agree with the ghost fields -/

theorem next_now (s : TState) (e : Event) :
    (next s e).1.now = match e with | .advance d => s.now + d | _ => s.now := by
  cases e <;> simp only [next] <;> (repeat' split) <;> rfl

theorem next_ttl (s : TState) (e : Event) : (next s e).1.ttl = s.ttl := by
  cases e <;> simp only [next] <;> (repeat' split) <;> rfl

theorem next_now_ge (s : TState) (e : Event) : s.now ≤ (next s e).1.now := by
  rw [next_now]; split <;> omega

/-- where a stored template comes from -/
theorem mem_tpls_next {s : TState} {e : Event} {q : Key × Tpl} (hq : q ∈ (next s e).1.tpls) :
    (e = .tpl q.1 ∧ q.2.refreshed = s.now) ∨ (q ∈ s.tpls ∧ e ≠ .tpl q.1 ∧ e ≠ .badTpl q.1) := by
  cases e with
  | tpl k =>
    simp only [next] at hq
    split at hq
    · rename_i hf
      rcases List.mem_cons.1 hq with rfl | hq
      · exact Or.inl ⟨rfl, rfl⟩
      · refine Or.inr ⟨hq, ?_, by simp⟩
        intro e; injection e with e; exact find_none hf q hq e.symm
    · rcases List.mem_cons.1 hq with rfl | hq
      · exact Or.inl ⟨rfl, rfl⟩
      · obtain ⟨hq, ne⟩ := mem_filter_key.1 hq
        refine Or.inr ⟨hq, ?_, by simp⟩
        intro e; injection e with e; exact ne e.symm
  | badTpl k =>
    simp only [next] at hq
    split at hq
    · rename_i hf
      refine Or.inr ⟨hq, by simp, ?_⟩
      intro e; injection e with e; exact find_none hf q hq e.symm
    · obtain ⟨hq, ne⟩ := mem_filter_key.1 hq
      refine Or.inr ⟨hq, by simp, ?_⟩
      intro e; injection e with e; exact ne e.symm
  | data k => exact Or.inr ⟨hq, by simp, by simp⟩
  | advance d => exact Or.inr ⟨hq, by simp, by simp⟩
  | fire o =>
    refine Or.inr ⟨?_, by simp, by simp⟩
    simp only [next] at hq
    split at hq
    · exact hq
    · split at hq <;> exact hq
  | cbReadNow c =>
    refine Or.inr ⟨?_, by simp, by simp⟩
    simp only [next] at hq
    split at hq <;> exact hq
  | cbFinish c =>
    refine Or.inr ⟨?_, by simp, by simp⟩
    simp only [next] at hq
    split at hq
    · exact hq
    · split at hq
      · exact hq
      · split at hq
        · exact hq
        · split at hq
          · exact (mem_filter_key.1 hq).1
          · exact hq

/-- after `tpl k` a template is stored under k -/
theorem tpl_stored (s : TState) (k : Key) : ∃ q ∈ (next s (.tpl k)).1.tpls, q.1 = k := by
  simp only [next]
  split
  · exact ⟨_, List.mem_cons_self, rfl⟩
  · exact ⟨_, List.mem_cons_self, rfl⟩

theorem find_cb {s : TState} (h : Inv s) {cb : Cb} (hcb : cb ∈ s.pending) :
    s.pending.find? (fun p => p.cid == cb.cid) = some cb := by
  cases hf : s.pending.find? (fun p => p.cid == cb.cid) with
  | none =>
    have := List.find?_eq_none.1 hf cb hcb
    simp at this
  | some x =>
    have hx := List.mem_of_find?_eq_some hf
    have hc : x.cid = cb.cid := by simpa using List.find?_some hf
    rw [same_cid h hcb hx hc]

/-- what `cbFinish` does, for a callback that has read the clock -/
theorem finish_spec {s : TState} (h : Inv s) {cb : Cb} (hcb : cb ∈ s.pending) {r : Nat} (hr : cb.nowRead = some r) :
    (next s (.cbFinish cb.cid)).1 =
      match s.find cb.key with
      | none => { s with pending := s.pending.filter (fun p => p.cid != cb.cid) }
      | some p =>
        if p.2.expiry ≤ r then TState.delete { s with pending := s.pending.filter (fun p => p.cid != cb.cid) } cb.key p.2
        else { s with pending := s.pending.filter (fun p => p.cid != cb.cid) } := by
  simp only [next, find_cb h hcb, hr]
  cases s.find cb.key with
  | none => rfl
  | some p => by_cases hc : p.2.expiry ≤ r <;> simp [hc]

/-- a stored template survives every event other than its own invalidation while its lifetime
    (from the most recent (re)transmission) has not elapsed -/
theorem stored_preserved {s : TState} (h : Inv s) {p : Key × Tpl} (hp : p ∈ s.tpls) {e : Event}
    (hne : e ≠ .tpl p.1) (hnb : e ≠ .badTpl p.1) (hlt : s.now < p.2.refreshed + s.ttl) :
    p ∈ (next s e).1.tpls := by
  cases e with
  | tpl k =>
    have ne : p.1 ≠ k := fun e => hne (by rw [e])
    simp only [next]
    split
    · exact List.mem_cons_of_mem _ hp
    · exact List.mem_cons_of_mem _ (mem_filter_key.2 ⟨hp, ne⟩)
  | badTpl k =>
    have ne : p.1 ≠ k := fun e => hnb (by rw [e])
    simp only [next]
    split
    · exact hp
    · exact mem_filter_key.2 ⟨hp, ne⟩
  | data k => exact hp
  | advance d => exact hp
  | fire o =>
    simp only [next]
    split
    · exact hp
    · split <;> exact hp
  | cbReadNow c =>
    simp only [next]
    split <;> exact hp
  | cbFinish c =>
    simp only [next]
    split
    · exact hp
    · rename_i cb hf
      have hcb := List.mem_of_find?_eq_some hf
      split
      · exact hp
      · rename_i r hr
        split
        · exact hp
        · rename_i q hfq
          obtain ⟨hq, hk⟩ := find_some hfq
          split
          · rename_i hle
            refine mem_filter_key.2 ⟨hp, fun e => ?_⟩
            have : p = q := same_key h hq hp (by rw [e, hk])
            subst this
            have hg := (h.ghost p hp).1
            have hpast := h.cbPast cb hcb
            unfold readInPast at hpast
            rw [hr] at hpast
            omega
          · exact hp

/-- agreement of the history functions with the state -/
structure Ghost (hist : List Event) (s : TState) : Prop where
  clock : clockRev hist = s.now
  refresh : ∀ p ∈ s.tpls, lastRefreshRev p.1 hist = some p.2.refreshed
  usable : ∀ k, withinTTL s.ttl hist k s.now → ∃ p ∈ s.tpls, p.1 = k

theorem ghost_init (ttl : Nat) : Ghost [] (init ttl) := by
  constructor
  · rfl
  · intro p hp; cases hp
  · intro k hk; simp [withinTTL, lastRefreshRev] at hk

theorem clockRev_cons (e : Event) (hist : List Event) :
    clockRev (e :: hist) = match e with | .advance d => clockRev hist + d | _ => clockRev hist := by
  cases e <;> rfl

theorem lastRefreshRev_cons_ne {k : Key} {e : Event} (hist : List Event) (hne : e ≠ .tpl k) :
    lastRefreshRev k (e :: hist) = lastRefreshRev k hist := by
  cases e with
  | tpl k' =>
    have : k' ≠ k := fun e => hne (by rw [e])
    simp [lastRefreshRev, this]
  | _ => rfl

theorem noBadSinceRev_cons_ne {k : Key} {e : Event} (hist : List Event) (hne : e ≠ .tpl k) (hnb : e ≠ .badTpl k) :
    noBadSinceRev k (e :: hist) = noBadSinceRev k hist := by
  cases e with
  | tpl k' =>
    have : k' ≠ k := fun e => hne (by rw [e])
    simp [noBadSinceRev, this]
  | badTpl k' =>
    have : k' ≠ k := fun e => hnb (by rw [e])
    simp [noBadSinceRev, this]
  | _ => rfl

theorem ghost_next {hist : List Event} {s : TState} (h : Inv s) (g : Ghost hist s) (e : Event) :
    Ghost (e :: hist) (next s e).1 := by
  have hclock : clockRev (e :: hist) = (next s e).1.now := by
    rw [clockRev_cons, next_now, g.clock]
  constructor
  · exact hclock
  · intro q hq
    rcases mem_tpls_next hq with ⟨he, hr⟩ | ⟨hq0, hne, _⟩
    · rw [he, hr]
      simp [lastRefreshRev, g.clock]
    · rw [lastRefreshRev_cons_ne hist hne]
      exact g.refresh q hq0
  · intro k hk
    rw [next_ttl] at hk
    by_cases he : e = .tpl k
    · subst he; exact tpl_stored s k
    · by_cases hb : e = .badTpl k
      · subst hb
        exfalso
        unfold withinTTL at hk
        split at hk
        · exact hk
        · simp [noBadSinceRev] at hk
      · unfold withinTTL at hk
        rw [lastRefreshRev_cons_ne hist he, noBadSinceRev_cons_ne hist he hb] at hk
        have hge := next_now_ge s e
        have hold : withinTTL s.ttl hist k s.now := by
          unfold withinTTL
          cases hl : lastRefreshRev k hist with
          | none => rw [hl] at hk; exact hk
          | some r =>
            rw [hl] at hk
            have hk' : noBadSinceRev k hist = true ∧ (next s e).1.now < r + s.ttl := hk
            exact ⟨hk'.1, by omega⟩
        obtain ⟨p, hp, hpk⟩ := g.usable k hold
        subst hpk
        refine ⟨p, stored_preserved h hp he hb ?_, rfl⟩
        unfold withinTTL at hold
        rw [g.refresh p hp] at hold
        exact hold.2

/-! ## the trace predicates hold on every step of the model -/

theorem mem_keys {s : TState} {r : Res} {k : Key} : k ∈ (observe s r).keys ↔ ∃ p ∈ s.tpls, p.1 = k := by
  show k ∈ s.tpls.map (·.1) ↔ _
  simp [List.mem_map]

theorem obsInv_of {hist : List Event} {s : TState} (h : Inv s) (g : Ghost hist s) (r : Res) :
    ObsInv s.ttl hist (observe s r) := by
  constructor
  · show (s.tpls.map (·.1)).Pairwise (· ≠ ·)
    rw [List.pairwise_map]; exact h.keys
  · intro k hk
    obtain ⟨p, hp, rfl⟩ := mem_keys.1 hk
    unfold expiryPendingObs
    rw [g.refresh p hp]
    show expiryPendingAt (observe s r) p.1 (p.2.refreshed + s.ttl)
    rw [← (h.ghost p hp).1]
    unfold expiryPendingAt
    rcases h.pendingExpiry p hp with ⟨a, ha, e⟩ | ⟨le, c, hc, e, ef⟩
    · left
      obtain ⟨q, hq, e1, e2, e3⟩ := h.armedOwner a ha
      have : q = p := same_oid h hp hq (e2.trans e)
      subst this
      exact ⟨a, ha, e1.symm, e3.symm⟩
    · right
      exact ⟨le, c, hc, (h.cbKey c hc p hp e.symm).symm, ef⟩
  · intro a ha
    obtain ⟨q, hq, e1, _, _⟩ := h.armedOwner a ha
    exact mem_keys.2 ⟨q, hq, e1⟩
  · exact h.armedU
  · refine List.Pairwise.imp_of_mem ?_ h.armedU
    intro a b ha hb ne e
    obtain ⟨q, hq, e1, e2, _⟩ := h.armedOwner a ha
    obtain ⟨q', hq', e1', e2', _⟩ := h.armedOwner b hb
    have : q' = q := same_key h hq hq' (by rw [e1, e1', e])
    subst this
    exact ne (by rw [← e2, ← e2'])
  · exact h.cbPast
  · exact g.clock.symm

theorem stored_iff_mem {s : TState} {k : Key} : s.stored k = true ↔ ∃ p ∈ s.tpls, p.1 = k := by
  unfold TState.stored TState.find
  rw [List.find?_isSome]
  simp

theorem step_ok {hist : List Event} {s : TState} (h : Inv s) (g : Ghost hist s) (r0 : Res) (e : Event) :
    StepOK s.ttl hist (observe s r0) e (step s e).2 := by
  have h' : Inv (next s e).1 := inv_next h e
  have g' : Ghost (e :: hist) (next s e).1 := ghost_next h g e
  constructor
  · have := obsInv_of h' g' (next s e).2
    rw [next_ttl] at this
    exact this
  · intro k hk hnk
    obtain ⟨p, hp, rfl⟩ := mem_keys.1 hk
    by_cases hb : e = .badTpl p.1
    · exact Or.inl hb
    · right
      unfold lifetimeOver
      rw [g.refresh p hp]
      show p.2.refreshed + s.ttl ≤ s.now
      apply Nat.le_of_not_lt
      intro hlt
      apply hnk
      by_cases he : e = .tpl p.1
      · subst he
        exact mem_keys.2 (tpl_stored s p.1)
      · exact mem_keys.2 ⟨p, stored_preserved h hp he hb hlt, rfl⟩
  · intro k _ hk
    have hu := g'.usable k
    rw [next_ttl] at hu
    exact mem_keys.2 (hu hk)
  · unfold goneAt
    split
    · rename_i c
      intro cb hcb hc
      subst hc
      unfold goneCb
      split
      · rename_i r lr hr hlr
        intro hle hmem
        obtain ⟨q, hq, hqk⟩ := mem_keys.1 hmem
        have hq' : q ∈ (next s (.cbFinish cb.cid)).1.tpls := hq
        rw [finish_spec h hcb hr] at hq'
        cases hf : s.find cb.key with
        | none =>
          rw [hf] at hq'
          exact find_none hf q hq' hqk
        | some p =>
          rw [hf] at hq'
          obtain ⟨hp, hpk⟩ := find_some hf
          have hg := g.refresh p hp
          rw [hpk, hlr] at hg
          have hexp := (h.ghost p hp).1
          have hle' : p.2.expiry ≤ r := by
            injection hg with hg
            omega
          simp only [hle', if_true] at hq'
          exact (mem_filter_key.1 hq').2 hqk
      · trivial
    · trivial
  · unfold dataAt
    split
    · rename_i k
      show ((if s.stored k then Res.accepted else Res.rejected) = Res.accepted ∧ k ∈ (observe s r0).keys) ∨
           ((if s.stored k then Res.accepted else Res.rejected) = Res.rejected ∧ k ∉ (observe s r0).keys)
      by_cases hs : s.stored k = true
      · left; exact ⟨by simp [hs], mem_keys.2 (stored_iff_mem.1 hs)⟩
      · right; exact ⟨by simp [hs], fun hm => hs (stored_iff_mem.2 (mem_keys.1 hm))⟩
    · trivial

theorem trace_ok {s : TState} (es : List Event) : ∀ {hist : List Event} (r0 : Res), Inv s → Ghost hist s →
    TraceOKFrom s.ttl hist (observe s r0) (trace s es) := by
  induction es generalizing s with
  | nil => intro hist r0 _ _; trivial
  | cons e es ih =>
    intro hist r0 h g
    refine ⟨step_ok h g r0 e, ?_⟩
    have := ih (s := (step s e).1) (hist := e :: hist) (next s e).2 (inv_next h e) (ghost_next h g e)
    have ht : (step s e).1.ttl = s.ttl := next_ttl s e
    rw [ht] at this
    exact this

/-- generic: if `f` is distinct along `l`, exactly one member has the `f`-value of a member -/
theorem pw_count {α : Type} (f : α → Nat) {l : List α} (h : l.Pairwise (fun a b => f a ≠ f b)) {a : α} (ha : a ∈ l) :
    (l.filter (fun b => f b == f a)).length = 1 := by
  induction l with
  | nil => cases ha
  | cons x xs ih =>
    rw [List.pairwise_cons] at h
    rcases List.mem_cons.1 ha with rfl | ha'
    · have : xs.filter (fun b => f b == f a) = [] := by
        rw [List.filter_eq_nil_iff]
        intro b hb
        have := h.1 b hb
        simp; exact fun e => this e.symm
      simp [this]
    · have hx : f x ≠ f a := h.1 a ha'
      simp [hx, ih h.2 ha']

end Ipfix.C10
