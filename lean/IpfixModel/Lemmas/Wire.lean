import IpfixModel.Lemmas.Collector
import IpfixModel.Spec.Exp
import IpfixModel.Props.C15
namespace Ipfix
open Outcome ExpSpec

theorem be_four (n : Nat) : be 4 n = [UInt8.ofNat (n / 16777216 % 256), UInt8.ofNat (n / 65536 % 256),
    UInt8.ofNat (n / 256 % 256), UInt8.ofNat (n % 256)] := by
  simp [be]
  refine ⟨?_, ?_⟩ <;> congr 1 <;> omega

theorem u16_be (n : Nat) (rest : Bytes) (h : n < 65536) : u16 (be 2 n ++ rest) = n := by
  rw [be_two]
  simp only [u16, List.cons_append, List.nil_append]
  rw [u8_ofNat_toNat_lt _ (by omega), u8_ofNat_toNat_lt _ (by omega)]
  omega

theorem u32_be (n : Nat) (rest : Bytes) (h : n < 4294967296) : u32 (be 4 n ++ rest) = n := by
  rw [be_four]
  simp only [u32, List.cons_append, List.nil_append]
  rw [u8_ofNat_toNat_lt _ (by omega), u8_ofNat_toNat_lt _ (by omega), u8_ofNat_toNat_lt _ (by omega),
    u8_ofNat_toNat_lt _ (by omega)]
  omega

/-! ## Data records: the collector's record reader inverts the record encoder -/

theorem encodeElem_minLen {ie : IE} {v : Value} {bs : Bytes} (hwf : ie.WF) (h : encodeElem ie v = some bs) :
    ie.minLen ≤ bs.length := by
  have hl := C15.encode_length h
  obtain ⟨name, id, ty, ent, len⟩ := ie
  cases ty <;> cases v <;> simp [encodeElem, DataType.width, IE.WF] at h hwf <;>
    simp [IE.minLen, elemLength, varLen] at hl ⊢ <;> (try subst hwf) <;> (try simp at hl ⊢) <;> (try omega)
  case octetArray.bytes b =>
    by_cases h1 : len < 65535 <;> by_cases h2 : b.length < 255 <;> by_cases h3 : len = 65535 <;> simp [h1, h2, h3] at hl ⊢ <;> omega
  case string.bytes b =>
    by_cases h2 : b.length < 255 <;> simp [h2] at hl <;> omega

theorem decodeRecord_encodeRecord {es : List Elem} {bs : Bytes} (rest : Bytes)
    (hwf : ∀ e ∈ es, e.1.WF) (h : encodeRecord es = some bs) :
    decodeRecord .keep (es.map (·.1)) (bs ++ rest) = .ok (es.map (fun e => C15.canon e.1 e.2), rest) ∧
    minRecordLen (es.map (·.1)) ≤ bs.length := by
  induction es generalizing bs with
  | nil => simp [encodeRecord] at h; subst h; simp [decodeRecord, minRecordLen]
  | cons e t ih =>
    obtain ⟨ie, v⟩ := e
    simp only [encodeRecord] at h
    cases he : encodeElem ie v with
    | none => simp [he] at h
    | some b =>
      cases ht : encodeRecord t with
      | none => simp [he, ht] at h
      | some bt =>
        simp [he, ht] at h; subst h
        have hie : ie.WF := hwf (ie, v) (by simp)
        obtain ⟨ih1, ih2⟩ := ih (fun x hx => hwf x (by simp [hx])) ht
        have hmin := encodeElem_minLen hie he
        refine ⟨?_, ?_⟩
        · simp only [List.map_cons, decodeRecord, List.append_assoc]
          rw [C15.decode_encode _ hie he]
          simp [ih1]
        · simp [minRecordLen] at ih2 ⊢; omega

end Ipfix

namespace Ipfix
open Outcome

/-- an element that can be encoded at all occupies at least one byte in a data record -/
theorem encodable_minLen_pos {ie : IE} {v : Value} {bs : Bytes} (hwf : ie.WF) (h : encodeElem ie v = some bs) :
    0 < ie.minLen := by
  obtain ⟨name, id, ty, ent, len⟩ := ie
  cases ty <;> cases v <;> simp [encodeElem, DataType.width, IE.WF] at h hwf <;>
    simp [IE.minLen] <;> (try (subst hwf; simp))
  case octetArray.bytes b => by_cases h3 : len = 65535 <;> simp [h3]; omega

/-- all records of a data set, encoded one after the other, are read back by the record loop -/
theorem decodeRecordsFuel_encode (ies : List IE) (hmin : 0 < minRecordLen ies) (hwf : ∀ ie ∈ ies, ie.WF)
    (recs : List (List Elem)) (bodies : List Bytes)
    (hshape : ∀ r ∈ recs, r.map (·.1) = ies)
    (henc : recs.map encodeRecord = bodies.map some) (fuel : Nat) (hf : bodies.flatten.length < fuel) :
    decodeRecordsFuel .keep ies fuel bodies.flatten =
      .ok (recs.map fun r => r.map fun e => C15.canon e.1 e.2) := by
  induction recs generalizing bodies fuel with
  | nil =>
    cases bodies with
    | nil =>
      cases fuel with
      | zero => omega
      | succ f => simp [decodeRecordsFuel, hmin]
    | cons b bs => simp at henc
  | cons r rs ih =>
    cases bodies with
    | nil => simp at henc
    | cons b bs =>
      simp at henc
      obtain ⟨hb, hbs⟩ := henc
      cases fuel with
      | zero => omega
      | succ f =>
        have hr : r.map (·.1) = ies := hshape r (by simp)
        have hwfr : ∀ e ∈ r, e.1.WF := by
          intro e he
          apply hwf
          rw [← hr]
          exact List.mem_map_of_mem he
        obtain ⟨hdec, hlen⟩ := decodeRecord_encodeRecord (bs.flatten) hwfr hb
        rw [hr] at hdec hlen
        unfold decodeRecordsFuel
        have hnot : ¬ ((b :: bs).flatten.length < minRecordLen ies) := by
          have : (b :: bs).flatten.length = b.length + bs.flatten.length := by simp
          omega
        rw [if_neg hnot]
        simp only [List.flatten_cons, hdec, bind_ok]
        have hfl : (b :: bs).flatten.length = b.length + bs.flatten.length := by simp
        have := ih bs (fun x hx => hshape x (by simp [hx])) hbs f (by omega)
        simp [this]

end Ipfix
