/-
  Helper lemmas for C20 (Model/Store.lean, Spec/C20.lean): `takeLast`, the bounded append,
  `String.join`, the substring test of the Spec, membership in the rendered lines.
-/
import IpfixModel.Model.Store
import IpfixModel.Spec.C20
namespace Ipfix
open Ipfix.Store

/-! ## takeLast -/

theorem takeLast_length {α : Type} (n : Nat) (l : List α) : (takeLast n l).length = min n l.length := by
  simp [takeLast]; omega

theorem takeLast_of_length_le {α : Type} {n : Nat} {l : List α} (h : l.length ≤ n) : takeLast n l = l := by
  simp [takeLast, Nat.sub_eq_zero_of_le h]

@[simp] theorem takeLast_nil {α : Type} (n : Nat) : takeLast n ([] : List α) = [] := by simp [takeLast]

theorem takeLast_takeLast {α : Type} {m n : Nat} (l : List α) (h : m ≤ n) :
    takeLast m (takeLast n l) = takeLast m l := by
  simp only [takeLast, List.length_drop, List.drop_drop]
  congr 1; omega

/-- appending one element to a list and keeping the last `n`, in terms of the last `n` before -/
theorem takeLast_snoc {α : Type} {n : Nat} (hn : 0 < n) (l : List α) (e : α) :
    takeLast n (l ++ [e]) =
      if (takeLast n l).length ≥ n then (takeLast n l).drop 1 ++ [e] else takeLast n l ++ [e] := by
  rw [takeLast_length]
  by_cases h : n ≤ l.length
  · have h1 : min n l.length ≥ n := by omega
    simp only [h1, if_true, takeLast, List.length_append, List.length_singleton, List.drop_drop]
    rw [List.drop_append_of_le_length (by omega)]
    congr 2; omega
  · have h1 : ¬ (min n l.length ≥ n) := by omega
    simp only [h1, if_false, takeLast, List.length_append, List.length_singleton]
    have h2 : l.length + 1 - n = 0 := by omega
    have h3 : l.length - n = 0 := by omega
    simp [h2, h3]

/-! ## the bounded append -/

namespace Store

theorem cap_pos : 0 < cap := by decide

theorem add_length_le {s : Store} (e : String) (h : s.items.length ≤ cap) : (s.add e).items.length ≤ cap := by
  have := cap_pos
  unfold add; split <;> simp <;> omega

theorem add_length {s : Store} (e : String) (h : s.items.length ≤ cap) :
    (s.add e).items.length = min cap (s.items.length + 1) := by
  have := cap_pos
  unfold add; split <;> simp <;> omega

/-- the store stays the window of the arrivals when a message arrives -/
theorem add_window {s : Store} {acc : List String} (e : String) (h : s.items = takeLast cap acc) :
    (s.add e).items = takeLast cap (acc ++ [e]) := by
  rw [takeLast_snoc cap_pos, ← h]
  unfold add; split <;> simp_all

theorem query_eq (s : Store) (count : Option Nat) :
    s.query count = takeLast (match count with | none => s.items.length | some n => min n s.items.length) s.items := by
  cases count with
  | none => simp [query, takeLast]
  | some n =>
    simp only [query, takeLast]
    congr 2
    split <;> omega

end Store

/-! ## String.join -/

theorem String.foldl_append_init (l : List String) (a : String) :
    List.foldl (fun r s => r ++ s) a l = a ++ String.join l := by
  induction l generalizing a with
  | nil => simp [String.join]
  | cons x xs ih =>
    simp only [String.join, List.foldl_cons]
    rw [ih (a ++ x), ih ("" ++ x)]
    simp [String.append_assoc]

theorem String.join_cons' (x : String) (xs : List String) : String.join (x :: xs) = x ++ String.join xs := by
  simp only [String.join, List.foldl_cons]
  rw [String.foldl_append_init]; simp [String.join]

theorem String.join_append' (a b : List String) : String.join (a ++ b) = String.join a ++ String.join b := by
  induction a with
  | nil => simp [String.join]
  | cons x xs ih => simp [ih, String.append_assoc]

/-- a member of a list of pieces is a contiguous piece of the concatenation -/
theorem String.join_of_mem {x : String} {l : List String} (h : x ∈ l) :
    ∃ pre post, String.join l = pre ++ x ++ post := by
  obtain ⟨a, b, rfl⟩ := List.append_of_mem h
  exact ⟨String.join a, String.join b, by simp [String.append_assoc]⟩

/-! ## the substring test -/

namespace C20

theorem infixB_prefix (p post : List Char) : infixB p (p ++ post) = true := by
  cases h : p ++ post with
  | nil =>
    have : p = [] := by
      cases p with
      | nil => rfl
      | cons _ _ => simp at h
    simp [infixB, this]
  | cons c s =>
    simp only [infixB, Bool.or_eq_true]
    left; rw [← h, List.isPrefixOf_iff_prefix]; exact List.prefix_append p post

theorem infixB_append (pre p post : List Char) : infixB p (pre ++ (p ++ post)) = true := by
  induction pre with
  | nil => simpa using infixB_prefix p post
  | cons c pre ih => simp [infixB, ih]

theorem occursIn_of_eq {line entry pre post : String} (h : entry = pre ++ line ++ post) :
    occursIn line entry = true := by
  subst h
  simp only [occursIn, String.toList_append, List.append_assoc]
  exact infixB_append _ _ _

theorem occursIn_render_of_mem {line : String} {m : Msg} (h : line ∈ renderLines m) :
    occursIn line (render m) = true := by
  obtain ⟨pre, post, hj⟩ := String.join_of_mem h
  exact occursIn_of_eq (by simpa [render] using hj)

/-! ## rendered lines -/

theorem mem_recLines {isT : Bool} {r : List (IE × Value)} {f : IE × Value} (hf : f ∈ r) :
    ∀ (rs : List (List (IE × Value))) (i : Nat), r ∈ rs → elemLine isT f ∈ recLines isT i rs := by
  intro rs
  induction rs with
  | nil => intro i h; simp at h
  | cons r' rs ih =>
    intro i h
    simp only [recLines, List.mem_cons, List.mem_append, List.mem_map]
    rcases List.mem_cons.mp h with rfl | h
    · right; left; exact ⟨f, hf, rfl⟩
    · right; right; exact ih (i + 1) h

theorem mem_renderLines {m : Msg} {r : List (IE × Value)} {f : IE × Value} (hr : r ∈ m.records) (hf : f ∈ r) :
    elemLine m.isTemplate f ∈ renderLines m := by
  simp only [renderLines, List.mem_append]
  right; exact mem_recLines hf _ _ hr

/-! ## the tracker of the Spec -/

theorem window_eq_takeLast (t : Tracker) : t.window = takeLast cap t.arrivals := by
  simp only [Tracker.window, Tracker.arrivals, takeLast, List.length_reverse]
  have := @List.take_reverse _ t.rev.reverse cap
  simp only [List.reverse_reverse, List.length_reverse] at this
  rw [this, List.reverse_reverse]

end C20
end Ipfix
