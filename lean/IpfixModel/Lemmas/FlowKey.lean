/-
  Helper lemmas for the flow key (Model/FlowKey.lean): the walk equals its closed form, and two
  address values print alike exactly when they are the same address.
-/
import IpfixModel.Model.FlowKey
namespace Ipfix.FlowKey

theorem keyLoop_eq_flowKey (r : KeyRec) : keyLoop r = flowKey r := by
  obtain ⟨sp, dp, pr, s4, d4, s6, d6⟩ := r
  cases sp <;> cases dp <;> cases pr <;> cases s4 <;> cases d4 <;> cases s6 <;> cases d6 <;> rfl

/-- an address value in the form every comparison can use: its 16-byte form when it has one, else the
    bytes as they are -/
def canon (b : Bytes) : Bytes := (to16 b).getD b

theorem canon_len4 {b : Bytes} (h : b.length = 4) : canon b = v4InV6Prefix ++ b := by
  simp [canon, to16, h]

theorem canon_len16 {b : Bytes} (h : b.length = 16) : canon b = b := by
  simp [canon, to16, h]

theorem canon_other {b : Bytes} (h4 : b.length ≠ 4) (h16 : b.length ≠ 16) : canon b = b := by
  simp [canon, to16, h4, h16]

theorem ipText_len4 {b : Bytes} (h : b.length = 4) : ipText b = .v4 b := by
  simp [ipText, to4, h]

theorem ipText_len16_mapped {b : Bytes} (h : b.length = 16) (hp : b.take 12 = v4InV6Prefix) :
    ipText b = .v4 (b.drop 12) := by
  simp [ipText, to4, h, hp]

theorem ipText_len16_plain {b : Bytes} (h : b.length = 16) (hp : b.take 12 ≠ v4InV6Prefix) :
    ipText b = .v6 b := by
  simp [ipText, to4, h, hp]

theorem ipText_other {b : Bytes} (h4 : b.length ≠ 4) (h16 : b.length ≠ 16) :
    ipText b = if b.length = 0 then .nil else .bad b := by
  simp [ipText, h4, h16]

theorem prefix_len : v4InV6Prefix.length = 12 := rfl

theorem mapped_eq {b : Bytes} (hp : b.take 12 = v4InV6Prefix) : v4InV6Prefix ++ b.drop 12 = b := by
  rw [← hp]; exact List.take_append_drop 12 b

/-- the texts of two address values agree exactly when the values are the same address -/
theorem ipText_eq_iff (a b : Bytes) : ipText a = ipText b ↔ canon a = canon b := by
  by_cases ha4 : a.length = 4
  · rw [ipText_len4 ha4, canon_len4 ha4]
    by_cases hb4 : b.length = 4
    · rw [ipText_len4 hb4, canon_len4 hb4]
      simp
    · by_cases hb16 : b.length = 16
      · rw [canon_len16 hb16]
        by_cases hp : b.take 12 = v4InV6Prefix
        · rw [ipText_len16_mapped hb16 hp]
          constructor
          · intro h
            have : a = b.drop 12 := by simpa using h
            rw [this, mapped_eq hp]
          · intro h
            have h2 : v4InV6Prefix ++ a = v4InV6Prefix ++ b.drop 12 := by rw [mapped_eq hp]; exact h
            simpa using h2
        · rw [ipText_len16_plain hb16 hp]
          constructor
          · intro h; simp at h
          · intro h
            exfalso; apply hp
            rw [← h]; exact List.take_left' prefix_len
      · rw [ipText_other hb4 hb16, canon_other hb4 hb16]
        constructor
        · intro h; split at h <;> cases h
        · intro h
          exfalso; apply hb16
          rw [← h]; simp [prefix_len, ha4]
  · by_cases ha16 : a.length = 16
    · rw [canon_len16 ha16]
      by_cases hpa : a.take 12 = v4InV6Prefix
      · rw [ipText_len16_mapped ha16 hpa]
        by_cases hb4 : b.length = 4
        · rw [ipText_len4 hb4, canon_len4 hb4]
          constructor
          · intro h
            have : a.drop 12 = b := by simpa using h
            rw [← this, mapped_eq hpa]
          · intro h
            have h2 : v4InV6Prefix ++ a.drop 12 = v4InV6Prefix ++ b := by rw [mapped_eq hpa]; exact h
            simpa using h2
        · by_cases hb16 : b.length = 16
          · rw [canon_len16 hb16]
            by_cases hpb : b.take 12 = v4InV6Prefix
            · rw [ipText_len16_mapped hb16 hpb]
              constructor
              · intro h
                have : a.drop 12 = b.drop 12 := by simpa using h
                rw [← mapped_eq hpa, ← mapped_eq hpb, this]
              · intro h; rw [h]
            · rw [ipText_len16_plain hb16 hpb]
              constructor
              · intro h; simp at h
              · intro h; exfalso; apply hpb; rw [← h]; exact hpa
          · rw [ipText_other hb4 hb16, canon_other hb4 hb16]
            constructor
            · intro h; split at h <;> cases h
            · intro h; exfalso; apply hb16; rw [← h]; exact ha16
      · rw [ipText_len16_plain ha16 hpa]
        by_cases hb4 : b.length = 4
        · rw [ipText_len4 hb4, canon_len4 hb4]
          constructor
          · intro h; simp at h
          · intro h; exfalso; apply hpa; rw [h]; exact List.take_left' prefix_len
        · by_cases hb16 : b.length = 16
          · rw [canon_len16 hb16]
            by_cases hpb : b.take 12 = v4InV6Prefix
            · rw [ipText_len16_mapped hb16 hpb]
              constructor
              · intro h; simp at h
              · intro h; exfalso; apply hpa; rw [h]; exact hpb
            · rw [ipText_len16_plain hb16 hpb]
              simp
          · rw [ipText_other hb4 hb16, canon_other hb4 hb16]
            constructor
            · intro h; split at h <;> cases h
            · intro h; exfalso; apply hb16; rw [← h]; exact ha16
    · rw [ipText_other ha4 ha16, canon_other ha4 ha16]
      by_cases hb4 : b.length = 4
      · rw [ipText_len4 hb4, canon_len4 hb4]
        constructor
        · intro h; split at h <;> cases h
        · intro h; exfalso; apply ha16; rw [h]; simp [prefix_len, hb4]
      · by_cases hb16 : b.length = 16
        · rw [canon_len16 hb16]
          constructor
          · intro h
            by_cases hpb : b.take 12 = v4InV6Prefix
            · rw [ipText_len16_mapped hb16 hpb] at h; split at h <;> simp at h
            · rw [ipText_len16_plain hb16 hpb] at h; split at h <;> simp at h
          · intro h; exfalso; apply ha16; rw [h]; exact hb16
        · rw [ipText_other hb4 hb16, canon_other hb4 hb16]
          constructor
          · intro h
            by_cases ha0 : a.length = 0 <;> by_cases hb0 : b.length = 0
            · rw [List.length_eq_zero_iff] at ha0 hb0; rw [ha0, hb0]
            · simp [ha0, hb0] at h
            · simp [ha0, hb0] at h
            · simpa [ha0, hb0] using h
          · intro h; rw [h]

theorem flowKey_some_iff (r : KeyRec) :
    (flowKey r).isSome = (r.sport.isSome && r.dport.isSome && r.proto.isSome &&
      (r.src4.isSome || r.src6.isSome) && (r.dst4.isSome || r.dst6.isSome)) := by
  obtain ⟨sp, dp, pr, s4, d4, s6, d6⟩ := r
  cases sp <;> cases dp <;> cases pr <;> cases s4 <;> cases d4 <;> cases s6 <;> cases d6 <;> rfl

theorem flowKey_some {r : KeyRec} {k : Key} {f : Bool} (h : flowKey r = some (k, f)) :
    ∃ sp dp pr s d, r.sport = some sp ∧ r.dport = some dp ∧ r.proto = some pr ∧
      sideAddr r.src4 r.src6 = some s ∧ sideAddr r.dst4 r.dst6 = some d ∧
      k = { src := ipText s, dst := ipText d, proto := pr, sport := sp, dport := dp } ∧
      f = (r.src4.isSome && r.dst4.isSome) := by
  unfold flowKey at h
  split at h
  · next sp dp pr s d e1 e2 e3 e4 e5 =>
    simp only [Option.some.injEq, Prod.mk.injEq] at h
    exact ⟨sp, dp, pr, s, d, e1, e2, e3, e4, e5, h.1.symm, h.2.symm⟩
  · cases h

theorem flowKey_eq_iff (r1 r2 : KeyRec) (k1 k2 : Key) (f1 f2 : Bool)
    (h1 : flowKey r1 = some (k1, f1)) (h2 : flowKey r2 = some (k2, f2)) :
    k1 = k2 ↔ sameTuple r1 r2 = true := by
  obtain ⟨sp1, dp1, pr1, s1, d1, a1, a2, a3, a4, a5, hk1, -⟩ := flowKey_some h1
  obtain ⟨sp2, dp2, pr2, s2, d2, b1, b2, b3, b4, b5, hk2, -⟩ := flowKey_some h2
  subst hk1 hk2
  simp only [sameTuple, a1, a2, a3, a4, a5, b1, b2, b3, b4, b5]
  simp
  constructor
  · rintro ⟨a, b, c, d, e⟩; exact ⟨⟨⟨⟨d, e⟩, c⟩, a⟩, b⟩
  · rintro ⟨⟨⟨⟨d, e⟩, c⟩, a⟩, b⟩; exact ⟨a, b, c, d, e⟩

end Ipfix.FlowKey
