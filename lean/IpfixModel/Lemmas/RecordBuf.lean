/-
  Lemmas about the exact model of `dataRecord.GetBuffer()` (Model/RecordBuf.lean):
  the buffer keeps its length through every step, and on everything the specification encoder
  `encodeRecord` accepts the exact model writes exactly the specified bytes.
-/
import IpfixModel.Model.RecordBuf
import IpfixModel.Lemmas.IE
namespace Ipfix

/-! ## `writeAt`: Go's `copy` never changes the length of the destination -/

@[simp] theorem writeAt_length (buf : Bytes) (idx : Nat) (bs : Bytes) :
    (writeAt buf idx bs).length = buf.length := by
  simp only [writeAt, List.length_append, List.length_take, List.length_drop]
  omega

/-- a write that fits: the bytes land behind the `idx` bytes before them, what follows is kept -/
theorem writeAt_append (pre rest b : Bytes) (h : b.length ≤ rest.length) :
    writeAt (pre ++ rest) pre.length b = pre ++ b ++ rest.drop b.length := by
  have h1 : (pre ++ rest).length - pre.length = rest.length := by simp
  have h2 : b.take rest.length = b := List.take_of_length_le h
  have h3 : (pre ++ rest).drop (pre.length + b.length) = rest.drop b.length := by
    rw [← List.drop_drop]; simp
  simp only [writeAt, h1, h2, h3, List.take_left']

theorem encodeAt_length {ie : IE} {v : Value} {buf buf' : Bytes} {idx : Nat}
    (h : encodeAt ie v buf idx = some buf') : buf'.length = buf.length := by
  unfold encodeAt at h
  by_cases h1 : idx + elemLength ie v > buf.length
  · simp [h1] at h
  · by_cases h2 : elemLength ie v < ie.ty.needWidth
    · simp [h1, h2] at h
    · simp only [h1, h2, if_false] at h
      cases hr : rawWrite ie v with
      | none => simp [hr] at h
      | some b => simp [hr] at h; subst h; simp

theorem encodeAt_getD_length (ie : IE) (v : Value) (buf : Bytes) (idx : Nat) :
    ((encodeAt ie v buf idx).getD buf).length = buf.length := by
  cases h : encodeAt ie v buf idx with
  | none => rfl
  | some b => simpa using encodeAt_length h

/-- the loop of `GetBuffer` never changes the length of the buffer it was given -/
theorem recordBufFrom_length (es : List Elem) (buf : Bytes) (idx : Nat) :
    (recordBufFrom buf idx es).length = buf.length := by
  induction es generalizing buf idx with
  | nil => rfl
  | cons e t ih =>
    obtain ⟨ie, v⟩ := e
    simp only [recordBufFrom]
    rw [ih, encodeAt_getD_length]

theorem recordBuf_length' (es : List Elem) : (recordBuf es).length = recordLength es := by
  simp [recordBuf, recordBufFrom_length]

/-! ## Agreement with the specification encoder -/

/-- the bytes written for an element are exactly its reported length
    (`C15.encode_length`, proved here again: Props/C15.lean imports this file) -/
theorem encodeElem_length {ie : IE} {v : Value} {bs : Bytes} (h : encodeElem ie v = some bs) :
    bs.length = elemLength ie v := by
  obtain ⟨name, id, ty, ent, len⟩ := ie
  cases ty <;> cases v <;> simp [encodeElem, elemLength, DataType.width] at h ⊢
  case octetArray.bytes b =>
    by_cases hfix : len < 65535
    · simp [hfix] at h ⊢
      obtain ⟨hl, rfl⟩ := h; exact hl
    · simp [hfix] at h ⊢; exact encodeVar_length h
  case string.bytes b => exact encodeVar_length h
  case boolean.bool b => obtain ⟨rfl, rfl⟩ := h; simp
  case macAddress.bytes b => obtain ⟨⟨rfl, h6⟩, rfl⟩ := h; exact h6
  case ipv4Address.bytes b => obtain ⟨rfl, h⟩ := h; exact to4_length h
  case ipv6Address.bytes b => obtain ⟨rfl, h⟩ := h; exact to16_length h
  all_goals (obtain ⟨⟨rfl, _⟩, rfl⟩ := h; simp)

/-- what the specification encoder accepts, the per-type switch of the code writes as well -/
theorem rawWrite_of_encodeElem {ie : IE} {v : Value} {bs : Bytes} (h : encodeElem ie v = some bs) :
    rawWrite ie v = some bs := by
  obtain ⟨name, id, ty, ent, len⟩ := ie
  cases ty <;> cases v <;> simp [encodeElem, rawWrite, DataType.width] at h ⊢
  case octetArray.bytes b => exact h
  case string.bytes b => exact h
  case boolean.bool b => exact h.2
  case macAddress.bytes b => exact h.2
  case ipv4Address.bytes b => exact h.2
  case ipv6Address.bytes b => exact h.2
  all_goals exact h.2

/-- ... and check (2) lets it through: the specification encoder insists on the natural width -/
theorem needWidth_le_of_encodeElem {ie : IE} {v : Value} {bs : Bytes} (h : encodeElem ie v = some bs) :
    ie.ty.needWidth ≤ elemLength ie v := by
  obtain ⟨name, id, ty, ent, len⟩ := ie
  cases ty <;> cases v <;>
    simp [encodeElem, elemLength, DataType.width, DataType.needWidth] at h ⊢ <;> omega

/-- one step of the loop on an element the specification encoder accepts: its bytes replace the
    next `elemLength` bytes of the buffer -/
theorem encodeAt_of_encodeElem {ie : IE} {v : Value} {b : Bytes} (h : encodeElem ie v = some b)
    (pre rest : Bytes) (hr : b.length ≤ rest.length) :
    encodeAt ie v (pre ++ rest) pre.length = some (pre ++ b ++ rest.drop b.length) := by
  have hl := encodeElem_length h
  have hw := needWidth_le_of_encodeElem h
  unfold encodeAt
  rw [if_neg (by simp only [List.length_append]; omega), if_neg (by omega), rawWrite_of_encodeElem h]
  simp [writeAt_append pre rest b hr]

/-- the loop started behind `pre`, with exactly the record's length still to fill -/
theorem recordBufFrom_eq_encodeRecord (es : List Elem) (bs : Bytes) (h : encodeRecord es = some bs)
    (pre rest : Bytes) (hr : rest.length = bs.length) :
    recordBufFrom (pre ++ rest) pre.length es = pre ++ bs := by
  induction es generalizing bs pre rest with
  | nil =>
    simp [encodeRecord] at h; subst h
    simp at hr
    simp [recordBufFrom, hr]
  | cons e t ih =>
    obtain ⟨ie, v⟩ := e
    simp only [encodeRecord] at h
    cases he : encodeElem ie v with
    | none => simp [he] at h
    | some b =>
      cases ht : encodeRecord t with
      | none => simp [he, ht] at h
      | some bs' =>
        simp [he, ht] at h; subst h
        have hb : b.length ≤ rest.length := by rw [hr]; simp
        simp only [recordBufFrom, encodeAt_of_encodeElem he pre rest hb, Option.getD_some]
        have hl := encodeElem_length he
        have := ih bs' ht (pre ++ b) (rest.drop b.length) (by simp [hr])
        rw [← hl]
        simpa using this

/-- the specification encoder's output has the reported length of the record -/
theorem encodeRecord_length (es : List Elem) (bs : Bytes) (h : encodeRecord es = some bs) :
    bs.length = recordLength es := by
  induction es generalizing bs with
  | nil => simp [encodeRecord] at h; subst h; rfl
  | cons e t ih =>
    obtain ⟨ie, v⟩ := e
    simp only [encodeRecord] at h
    cases he : encodeElem ie v with
    | none => simp [he] at h
    | some b =>
      cases ht : encodeRecord t with
      | none => simp [he, ht] at h
      | some bs' =>
        simp [he, ht] at h; subst h
        have := ih bs' ht
        simp [recordLength, encodeElem_length he] at this ⊢
        rw [this]

theorem recordBuf_eq_encodeRecord' (es : List Elem) (bs : Bytes) (h : encodeRecord es = some bs) :
    recordBuf es = bs := by
  have hlen := encodeRecord_length es bs h
  have := recordBufFrom_eq_encodeRecord es bs h [] (List.replicate (recordLength es) 0) (by simp [hlen])
  simpa [recordBuf] using this

end Ipfix
