/-
  "Earliest deadline first" for a whole expiry scan: the flows handed to the callback during one
  ForAllExpiredFlowRecordsDo are handed over in non-decreasing order of the deadline they were
  queued with. The heap loses items during the loop and gains none (re-queued items wait in the
  deferred list), so every pop returns the least of what is left.
-/
import IpfixModel.Lemmas.Sched
namespace Ipfix.Agg

@[simp] theorem del_pq (s : State) (k : Nat) : (s.del k).pq = s.pq := rfl

/-- the items behind the callbacks `scanLoop` adds: drawn from the queue it started with, in
    non-decreasing deadline order -/
theorem scanLoop_callbacks_ordered (fail : Nat → Bool) (ra : Bool) (fuel : Nat) (s : State) (tp : List Item)
    (o : ScanOut) (ho : Heap.Ordered Item.deadline s.pq) :
    ∃ its : List Item,
      (scanLoop fail ra fuel s tp o).2.2.callbacks.map (·.1) = o.callbacks.map (·.1) ++ its.map (·.key) ∧
      (∀ it ∈ its, it ∈ s.pq.toList) ∧ its.Pairwise (fun a b => a.deadline ≤ b.deadline) := by
  fun_induction scanLoop fail ra fuel s tp o with
  | case1 s tp o => exact ⟨[], by simp, by simp, List.Pairwise.nil⟩
  | case2 fuel s tp o h0 => exact ⟨[], by simp, by simp, List.Pairwise.nil⟩
  | case3 fuel s tp o h0 top htop => exact ⟨[], by simp, by simp, List.Pairwise.nil⟩
  | case4 fuel s tp o h0 top hdue hpop => exact ⟨[], by simp, by simp, List.Pairwise.nil⟩
  | case5 fuel s tp o h0 top hdue it pq' hpop s1 hfind ih =>
    obtain ⟨ho', _, _⟩ := Heap.pop_ordered Item.deadline ho hpop
    have hperm := Heap.pop_perm Item.deadline hpop
    obtain ⟨its, h1, h2, h3⟩ := ih ho'
    exact ⟨its, h1, fun x hx => hperm.mem_iff.mpr (List.mem_cons_of_mem _ (h2 x hx)), h3⟩
  | case6 fuel s tp o h0 top hdue it pq' hpop s1 a hfind hnr a' hret ih =>
    obtain ⟨ho', _, _⟩ := Heap.pop_ordered Item.deadline ho hpop
    have hperm := Heap.pop_perm Item.deadline hpop
    obtain ⟨its, h1, h2, h3⟩ := ih (by rw [del_pq]; exact ho')
    exact ⟨its, h1, fun x hx => hperm.mem_iff.mpr (List.mem_cons_of_mem _ (by simpa using h2 x hx)), h3⟩
  | case7 fuel s tp o h0 top hdue it pq' hpop s1 a hfind hnr a' hret ih =>
    obtain ⟨ho', _, _⟩ := Heap.pop_ordered Item.deadline ho hpop
    have hperm := Heap.pop_perm Item.deadline hpop
    obtain ⟨its, h1, h2, h3⟩ := ih (by rw [set_pq]; exact ho')
    exact ⟨its, h1, fun x hx => hperm.mem_iff.mpr (List.mem_cons_of_mem _ (by simpa using h2 x hx)), h3⟩
  | case8 fuel s tp o h0 top hdue it pq' hpop s1 a hfind hr hfail =>
    have hperm := Heap.pop_perm Item.deadline hpop
    refine ⟨[it], by simp, ?_, List.pairwise_singleton _ _⟩
    intro x hx
    rw [List.mem_singleton.mp hx]
    exact hperm.mem_iff.mpr List.mem_cons_self
  | case9 fuel s tp o h0 top hdue it pq' hpop s1 a hfind hr hfail o1 s2 hin ih =>
    obtain ⟨ho', hmin, _⟩ := Heap.pop_ordered Item.deadline ho hpop
    have hperm := Heap.pop_perm Item.deadline hpop
    have hpq2 : s2.pq = pq' := ite_set_pq ra _ _ _
    obtain ⟨its, h1, h2, h3⟩ := ih (by rw [del_pq, hpq2]; exact ho')
    have h2' : ∀ x ∈ its, x ∈ pq'.toList := fun x hx => by have := h2 x hx; rwa [del_pq, hpq2] at this
    refine ⟨it :: its, ?_, ?_, ?_⟩
    · rw [h1]; simp [o1]
    · intro x hx
      rcases List.mem_cons.mp hx with h | h
      · rw [h]; exact hperm.mem_iff.mpr List.mem_cons_self
      · exact hperm.mem_iff.mpr (List.mem_cons_of_mem _ (h2' x h))
    · exact List.pairwise_cons.mpr ⟨fun y hy => hmin y (h2' y hy), h3⟩
  | case10 fuel s tp o h0 top hdue it pq' hpop s1 a hfind hr hfail o1 s2 hin ih =>
    obtain ⟨ho', hmin, _⟩ := Heap.pop_ordered Item.deadline ho hpop
    have hperm := Heap.pop_perm Item.deadline hpop
    have hpq2 : s2.pq = pq' := ite_set_pq ra _ _ _
    obtain ⟨its, h1, h2, h3⟩ := ih (by rw [hpq2]; exact ho')
    have h2' : ∀ x ∈ its, x ∈ pq'.toList := fun x hx => by have := h2 x hx; rwa [hpq2] at this
    refine ⟨it :: its, ?_, ?_, ?_⟩
    · rw [h1]; simp [o1]
    · intro x hx
      rcases List.mem_cons.mp hx with h | h
      · rw [h]; exact hperm.mem_iff.mpr List.mem_cons_self
      · exact hperm.mem_iff.mpr (List.mem_cons_of_mem _ (h2' x h))
    · exact List.pairwise_cons.mpr ⟨fun y hy => hmin y (h2' y hy), h3⟩

/-- one whole scan: the callbacks come in non-decreasing order of the queued deadline -/
theorem scan_callbacks_ordered (s : State) (fail : Nat → Bool) (ra : Bool) (h : Sched s) :
    ∃ its : List Item, (scan s fail ra).2.callbacks.map (·.1) = its.map (·.key) ∧
      (∀ it ∈ its, it ∈ s.pq.toList) ∧ its.Pairwise (fun a b => a.deadline ≤ b.deadline) := by
  obtain ⟨its, h1, h2, h3⟩ := scanLoop_callbacks_ordered fail ra (s.pq.size + 1) s [] {} h.loopInv.2.2
  refine ⟨its, ?_, h2, h3⟩
  rw [scan_snd]
  simpa using h1

end Ipfix.Agg
