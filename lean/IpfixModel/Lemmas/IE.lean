import IpfixModel.Model.IE
namespace Ipfix

@[simp] theorem VariableLength_eq : VariableLength = 65535 := rfl

theorem be_two (n : Nat) : be 2 n = [UInt8.ofNat (n / 256 % 256), UInt8.ofNat (n % 256)] := by
  simp [be]

theorem u8_ofNat_toNat_lt (n : Nat) (h : n < 256) : (UInt8.ofNat n).toNat = n := by
  simp [UInt8.toNat_ofNat']; omega

theorem encodeVar_length {b bs : Bytes} (h : encodeVar b = some bs) : bs.length = varLen b.length := by
  unfold encodeVar at h
  unfold varLen
  split at h
  · simp at h; subst h; simp [*]
  · split at h
    · simp at h; subst h; simp [*]; omega
    · cases h

/-- reading back a variable-length encoding consumes exactly what was written -/
theorem readVar_encodeVar {b bs rest : Bytes} (ie : IE) (hl : ie.len = VariableLength)
    (h : encodeVar b = some bs) :
    readFieldLength ie (bs ++ rest) = .ok (b.length, b ++ rest) := by
  unfold encodeVar at h
  unfold readFieldLength
  simp only [hl, if_true]
  split at h
  · rename_i hlt
    simp at h; subst h
    simp [u8_ofNat_toNat_lt _ (by omega : b.length < 256), hlt]
  · rename_i hge
    split at h
    · rename_i hle
      simp at h; subst h
      simp only [List.cons_append, be_two]
      simp only [List.cons_append, List.nil_append]
      have h1 : (UInt8.ofNat (b.length / 256 % 256)).toNat = b.length / 256 := by
        rw [u8_ofNat_toNat_lt _ (by omega)]; omega
      have h2 : (UInt8.ofNat (b.length % 256)).toNat = b.length % 256 := u8_ofNat_toNat_lt _ (by omega)
      rw [h1, h2]
      have : b.length / 256 * 256 + b.length % 256 = b.length := by omega
      rw [this]
      have h255 : (255 : UInt8).toNat = 255 := rfl
      simp [h255]
    · cases h

end Ipfix

namespace Ipfix
theorem to4_length {b bs : Bytes} (h : to4 b = some bs) : bs.length = 4 := by
  unfold to4 at h
  split at h
  · simp at h; subst h; assumption
  · split at h
    · rename_i h16; simp at h; subst h; simp [h16.1]
    · cases h

theorem to16_length {b bs : Bytes} (h : to16 b = some bs) : bs.length = 16 := by
  unfold to16 at h
  split at h
  · rename_i h4; simp at h; subst h; simp [v4InV6Prefix, h4]
  · split at h
    · simp at h; subst h; assumption
    · cases h

/-- the read-back of a fixed-length field -/
theorem decodeField_fixed (ie : IE) (bs rest : Bytes) (hne : ie.len ≠ VariableLength)
    (hlen : bs.length = ie.len) :
    decodeField ie (bs ++ rest) =
      (decodeElem ie bs >>= fun v => .ok (v, rest)) := by
  have hne' : ¬ bs.length = 65535 := by rw [hlen]; simpa using hne
  simp [decodeField, readFieldLength, ← hlen, hne']
  intro h; omega

/-- the read-back of a variable-length field written by `encodeVar` -/
theorem decodeField_var (ie : IE) (b bs rest : Bytes) (hl : ie.len = VariableLength)
    (h : encodeVar b = some bs) :
    decodeField ie (bs ++ rest) =
      (decodeElem ie b >>= fun v => .ok (v, rest)) := by
  have : ¬ (b.length + rest.length < b.length) := by omega
  simp [decodeField, readVar_encodeVar ie hl h, this]
end Ipfix

namespace Ipfix
@[simp] theorem take_be (w n : Nat) : (be w n).take w = be w n :=
  List.take_of_length_le (by simp)
end Ipfix
