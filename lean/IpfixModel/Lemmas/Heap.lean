/-
  Lemmas about the container/heap model (IpfixModel/Model/Heap.lean): permutation and size facts
  for up / down / push / pop / fix, and preservation of the heap order (`Ordered`) by push, pop
  and fix. The sift loops are handled with the usual weakened invariants: `UpInv a j` (ordered
  except for the edge into `j`) and `DownInv a i n` (ordered on the prefix `n` except for the
  edges out of `i`).
-/
import IpfixModel.Model.Heap
namespace Ipfix.Heap
variable {α : Type} [Inhabited α] (key : α → Nat)

theorem get!_of_lt (a : Array α) (k : Nat) (h : k < a.size) : a[k]! = a[k] :=
  getElem!_pos a k h

theorem get!_of_ge (a : Array α) (k : Nat) (h : a.size ≤ k) : a[k]! = default := by
  simp [Nat.not_lt.mpr h]

omit [Inhabited α] in
theorem swap_perm (a : Array α) (i j : Nat) :
    (a.swapIfInBounds i j).toList.Perm a.toList := by
  unfold Array.swapIfInBounds
  split
  · split
    · exact Array.perm_iff_toList_perm.mp (Array.swap_perm _ _)
    · exact List.Perm.refl _
  · exact List.Perm.refl _

theorem swap_get! (a : Array α) (i j k : Nat) (hi : i < a.size) (hj : j < a.size) :
    (a.swapIfInBounds i j)[k]! = if k = i then a[j]! else if k = j then a[i]! else a[k]! := by
  by_cases hk : k < a.size
  · rw [get!_of_lt _ _ (by simpa using hk), Array.getElem_swapIfInBounds]
    rw [get!_of_lt _ _ hi, get!_of_lt _ _ hj, get!_of_lt _ _ hk]
    by_cases h1 : k = i
    · simp [h1, hj]
    · by_cases h2 : k = j
      · subst h2; simp [h1, hi]
      · simp [h1, h2]
  · have hk' : a.size ≤ k := Nat.le_of_not_lt hk
    rw [get!_of_ge _ _ (by simpa using hk')]
    have h1 : k ≠ i := by omega
    have h2 : k ≠ j := by omega
    simp [h1, h2, get!_of_ge _ _ hk']



/-! ### permutation / size facts -/

theorem up_size (fuel : Nat) (a : Array α) (j : Nat) : (up key fuel a j).size = a.size := by
  induction fuel generalizing a j with
  | zero => simp [up]
  | succ f ih =>
    unfold up
    split
    · rfl
    · simp only []
      split
      · rw [ih]; exact Array.size_swapIfInBounds
      · rfl

theorem up_perm (fuel : Nat) (a : Array α) (j : Nat) :
    (up key fuel a j).toList.Perm a.toList := by
  induction fuel generalizing a j with
  | zero => simp [up]
  | succ f ih =>
    unfold up
    split
    · exact List.Perm.refl _
    · simp only []
      split
      · exact (ih _ _).trans (swap_perm _ _ _)
      · exact List.Perm.refl _

/-- the child `down` compares against: the smaller of the (at most two) children inside the prefix -/
def child (a : Array α) (i n : Nat) : Nat :=
  if 2 * i + 1 + 1 < n ∧ key a[2 * i + 1 + 1]! < key a[2 * i + 1]! then 2 * i + 1 + 1 else 2 * i + 1

theorem down_zero (a : Array α) (i n : Nat) : down key 0 a i n = (a, i) := rfl

theorem down_succ (f : Nat) (a : Array α) (i n : Nat) :
    down key (f + 1) a i n =
      if 2 * i + 1 ≥ n then (a, i)
      else if key a[child key a i n]! < key a[i]! then
        down key f (a.swapIfInBounds i (child key a i n)) (child key a i n) n
      else (a, i) := rfl

theorem up_zero (a : Array α) (j : Nat) : up key 0 a j = a := rfl

theorem up_succ (f : Nat) (a : Array α) (j : Nat) :
    up key (f + 1) a j =
      if j = 0 then a
      else if key a[j]! < key a[(j - 1) / 2]! then
        up key f (a.swapIfInBounds ((j - 1) / 2) j) ((j - 1) / 2)
      else a := rfl

theorem down_size (fuel : Nat) (a : Array α) (i n : Nat) :
    (down key fuel a i n).1.size = a.size := by
  induction fuel generalizing a i with
  | zero => rfl
  | succ f ih =>
    rw [down_succ]
    split
    · rfl
    · split
      · rw [ih]; exact Array.size_swapIfInBounds
      · rfl

theorem down_perm (fuel : Nat) (a : Array α) (i n : Nat) :
    (down key fuel a i n).1.toList.Perm a.toList := by
  induction fuel generalizing a i with
  | zero => exact List.Perm.refl _
  | succ f ih =>
    rw [down_succ]
    split
    · exact List.Perm.refl _
    · split
      · exact (ih _ _).trans (swap_perm _ _ _)
      · exact List.Perm.refl _

theorem push_size (a : Array α) (x : α) : (push key a x).size = a.size + 1 := by
  simp [push, up_size]

theorem push_perm (a : Array α) (x : α) : (push key a x).toList.Perm (x :: a.toList) := by
  unfold push
  refine (up_perm key _ _ _).trans ?_
  rw [Array.toList_push]
  exact List.perm_append_singleton _ _

theorem pop_none_iff (a : Array α) : pop key a = none ↔ a.size = 0 := by
  unfold pop
  split <;> simp_all

theorem fix_size (a : Array α) (i : Nat) : (fix key a i).size = a.size := by
  unfold fix
  simp only []
  split
  · exact down_size key _ _ _ _
  · exact up_size key _ _ _

theorem fix_perm (a : Array α) (i : Nat) : (fix key a i).toList.Perm a.toList := by
  unfold fix
  simp only []
  split
  · exact down_perm key _ _ _ _
  · exact up_perm key _ _ _

omit [Inhabited α] in
theorem toList_eq_pop_append (b : Array α) (h : 0 < b.size) :
    b.toList = b.pop.toList ++ [b[b.size - 1]] := by
  have hne : b.toList ≠ [] := by
    intro h0
    have : b.toList.length = 0 := by rw [h0]; rfl
    rw [Array.length_toList] at this; omega
  rw [Array.toList_pop]
  have := List.dropLast_concat_getLast hne
  rw [List.getLast_eq_getElem] at this
  simpa using this.symm

theorem pop_size {a a' : Array α} {x : α} (h : pop key a = some (x, a')) :
    a'.size + 1 = a.size := by
  unfold pop at h
  split at h
  · cases h
  · simp only [Option.some.injEq, Prod.mk.injEq] at h
    rw [← h.2]
    simp [down_size]
    omega

theorem pop_perm {a a' : Array α} {x : α} (h : pop key a = some (x, a')) :
    a.toList.Perm (x :: a'.toList) := by
  unfold pop at h
  split at h
  · cases h
  · rename_i hne
    simp only [Option.some.injEq, Prod.mk.injEq] at h
    obtain ⟨hx, ha'⟩ := h
    generalize hb : (down key (a.size - 1 + 1) (a.swapIfInBounds 0 (a.size - 1)) 0 (a.size - 1)).1 = b at hx ha'
    have hbs : b.size = a.size := by
      rw [← hb, down_size]; exact Array.size_swapIfInBounds
    have hbp : b.toList.Perm a.toList := by
      rw [← hb]; exact (down_perm key _ _ _ _).trans (swap_perm _ _ _)
    have hlt : a.size - 1 < b.size := by omega
    rw [get!_of_lt _ _ hlt] at hx
    have e := toList_eq_pop_append b (by omega)
    refine hbp.symm.trans ?_
    rw [e, ← ha', ← hx]
    simp only [hbs]
    exact List.perm_append_singleton _ _

/-! ### heap order -/

/-- heap order restricted to the prefix of length `n` -/
def OrderedN (a : Array α) (n : Nat) : Prop :=
  ∀ k, 0 < k → k < n → key a[(k - 1) / 2]! ≤ key a[k]!

/-- ordered except possibly for the edge into `j`; the grandparent of `j`'s children is fine -/
def UpInv (a : Array α) (j : Nat) : Prop :=
  (∀ k, 0 < k → k < a.size → k ≠ j → key a[(k - 1) / 2]! ≤ key a[k]!) ∧
  (∀ k, 0 < k → k < a.size → (k - 1) / 2 = j → 0 < j → key a[(j - 1) / 2]! ≤ key a[k]!)

/-- ordered (on the prefix `n`) except possibly for the edges out of `i` -/
def DownInv (a : Array α) (i n : Nat) : Prop :=
  (∀ k, 0 < k → k < n → (k - 1) / 2 ≠ i → key a[(k - 1) / 2]! ≤ key a[k]!) ∧
  (∀ k, 0 < k → k < n → (k - 1) / 2 = i → 0 < i → key a[(i - 1) / 2]! ≤ key a[k]!)

theorem ordered_iff_orderedN (a : Array α) : Ordered key a ↔ OrderedN key a a.size := Iff.rfl

theorem upInv_swap (a : Array α) (j : Nat) (hj : j < a.size) (h0 : 0 < j)
    (hlt : key a[j]! < key a[(j - 1) / 2]!) (h : UpInv key a j) :
    UpInv key (a.swapIfInBounds ((j - 1) / 2) j) ((j - 1) / 2) := by
  obtain ⟨h1, h2⟩ := h
  have hij : (j - 1) / 2 < j := by omega
  generalize hi : (j - 1) / 2 = i at *
  have hb := fun k => swap_get! a i j k (by omega) hj
  constructor
  · intro k hk0 hk hki
    rw [Array.size_swapIfInBounds] at hk
    rw [hb k, hb ((k - 1) / 2)]
    by_cases hkj : k = j
    · subst hkj
      have e1 : ¬ k = i := by omega
      simp only [hi, if_pos, if_neg e1]
      simp; omega
    · simp only [if_neg hki, if_neg hkj]
      by_cases hp : (k - 1) / 2 = i
      · have := h1 k hk0 hk hkj
        rw [hp] at this
        simp only [hp, if_pos]; omega
      · simp only [if_neg hp]
        by_cases hq : (k - 1) / 2 = j
        · have := h2 k hk0 hk hq h0
          simp only [hq, if_pos]; omega
        · simp only [if_neg hq]
          exact h1 k hk0 hk hkj
  · intro k hk0 hk hki hi0
    rw [Array.size_swapIfInBounds] at hk
    rw [hb k, hb ((i - 1) / 2)]
    have e1 : ¬ (i - 1) / 2 = i := by omega
    have e2 : ¬ (i - 1) / 2 = j := by omega
    have e3 : ¬ k = i := by omega
    simp only [if_neg e1, if_neg e2, if_neg e3]
    have hpi := h1 i hi0 (by omega) (by omega)
    by_cases hkj : k = j
    · simp only [if_pos hkj]; exact hpi
    · simp only [if_neg hkj]
      have := h1 k hk0 hk hkj
      rw [hki] at this
      omega



theorem up_ordered (fuel : Nat) (a : Array α) (j : Nat) (hj : j < a.size) (hf : j < fuel)
    (h : UpInv key a j) : Ordered key (up key fuel a j) := by
  induction fuel generalizing a j with
  | zero => omega
  | succ f ih =>
    rw [up_succ]
    split
    · next hj0 =>
      intro k hk0 hk
      exact h.1 k hk0 hk (by omega)
    · next hj0 =>
      split
      · next hlt =>
        apply ih
        · rw [Array.size_swapIfInBounds]; omega
        · omega
        · exact upInv_swap key a j hj (by omega) hlt h
      · next hlt =>
        intro k hk0 hk
        by_cases hkj : k = j
        · subst hkj; omega
        · exact h.1 k hk0 hk hkj

theorem push_get!_lt (a : Array α) (x : α) (k : Nat) (hk : k < a.size) :
    (a.push x)[k]! = a[k]! := by
  rw [get!_of_lt _ _ (by simp; omega), get!_of_lt _ _ hk, Array.getElem_push]
  simp [hk]

theorem push_ordered {a : Array α} (h : Ordered key a) (x : α) :
    Ordered key (push key a x) := by
  unfold push
  apply up_ordered
  · simp
  · omega
  · constructor
    · intro k hk0 hk hkj
      have hk' : k < a.size := by simp at hk; omega
      rw [push_get!_lt _ _ _ hk', push_get!_lt _ _ _ (by omega)]
      exact h k hk0 hk'
    · intro k hk0 hk hkp
      simp at hk; omega



theorem child_spec (a : Array α) (i n : Nat) (h : 2 * i + 1 < n) :
    child key a i n < n ∧ 0 < child key a i n ∧ (child key a i n - 1) / 2 = i ∧
      ∀ k, 0 < k → k < n → (k - 1) / 2 = i → key a[child key a i n]! ≤ key a[k]! := by
  unfold child
  split
  · next hc =>
    refine ⟨hc.1, by omega, by omega, ?_⟩
    intro k hk0 hk hkp
    have : k = 2 * i + 1 ∨ k = 2 * i + 1 + 1 := by omega
    rcases this with rfl | rfl
    · omega
    · omega
  · next hc =>
    refine ⟨h, by omega, by omega, ?_⟩
    intro k hk0 hk hkp
    have : k = 2 * i + 1 ∨ k = 2 * i + 1 + 1 := by omega
    rcases this with rfl | rfl
    · omega
    · have : ¬ key a[2 * i + 1 + 1]! < key a[2 * i + 1]! := fun hh => hc ⟨hk, hh⟩
      omega

theorem downInv_swap (a : Array α) (i n c : Nat) (hn : n ≤ a.size) (hc : c < n) (hc0 : 0 < c)
    (hcp : (c - 1) / 2 = i)
    (hmin : ∀ k, 0 < k → k < n → (k - 1) / 2 = i → key a[c]! ≤ key a[k]!)
    (hlt : key a[c]! < key a[i]!) (h : DownInv key a i n) :
    DownInv key (a.swapIfInBounds i c) c n := by
  obtain ⟨h1, h2⟩ := h
  have hic : i < c := by omega
  have hb := fun k => swap_get! a i c k (by omega) (by omega)
  have eci : ¬ c = i := by omega
  constructor
  · intro k hk0 hk hkp
    rw [hb k, hb ((k - 1) / 2)]
    simp only [if_neg hkp]
    by_cases hkc : k = c
    · subst hkc
      simp only [hcp, if_pos, if_neg eci]; omega
    · simp only [if_neg hkc]
      by_cases hki : k = i
      · subst hki
        have e1 : ¬ (k - 1) / 2 = k := by omega
        simp only [if_neg e1, if_pos]
        exact h2 c hc0 hc hcp hk0
      · simp only [if_neg hki]
        by_cases hp : (k - 1) / 2 = i
        · simp only [if_pos hp]
          exact hmin k hk0 hk hp
        · simp only [if_neg hp]
          exact h1 k hk0 hk hp
  · intro k hk0 hk hkp _
    rw [hb k, hb ((c - 1) / 2)]
    have e1 : ¬ k = i := by omega
    have e2 : ¬ k = c := by omega
    simp only [hcp, if_pos, if_neg e1, if_neg e2]
    have := h1 k hk0 hk (by omega)
    rw [hkp] at this
    exact this

theorem down_ordered (fuel : Nat) (a : Array α) (i n : Nat) (hn : n ≤ a.size)
    (hf : n ≤ i + fuel) (h : DownInv key a i n) :
    OrderedN key (down key fuel a i n).1 n := by
  induction fuel generalizing a i with
  | zero =>
    intro k hk0 hk
    exact h.1 k hk0 hk (by omega)
  | succ f ih =>
    rw [down_succ]
    split
    · intro k hk0 hk
      exact h.1 k hk0 hk (by omega)
    · next hlt1 =>
      obtain ⟨hc, hc0, hcp, hmin⟩ := child_spec key a i n (by omega)
      split
      · next hlt =>
        apply ih
        · rw [Array.size_swapIfInBounds]; exact hn
        · omega
        · exact downInv_swap key a i n _ hn hc hc0 hcp hmin hlt h
      · next hlt =>
        intro k hk0 hk
        show key a[(k - 1) / 2]! ≤ key a[k]!
        by_cases hp : (k - 1) / 2 = i
        · have := hmin k hk0 hk hp
          rw [hp]; omega
        · exact h.1 k hk0 hk hp

theorem down_get!_ge (fuel : Nat) (a : Array α) (i n k : Nat) (hn : n ≤ a.size) (hk : n ≤ k) :
    (down key fuel a i n).1[k]! = a[k]! := by
  induction fuel generalizing a i with
  | zero => rfl
  | succ f ih =>
    rw [down_succ]
    split
    · rfl
    · next hlt1 =>
      obtain ⟨hc, hc0, hcp, _⟩ := child_spec key a i n (by omega)
      split
      · rw [ih _ _ (by rw [Array.size_swapIfInBounds]; exact hn)]
        rw [swap_get! a i _ k (by omega) (by omega)]
        have e1 : ¬ k = i := by omega
        have e2 : ¬ k = child key a i n := by omega
        simp only [if_neg e1, if_neg e2]
      · rfl

theorem ordered_root_le {a : Array α} (h : Ordered key a) (k : Nat) (hk : k < a.size) :
    key a[0]! ≤ key a[k]! := by
  induction k using Nat.strongRecOn with
  | _ k ih =>
    by_cases hk0 : k = 0
    · subst hk0; exact Nat.le_refl _
    · have h1 := h k (by omega) hk
      have h2 := ih ((k - 1) / 2) (by omega) (by omega)
      omega

theorem ordered_root_min {a : Array α} (h : Ordered key a) :
    ∀ y ∈ a.toList, key a[0]! ≤ key y := by
  intro y hy
  obtain ⟨k, hk, rfl⟩ := List.mem_iff_getElem.mp hy
  have hk' : k < a.size := by simpa using hk
  have := ordered_root_le key h k hk'
  rw [get!_of_lt _ _ hk'] at this
  simpa using this



theorem pop_get!_lt (b : Array α) (k : Nat) (hk : k < b.size - 1) : b.pop[k]! = b[k]! := by
  rw [get!_of_lt _ _ (by simpa using hk), get!_of_lt _ _ (by omega), Array.getElem_pop]

theorem pop_ordered {a a' : Array α} {x : α} (h : Ordered key a)
    (hp : pop key a = some (x, a')) :
    Ordered key a' ∧ (∀ y ∈ a'.toList, key x ≤ key y) ∧ x = a[0]! := by
  have hperm := pop_perm key hp
  have key_claim : Ordered key a' ∧ x = a[0]! := by
    unfold pop at hp
    split at hp
    · cases hp
    · next hne =>
      simp only [Option.some.injEq, Prod.mk.injEq] at hp
      obtain ⟨hx, ha'⟩ := hp
      generalize hn : a.size - 1 = n at hx ha'
      have hn' : n < a.size := by omega
      have h1s : (a.swapIfInBounds 0 n).size = a.size := Array.size_swapIfInBounds
      have h1 := fun k => swap_get! a 0 n k (by omega) hn'
      have hinv : DownInv key (a.swapIfInBounds 0 n) 0 n := by
        constructor
        · intro k hk0 hk hkp
          rw [h1 k, h1 ((k - 1) / 2)]
          have e1 : ¬ k = 0 := by omega
          have e2 : ¬ k = n := by omega
          have e3 : ¬ (k - 1) / 2 = n := by omega
          simp only [if_neg e1, if_neg e2, if_neg e3, if_neg hkp]
          exact h k hk0 (by omega)
        · intro k _ _ _ h00
          omega
      have hord := down_ordered key (n + 1) _ 0 n (by omega) (by omega) hinv
      have hget := down_get!_ge key (n + 1) (a.swapIfInBounds 0 n) 0 n n (by omega)
        (Nat.le_refl _)
      have hsz := down_size key (n + 1) (a.swapIfInBounds 0 n) 0 n
      generalize (down key (n + 1) (a.swapIfInBounds 0 n) 0 n).1 = b at hx ha' hord hget hsz
      constructor
      · intro k hk0 hk
        rw [← ha'] at hk ⊢
        have hk' : k < b.size - 1 := by simpa using hk
        rw [pop_get!_lt _ _ hk', pop_get!_lt _ _ (by omega)]
        exact hord k hk0 (by omega)
      · rw [← hx, hget, h1 n]
        by_cases hn0 : n = 0
        · simp only [if_pos hn0]; rw [hn0]
        · simp only [if_neg hn0, if_pos]
  refine ⟨key_claim.1, ?_, key_claim.2⟩
  intro y hy
  rw [key_claim.2]
  apply ordered_root_min key h
  exact hperm.mem_iff.mpr (List.mem_cons_of_mem _ hy)



theorem child_gt (a : Array α) (i n : Nat) : i < child key a i n := by
  unfold child; split <;> omega

theorem down_snd_ge (fuel : Nat) (a : Array α) (i n : Nat) : i ≤ (down key fuel a i n).2 := by
  induction fuel generalizing a i with
  | zero => exact Nat.le_refl _
  | succ f ih =>
    rw [down_succ]
    split
    · exact Nat.le_refl _
    · split
      · have := ih (a.swapIfInBounds i (child key a i n)) (child key a i n)
        have := child_gt key a i n
        omega
      · exact Nat.le_refl _

/-- `down` reports a move exactly when the smaller child is smaller than the element at `i` -/
theorem down_moved (f : Nat) (a : Array α) (i n : Nat) (h : (down key (f + 1) a i n).2 > i) :
    2 * i + 1 < n ∧ key a[child key a i n]! < key a[i]! := by
  rw [down_succ] at h
  split at h
  · exact absurd h (Nat.lt_irrefl _)
  · split at h
    · next h1 h2 => exact ⟨by omega, h2⟩
    · exact absurd h (Nat.lt_irrefl _)

theorem down_not_moved (f : Nat) (a : Array α) (i n : Nat)
    (h : ¬ (down key (f + 1) a i n).2 > i) :
    ∀ k, 0 < k → k < n → (k - 1) / 2 = i → key a[i]! ≤ key a[k]! := by
  rw [down_succ] at h
  split at h
  · intro k hk0 hk hkp; omega
  · next h1 =>
    split at h
    · have := down_snd_ge key f (a.swapIfInBounds i (child key a i n)) (child key a i n) n
      have := child_gt key a i n
      omega
    · next h2 =>
      obtain ⟨_, _, _, hmin⟩ := child_spec key a i n (by omega)
      intro k hk0 hk hkp
      have := hmin k hk0 hk hkp
      omega

/-- Go's `heap.Fix` contract: if `b` differs from an ordered heap only at position `i`, then
`fix` at `i` restores the heap order. -/
theorem fix_ordered_of_eq_except {a : Array α} (b : Array α) (i : Nat) (hs : b.size = a.size)
    (hb : ∀ k, k ≠ i → b[k]! = a[k]!) (h : Ordered key a) (hi : i < a.size) :
    Ordered key (fix key b i) := by
  -- facts about `b` that do not mention the new element
  have hgp : ∀ k, 0 < k → k < b.size → (k - 1) / 2 = i → 0 < i →
      key b[(i - 1) / 2]! ≤ key b[k]! := by
    intro k hk0 hk hkp hi0
    rw [hb k (by omega), hb ((i - 1) / 2) (by omega)]
    have h1 := h k hk0 (by omega)
    have h2 := h i hi0 hi
    rw [hkp] at h1
    omega
  have hother : ∀ k, 0 < k → k < b.size → k ≠ i → (k - 1) / 2 ≠ i →
      key b[(k - 1) / 2]! ≤ key b[k]! := by
    intro k hk0 hk hki hkp
    rw [hb k hki, hb ((k - 1) / 2) hkp]
    exact h k hk0 (by omega)
  unfold fix
  simp only []
  split
  · next hmv =>
    obtain ⟨hlt1, hlt⟩ := down_moved key _ b i _ hmv
    obtain ⟨hc, hc0, hcp, hmin⟩ := child_spec key b i b.size hlt1
    have hinv : DownInv key b i b.size := by
      constructor
      · intro k hk0 hk hkp
        by_cases hki : k = i
        · subst hki
          have := hgp _ hc0 hc hcp hk0
          omega
        · exact hother k hk0 hk hki hkp
      · exact hgp
    have hord := down_ordered key (b.size + 1) b i b.size (Nat.le_refl _) (by omega) hinv
    intro k hk0 hk
    rw [down_size] at hk
    exact hord k hk0 hk
  · next hmv =>
    have hch := down_not_moved key _ b i _ hmv
    apply up_ordered
    · omega
    · omega
    · constructor
      · intro k hk0 hk hki
        by_cases hkp : (k - 1) / 2 = i
        · rw [hkp]; exact hch k hk0 hk hkp
        · exact hother k hk0 hk hki hkp
      · exact hgp

theorem fix_ordered {a : Array α} {i : Nat} (h : Ordered key a) (hi : i < a.size) (y : α) :
    Ordered key (fix key (a.set! i y) i) := by
  apply fix_ordered_of_eq_except key (a := a) _ i _ _ h hi
  · simp
  · intro k hk
    rw [Array.set!_eq_setIfInBounds]
    by_cases hks : k < a.size
    · rw [get!_of_lt _ _ (by simpa using hks), get!_of_lt _ _ hks,
        Array.getElem_setIfInBounds_ne _ (Ne.symm hk)]
    · rw [get!_of_ge _ _ (by simpa using Nat.le_of_not_lt hks),
        get!_of_ge _ _ (Nat.le_of_not_lt hks)]

end Ipfix.Heap
