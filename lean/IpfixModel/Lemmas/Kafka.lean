/-
  Helper lemmas for C19 (Kafka publication): varints, the proto3 fragment, framing.
-/
import IpfixModel.Lemmas.IE
import IpfixModel.Model.Kafka
namespace Ipfix.Kafka

/-! ## varints -/

theorem encodeVarintAux_ne_nil (k n : Nat) : encodeVarintAux (k + 1) n ≠ [] := by
  simp only [encodeVarintAux]; split <;> simp

theorem encodeVarint_ne_nil (n : Nat) : encodeVarint n ≠ [] := encodeVarintAux_ne_nil 9 n

/-- with `k+1` bytes available every value below `2^(7k+1)` is read back (bit 63 is the only bit
    the tenth byte may carry) -/
theorem decodeVarintAux_encode (k : Nat) : ∀ (n w acc : Nat) (rest : Bytes), n < 2 ^ (7 * k + 1) →
    decodeVarintAux (k + 1) w acc (encodeVarintAux (k + 1) n ++ rest) = some (acc + n * w, rest) := by
  induction k with
  | zero =>
    intro n w acc rest hn
    have h2 : n < 2 := by simpa using hn
    have hb : (UInt8.ofNat n).toNat = n := u8_ofNat_toNat_lt n (by omega)
    simp [encodeVarintAux, decodeVarintAux, show n < 128 by omega, hb]
    omega
  | succ k ih =>
    intro n w acc rest hn
    by_cases h : n < 128
    · have hb : (UInt8.ofNat n).toNat = n := u8_ofNat_toNat_lt n (by omega)
      simp [encodeVarintAux, decodeVarintAux, h, hb]
    · have hb : (UInt8.ofNat (128 + n % 128)).toNat = 128 + n % 128 := u8_ofNat_toNat_lt _ (by omega)
      have hdiv : n / 128 < 2 ^ (7 * k + 1) := by
        have : 2 ^ (7 * (k + 1) + 1) = 128 * 2 ^ (7 * k + 1) := by
          rw [show 7 * (k + 1) + 1 = 7 + (7 * k + 1) by omega, Nat.pow_add]
        rw [this] at hn
        exact Nat.div_lt_of_lt_mul hn
      have hrec := ih (n / 128) (w * 128) (acc + (n % 128) * w) rest hdiv
      rw [encodeVarintAux]
      simp only [h, if_false, List.cons_append]
      rw [decodeVarintAux]
      simp only [hb, show ¬ (128 + n % 128 < 128) by omega, if_false]
      rw [show 128 + n % 128 - 128 = n % 128 by omega, hrec]
      congr 2
      have hn' : n = n % 128 + n / 128 * 128 := by omega
      calc acc + n % 128 * w + n / 128 * (w * 128)
          = acc + (n % 128 + n / 128 * 128) * w := by
            rw [Nat.add_mul, Nat.mul_assoc, Nat.mul_comm 128 w, Nat.add_assoc]
        _ = acc + n * w := by rw [← hn']

theorem decodeVarint_encodeVarint (n : Nat) (rest : Bytes) (h : n < 2 ^ 64) :
    decodeVarint (encodeVarint n ++ rest) = some (n, rest) := by
  have := decodeVarintAux_encode 9 n 1 0 rest (by simpa using h)
  simpa [decodeVarint, encodeVarint] using this

/-! ## one field on the wire -/

/-- what may stand in a message: a valid field number, a uint64, a string shorter than 2^64 -/
def WireOK (nv : Nat × PVal) : Prop :=
  1 ≤ nv.1 ∧ nv.1 < 2 ^ 29 ∧
    match nv.2 with
    | .num n => n < 2 ^ 64
    | .str b => b.length < 2 ^ 64

theorem encodeField_ne_nil (num : Nat) (v : PVal) : encodeField num v ≠ [] := by
  unfold encodeField
  intro h
  have := encodeVarint_ne_nil (num * 8 + v.wireType)
  cases hx : encodeVarint (num * 8 + v.wireType) with
  | nil => exact this hx
  | cons a l => rw [hx] at h; simp at h

theorem decodeRawField_encodeField (num : Nat) (v : PVal) (rest : Bytes) (h : WireOK (num, v)) :
    decodeRawField (encodeField num v ++ rest) = some (num, v.toRaw, rest) := by
  obtain ⟨h1, h2, h3⟩ := h
  simp only at h1 h2 h3
  have hp : (2 : Nat) ^ 29 * 8 ≤ 2 ^ 64 := by decide
  cases v with
  | num n =>
    have htag : num * 8 + 0 < 2 ^ 64 := by omega
    simp only [encodeField, PVal.wireType, List.append_assoc]
    unfold decodeRawField
    rw [decodeVarint_encodeVarint _ _ htag]
    have hd : (num * 8 + 0) / 8 = num := by omega
    have hm : (num * 8 + 0) % 8 = 0 := by omega
    simp only [hd, hm]
    rw [decodeVarint_encodeVarint _ _ h3]
    simp [PVal.toRaw]
    omega
  | str b =>
    have htag : num * 8 + 2 < 2 ^ 64 := by omega
    simp only [encodeField, PVal.wireType, List.append_assoc]
    unfold decodeRawField
    rw [decodeVarint_encodeVarint _ _ htag]
    have hd : (num * 8 + 2) / 8 = num := by omega
    have hm : (num * 8 + 2) % 8 = 2 := by omega
    simp only [hd, hm]
    rw [decodeVarint_encodeVarint _ _ h3]
    simp [PVal.toRaw]
    omega

theorem parseWire_nil : parseWire [] = some [] := by
  rw [parseWire]; simp

theorem parseWire_encodeField (num : Nat) (v : PVal) (rest : Bytes) (h : WireOK (num, v)) :
    parseWire (encodeField num v ++ rest) = (parseWire rest).map fun l => (num, v.toRaw) :: l := by
  rw [parseWire]
  have hne : (encodeField num v ++ rest).isEmpty = false := by
    have := encodeField_ne_nil num v
    cases hx : encodeField num v with
    | nil => exact absurd hx this
    | cons a l => simp
  simp only [hne, Bool.false_eq_true, if_false]
  have hdec := decodeRawField_encodeField num v rest h
  split
  · rename_i heq; rw [hdec] at heq; cases heq
  · rename_i num' v' r' heq
    rw [hdec] at heq
    simp only [Option.some.injEq, Prod.mk.injEq] at heq
    obtain ⟨rfl, rfl, rfl⟩ := heq
    cases parseWire rest <;> simp

theorem parseWire_encodeCanon (c : Canon) (h : ∀ nv ∈ c, WireOK nv) :
    parseWire (encodeCanon c) = some (c.map fun nv => (nv.1, nv.2.toRaw)) := by
  induction c with
  | nil => simpa [encodeCanon] using parseWire_nil
  | cons nv c ih =>
    have h1 : WireOK (nv.1, nv.2) := h nv (by simp)
    have h2 := ih (fun x hx => h x (by simp [hx]))
    have : encodeCanon (nv :: c) = encodeField nv.1 nv.2 ++ encodeCanon c := by
      simp [encodeCanon]
    rw [this, parseWire_encodeField _ _ _ h1, h2]
    simp

/-! ## typing against the message type -/

/-- the value is what a field of the message type can hold and the decoder stores unchanged -/
def KindOK (fs : List Field) (nv : Nat × PVal) : Prop :=
  ∃ fd, fs.find? (fun x => x.num == nv.1) = some fd ∧
    match fd.kind, nv.2 with
    | .u32, .num n => n < 2 ^ 32
    | .u64, .num _ => True
    | .str, .str b => validUTF8 b = true
    | _, _ => False

theorem typeField_ok (fs : List Field) (nv : Nat × PVal) (h : KindOK fs nv) :
    typeField fs nv.1 nv.2.toRaw = some (some nv) := by
  obtain ⟨fd, hf, hk⟩ := h
  obtain ⟨num, v⟩ := nv
  simp only at hf hk
  unfold typeField
  simp only [hf]
  cases hkind : fd.kind <;> cases v <;> simp [hkind, PVal.toRaw] at hk ⊢
  all_goals exact hk

theorem typeFields_ok (fs : List Field) (c : Canon) (h : ∀ nv ∈ c, KindOK fs nv) :
    typeFields fs (c.map fun nv => (nv.1, nv.2.toRaw)) = some (c, []) := by
  induction c with
  | nil => simp [typeFields]
  | cons nv c ih =>
    have h1 := typeField_ok fs nv (h nv (by simp))
    have h2 := ih (fun x hx => h x (by simp [hx]))
    simp [typeFields, h1, h2]

theorem protoDecodeFull_encodeCanon (fs : List Field) (c : Canon)
    (hw : ∀ nv ∈ c, WireOK nv) (hk : ∀ nv ∈ c, KindOK fs nv) :
    protoDecodeFull fs (encodeCanon c) = some (c, []) := by
  simp [protoDecodeFull, parseWire_encodeCanon c hw, typeFields_ok fs c hk]

/-! ## the populated fields of a struct are encodable and typed -/

theorem mem_insertByNum {x fd : Field} {l : List Field} (h : x ∈ insertByNum fd l) : x = fd ∨ x ∈ l := by
  induction l with
  | nil => simpa [insertByNum] using h
  | cons y r ih =>
    simp only [insertByNum] at h
    split at h
    · simpa using h
    · simp only [List.mem_cons] at h ⊢
      rcases h with h | h
      · exact Or.inr (Or.inl h)
      · rcases ih h with h | h
        · exact Or.inl h
        · exact Or.inr (Or.inr h)

theorem mem_wireOrder {x : Field} {fs : List Field} (h : x ∈ wireOrder fs) : x ∈ fs := by
  induction fs with
  | nil => simp [wireOrder] at h
  | cons y r ih =>
    simp only [wireOrder, List.foldr_cons] at h
    rcases mem_insertByNum h with h | h
    · simp [h]
    · exact List.mem_cons_of_mem _ (ih h)

theorem get_shape (f : Flow) (fd : Field) :
    match fd.kind with
    | .u32 => ∃ m, f.get fd = .num m ∧ m < 2 ^ 32
    | .u64 => ∃ m, f.get fd = .num m ∧ m < 2 ^ 64
    | .str => ∃ b, f.get fd = .str b := by
  unfold Flow.get
  cases hk : fd.kind <;> simp only <;> split <;> simp_all <;> omega

theorem normalise_ok (fs ws : List Field) (hsub : ∀ fd ∈ ws, fd ∈ fs) (hfs : fieldsOK fs = true)
    (f : Flow) (hv : stringsValid (normalise ws f) = true) (hs : sizesOK (normalise ws f) = true) :
    ∀ nv ∈ normalise ws f, WireOK nv ∧ KindOK fs nv := by
  intro nv hnv
  have hv' := (List.all_eq_true.mp hv) nv hnv
  have hs' := (List.all_eq_true.mp hs) nv hnv
  simp only [normalise, List.mem_filterMap] at hnv
  obtain ⟨fd, hfd, heq⟩ := hnv
  split at heq
  · cases heq
  · simp only [Option.some.injEq] at heq
    subst heq
    have hfd' := (List.all_eq_true.mp hfs) fd (hsub fd hfd)
    simp only [Bool.and_eq_true, decide_eq_true_eq, beq_iff_eq] at hfd'
    obtain ⟨⟨h1, h2⟩, h3⟩ := hfd'
    simp only [Option.map_eq_some_iff] at h3
    obtain ⟨fd', hfind, hkind⟩ := h3
    have hsh := get_shape f fd
    simp only at hv' hs'
    refine ⟨⟨h1, h2, ?_⟩, fd', hfind, ?_⟩
    · cases hk : fd.kind <;> rw [hk] at hsh <;> simp only at hsh
      · obtain ⟨m, hm, hlt⟩ := hsh; rw [hm]; simp only; omega
      · obtain ⟨m, hm, hlt⟩ := hsh; rw [hm]; exact hlt
      · obtain ⟨b, hb⟩ := hsh; rw [hb] at hs' ⊢; simpa using hs'
    · rw [hkind]
      cases hk : fd.kind <;> rw [hk] at hsh <;> simp only at hsh
      · obtain ⟨m, hm, hlt⟩ := hsh; rw [hm]; exact hlt
      · obtain ⟨m, hm, hlt⟩ := hsh; rw [hm]; trivial
      · obtain ⟨b, hb⟩ := hsh; rw [hb] at hv' ⊢; simpa using hv'

/-- proto.Unmarshal ∘ proto.Marshal on the model: the populated fields come back, in wire order,
    nothing unknown -/
theorem protoDecodeFull_protoEncode (fs : List Field) (hfs : fieldsOK fs = true) (f : Flow) (bs : Bytes)
    (hs : sizesOK (normalise (wireOrder fs) f) = true) (h : protoEncode fs f = some bs) :
    protoDecodeFull fs bs = some (normalise (wireOrder fs) f, []) := by
  unfold protoEncode at h
  simp only at h
  split at h
  · rename_i hv
    simp only [Option.some.injEq] at h
    subst h
    have hok := normalise_ok fs (wireOrder fs) (fun fd h => mem_wireOrder h) hfs f hv hs
    exact protoDecodeFull_encodeCanon fs _ (fun nv h => (hok nv h).1) (fun nv h => (hok nv h).2)
  · cases h

/-! ## framing -/

theorem frame_length (b : Bytes) : (frame b).length = 4 + b.length := by simp [frame]

theorem frame_take (b : Bytes) : (frame b).take 4 = be 4 b.length := by
  simp [frame]

theorem frame_drop (b : Bytes) : (frame b).drop 4 = b := by
  have : (be 4 b.length).length = 4 := be_length 4 _
  simp [frame, this]

theorem unframe_frame (b : Bytes) (h : b.length < 2 ^ 32) : unframe (frame b) = some b := by
  have hu : unbe (be 4 b.length) = b.length := unbe_be 4 b.length (by simpa using h)
  simp [unframe, frame_length, frame_take, frame_drop, hu]

/-! ## strings are part of the encoding (size bookkeeping) -/

theorem encodeField_length_ge (nv : Nat × PVal) (c : Canon) (h : nv ∈ c) :
    (encodeField nv.1 nv.2).length ≤ (encodeCanon c).length := by
  induction c with
  | nil => cases h
  | cons x c ih =>
    have : encodeCanon (x :: c) = encodeField x.1 x.2 ++ encodeCanon c := by simp [encodeCanon]
    rw [this, List.length_append]
    rcases List.mem_cons.mp h with h | h
    · subst h; omega
    · have := ih h; omega

theorem sizesOK_of_length (c : Canon) (h : (encodeCanon c).length < 2 ^ 32) : sizesOK c = true := by
  apply List.all_eq_true.mpr
  intro nv hnv
  have hge := encodeField_length_ge nv c hnv
  obtain ⟨num, v⟩ := nv
  cases v with
  | num n => rfl
  | str b =>
    simp only [encodeField, List.length_append] at hge
    simp only [decide_eq_true_eq]
    have : (2 : Nat) ^ 32 < 2 ^ 64 := by decide
    omega

/-! ## the producer -/

theorem filterMap_eq_map_of_forall {α β : Type} (f : α → Option β) (g : α → β) (l : List α)
    (h : ∀ x ∈ l, f x = some (g x)) : l.filterMap f = l.map g := by
  induction l with
  | nil => rfl
  | cons x l ih =>
    have h1 := h x (by simp)
    have h2 := ih (fun y hy => h y (by simp [hy]))
    simp [h1, h2]

/-- the published payloads are the data records' payloads, message by message, record by record -/
theorem publish_eq_filterMap (S : Schema) (msgs : List Msg) :
    publish S msgs = (dataRecords msgs).filterMap fun hr => payloadOf S hr.1 hr.2 := by
  induction msgs with
  | nil => rfl
  | cons m ms ih =>
    simp only [publish, dataRecords, List.flatMap_cons, List.filterMap_append] at ih ⊢
    rw [ih]
    congr 1
    unfold publishMsg
    cases m.isData <;> simp [List.filterMap_map, Function.comp_def]

theorem payloadOf_valid (S : Schema) (hr : Hdr × Record) (h : recordValid S hr = true) :
    payloadOf S hr.1 hr.2 = some (frame (bodyOf S hr)) := by
  unfold recordValid at h
  simp [payloadOf, protoEncode, bodyOf, h]

/-! ## net.IP.String only produces ASCII, hence valid UTF-8 -/

def IsAscii (l : Bytes) : Prop := ∀ b ∈ l, b.toNat < 128

theorem validUTF8_cons_ascii (b : UInt8) (r : Bytes) (hb : b.toNat < 128) :
    validUTF8 (b :: r) = validUTF8 r := by
  conv => lhs; unfold validUTF8
  simp [hb]

theorem validUTF8_of_ascii (l : Bytes) (h : IsAscii l) : validUTF8 l = true := by
  induction l with
  | nil => simp [validUTF8]
  | cons b r ih =>
    rw [validUTF8_cons_ascii b r (h b (by simp))]
    exact ih (fun x hx => h x (by simp [hx]))

theorem isAscii_nil : IsAscii [] := by intro b hb; cases hb

theorem isAscii_cons {b : UInt8} {r : Bytes} (hb : b.toNat < 128) (hr : IsAscii r) : IsAscii (b :: r) := by
  intro x hx
  rcases List.mem_cons.mp hx with h | h
  · rw [h]; exact hb
  · exact hr x h

theorem isAscii_append {a b : Bytes} (ha : IsAscii a) (hb : IsAscii b) : IsAscii (a ++ b) := by
  intro x hx
  rcases List.mem_append.mp hx with h | h
  · exact ha x h
  · exact hb x h

theorem digitB_lt (d : Nat) : (digitB d).toNat < 128 := by
  simp [digitB, UInt8.toNat_ofNat']; omega

theorem hexB_lt (d : Nat) : (hexB d).toNat < 128 := by
  unfold hexB; split <;> simp [UInt8.toNat_ofNat'] <;> omega

theorem dec8_ascii (n : Nat) : IsAscii (dec8 n) := by
  unfold dec8
  split
  · exact isAscii_cons (digitB_lt _) isAscii_nil
  · split
    · exact isAscii_cons (digitB_lt _) (isAscii_cons (digitB_lt _) isAscii_nil)
    · exact isAscii_cons (digitB_lt _) (isAscii_cons (digitB_lt _) (isAscii_cons (digitB_lt _) isAscii_nil))

theorem hex16_ascii (n : Nat) : IsAscii (hex16 n) := by
  unfold hex16
  split
  · exact isAscii_cons (hexB_lt _) isAscii_nil
  · split
    · exact isAscii_cons (hexB_lt _) (isAscii_cons (hexB_lt _) isAscii_nil)
    · split
      · exact isAscii_cons (hexB_lt _) (isAscii_cons (hexB_lt _) (isAscii_cons (hexB_lt _) isAscii_nil))
      · exact isAscii_cons (hexB_lt _) (isAscii_cons (hexB_lt _) (isAscii_cons (hexB_lt _)
          (isAscii_cons (hexB_lt _) isAscii_nil)))

theorem hexBytes_ascii (l : Bytes) : IsAscii (hexBytes l) := by
  induction l with
  | nil => exact isAscii_nil
  | cons x r ih =>
    have : hexBytes (x :: r) = [hexB (x.toNat / 16), hexB x.toNat] ++ hexBytes r := by simp [hexBytes]
    rw [this]
    exact isAscii_append (isAscii_cons (hexB_lt _) (isAscii_cons (hexB_lt _) isAscii_nil)) ih

theorem joinWith_ascii (sep : UInt8) (hs : sep.toNat < 128) (l : List Bytes) (h : ∀ x ∈ l, IsAscii x) :
    IsAscii (joinWith sep l) := by
  induction l with
  | nil => intro b hb; simp [joinWith] at hb
  | cons x r ih =>
    cases r with
    | nil => simpa [joinWith] using h x (by simp)
    | cons y r =>
      rw [joinWith]
      exact isAscii_append (h x (by simp)) (isAscii_cons hs (ih (fun z hz => h z (by simp [hz]))))

theorem ascii_lit_nil : IsAscii (ascii "<nil>") := by
  have : ascii "<nil>" = [60, 110, 105, 108, 62] := by decide
  rw [this]
  exact isAscii_cons (by decide) (isAscii_cons (by decide) (isAscii_cons (by decide)
    (isAscii_cons (by decide) (isAscii_cons (by decide) isAscii_nil))))

theorem v6String_ascii (g : List Nat) : IsAscii (v6String g) := by
  unfold v6String
  have hj : ∀ l : List Nat, IsAscii (joinWith 58 (l.map hex16)) := fun l =>
    joinWith_ascii 58 (by decide) _ (by
      intro x hx
      obtain ⟨n, _, rfl⟩ := List.mem_map.mp hx
      exact hex16_ascii n)
  split
  rename_i s l _
  split
  · exact hj g
  · exact isAscii_append (isAscii_append (hj _) (isAscii_cons (by decide) (isAscii_cons (by decide) isAscii_nil))) (hj _)

theorem ipString_ascii (ip : Bytes) : IsAscii (ipString ip) := by
  unfold ipString
  split
  · exact ascii_lit_nil
  · split
    · exact isAscii_cons (by decide) (hexBytes_ascii ip)
    · split
      · apply joinWith_ascii 46 (by decide)
        intro x hx
        obtain ⟨n, _, rfl⟩ := List.mem_map.mp hx
        exact dec8_ascii _
      · exact v6String_ascii _

theorem ipString_validUTF8 (ip : Bytes) : validUTF8 (ipString ip) = true :=
  validUTF8_of_ascii _ (ipString_ascii ip)

/-! ## the convertor, element by element -/

theorem fieldsOf_snoc (S : Schema) (h : Hdr) (r : Record) (e : IE × Value) :
    fieldsOf S h (r ++ [e]) = applyElem S (fieldsOf S h r) e := by
  simp [fieldsOf, List.foldl_append]

end Ipfix.Kafka
