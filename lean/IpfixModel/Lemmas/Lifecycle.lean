/-
  Helper lemmas for C14 (Props/C14.lean): the shape of MakeTemplateSet, what one send does to the
  lifecycle state, the invariant of the event system, stream splitting.
-/
import IpfixModel.Model.Lifecycle
import IpfixModel.Spec.C14
import IpfixModel.Props.C08
import IpfixModel.Generated.LocksExporter
namespace Ipfix.Life
open ExpSpec

/-! ## MakeTemplateSet -/

theorem zeroValue_empty {ie : IE} {v : Value} (h : zeroValue ie = .ok v) : valueEmpty v = true := by
  unfold zeroValue at h
  cases hty : ie.ty <;> simp [hty] at h <;> subst h <;> rfl

theorem zeroElems_spec : ∀ (ies : List IE) (es : List Elem), zeroElems ies = some es →
    es.map (·.1) = ies ∧ ∀ e ∈ es, elemEmpty e = true
  | [], es, h => by simp [zeroElems] at h; subst h; simp
  | ie :: t, es, h => by
    unfold zeroElems at h
    cases hz : zeroValue ie with
    | ok v =>
      cases ht : zeroElems t with
      | none => simp [hz, ht] at h
      | some es' =>
        simp [hz, ht] at h
        subst h
        obtain ⟨h1, h2⟩ := zeroElems_spec t es' ht
        refine ⟨by simp [h1], ?_⟩
        intro e he
        simp at he
        rcases he with rfl | he
        · simp [elemEmpty, zeroValue_empty hz]
        · exact h2 e he
    | err => simp [hz] at h
    | panic => simp [hz] at h
    | diverge => simp [hz] at h

/-- the set MakeTemplateSet returns -/
def tplSetOf (tid : Nat) (ies : List IE) (es : List Elem) : SetB :=
  { header := be 2 Generated.cTemplateSetID ++ [0, 0], ty := .template,
    recs := [{ isTemplate := true, tid := tid, fieldCount := es.length, elems := es,
               bytes := templateRecordBytes tid ies }],
    length := 4 + (templateRecordBytes tid ies).length }

theorem makeTemplateSet_shape (tid : Nat) (ies : List IE) (s : SetB) (h : makeTemplateSet tid ies = some s) :
    ∃ es, es.map (·.1) = ies ∧ s = tplSetOf tid ies es := by
  unfold makeTemplateSet at h
  cases hz : zeroElems ies with
  | none => simp [hz] at h
  | some es =>
    obtain ⟨hm, he⟩ := zeroElems_spec ies es hz
    simp only [hz, SetB.prepare, Option.bind] at h
    rw [C16.add_paths_equiv_template _ es tid rfl he] at h
    simp [SetB.addRecordV2, SetB.new, hm, Rec.length] at h
    exact ⟨es, hm, by subst h; simp [tplSetOf]⟩

/-! ## One SendSet on the sequential exporter model -/

theorem regFold_seq_dom (l : List Rec) (x : ExpState) :
    (l.foldl (fun acc r => acc.register r.tid
      { fieldCount := r.elems.length, minLen := minDataRecLen (r.elems.map (·.1)) }) x).seq = x.seq ∧
    (l.foldl (fun acc r => acc.register r.tid
      { fieldCount := r.elems.length, minLen := minDataRecLen (r.elems.map (·.1)) }) x).dom = x.dom := by
  induction l generalizing x with
  | nil => exact ⟨rfl, rfl⟩
  | cons r t ih =>
    simp only [List.foldl_cons]
    obtain ⟨a, b⟩ := ih (x.register r.tid { fieldCount := r.elems.length, minLen := minDataRecLen (r.elems.map (·.1)) })
    rw [a, b]
    unfold ExpState.register
    split <;> exact ⟨rfl, rfl⟩

/-- whatever SendSet does: the observation domain stays, the counter stays or (data set) advances by the record count -/
theorem sendBuilt_seq_dom (st : ExpState) (time : Nat) (s : SetB) :
    (st.sendBuilt time s).1.dom = st.dom ∧
    ((st.sendBuilt time s).1.seq = st.seq ∨
      (s.ty = .data ∧ (st.sendBuilt time s).1.seq = (st.seq + s.recs.length) % 4294967296)) := by
  unfold ExpState.sendBuilt
  split
  · exact ⟨rfl, Or.inl rfl⟩
  · split
    · exact ⟨rfl, Or.inl rfl⟩
    · simp only
      split
      · refine ⟨rfl, ?_⟩
        by_cases hd : s.ty = .data
        · right; exact ⟨hd, by simp [hd, SetB.updateLen]⟩
        · left; simp [hd]
      · by_cases ht : s.ty = .template
        · simp only [ht, if_true]
          refine ⟨(regFold_seq_dom _ _).2, Or.inl ?_⟩
          rw [(regFold_seq_dom _ _).1]; simp
        · simp only [ht, if_false]
          refine ⟨trivial, ?_⟩
          by_cases hd : s.ty = .data
          · right; exact ⟨hd, by simp [hd, SetB.updateLen]⟩
          · left; simp [hd]

theorem sendBuilt_template (st : ExpState) (time : Nat) (s : SetB) (w : Bytes) (ht : s.ty = .template)
    (hc : createMsg s.updateLen st.dom st.seq time = some w) :
    ∃ st2, st.sendBuilt time s = (st2, .ok w.length w) ∧ st2.seq = st.seq ∧ st2.dom = st.dom := by
  have key : (st.sendBuilt time s).2 = .ok w.length w := by
    unfold ExpState.sendBuilt
    simp [ht, hc]
  refine ⟨(st.sendBuilt time s).1, by rw [← key], ?_, (sendBuilt_seq_dom st time s).1⟩
  rcases (sendBuilt_seq_dom st time s).2 with h | ⟨hd, _⟩
  · exact h
  · rw [ht] at hd; cases hd

/-! ## One SendSet on the lifecycle state -/

/-- what a send never touches -/
theorem send_frame (st : LState) (time : Nat) (s : SetB) :
    (st.send time s).1.closed = st.closed ∧ (st.send time s).1.pending = st.pending ∧
    (st.send time s).1.stopCloses = st.stopCloses ∧ (st.send time s).1.proto = st.proto ∧
    (st.send time s).1.peerClosed = st.peerClosed ∧ (st.send time s).1.exp.dom = st.exp.dom := by
  have hd := (sendBuilt_seq_dom st.exp time s).1
  unfold LState.send
  simp only
  split
  · simp
  · split <;> simp [hd]

/-- a send either fails and writes nothing, or succeeds on an open connection and appends exactly the one
    message the sequential model produced -/
theorem send_cases (st : LState) (time : Nat) (s : SetB) :
    ((st.send time s).2 = .err ∧ (st.send time s).1.wire = st.wire) ∨
    (∃ n w, (st.send time s).2 = .ok n w ∧ (st.send time s).1.wire = st.wire ++ [w] ∧ st.closed = false ∧
      st.exp.sendBuilt time s = ((st.send time s).1.exp, .ok n w)) := by
  unfold LState.send
  simp only
  split
  · left; simp
  · rename_i hc
    split
    · rename_i n w hr
      right
      refine ⟨n, w, rfl, rfl, by simpa using hc, ?_⟩
      simp only
      rw [← hr]
    · left; simp

theorem send_closed (st : LState) (time : Nat) (s : SetB) (h : st.closed = true) :
    (st.send time s).2 = .err ∧ (st.send time s).1.wire = st.wire := by
  rcases send_cases st time s with h1 | ⟨_, _, _, _, hc, _⟩
  · exact h1
  · rw [h] at hc; cases hc

theorem send_tpls_err (st : LState) (time : Nat) (s : SetB) (h : (st.send time s).2 = .err) :
    (st.send time s).1.tpls = st.tpls := by
  unfold LState.send at h ⊢
  by_cases hc : st.closed = true
  · simp [hc]
  · cases hr : (st.exp.sendBuilt time s).2 with
    | ok n w => simp [hc, hr] at h
    | err => simp [hc, hr]

/-! ## A refresh message on the wire -/

/-- what the independent parser reads in a refresh message for template `tid` with elements `ies` -/
def IsTemplateMsg (dom seq tid : Nat) (ies : List IE) (w : Bytes) : Prop :=
  ∃ m, parseMessage w = some m ∧ m.version = 10 ∧ m.length = w.length ∧ m.seq = seq ∧ m.dom = dom ∧
    m.setId = 2 ∧ m.setLen = w.length - 16 ∧
    parseTemplateRecords m.body.length m.body = some [(tid, ies.map expectedSpec)]

/-- a recorded template the exporter can describe and re-send: 16-bit id and field count, elements within
    the guard of C02, zero values exist (the codec supports the types), the message fits -/
def Refreshable (tid : Nat) (ies : List IE) : Prop :=
  tid < 65536 ∧ ies.length < 65536 ∧ (∀ ie ∈ ies, C02.SpecOK ie) ∧
  (zeroElems ies).isSome ∧ 16 + (4 + (templateRecordBytes tid ies).length) ≤ 65535

theorem tplSetOf_inv (tid : Nat) (ies : List IE) (es : List Elem) : C16.Inv (tplSetOf tid ies es) := by
  simp [C16.Inv, tplSetOf, Rec.length]

theorem tplSet_wire (tid : Nat) (ies : List IE) (es : List Elem) (dom seq time : Nat)
    (htid : tid < 65536) (hn : ies.length < 65536) (hspec : ∀ ie ∈ ies, C02.SpecOK ie)
    (hfit : 16 + (4 + (templateRecordBytes tid ies).length) ≤ 65535)
    (hd : dom < 4294967296) (hs : seq < 4294967296) (ht : time < 4294967296) :
    ∃ w, createMsg (tplSetOf tid ies es).updateLen dom seq time = some w ∧ IsTemplateMsg dom seq tid ies w := by
  have hinv : C16.Inv (tplSetOf tid ies es).updateLen := C16.inv_step _ .updateLen (tplSetOf_inv tid ies es)
  have hlen : (tplSetOf tid ies es).updateLen.length = 4 + (templateRecordBytes tid ies).length := by
    simp [SetB.updateLen, tplSetOf]
  have h16 : Generated.cMsgHeaderLength = 16 := rfl
  have hmax : Generated.cMaxSocketMsgSize = 65535 := rfl
  have hsome : ∃ w, createMsg (tplSetOf tid ies es).updateLen dom seq time = some w := by
    unfold createMsg
    rw [if_neg (by rw [hlen, h16, hmax]; omega)]
    exact ⟨_, rfl⟩
  obtain ⟨w, hw⟩ := hsome
  refine ⟨w, hw, ?_⟩
  have hhdr : (tplSetOf tid ies es).updateLen.header = be 2 2 ++ be 2 (tplSetOf tid ies es).updateLen.length := by
    have : Generated.cTemplateSetID = 2 := rfl
    simp [SetB.updateLen, tplSetOf, this]
  obtain ⟨m, hp, hv, hl, _, hsq, hdm, hsid, hsl, hb⟩ :=
    C02.wire_header _ dom seq time 2 w hw hinv hhdr (by omega) hd hs ht
  refine ⟨m, hp, hv, hl, hsq, hdm, hsid, hsl, ?_⟩
  have hbody : m.body = templateRecordBytes tid ies := by
    rw [hb]; simp [SetB.updateLen, tplSetOf]
  rw [hbody]
  have hpos : (templateRecordBytes tid ies).length = ((templateRecordBytes tid ies).length - 1) + 1 := by
    have : 4 ≤ (templateRecordBytes tid ies).length := by simp [templateRecordBytes]; omega
    omega
  rw [hpos]
  exact C02.wire_template tid ies htid hn hspec _

/-! ## The refresher -/

theorem insertBy_perm (prio : Nat → Nat) (x : Nat × List IE) : ∀ l, (insertBy prio x l).Perm (x :: l)
  | [] => List.Perm.refl _
  | y :: t => by
    unfold insertBy
    split
    · exact List.Perm.refl _
    · exact ((insertBy_perm prio x t).cons y).trans (List.Perm.swap x y t)

theorem refreshOrder_perm (prio : Nat → Nat) : ∀ l, (refreshOrder prio l).Perm l
  | [] => List.Perm.refl _
  | x :: t => by
    show (insertBy prio x (refreshOrder prio t)).Perm (x :: t)
    exact (insertBy_perm prio x _).trans ((refreshOrder_perm prio t).cons x)

/-- message by message: `msgs[i]` is the refresh message of `order[i]` -/
def AllTemplateMsgs (dom seq : Nat) : List Bytes → List (Nat × List IE) → Prop
  | [], [] => True
  | w :: ws, p :: ps => IsTemplateMsg dom seq p.1 p.2 w ∧ AllTemplateMsgs dom seq ws ps
  | _, _ => False

theorem doClose_closed (st : LState) : st.doClose.closed = true := by
  unfold LState.doClose; split <;> simp_all

theorem doClose_of_closed (st : LState) (h : st.closed = true) : st.doClose = st := by
  unfold LState.doClose; simp [h]

theorem doClose_wire (st : LState) : st.doClose.wire = st.wire := by
  unfold LState.doClose; split <;> rfl

theorem doClose_exp (st : LState) : st.doClose.exp = st.exp := by
  unfold LState.doClose; split <;> rfl

theorem doClose_proto (st : LState) : st.doClose.proto = st.proto := by
  unfold LState.doClose; split <;> rfl

/-- one iteration of the refresher's send loop on an open process: exactly one message, the one the independent
    parser reads back as that template; the counter does not move -/
theorem refreshStep_emits (st : LState) (time tid : Nat) (ies : List IE) (es : List Elem) (rest : List SetB)
    (hopen : st.closed = false) (hp : st.pending = tplSetOf tid ies es :: rest)
    (htid : tid < 65536) (hn : ies.length < 65536) (hspec : ∀ ie ∈ ies, C02.SpecOK ie)
    (hfit : 16 + (4 + (templateRecordBytes tid ies).length) ≤ 65535)
    (hd : st.exp.dom < 4294967296) (hs : st.exp.seq < 4294967296) (ht : time < 4294967296) :
    ∃ w, (st.refreshStep time).wire = st.wire ++ [w] ∧ IsTemplateMsg st.exp.dom st.exp.seq tid ies w ∧
      (st.refreshStep time).exp.seq = st.exp.seq ∧ (st.refreshStep time).exp.dom = st.exp.dom ∧
      (st.refreshStep time).closed = false ∧ (st.refreshStep time).pending = rest ∧
      (st.refreshStep time).proto = st.proto := by
  obtain ⟨w, hc, hmsg⟩ := tplSet_wire tid ies es st.exp.dom st.exp.seq time htid hn hspec hfit hd hs ht
  obtain ⟨st2, hsb, hseq, hdom⟩ := sendBuilt_template st.exp time (tplSetOf tid ies es) w rfl hc
  have hsend : st.send time (tplSetOf tid ies es) =
      ({ st with exp := st2, tpls := recordTemplates st.tpls (tplSetOf tid ies es), wire := st.wire ++ [w] },
        .ok w.length w) := by
    have hty : (tplSetOf tid ies es).ty = .template := rfl
    unfold LState.send
    simp [hopen, hsb, hty]
  refine ⟨w, ?_, hmsg, ?_, ?_, ?_, ?_, ?_⟩ <;>
    simp [LState.refreshStep, hp, hopen, hsend, hseq, hdom]

theorem buildAll_some : ∀ (l : List (Nat × List IE)), (∀ p ∈ l, (zeroElems p.2).isSome) →
    ∃ sets, buildAll l = some sets
  | [], _ => ⟨[], rfl⟩
  | p :: rest, h => by
    obtain ⟨ss, hss⟩ := buildAll_some rest (fun q hq => h q (by simp [hq]))
    have hz := h p (by simp)
    cases hze : zeroElems p.2 with
    | none => simp [hze] at hz
    | some es =>
      have : ∃ s, makeTemplateSet p.1 p.2 = some s := by
        obtain ⟨hm, he⟩ := zeroElems_spec p.2 es hze
        unfold makeTemplateSet
        simp only [hze, SetB.prepare, Option.bind]
        rw [C16.add_paths_equiv_template _ es p.1 rfl he]
        simp [SetB.addRecordV2]
      obtain ⟨s, hs⟩ := this
      exact ⟨s :: ss, by simp [buildAll, hs, hss]⟩

/-- the refresher's send loop, uninterrupted: one message per queued template set, in queue order -/
theorem drain : ∀ (order : List (Nat × List IE)) (sets : List SetB) (times : List Nat) (st : LState),
    buildAll order = some sets → times.length = order.length → (∀ t ∈ times, t < 4294967296) →
    (∀ p ∈ order, Refreshable p.1 p.2) → st.closed = false → st.pending = sets →
    st.exp.dom < 4294967296 → st.exp.seq < 4294967296 →
    ∃ msgs, (runS st (times.map .refreshStep)).wire = st.wire ++ msgs ∧
      AllTemplateMsgs st.exp.dom st.exp.seq msgs order ∧
      (runS st (times.map .refreshStep)).exp.seq = st.exp.seq ∧
      (runS st (times.map .refreshStep)).exp.dom = st.exp.dom ∧
      (runS st (times.map .refreshStep)).closed = false ∧
      (runS st (times.map .refreshStep)).pending = [] ∧
      (runS st (times.map .refreshStep)).proto = st.proto
  | [], sets, times, st, hb, hl, _, _, hopen, hp, _, _ => by
    simp [buildAll] at hb
    subst hb
    have : times = [] := by cases times <;> simp_all
    subst this
    exact ⟨[], by simp [runS, run], trivial, rfl, rfl, by simpa [runS, run] using hopen, by simpa [runS, run] using hp, rfl⟩
  | p :: order, sets, times, st, hb, hl, htm, hr, hopen, hp, hd, hs => by
    cases times with
    | nil => simp at hl
    | cons t times =>
      unfold buildAll at hb
      cases hm : makeTemplateSet p.1 p.2 with
      | none => simp [hm] at hb
      | some s =>
        cases hbr : buildAll order with
        | none => simp [hm, hbr] at hb
        | some ss =>
          simp [hm, hbr] at hb
          subst hb
          obtain ⟨es, hes, hshape⟩ := makeTemplateSet_shape p.1 p.2 s hm
          subst hshape
          obtain ⟨htid, hn, hspec, _, hfit⟩ := hr p (by simp)
          obtain ⟨w, hw, hmsg, hseq, hdom, hcl, hpend, hproto⟩ :=
            refreshStep_emits st t p.1 p.2 es ss hopen hp htid hn hspec hfit hd hs (htm t (by simp))
          obtain ⟨msgs, h1, h2, h3, h4, h5, h6, h7⟩ :=
            drain order ss times (st.refreshStep t) hbr (by simpa using hl) (fun x hx => htm x (by simp [hx]))
              (fun q hq => hr q (by simp [hq])) hcl hpend (by rw [hdom]; exact hd) (by rw [hseq]; exact hs)
          have hrun : runS st ((t :: times).map .refreshStep) = runS (st.refreshStep t) (times.map .refreshStep) := by
            simp [runS, run, step]
          rw [hrun]
          refine ⟨w :: msgs, by rw [h1, hw]; simp, ?_, by rw [h3, hseq], by rw [h4, hdom], h5, h6, by rw [h7, hproto]⟩
          rw [hdom, hseq] at h2
          exact ⟨hmsg, h2⟩


/-! ## A refresh that cannot be built -/

/-- DecodeAndCreateInfoElementWithValue(ie, nil) refuses the two sub-millisecond time types -/
theorem zeroValue_err_of_micro_nano (ie : IE)
    (h : ie.ty = .dateTimeMicroseconds ∨ ie.ty = .dateTimeNanoseconds) : zeroValue ie = .err := by
  unfold zeroValue
  rcases h with h | h <;> rw [h]

theorem zeroElems_none_of_mem : ∀ (ies : List IE) (ie : IE), ie ∈ ies → zeroValue ie = .err → zeroElems ies = none
  | [], _, h, _ => by simp at h
  | x :: t, ie, h, hz => by
    unfold zeroElems
    rcases List.mem_cons.mp h with rfl | ht
    · rw [hz]
    · rw [zeroElems_none_of_mem t ie ht hz]
      cases zeroValue x <;> rfl

/-- one element without a zero value and MakeTemplateSet fails, whatever else the template contains -/
theorem makeTemplateSet_none_of_mem (tid : Nat) (ies : List IE) (ie : IE) (h : ie ∈ ies) (hz : zeroValue ie = .err) :
    makeTemplateSet tid ies = none := by
  unfold makeTemplateSet
  rw [zeroElems_none_of_mem ies ie h hz]

/-- one template that cannot be rebuilt and the refresher's first loop fails, wherever the map iteration puts it -/
theorem buildAll_none_of_mem : ∀ (l : List (Nat × List IE)) (p : Nat × List IE), p ∈ l →
    makeTemplateSet p.1 p.2 = none → buildAll l = none
  | [], _, h, _ => by simp at h
  | q :: rest, p, h, hm => by
    unfold buildAll
    rcases List.mem_cons.mp h with rfl | hr
    · rw [hm]
    · rw [buildAll_none_of_mem rest p hr hm]
      cases makeTemplateSet q.1 q.2 <;> rfl

/-- sendRefreshedTemplates on an open UDP process with a recorded template it cannot rebuild: the tick IS a close -/
theorem refreshTick_unbuildable (st : LState) (prio : Nat → Nat) (tid : Nat) (ies : List IE)
    (hudp : st.proto = .udp) (hopen : st.closed = false) (hidle : st.pending = [])
    (hrec : (tid, ies) ∈ st.tpls) (hfail : makeTemplateSet tid ies = none) :
    st.refreshTick prio = st.doClose := by
  have hmem : (tid, ies) ∈ refreshOrder prio st.tpls := (refreshOrder_perm prio st.tpls).mem_iff.mpr hrec
  unfold LState.refreshTick
  rw [if_pos ⟨hudp, hopen, hidle⟩, buildAll_none_of_mem _ (tid, ies) hmem hfail]

theorem doClose_open (st : LState) (h : st.closed = false) :
    st.doClose = { st with closed := true, stopCloses := st.stopCloses + 1, pending := [] } := by
  unfold LState.doClose; simp [h]

/-! ## After close -/

theorem doClose_idem (st : LState) : st.doClose.doClose = st.doClose :=
  doClose_of_closed _ (doClose_closed st)

def isErrOut : Option SendResult → Bool
  | none => true
  | some .err => true
  | some (.ok _ _) => false

/-- once closed: every event leaves the process closed and the wire as it is; a SendSet reports an error -/
theorem step_closed (st : LState) (e : Event) (h : st.closed = true) :
    (step st e).1.closed = true ∧ (step st e).1.wire = st.wire ∧ isErrOut (step st e).2 = true := by
  cases e with
  | appSend time s =>
    obtain ⟨h1, h2⟩ := send_closed st time s h
    simp only [step]
    exact ⟨by rw [(send_frame st time s).1, h], h2, by rw [h1]; rfl⟩
  | refreshTick prio =>
    simp [step, LState.refreshTick, h, isErrOut]
  | refreshStep time =>
    simp only [step, LState.refreshStep]
    split
    · exact ⟨h, rfl, rfl⟩
    · simp [h, isErrOut]
  | connCheck eof =>
    simp [step, doClose_of_closed st h, h, isErrOut]
  | peerClose => exact ⟨h, rfl, rfl⟩
  | close => simp [step, doClose_of_closed st h, h, isErrOut]

theorem run_closed : ∀ (evs : List Event) (st : LState), st.closed = true →
    (run st evs).1.closed = true ∧ (run st evs).1.wire = st.wire ∧ (run st evs).2.all isErrOut = true
  | [], st, h => ⟨h, rfl, rfl⟩
  | e :: rest, st, h => by
    obtain ⟨h1, h2, h3⟩ := step_closed st e h
    obtain ⟨i1, i2, i3⟩ := run_closed rest (step st e).1 h1
    simp only [run, List.all_cons, Bool.and_eq_true]
    exact ⟨i1, by rw [i2, h2], h3, i3⟩

theorem step_close_of_closed (st : LState) (h : st.closed = true) : (step st .close).1 = st := by
  simp [step, doClose_of_closed st h]

/-- further Close calls, wherever they fall after the first, change nothing -/
theorem run_extra_close : ∀ (evs₁ evs₂ : List Event) (st : LState), st.closed = true →
    runS st (evs₁ ++ .close :: evs₂) = runS st (evs₁ ++ evs₂)
  | [], evs₂, st, h => by simp [runS, run, step_close_of_closed st h]
  | e :: rest, evs₂, st, h => by
    have := run_extra_close rest evs₂ (step st e).1 (step_closed st e h).1
    simpa [runS, run] using this

/-! ## close(stopCh) runs at most once -/

def CloseInv (st : LState) : Prop := st.stopCloses = (if st.closed then 1 else 0) ∧ (st.closed = true → st.pending = [])

theorem doClose_inv (st : LState) (h : CloseInv st) : CloseInv st.doClose := by
  unfold LState.doClose
  split
  · exact h
  · rename_i hc
    obtain ⟨h1, _⟩ := h
    simp [hc] at h1
    simp [CloseInv, h1]

theorem send_inv (st : LState) (time : Nat) (s : SetB) (h : CloseInv st) : CloseInv (st.send time s).1 := by
  obtain ⟨f1, f2, f3, _⟩ := send_frame st time s
  unfold CloseInv
  rw [f1, f2, f3]; exact h

theorem step_closeInv (st : LState) (e : Event) (h : CloseInv st) : CloseInv (step st e).1 := by
  cases e with
  | appSend time s => exact send_inv st time s h
  | refreshTick prio =>
    simp only [step, LState.refreshTick]
    split
    · rename_i hc
      split
      · exact doClose_inv st h
      · simp [CloseInv, hc.2.1]
        have := h.1; simp [hc.2.1] at this; exact this
    · exact h
  | refreshStep time =>
    simp only [step, LState.refreshStep]
    split
    · exact h
    · split
      · rename_i hc
        have := h.1
        simp [CloseInv, hc] at this ⊢
        exact this
      · rename_i hc
        have hs := send_inv st time ‹SetB› h
        split
        · have f1 := (send_frame st time ‹SetB›).1
          obtain ⟨a, b⟩ := hs
          refine ⟨a, ?_⟩
          intro hcl
          simp only at hcl
          rw [f1] at hcl
          exact absurd hcl hc
        · exact doClose_inv _ hs
  | connCheck eof => simp only [step]; split; exact doClose_inv st h; exact h
  | peerClose => exact h
  | close => exact doClose_inv st h

theorem run_closeInv : ∀ (evs : List Event) (st : LState), CloseInv st → CloseInv (runS st evs)
  | [], _, h => h
  | e :: rest, st, h => by
    have := run_closeInv rest (step st e).1 (step_closeInv st e h)
    simpa [runS, run] using this

/-! ## The wire is a list of whole messages -/

/-- `w` is the complete output of one CreateIPFIXMsg -/
def Whole (w : Bytes) : Prop := ∃ s dom seq time, createMsg s dom seq time = some w

theorem send_wire_whole (st : LState) (time : Nat) (s : SetB) :
    (st.send time s).1.wire = st.wire ∨ ∃ w, Whole w ∧ (st.send time s).1.wire = st.wire ++ [w] := by
  rcases send_cases st time s with ⟨_, h⟩ | ⟨n, w, _, hw, _, hsb⟩
  · exact Or.inl h
  · right
    obtain ⟨_, _, _, hc⟩ := C08.send_ok _ _ time s n w hsb
    exact ⟨w, ⟨_, _, _, _, hc⟩, hw⟩

/-- every event leaves the wire alone or appends exactly ONE whole message to it -/
theorem step_wire (st : LState) (e : Event) :
    (step st e).1.wire = st.wire ∨ ∃ w, Whole w ∧ (step st e).1.wire = st.wire ++ [w] := by
  cases e with
  | appSend time s => exact send_wire_whole st time s
  | refreshTick prio =>
    left
    simp only [step, LState.refreshTick]
    split
    · split
      · exact doClose_wire st
      · rfl
    · rfl
  | refreshStep time =>
    simp only [step, LState.refreshStep]
    split
    · exact Or.inl rfl
    · split
      · exact Or.inl rfl
      · split
        · exact send_wire_whole st time _
        · rw [doClose_wire]; exact send_wire_whole st time _
  | connCheck eof => left; simp only [step]; split; exact doClose_wire st; rfl
  | peerClose => exact Or.inl rfl
  | close => exact Or.inl (doClose_wire st)

theorem run_wire : ∀ (evs : List Event) (st : LState), (∀ w ∈ st.wire, Whole w) →
    (∃ more, (runS st evs).wire = st.wire ++ more) ∧ ∀ w ∈ (runS st evs).wire, Whole w
  | [], st, h => ⟨⟨[], by simp [runS, run]⟩, h⟩
  | e :: rest, st, h => by
    have hstep := step_wire st e
    have h' : ∀ w ∈ (step st e).1.wire, Whole w := by
      rcases hstep with he | ⟨w, hw, he⟩
      · rw [he]; exact h
      · rw [he]; intro x hx; simp at hx; rcases hx with hx | rfl
        · exact h x hx
        · exact hw
    obtain ⟨⟨more, hm⟩, hall⟩ := run_wire rest (step st e).1 h'
    have hr : runS st (e :: rest) = runS (step st e).1 rest := by simp [runS, run]
    rw [hr]
    refine ⟨?_, hall⟩
    rcases hstep with he | ⟨w, _, he⟩
    · exact ⟨more, by rw [hm, he]⟩
    · exact ⟨w :: more, by rw [hm, he]; simp⟩


/-! ## Every written message is well-formed for the independent parser; the TCP stream splits back -/

theorem buildAll_mem : ∀ (l : List (Nat × List IE)) (sets : List SetB), buildAll l = some sets →
    ∀ s ∈ sets, ∃ tid ies es, s = tplSetOf tid ies es
  | [], sets, h, s, hs => by simp [buildAll] at h; subst h; simp at hs
  | p :: rest, sets, h, s, hs => by
    unfold buildAll at h
    cases hm : makeTemplateSet p.1 p.2 with
    | none => simp [hm] at h
    | some s0 =>
      cases hb : buildAll rest with
      | none => simp [hm, hb] at h
      | some ss =>
        simp [hm, hb] at h
        subst h
        simp at hs
        rcases hs with rfl | hs
        · obtain ⟨es, _, he⟩ := makeTemplateSet_shape p.1 p.2 s hm
          exact ⟨p.1, p.2, es, he⟩
        · exact buildAll_mem rest ss hb s hs

/-- what the application hands to SendSet (a set built with the builders satisfies this: C16 length_inv),
    and export times that fit the 32-bit header field -/
def GoodEvent : Event → Prop
  | .appSend time s => C16.Inv s ∧ time < 4294967296
  | .refreshStep time => time < 4294967296
  | _ => True

def GInv (st : LState) : Prop :=
  st.exp.seq < 4294967296 ∧ st.exp.dom < 4294967296 ∧
  (∀ s ∈ st.pending, s.ty = .template ∧ C16.Inv s) ∧
  (∀ w ∈ st.wire, C14.wellFormed st.exp.dom w = true)

theorem sendBuilt_seq_lt (st : ExpState) (time : Nat) (s : SetB) (h : st.seq < 4294967296) :
    (st.sendBuilt time s).1.seq < 4294967296 := by
  rcases (sendBuilt_seq_dom st time s).2 with h1 | ⟨_, h1⟩
  · rw [h1]; exact h
  · rw [h1]; exact Nat.mod_lt _ (by decide)

/-- a transmitted message of a well-built set is one whole well-formed message (C02 wire_header) -/
theorem sent_wellFormed (st st' : ExpState) (time : Nat) (s : SetB) (n : Nat) (w : Bytes)
    (h : st.sendBuilt time s = (st', .ok n w)) (hi : C16.Inv s)
    (hs : st.seq < 4294967296) (hd : st.dom < 4294967296) (ht : time < 4294967296) :
    C14.wellFormed st.dom w = true := by
  obtain ⟨_, _, _, hc⟩ := C08.send_ok st st' time s n w h
  have hs' : st'.seq < 4294967296 := by
    have := sendBuilt_seq_lt st time s hs; rw [h] at this; exact this
  have hi' : C16.Inv s.updateLen := C16.inv_step s .updateLen hi
  have hlen2 : (s.header.take 2).length = 2 := by simp [List.length_take, hi.2]
  have hhdr : s.updateLen.header = be 2 (unbe (s.header.take 2)) ++ be 2 s.updateLen.length := by
    have := be_unbe (s.header.take 2)
    rw [hlen2] at this
    simp [SetB.updateLen, this]
  have hsid : unbe (s.header.take 2) < 65536 := by
    have := unbe_lt (s.header.take 2); rw [hlen2] at this; simpa using this
  obtain ⟨m, hp, hv, hl, _, _, hdm, _, hsl, _⟩ :=
    C02.wire_header s.updateLen st.dom st'.seq time _ w hc hi' hhdr hsid hd hs' ht
  simp [C14.wellFormed, hp, hv, hl, hdm, hsl]

theorem send_ginv (st : LState) (time : Nat) (s : SetB) (h : GInv st) (hi : C16.Inv s) (ht : time < 4294967296) :
    GInv (st.send time s).1 := by
  obtain ⟨h1, h2, h3, h4⟩ := h
  obtain ⟨_, f2, _, _, _, f6⟩ := send_frame st time s
  have hseq : (st.send time s).1.exp.seq < 4294967296 := by
    have := sendBuilt_seq_lt st.exp time s h1
    unfold LState.send
    simp only
    split
    · exact this
    · split <;> exact this
  refine ⟨hseq, by rw [f6]; exact h2, by rw [f2]; exact h3, ?_⟩
  rw [f6]
  rcases send_cases st time s with ⟨_, hw⟩ | ⟨n, w, _, hw, _, hsb⟩
  · rw [hw]; exact h4
  · rw [hw]
    intro x hx
    simp at hx
    rcases hx with hx | rfl
    · exact h4 x hx
    · exact sent_wellFormed _ _ time s n _ hsb hi h1 h2 ht

theorem doClose_ginv (st : LState) (h : GInv st) : GInv st.doClose := by
  unfold LState.doClose
  split
  · exact h
  · obtain ⟨h1, h2, _, h4⟩ := h
    exact ⟨h1, h2, by simp, h4⟩

theorem step_ginv (st : LState) (e : Event) (h : GInv st) (he : GoodEvent e) : GInv (step st e).1 := by
  cases e with
  | appSend time s => exact send_ginv st time s h he.1 he.2
  | refreshTick prio =>
    simp only [step, LState.refreshTick]
    split
    · split
      · exact doClose_ginv st h
      · rename_i sets hb
        obtain ⟨h1, h2, _, h4⟩ := h
        refine ⟨h1, h2, ?_, h4⟩
        intro s hs
        obtain ⟨tid, ies, es, rfl⟩ := buildAll_mem _ sets hb s hs
        exact ⟨rfl, tplSetOf_inv tid ies es⟩
    · exact h
  | refreshStep time =>
    simp only [step, LState.refreshStep]
    split
    · exact h
    · rename_i s rest hp
      split
      · obtain ⟨h1, h2, _, h4⟩ := h
        exact ⟨h1, h2, by simp, h4⟩
      · have hs : s.ty = .template ∧ C16.Inv s := h.2.2.1 s (by rw [hp]; simp)
        have hg := send_ginv st time s h hs.2 he
        split
        · obtain ⟨g1, g2, g3, g4⟩ := hg
          refine ⟨g1, g2, ?_, g4⟩
          intro x hx
          simp only at hx
          exact h.2.2.1 x (by rw [hp]; simp [hx])
        · exact doClose_ginv _ hg
  | connCheck eof => simp only [step]; split; exact doClose_ginv st h; exact h
  | peerClose => exact h
  | close => exact doClose_ginv st h

theorem run_ginv : ∀ (evs : List Event) (st : LState), GInv st → (∀ e ∈ evs, GoodEvent e) → GInv (runS st evs)
  | [], _, h, _ => h
  | e :: rest, st, h, hg => by
    have := run_ginv rest (step st e).1 (step_ginv st e h (hg e (by simp))) (fun x hx => hg x (by simp [hx]))
    simpa [runS, run] using this

theorem u16_append (x y : Bytes) (h : 2 ≤ x.length) : u16 (x ++ y) = u16 x := by
  match x, h with
  | a :: b :: t, _ => rfl

theorem wellFormed_len (dom : Nat) (w : Bytes) (h : C14.wellFormed dom w = true) :
    20 ≤ w.length ∧ u16 (w.drop 2) = w.length := by
  unfold C14.wellFormed parseMessage at h
  split at h
  · simp at h
  · rename_i m hm
    split at hm
    · simp at hm
    · rename_i hlt
      simp at hm
      subst hm
      simp at h
      exact ⟨by omega, h.1.1.2⟩

/-- cutting the concatenation of well-formed messages by their length fields gives the messages back -/
theorem splitFrames_flatten (dom : Nat) : ∀ (ws : List Bytes) (fuel : Nat), (∀ w ∈ ws, C14.wellFormed dom w = true) →
    ws.length ≤ fuel → C14.splitFrames fuel ws.flatten = (ws, [])
  | [], fuel, _, _ => by
    cases fuel <;> simp [C14.splitFrames]
  | w :: rest, 0, _, hf => by simp at hf
  | w :: rest, fuel + 1, h, hf => by
    obtain ⟨h20, hu⟩ := wellFormed_len dom w (h w (by simp))
    have ih := splitFrames_flatten dom rest fuel (fun x hx => h x (by simp [hx])) (by simpa using hf)
    have hdrop : (w ++ rest.flatten).drop 2 = w.drop 2 ++ rest.flatten := List.drop_append_of_le_length (by omega)
    have hl : u16 ((w ++ rest.flatten).drop 2) = w.length := by
      rw [hdrop, u16_append _ _ (by simp; omega), hu]
    simp only [List.flatten_cons, C14.splitFrames]
    rw [if_neg (by simp; omega)]
    simp only [hl]
    rw [if_neg (by simp; omega)]
    simp [ih]

/-! ## Schedules -/

def isCloseEv : Event → Bool
  | .close => true
  | _ => false

/-- on a closed process the Close calls can be deleted from any schedule without changing the outcome -/
theorem run_strip_closes : ∀ (evs : List Event) (st : LState), st.closed = true →
    runS st evs = runS st (evs.filter (fun e => !isCloseEv e))
  | [], _, _ => rfl
  | e :: rest, st, h => by
    cases e with
    | close =>
      have := run_strip_closes rest st h
      simp [runS, run, isCloseEv, step_close_of_closed st h] at this ⊢
      exact this
    | appSend time s =>
      have := run_strip_closes rest (step st (.appSend time s)).1 (step_closed st _ h).1
      simpa [runS, run, isCloseEv] using this
    | refreshTick prio =>
      have := run_strip_closes rest (step st (.refreshTick prio)).1 (step_closed st _ h).1
      simpa [runS, run, isCloseEv] using this
    | refreshStep time =>
      have := run_strip_closes rest (step st (.refreshStep time)).1 (step_closed st _ h).1
      simpa [runS, run, isCloseEv] using this
    | connCheck eof =>
      have := run_strip_closes rest (step st (.connCheck eof)).1 (step_closed st _ h).1
      simpa [runS, run, isCloseEv] using this
    | peerClose =>
      have := run_strip_closes rest (step st .peerClose).1 (step_closed st _ h).1
      simpa [runS, run, isCloseEv] using this

theorem doClose_peer (st : LState) : st.doClose.peerClosed = st.peerClosed := by
  unfold LState.doClose; split <;> rfl

/-- no event changes the transport or the observation domain, and a closed peer stays closed -/
theorem step_frame (st : LState) (e : Event) :
    (step st e).1.proto = st.proto ∧ (step st e).1.exp.dom = st.exp.dom ∧
    (st.peerClosed = true → (step st e).1.peerClosed = true) := by
  cases e with
  | appSend time s =>
    obtain ⟨_, _, _, f4, f5, f6⟩ := send_frame st time s
    exact ⟨f4, f6, fun h => by simp only [step]; rw [f5]; exact h⟩
  | refreshTick prio =>
    simp only [step, LState.refreshTick]
    split
    · split
      · exact ⟨doClose_proto st, by rw [doClose_exp], fun h => by rw [doClose_peer]; exact h⟩
      · exact ⟨rfl, rfl, id⟩
    · exact ⟨rfl, rfl, id⟩
  | refreshStep time =>
    simp only [step, LState.refreshStep]
    split
    · exact ⟨rfl, rfl, id⟩
    · rename_i s rest _
      split
      · exact ⟨rfl, rfl, id⟩
      · obtain ⟨_, _, _, f4, f5, f6⟩ := send_frame st time s
        split
        · exact ⟨f4, f6, fun h => by simp only; rw [f5]; exact h⟩
        · exact ⟨by rw [doClose_proto, f4], by rw [doClose_exp, f6], fun h => by rw [doClose_peer, f5]; exact h⟩
  | connCheck eof =>
    simp only [step]
    split
    · exact ⟨doClose_proto st, by rw [doClose_exp], fun h => by rw [doClose_peer]; exact h⟩
    · exact ⟨rfl, rfl, id⟩
  | peerClose => exact ⟨rfl, rfl, fun _ => rfl⟩
  | close => exact ⟨doClose_proto st, by simp only [step]; rw [doClose_exp], fun h => by simp only [step]; rw [doClose_peer]; exact h⟩

theorem run_frame : ∀ (evs : List Event) (st : LState),
    (runS st evs).proto = st.proto ∧ (runS st evs).exp.dom = st.exp.dom ∧
    (st.peerClosed = true → (runS st evs).peerClosed = true)
  | [], _ => ⟨rfl, rfl, id⟩
  | e :: rest, st => by
    obtain ⟨a, b, c⟩ := step_frame st e
    obtain ⟨a', b', c'⟩ := run_frame rest (step st e).1
    have hr : runS st (e :: rest) = runS (step st e).1 rest := by simp [runS, run]
    rw [hr]
    exact ⟨by rw [a', a], by rw [b', b], fun h => c' (c h)⟩

theorem runS_append (st : LState) (a b : List Event) : runS st (a ++ b) = runS (runS st a) b := by
  induction a generalizing st with
  | nil => rfl
  | cons e t ih =>
    have := ih (step st e).1
    simpa [runS, run] using this

/-! ## The refresher only ever queues template sets -/

def PendTpl (st : LState) : Prop := ∀ s ∈ st.pending, s.ty = .template

theorem doClose_pendTpl (st : LState) (h : PendTpl st) : PendTpl st.doClose := by
  unfold LState.doClose
  split
  · exact h
  · intro s hs; simp at hs

theorem step_pendTpl (st : LState) (e : Event) (h : PendTpl st) : PendTpl (step st e).1 := by
  cases e with
  | appSend time s =>
    intro x hx
    simp only [step] at hx
    rw [(send_frame st time s).2.1] at hx
    exact h x hx
  | refreshTick prio =>
    simp only [step, LState.refreshTick]
    split
    · split
      · exact doClose_pendTpl st h
      · rename_i sets hb
        intro s hs
        obtain ⟨tid, ies, es, rfl⟩ := buildAll_mem _ sets hb s hs
        rfl
    · exact h
  | refreshStep time =>
    simp only [step, LState.refreshStep]
    split
    · exact h
    · rename_i s rest hp
      split
      · intro x hx; simp at hx
      · split
        · intro x hx
          simp only at hx
          exact h x (by rw [hp]; simp [hx])
        · apply doClose_pendTpl
          intro x hx
          rw [(send_frame st time s).2.1] at hx
          exact h x hx
  | connCheck eof => simp only [step]; split; exact doClose_pendTpl st h; exact h
  | peerClose => exact h
  | close => exact doClose_pendTpl st h

theorem run_pendTpl : ∀ (evs : List Event) (st : LState), PendTpl st → PendTpl (runS st evs)
  | [], _, h => h
  | e :: rest, st, h => by
    have := run_pendTpl rest (step st e).1 (step_pendTpl st e h)
    simpa [runS, run] using this

/-- a send of a template set never moves the counter, whatever its outcome -/
theorem send_template_seq (st : LState) (time : Nat) (s : SetB) (ht : s.ty = .template) :
    (st.send time s).1.exp.seq = st.exp.seq := by
  have hsb : (st.exp.sendBuilt time s).1.seq = st.exp.seq := by
    cases hr : st.exp.sendBuilt time s with
    | mk st' r =>
      cases r with
      | ok n w =>
        -- C08 send_ok: the counter advances for data sets only
        obtain ⟨_, _, hseq, _⟩ := C08.send_ok st.exp st' time s n w hr
        simpa [ht] using hseq
      | err =>
        rcases (sendBuilt_seq_dom st.exp time s).2 with h | ⟨hd, _⟩
        · rw [hr] at h; exact h
        · rw [ht] at hd; cases hd
  unfold LState.send
  simp only
  split
  · exact hsb
  · split <;> exact hsb

theorem length_le_flatten (dom : Nat) : ∀ (ws : List Bytes), (∀ w ∈ ws, C14.wellFormed dom w = true) →
    ws.length ≤ ws.flatten.length
  | [], _ => by simp
  | w :: rest, h => by
    have := length_le_flatten dom rest (fun x hx => h x (by simp [hx]))
    have := (wellFormed_len dom w (h w (by simp))).1
    simp only [List.length_cons, List.flatten_cons, List.length_append]; omega

/-! ## Lock discipline, computed from the regenerated table (Generated/LocksExporter.lean) -/
namespace Locks
open Generated.LocksExporter

def callees (u : String) : List String := (calls.filter (·.1 == u)).map (·.2)

/-- units reachable from `acc` through the call edges (fuel = number of units) -/
def reach : Nat → List String → List String
  | 0, acc => acc
  | n+1, acc => reach n (acc ++ ((acc.flatMap callees).filter (fun u => !acc.contains u)).eraseDups)

def reachable (root : String) : List String := reach units.length [root]

/-- the background goroutines: the `go` statements of InitExportingProcess -/
def bgUnits : List String := (goroutines.map (·.1)).flatMap reachable

/-- the application goroutine: the exported methods, and the part of InitExportingProcess that runs after
    the first `go` statement -/
def appUnits : List String := (exported ++ postStartUnits).flatMap reachable

def guarded (a : Access) : Bool := a.how == "mutex" || a.how == "atomic" || a.how == "atomicMethod" || a.how == "sync"

def fieldAccesses (f : String) (us : List String) : List Access :=
  accesses.filter (fun a => a.field == f && us.contains a.unit)

/-- accessed by the application goroutine AND by a background goroutine, and written by one of them -/
def sharedWritten (f : String) : Bool :=
  !(fieldAccesses f appUnits).isEmpty && !(fieldAccesses f bgUnits).isEmpty &&
  (fieldAccesses f (appUnits ++ bgUnits)).any (·.write)

/-- every access is guarded, and by one mechanism: the same mutex throughout, or atomics / sync types throughout -/
def consistent (f : String) : Bool :=
  let all := fieldAccesses f (appUnits ++ bgUnits)
  all.all guarded &&
  (match all.filter (·.how == "mutex") with
   | [] => true
   | m :: _ => all.all (fun a => a.how == "mutex" && a.lock == m.lock))

def fieldOK (f : String) : Bool := !sharedWritten f || consistent f

/-- the state the property is about -/
def trackedFields : List String := ["seqNumber", "templatesMap", "templateID", "connToCollector", "isClosed", "stopCh"]

end Locks

end Ipfix.Life
