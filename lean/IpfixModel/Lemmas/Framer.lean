/-
  Helper lemmas for property C11 (Props/C11.lean): the reader loop `Framer.drain` / `feed` and the
  declarative splitting `C11.frames`.
-/
import IpfixModel.Model.Framer
import IpfixModel.Spec.C11
namespace Ipfix.Framer
open Ipfix.C11

variable {σ μ : Type}

theorem peekLen_append {b : Bytes} {n : Nat} (c : Bytes) (h : peekLen b = some n) :
    peekLen (b ++ c) = some n := by
  match b, h with
  | _ :: _ :: hi :: lo :: _, h => simpa [peekLen] using h

theorem peekLen_some_length {b : Bytes} {n : Nat} (h : peekLen b = some n) : 4 ≤ b.length := by
  match b, h with
  | _ :: _ :: _ :: _ :: _, _ => simp

theorem peekLen_none_of_short {b : Bytes} (h : b.length < 4) : peekLen b = none := by
  match b, h with
  | [], _ => rfl
  | [_], _ => rfl
  | [_, _], _ => rfl
  | [_, _, _], _ => rfl
  | _ :: _ :: _ :: _ :: _, h => simp at h; omega

theorem peekLen_take {b : Bytes} {n : Nat} (h : peekLen b = some n) (h4 : 4 ≤ n) :
    peekLen (b.take n) = some n := by
  match b, h with
  | _ :: _ :: hi :: lo :: _, h =>
    match n, h4 with
    | n+4, _ => simpa [peekLen, List.take] using h

/-- a frame that decodes is at least 4 bytes long -/
theorem dec_some_len (dec : Decoder σ μ) {st st' : σ} {b : Bytes} {n : Nat} {m : μ}
    (h : dec.run st (b.take n) = (st', some m)) : 4 ≤ n := by
  apply Classical.byContradiction
  intro hn
  have hs := dec.short st (b.take n) (by simp; omega)
  rw [h] at hs
  cases hs

theorem dec_some_length (dec : Decoder σ μ) {st st' : σ} {f : Bytes} {m : μ}
    (h : dec.run st f = (st', some m)) : 4 ≤ f.length := by
  apply Classical.byContradiction
  intro hn
  have hs := dec.short st f (by omega)
  rw [h] at hs
  cases hs

theorem drain_fuel (dec : Decoder σ μ) (f : Nat) (s : FState σ μ)
    (hf : s.buf.length < f) : ∀ g, s.buf.length < g → drain dec f s = drain dec g s := by
  induction f generalizing s with
  | zero => omega
  | succ f ih =>
    intro g hg
    cases g with
    | zero => omega
    | succ g =>
      simp only [drain]
      split
      · rfl
      · split
        · rfl
        · rename_i n hn
          split
          · split
            · rfl
            · rename_i st' m hd
              have h4 := dec_some_len dec hd
              apply ih
              · simp; omega
              · simp; omega
          · rfl

/-- Key lemma: draining, then receiving more bytes and draining again, is the same as
    receiving the bytes first. -/
theorem drain_app (dec : Decoder σ μ) (f : Nat) (s : FState σ μ) (c : Bytes)
    (hf : s.buf.length < f) :
    ∀ g h, (s.buf ++ c).length < g → (s.buf ++ c).length < h →
      drain dec g (app (drain dec f s) c) = drain dec h (app s c) := by
  induction f generalizing s with
  | zero => omega
  | succ f ih =>
    intro g h hg hh
    simp only [drain]
    split
    · -- closed
      rename_i hc
      exact drain_fuel dec g _ (by simp [app, hc]; simp at hg; omega) h (by simp [app, hc]; simp at hh; omega)
    · rename_i hc
      split
      · -- no full header yet: drain did nothing
        exact drain_fuel dec g _ (by simp [app, hc]; simpa using hg) h (by simp [app, hc]; simpa using hh)
      · rename_i n hn
        split
        · rename_i hle
          -- a complete frame is at the front of s.buf, hence also of s.buf ++ c
          have hpk : peekLen (s.buf ++ c) = some n := peekLen_append c hn
          have hle' : n ≤ (s.buf ++ c).length := by simp; omega
          cases h with
          | zero => omega
          | succ h =>
            have happ : app s c = { s with buf := s.buf ++ c } := by simp [app, hc]
            rw [happ]
            conv => rhs; simp only [drain]
            simp only [hc, hpk, hle', if_true]
            have htake : (s.buf ++ c).take n = s.buf.take n := by
              rw [List.take_append_of_le_length hle]
            rw [htake]
            split
            · rename_i st' hd
              simp [app]
              cases g with
              | zero => omega
              | succ g => simp [drain]
            · rename_i st' m hd
              have h4 := dec_some_len dec hd
              have hdrop : (s.buf ++ c).drop n = s.buf.drop n ++ c := by
                rw [List.drop_append_of_le_length hle]
              rw [hdrop]
              have := ih { s with st := st', buf := s.buf.drop n, out := s.out ++ [m] }
                (by simp; omega) g h (by simp; simp at hg; omega) (by simp; simp at hh; omega)
              simpa [app, hc] using this
        · exact drain_fuel dec g _ (by simp [app, hc]; simpa using hg) h (by simp [app, hc]; simpa using hh)

theorem app_app (s : FState σ μ) (a b : Bytes) : app (app s a) b = app s (a ++ b) := by
  unfold app; split <;> simp_all [List.append_assoc]

theorem app_buf_le (s : FState σ μ) (c : Bytes) : (app s c).buf.length ≤ (s.buf ++ c).length := by
  unfold app; split <;> simp

/-- feeding two segments one after the other = feeding their concatenation -/
theorem feed_feed (dec : Decoder σ μ) (s : FState σ μ) (a b : Bytes) :
    feed dec (feed dec s a) b = feed dec s (a ++ b) := by
  unfold feed
  generalize hD : drain dec ((s.buf ++ a).length + 1) (app s a) = D
  have hX : (app s a).buf.length < (s.buf ++ a).length + 1 := by
    have := app_buf_le s a; omega
  have hbuf : ((app s a).buf ++ b).length < (s.buf ++ (a ++ b)).length + 1 := by
    have := app_buf_le s a; simp at *; omega
  have hDb := app_buf_le D b
  let G := (D.buf ++ b).length + ((app s a).buf ++ b).length + 1
  have h1 := drain_fuel dec ((D.buf ++ b).length + 1) (app D b) (by omega) G (by simp only [G]; omega)
  rw [h1]
  have h2 := drain_app dec ((s.buf ++ a).length + 1) (app s a) b hX G ((s.buf ++ (a ++ b)).length + 1)
    (by simp only [G]; omega) hbuf
  rw [hD] at h2
  rw [h2, app_app]


/-! ## the declarative splitting -/

theorem framesFuel_fuel (f : Nat) (b : Bytes) (hf : b.length < f) :
    ∀ g, b.length < g → framesFuel f b = framesFuel g b := by
  induction f generalizing b with
  | zero => omega
  | succ f ih =>
    intro g hg
    cases g with
    | zero => omega
    | succ g =>
      simp only [framesFuel]
      split
      · rfl
      · rename_i n hn
        split
        · split
          · rfl
          · rw [ih (b.drop n) (by simp; omega) g (by simp; omega)]
        · rfl

theorem frames_eq (b : Bytes) (g : Nat) (hg : b.length < g) : frames b = framesFuel g b :=
  framesFuel_fuel _ b (by omega) g hg

/-- the frames and the rest are a partition of the stream: contiguous, in order, nothing skipped -/
theorem framesFuel_flatten (f : Nat) (b : Bytes) : (framesFuel f b).1.flatten ++ (framesFuel f b).2 = b := by
  induction f generalizing b with
  | zero => simp [framesFuel]
  | succ f ih =>
    simp only [framesFuel]
    split
    · simp
    · split
      · split
        · simp
        · rename_i n _ _ _
          simp only [List.flatten_cons, List.append_assoc, ih (b.drop n), List.take_append_drop]
      · simp

/-- every frame of 4 bytes or more is exactly as long as its header says -/
theorem framesFuel_wf (f : Nat) (b : Bytes) : ∀ x ∈ (framesFuel f b).1, 4 ≤ x.length → WFFrame x := by
  induction f generalizing b with
  | zero => simp [framesFuel]
  | succ f ih =>
    simp only [framesFuel]
    split
    · simp
    · rename_i n hn
      split
      · rename_i hle
        split
        · intro x hx h4
          simp at hx
          subst hx
          simp at h4
          omega
        · rename_i h4
          intro x hx hx4
          simp only [List.mem_cons] at hx
          rcases hx with rfl | hx
          · unfold WFFrame
            rw [peekLen_take hn (by omega)]
            simp [Nat.min_eq_left hle]
          · exact ih _ x hx hx4
      · simp

/-- the rest holds no complete frame (unless the splitting ended at a frame shorter than 4) -/
theorem framesFuel_rest (f : Nat) (b : Bytes) (hf : b.length < f)
    (hall : ∀ x ∈ (framesFuel f b).1, 4 ≤ x.length) :
    ∀ n, peekLen (framesFuel f b).2 = some n → (framesFuel f b).2.length < n := by
  induction f generalizing b with
  | zero => omega
  | succ f ih =>
    revert hall
    simp only [framesFuel]
    split
    · rename_i hn
      intro _ n h
      simp [hn] at h
    · rename_i n hn
      split
      · rename_i hle
        split
        · rename_i h4
          intro hall
          have := hall (b.take n) (by simp)
          simp at this
          omega
        · rename_i h4
          intro hall
          apply ih (b.drop n) (by simp; omega)
          intro x hx
          exact hall x (by simp [hx])
      · rename_i hle
        intro _ m hm
        simp only at hm
        rw [hn] at hm
        cases hm
        simp only
        omega

/-- a well-formed frame at the front of a stream is its first frame -/
theorem frames_cons {w : Bytes} (hw : WFFrame w) (r : Bytes) :
    frames (w ++ r) = (w :: (frames r).1, (frames r).2) := by
  unfold WFFrame at hw
  have h4 := peekLen_some_length hw
  have h1 : w.length ≤ (w ++ r).length := by simp
  have h2 : ¬ w.length < 4 := by omega
  have ht : (w ++ r).take w.length = w := by simp
  have hd : (w ++ r).drop w.length = r := by simp
  have h : framesFuel ((w ++ r).length + 1) (w ++ r) =
      (w :: (framesFuel (w ++ r).length r).1, (framesFuel (w ++ r).length r).2) := by
    rw [framesFuel]
    simp only [peekLen_append r hw, h1, h2, if_true, if_false, ht, hd]
  unfold frames
  rw [h, framesFuel_fuel (w ++ r).length r (by simp; omega) (r.length + 1) (by omega)]

theorem frames_nil : frames ([] : Bytes) = ([], []) := by
  simp [frames, framesFuel, peekLen]

theorem frames_flatten_wf (ws : List Bytes) (hw : ∀ w ∈ ws, WFFrame w) (r : Bytes) :
    frames (ws.flatten ++ r) = (ws ++ (frames r).1, (frames r).2) := by
  induction ws with
  | nil => simp
  | cons w ws ih =>
    have hw1 := hw w (by simp)
    have ih' := ih (fun x hx => hw x (by simp [hx]))
    simp only [List.flatten_cons, List.append_assoc]
    rw [frames_cons hw1, ih']
    simp

/-- splitting a stream that is later extended: the frames already complete stay what they were
    (bytes that arrive later never change an earlier frame), and the splitting continues from the
    incomplete rest -/
theorem framesFuel_append (f : Nat) (b c : Bytes) (hf : b.length < f)
    (hall : ∀ x ∈ (framesFuel f b).1, 4 ≤ x.length) :
    ∀ g h, (b ++ c).length < g → ((framesFuel f b).2 ++ c).length < h →
      framesFuel g (b ++ c) =
        ((framesFuel f b).1 ++ (framesFuel h ((framesFuel f b).2 ++ c)).1,
         (framesFuel h ((framesFuel f b).2 ++ c)).2) := by
  induction f generalizing b with
  | zero => omega
  | succ f ih =>
    revert hall
    simp only [framesFuel]
    split
    · intro _ g h hg hh
      simp only [List.nil_append]
      exact framesFuel_fuel g _ hg h hh
    · rename_i n hn
      split
      · rename_i hle
        split
        · rename_i h4
          intro hall
          have := hall (b.take n) (by simp)
          simp at this
          omega
        · rename_i h4
          intro hall g h hg hh
          cases g with
          | zero => omega
          | succ g =>
            have hpk : peekLen (b ++ c) = some n := peekLen_append c hn
            have hle' : n ≤ (b ++ c).length := by simp; omega
            have htake : (b ++ c).take n = b.take n := by rw [List.take_append_of_le_length hle]
            have hdrop : (b ++ c).drop n = b.drop n ++ c := by rw [List.drop_append_of_le_length hle]
            rw [framesFuel]
            simp only [hpk, hle', h4, if_true, if_false, htake, hdrop]
            have := ih (b.drop n) (by simp; omega) (fun x hx => hall x (by simp [hx])) g h
              (by simp; simp at hg; omega) hh
            rw [this]
            simp
      · intro _ g h hg hh
        simp only [List.nil_append]
        exact framesFuel_fuel g _ hg h hh

theorem frames_append (b c : Bytes) (hall : ∀ x ∈ (frames b).1, 4 ≤ x.length) :
    frames (b ++ c) = ((frames b).1 ++ (frames ((frames b).2 ++ c)).1, (frames ((frames b).2 ++ c)).2) := by
  unfold frames at *
  exact framesFuel_append _ b c (by omega) hall _ _ (by omega) (by omega)

/-! ## frames handed to the decoder -/

theorem runFrames_append_open (dec : Decoder σ μ) (st : σ) (a b : List Bytes)
    (h : (runFrames dec st a).2.2 = false) :
    runFrames dec st (a ++ b) =
      ((runFrames dec (runFrames dec st a).1 b).1,
       (runFrames dec st a).2.1 ++ (runFrames dec (runFrames dec st a).1 b).2.1,
       (runFrames dec (runFrames dec st a).1 b).2.2) := by
  induction a generalizing st with
  | nil => simp [runFrames]
  | cons f fs ih =>
    revert h
    simp only [List.cons_append, runFrames]
    split
    · intro h; cases h
    · rename_i st' m hd
      intro h
      simp only at h
      simp only [ih st' h, List.cons_append]

theorem runFrames_append_closed (dec : Decoder σ μ) (st : σ) (a b : List Bytes)
    (h : (runFrames dec st a).2.2 = true) : runFrames dec st (a ++ b) = runFrames dec st a := by
  induction a generalizing st with
  | nil => simp [runFrames] at h
  | cons f fs ih =>
    revert h
    simp only [List.cons_append, runFrames]
    split
    · intro _; rfl
    · rename_i st' m hd
      intro h
      simp only at h
      simp only [ih st' h]

/-- the delivered messages are the decodings of the first frames, one message per frame, in order -/
theorem runFrames_get (dec : Decoder σ μ) (st : σ) (fs : List Bytes) :
    ∀ (i : Nat) (m : μ), (runFrames dec st fs).2.1[i]? = some m → ∃ f a, fs[i]? = some f ∧ (dec.run a f).2 = some m := by
  induction fs generalizing st with
  | nil => simp [runFrames]
  | cons f fs ih =>
    simp only [runFrames]
    split
    · simp
    · rename_i st' m hd
      intro i m' h
      cases i with
      | zero =>
        simp at h
        subst h
        exact ⟨f, st, by simp, by rw [hd]⟩
      | succ i =>
        simp only [List.getElem?_cons_succ] at h
        obtain ⟨f', a, h1, h2⟩ := ih st' i m' h
        exact ⟨f', a, by simpa using h1, h2⟩

theorem runFrames_length_le (dec : Decoder σ μ) (st : σ) (fs : List Bytes) :
    (runFrames dec st fs).2.1.length ≤ fs.length := by
  induction fs generalizing st with
  | nil => simp [runFrames]
  | cons f fs ih =>
    simp only [runFrames]
    split
    · simp
    · rename_i st' m hd
      have := ih st'
      simp; omega

/-- an open result means every frame decoded: one message per frame, each at least 4 bytes -/
theorem runFrames_open (dec : Decoder σ μ) (st : σ) (fs : List Bytes) (h : (runFrames dec st fs).2.2 = false) :
    (runFrames dec st fs).2.1.length = fs.length ∧ ∀ f ∈ fs, 4 ≤ f.length := by
  induction fs generalizing st with
  | nil => simp [runFrames]
  | cons f fs ih =>
    revert h
    simp only [runFrames]
    split
    · intro h; cases h
    · rename_i st' m hd
      intro h
      simp only at h
      have := ih st' h
      refine ⟨by simp [this.1], ?_⟩
      intro x hx
      simp only [List.mem_cons] at hx
      rcases hx with rfl | hx
      · exact dec_some_length dec hd
      · exact this.2 x hx

/-- a closed result means some frame did not decode, and exactly the frames before it were delivered -/
theorem runFrames_closed (dec : Decoder σ μ) (st : σ) (fs : List Bytes) (h : (runFrames dec st fs).2.2 = true) :
    ∃ good bad rest st1, fs = good ++ bad :: rest ∧ (runFrames dec st good).2.2 = false ∧
      (runFrames dec st good).1 = st1 ∧ (dec.run st1 bad).2 = none ∧
      (runFrames dec st fs).2.1 = (runFrames dec st good).2.1 := by
  induction fs generalizing st with
  | nil => simp [runFrames] at h
  | cons f fs ih =>
    revert h
    simp only [runFrames]
    split
    · rename_i st' hd
      intro _
      exact ⟨[], f, fs, st, by simp, by simp [runFrames], by simp [runFrames], by rw [hd], by simp [runFrames]⟩
    · rename_i st' m hd
      intro h
      simp only at h
      obtain ⟨good, bad, rest, st1, h1, h2, h3, h4, h5⟩ := ih st' h
      refine ⟨f :: good, bad, rest, st1, by simp [h1], ?_, ?_, h4, ?_⟩
      · simp [runFrames, hd, h2]
      · simp [runFrames, hd, h3]
      · simp [runFrames, hd, h5]

/-! ## the reader loop = declarative splitting + decoding in order -/

/-- the state the specification assigns to an open connection `s` whose buffer splits into `fr` -/
def specState (dec : Decoder σ μ) (s : FState σ μ) (fr : List Bytes × Bytes) : FState σ μ :=
  { st := (runFrames dec s.st fr.1).1,
    buf := if (runFrames dec s.st fr.1).2.2 then [] else fr.2,
    closed := (runFrames dec s.st fr.1).2.2,
    out := s.out ++ (runFrames dec s.st fr.1).2.1 }

theorem drain_spec (dec : Decoder σ μ) (f : Nat) (s : FState σ μ) (hc : s.closed = false)
    (hf : s.buf.length < f) : ∀ g, s.buf.length < g → drain dec f s = specState dec s (framesFuel g s.buf) := by
  induction f generalizing s with
  | zero => omega
  | succ f ih =>
    intro g hg
    cases g with
    | zero => omega
    | succ g =>
      simp only [drain, framesFuel, hc, Bool.false_eq_true, if_false]
      cases hp : peekLen s.buf with
      | none =>
        cases s
        simp_all [specState, runFrames]
      | some n =>
        simp only
        by_cases hle : n ≤ s.buf.length
        · simp only [hle, if_true]
          by_cases h4 : n < 4
          · simp only [h4, if_true]
            have hs := dec.short s.st (s.buf.take n) (by simp; omega)
            rcases hd : dec.run s.st (s.buf.take n) with ⟨st', _ | m⟩
            · simp [specState, runFrames, hd]
            · rw [hd] at hs; cases hs
          · simp only [h4, if_false]
            rcases hd : dec.run s.st (s.buf.take n) with ⟨st', _ | m⟩
            · simp [specState, runFrames, hd]
            · simp only
              rw [ih { st := st', buf := s.buf.drop n, closed := false, out := s.out ++ [m] } rfl (by simp; omega) g (by simp; omega)]
              simp [specState, runFrames, hd]
        · simp only [hle, if_false]
          cases s
          simp_all [specState, runFrames]

/-- a segment arriving on an open connection: split buffer ++ segment, decode in order -/
theorem feed_spec (dec : Decoder σ μ) (s : FState σ μ) (hc : s.closed = false) (chunk : Bytes) :
    feed dec s chunk = specState dec s (frames (s.buf ++ chunk)) := by
  unfold feed frames
  have happ : app s chunk = { s with buf := s.buf ++ chunk } := by simp [app, hc]
  rw [happ]
  exact drain_spec dec _ { s with buf := s.buf ++ chunk } hc (by simp) _ (by simp)

theorem feed_closed (dec : Decoder σ μ) (s : FState σ μ) (hc : s.closed = true) (chunk : Bytes) :
    feed dec s chunk = s := by
  unfold feed
  have happ : app s chunk = s := by simp [app, hc]
  rw [happ]
  simp [drain, hc]

end Ipfix.Framer
