import IpfixModel.Lemmas.Collector
import IpfixModel.Spec.C03
namespace Ipfix
open Outcome C03

theorem decodeField_sound {ie : IE} {b r : Bytes} {v : Value} (h : decodeField ie b = .ok (v, r)) :
    ∃ s p, IsField ie s p ∧ b = s ++ r ∧ decodeElem ie p = .ok v := by
  unfold decodeField at h
  rw [bind_eq_ok] at h
  obtain ⟨⟨n, r0⟩, hr, h⟩ := h
  simp only at h
  split at h
  · cases h
  · rename_i hge
    rw [bind_eq_ok] at h
    obtain ⟨v', hv, h⟩ := h
    simp at h
    obtain ⟨rfl, rfl⟩ := h
    unfold readFieldLength at hr
    unfold IsField
    split at hr
    · rename_i hvar
      simp only [hvar, if_true]
      match b, hr with
      | l :: rr, hr =>
        simp only at hr
        split at hr
        · rename_i hl
          simp at hr; obtain ⟨rfl, rfl⟩ := hr
          refine ⟨l :: rr.take l.toNat, rr.take l.toNat, Or.inl ⟨l, rfl, hl, ?_⟩, ?_, hv⟩
          · simp [List.length_take]; omega
          · simp
        · rename_i hl
          match rr, hr with
          | hi :: lo :: r', hr =>
            simp at hr; obtain ⟨rfl, rfl⟩ := hr
            have hl255 : l = 255 := by
              have := l.toNat_lt
              apply UInt8.toNat_inj.mp; simp; omega
            subst hl255
            refine ⟨255 :: hi :: lo :: r'.take (hi.toNat * 256 + lo.toNat), r'.take (hi.toNat * 256 + lo.toNat),
              Or.inr ⟨hi, lo, rfl, ?_⟩, ?_, hv⟩
            · simp [List.length_take]; omega
            · simp
    · rename_i hfix
      simp only [hfix, if_false]
      simp at hr; obtain ⟨rfl, rfl⟩ := hr
      refine ⟨b.take ie.len, b.take ie.len, ⟨rfl, ?_⟩, by simp, hv⟩
      simp [List.length_take]; omega

theorem decodeRecord_sound {mode : Mode} {tpl : Template} {b r : Bytes} {vs : List Value}
    (h : decodeRecord mode tpl b = .ok (vs, r)) :
    ∃ ss ps, IsRecord tpl ss ps ∧ b = ss.flatten ++ r ∧ decodePayloads mode tpl ps = .ok vs := by
  induction tpl generalizing b r vs with
  | nil =>
    simp [decodeRecord] at h; obtain ⟨rfl, rfl⟩ := h
    exact ⟨[], [], .nil, by simp, by simp [decodePayloads]⟩
  | cons ie t ih =>
    unfold decodeRecord at h
    rw [bind_eq_ok] at h
    obtain ⟨⟨v, r1⟩, h1, h⟩ := h
    rw [bind_eq_ok] at h
    obtain ⟨⟨vs', r2⟩, h2, h⟩ := h
    obtain ⟨s, p, hf, hb, hd⟩ := decodeField_sound h1
    obtain ⟨ss, ps, hrec, hb2, hdp⟩ := ih h2
    refine ⟨s :: ss, p :: ps, .cons hf hrec, ?_, ?_⟩
    · have hr : r = r2 := by
        simp only at h; split at h <;> (simp at h; exact h.2.symm)
      subst hr
      simp [hb, hb2, List.append_assoc]
    · simp only [decodePayloads, hd, hdp, bind_ok]
      simp only at h
      split at h <;> (simp at h; obtain ⟨rfl, _⟩ := h; simp [*])

theorem decodeRecordsFuel_sound {mode : Mode} {tpl : Template} {fuel : Nat} {b : Bytes}
    {recs : List (List Value)} (h : decodeRecordsFuel mode tpl fuel b = .ok recs) :
    ∃ raw pad, Slices tpl b raw pad ∧ raw.map (decodePayloads mode tpl) = recs.map Outcome.ok := by
  induction fuel generalizing b recs with
  | zero => simp [decodeRecordsFuel] at h
  | succ f ih =>
    unfold decodeRecordsFuel at h
    split at h
    · rename_i hlt
      simp at h; subst h
      exact ⟨[], b, .done hlt, rfl⟩
    · rw [bind_eq_ok] at h
      obtain ⟨⟨r, rest⟩, hr, h⟩ := h
      rw [bind_eq_ok] at h
      obtain ⟨rs, hrs, h⟩ := h
      simp at h; subst h
      obtain ⟨ss, ps, hrec, hb, hdp⟩ := decodeRecord_sound hr
      obtain ⟨raw, pad, hsl, hmap⟩ := ih hrs
      refine ⟨ps :: raw, pad, ?_, ?_⟩
      · rw [hb]; exact .cons hrec hsl
      · simp [hdp, hmap]

end Ipfix
