import IpfixModel.Lemmas.IE
import IpfixModel.Model.Collector
namespace Ipfix

namespace Outcome
theorem bind_eq_ok {α β} {x : Outcome α} {f : α → Outcome β} {b : β} :
    (x >>= f) = ok b ↔ ∃ a, x = ok a ∧ f a = ok b := by
  cases x <;> simp [Bind.bind, Outcome.bind]

/-- neither a crash nor non-termination -/
def Safe {α} (o : Outcome α) : Prop := o ≠ panic ∧ o ≠ diverge

theorem safe_ok {α} (a : α) : Safe (ok a) := by simp [Safe]
theorem safe_err {α} : Safe (err : Outcome α) := by simp [Safe]

theorem safe_bind {α β} {x : Outcome α} {f : α → Outcome β}
    (hx : Safe x) (hf : ∀ a, x = ok a → Safe (f a)) : Safe (x >>= f) := by
  cases x with
  | ok a => exact hf a rfl
  | err => exact safe_err
  | panic => exact absurd rfl hx.1
  | diverge => exact absurd rfl hx.2
end Outcome

open Outcome

/-! ## Safety of the element decoder -/

theorem decodeElem_safe (ie : IE) (bs : Bytes) (hwf : ie.WF)
    (hlen : ie.len ≠ VariableLength → bs.length = ie.len) : Safe (decodeElem ie bs) := by
  obtain ⟨name, id, ty, ent, len⟩ := ie
  cases ty <;> simp [IE.WF, DataType.width] at hwf <;>
    simp [decodeElem, DataType.width, Safe]
  all_goals (subst hwf; simp at hlen)
  case boolean => cases bs <;> simp at hlen ⊢
  all_goals first
    | (refine ⟨by omega, ?_⟩; split <;> simp)
    | (refine ⟨by (intro h; subst h; simp at hlen), ?_⟩; split <;> simp)

theorem readFieldLength_safe (ie : IE) (b : Bytes) : Safe (readFieldLength ie b) := by
  unfold readFieldLength
  split
  · split
    · exact safe_err
    · split
      · exact safe_ok _
      · split
        · exact safe_ok _
        · exact safe_err
  · exact safe_ok _

theorem readFieldLength_fixed {ie : IE} {b r : Bytes} {n : Nat} (hne : ie.len ≠ VariableLength)
    (h : readFieldLength ie b = .ok (n, r)) : n = ie.len ∧ r = b := by
  have hne' : ¬ ie.len = 65535 := by simpa using hne
  simp [readFieldLength, hne'] at h; exact ⟨h.1.symm, h.2.symm⟩

theorem decodeField_safe (ie : IE) (b : Bytes) (hwf : ie.WF) : Safe (decodeField ie b) := by
  unfold decodeField
  apply safe_bind (readFieldLength_safe ie b)
  rintro ⟨n, r⟩ hr
  simp only
  split
  · exact safe_err
  · rename_i hlt
    apply safe_bind
    · apply decodeElem_safe ie _ hwf
      intro hne
      have := (readFieldLength_fixed hne hr).1
      simp [List.length_take]; omega
    · intro v _; exact safe_ok _

/-- a successfully decoded field consumed at least `minLen` bytes and left a suffix -/
theorem decodeField_consumes {ie : IE} {b r : Bytes} {v : Value} (h : decodeField ie b = .ok (v, r)) :
    r.length + ie.minLen ≤ b.length := by
  unfold decodeField at h
  rw [bind_eq_ok] at h
  obtain ⟨⟨n, r0⟩, hr, h⟩ := h
  simp only at h
  split at h
  · cases h
  · rename_i hge
    rw [bind_eq_ok] at h
    obtain ⟨v', _, h⟩ := h
    simp at h
    obtain ⟨_, rfl⟩ := h
    unfold readFieldLength at hr
    unfold IE.minLen
    split at hr
    · rename_i hv
      simp only [hv, if_true]
      match b, hr with
      | l :: rr, hr =>
        simp only at hr
        split at hr
        · simp at hr; obtain ⟨rfl, rfl⟩ := hr; simp [List.length_drop] <;> omega
        · match rr, hr with
          | hi :: lo :: r', hr =>
            simp at hr; obtain ⟨rfl, rfl⟩ := hr; simp [List.length_drop]; omega
    · rename_i hv
      simp only [hv, if_false]
      simp at hr; obtain ⟨rfl, rfl⟩ := hr
      simp [List.length_drop]; omega

/-! ## Records -/

theorem decodeRecord_safe (mode : Mode) (tpl : Template) (b : Bytes) (hwf : ∀ ie ∈ tpl, ie.WF) :
    Safe (decodeRecord mode tpl b) := by
  induction tpl generalizing b with
  | nil => exact safe_ok _
  | cons ie t ih =>
    unfold decodeRecord
    apply safe_bind (decodeField_safe ie b (hwf ie (by simp)))
    rintro ⟨v, r⟩ _
    apply safe_bind (ih r (fun x hx => hwf x (by simp [hx])))
    rintro ⟨vs, r'⟩ _
    simp only
    split <;> exact safe_ok _

theorem decodeRecord_consumes {mode : Mode} {tpl : Template} {b r : Bytes} {vs : List Value}
    (h : decodeRecord mode tpl b = .ok (vs, r)) : r.length + minRecordLen tpl ≤ b.length := by
  induction tpl generalizing b vs r with
  | nil => simp [decodeRecord] at h; obtain ⟨_, rfl⟩ := h; simp [minRecordLen]
  | cons ie t ih =>
    unfold decodeRecord at h
    rw [bind_eq_ok] at h
    obtain ⟨⟨v, r1⟩, h1, h⟩ := h
    rw [bind_eq_ok] at h
    obtain ⟨⟨vs', r2⟩, h2, h⟩ := h
    have c1 := decodeField_consumes h1
    have c2 := ih h2
    have hr : r = r2 := by
      simp only at h; split at h <;> (simp at h; exact h.2.symm)
    subst hr
    simp [minRecordLen] at c2 ⊢
    omega

/-- number of values delivered for one record is at most the number of template fields -/
theorem decodeRecord_length {mode : Mode} {tpl : Template} {b r : Bytes} {vs : List Value}
    (h : decodeRecord mode tpl b = .ok (vs, r)) : vs.length ≤ tpl.length := by
  induction tpl generalizing b vs r with
  | nil => simp [decodeRecord] at h; obtain ⟨rfl, _⟩ := h; simp
  | cons ie t ih =>
    unfold decodeRecord at h
    rw [bind_eq_ok] at h
    obtain ⟨⟨v, r1⟩, _, h⟩ := h
    rw [bind_eq_ok] at h
    obtain ⟨⟨vs', r2⟩, h2, h⟩ := h
    have := ih h2
    simp only at h
    split at h <;> (simp at h; obtain ⟨rfl, _⟩ := h; simp; omega)

theorem decodeRecordsFuel_safe (mode : Mode) (tpl : Template) (hwf : ∀ ie ∈ tpl, ie.WF)
    (hmin : 0 < minRecordLen tpl) (fuel : Nat) (b : Bytes) (hf : b.length < fuel) :
    Safe (decodeRecordsFuel mode tpl fuel b) := by
  induction fuel generalizing b with
  | zero => omega
  | succ f ih =>
    unfold decodeRecordsFuel
    split
    · exact safe_ok _
    · apply safe_bind (decodeRecord_safe mode tpl b hwf)
      rintro ⟨r, rest⟩ hr
      have := decodeRecord_consumes hr
      apply safe_bind (ih rest (by omega))
      intro rs _; exact safe_ok _

/-- every delivered record consumed at least `minRecordLen` bytes of the body -/
theorem decodeRecordsFuel_bound {mode : Mode} {tpl : Template} {fuel : Nat} {b : Bytes}
    {recs : List (List Value)} (h : decodeRecordsFuel mode tpl fuel b = .ok recs) :
    recs.length * minRecordLen tpl ≤ b.length := by
  induction fuel generalizing b recs with
  | zero => simp [decodeRecordsFuel] at h
  | succ f ih =>
    unfold decodeRecordsFuel at h
    split at h
    · simp at h; subst h; simp
    · rw [bind_eq_ok] at h
      obtain ⟨⟨r, rest⟩, hr, h⟩ := h
      rw [bind_eq_ok] at h
      obtain ⟨rs, hrs, h⟩ := h
      simp at h; subst h
      have c1 := decodeRecord_consumes hr
      have c2 := ih hrs
      simp [Nat.succ_mul]
      omega

end Ipfix

namespace Ipfix
open Outcome

/-! ## Template sets -/

theorem zeroValue_safe (ie : IE) : Safe (zeroValue ie) := by
  unfold zeroValue; split <;> simp [Safe]

theorem unknown_wf (id ent elen : Nat) (h0 : elen ≠ 0) (hle : elen ≤ 65535) :
    ({ name := "", id := id, ty := .octetArray, ent := ent, len := elen } : IE).WF := by
  simp [IE.WF]; omega

theorem decodeSpecifier_safe (lookup : Nat → Nat → Option IE) (mode : Mode) (b : Bytes) :
    Safe (decodeSpecifier lookup mode b) := by
  unfold decodeSpecifier
  split
  · simp only
    split
    · split
      · split
        · exact safe_bind (zeroValue_safe _) (fun _ _ => safe_ok _)
        · split
          · exact safe_err
          · split
            · exact safe_err
            · exact safe_ok _
      · exact safe_err
    · split
      · exact safe_bind (zeroValue_safe _) (fun _ _ => safe_ok _)
      · split
        · exact safe_err
        · split
          · exact safe_err
          · exact safe_ok _
  · exact safe_err

theorem decodeSpecifier_wf {lookup : Nat → Nat → Option IE} (hreg : ∀ ent id ie, lookup ent id = some ie → ie.WF)
    {mode : Mode} {b r : Bytes} {ie : IE} (h : decodeSpecifier lookup mode b = .ok (ie, r)) : ie.WF := by
  unfold decodeSpecifier at h
  split at h
  · rename_i i0 i1 l0 l1 r0
    have hl0 := l0.toNat_lt
    have hl1 := l1.toNat_lt
    simp only at h
    split at h
    · split at h
      · split at h
        · rename_i ie' hlk
          rw [bind_eq_ok] at h
          obtain ⟨_, _, h⟩ := h
          simp at h; obtain ⟨rfl, _⟩ := h
          exact hreg _ _ _ hlk
        · split at h
          · cases h
          · split at h
            · cases h
            · rename_i h0
              simp at h; obtain ⟨rfl, _⟩ := h
              exact unknown_wf _ _ _ h0 (by omega)
      · cases h
    · split at h
      · rename_i ie' hlk
        rw [bind_eq_ok] at h
        obtain ⟨_, _, h⟩ := h
        simp at h; obtain ⟨rfl, _⟩ := h
        exact hreg _ _ _ hlk
      · split at h
        · cases h
        · split at h
          · cases h
          · rename_i h0
            simp at h; obtain ⟨rfl, _⟩ := h
            exact unknown_wf _ _ _ h0 (by omega)
  · cases h

theorem decodeSpecifiers_safe (lookup : Nat → Nat → Option IE) (mode : Mode) (n : Nat) (b : Bytes) :
    Safe (decodeSpecifiers lookup mode n b) := by
  induction n generalizing b with
  | zero => exact safe_ok _
  | succ n ih =>
    unfold decodeSpecifiers
    apply safe_bind (decodeSpecifier_safe lookup mode b)
    rintro ⟨ie, r⟩ _
    exact safe_bind (ih r) (fun _ _ => safe_ok _)

theorem decodeSpecifiers_wf {lookup : Nat → Nat → Option IE} (hreg : ∀ ent id ie, lookup ent id = some ie → ie.WF)
    {mode : Mode} {n : Nat} {b : Bytes} {ies : List IE} (h : decodeSpecifiers lookup mode n b = .ok ies) :
    ∀ ie ∈ ies, ie.WF := by
  induction n generalizing b ies with
  | zero => simp [decodeSpecifiers] at h; subst h; simp
  | succ n ih =>
    unfold decodeSpecifiers at h
    rw [bind_eq_ok] at h
    obtain ⟨⟨ie, r⟩, h1, h⟩ := h
    rw [bind_eq_ok] at h
    obtain ⟨ies', h2, h⟩ := h
    simp at h; subst h
    intro x hx
    simp at hx
    rcases hx with rfl | hx
    · exact decodeSpecifier_wf hreg h1
    · exact ih h2 x hx

theorem decodeSpecifiers_length {lookup : Nat → Nat → Option IE} {mode : Mode} {n : Nat} {b : Bytes}
    {ies : List IE} (h : decodeSpecifiers lookup mode n b = .ok ies) : ies.length = n := by
  induction n generalizing b ies with
  | zero => simp [decodeSpecifiers] at h; subst h; rfl
  | succ n ih =>
    unfold decodeSpecifiers at h
    rw [bind_eq_ok] at h
    obtain ⟨⟨ie, r⟩, _, h⟩ := h
    rw [bind_eq_ok] at h
    obtain ⟨ies', h2, h⟩ := h
    simp at h; subst h
    simp [ih h2]

/-! ## The template store -/

theorem CState.lookup_mem {s : CState} {k : TKey} {t : Template} (h : s.lookup k = some t) :
    (k, t) ∈ s.templates := by
  unfold CState.lookup at h
  cases hf : s.templates.find? (fun p => p.1 == k) with
  | none => simp [hf] at h
  | some p =>
    simp [hf] at h
    have hm := List.mem_of_find?_eq_some hf
    have hk := List.find?_some hf
    simp at hk
    subst h
    have : p = (k, p.2) := by cases p; simp_all
    rw [this] at hm; exact hm

theorem CState.mem_erase {s : CState} {k : TKey} {p : TKey × Template} (h : p ∈ (s.erase k).templates) :
    p ∈ s.templates ∧ p.1 ≠ k := by
  simp [CState.erase] at h
  exact ⟨h.1, by simpa using h.2⟩

theorem CState.mem_insert {s : CState} {k : TKey} {t : Template} {p : TKey × Template}
    (h : p ∈ (s.insert k t).templates) : p = (k, t) ∨ (p ∈ s.templates ∧ p.1 ≠ k) := by
  simp [CState.insert] at h
  rcases h with h | h
  · exact Or.inl h
  · exact Or.inr (CState.mem_erase h)

end Ipfix
