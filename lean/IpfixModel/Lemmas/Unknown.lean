import IpfixModel.Lemmas.CollectorExact
import IpfixModel.Spec.C17
namespace Ipfix
open Outcome C03 C17

/-- completeness of the field reader: a complete wire field followed by anything is read back -/
theorem decodeField_complete {ie : IE} {s p r : Bytes} {v : Value} (hf : IsField ie s p)
    (hd : decodeElem ie p = .ok v) : decodeField ie (s ++ r) = .ok (v, r) := by
  unfold IsField at hf
  unfold decodeField readFieldLength
  split at hf
  · rename_i hvar
    simp only [hvar, if_true]
    rcases hf with ⟨l, rfl, hl, hlen⟩ | ⟨hi, lo, rfl, hlen⟩
    · have h1 : ¬ ((p ++ r).length < l.toNat) := by simp; omega
      simp only [List.cons_append, hl, if_true, bind_ok, h1, if_false, List.take_left' hlen,
        List.drop_left' hlen, hd]
    · have h255 : ¬ ((255 : UInt8).toNat < 255) := by decide
      have h1 : ¬ ((p ++ r).length < hi.toNat * 256 + lo.toNat) := by simp; omega
      simp only [List.cons_append, h255, if_false, bind_ok, h1, List.take_left' hlen,
        List.drop_left' hlen, hd]
  · rename_i hfix
    obtain ⟨rfl, hlen⟩ := hf
    have h1 : ¬ ((s ++ r).length < ie.len) := by simp; omega
    simp only [hfix, if_false, bind_ok, h1, List.take_left' hlen, List.drop_left' hlen, hd]

/-- completeness for records (keep / strict: every field delivered) -/
theorem decodeRecord_complete {tpl : Template} {ss ps : List Bytes} {vs : List Value} (r : Bytes)
    (hr : IsRecord tpl ss ps) (hd : decodePayloads .keep tpl ps = .ok vs) :
    decodeRecord .keep tpl (ss.flatten ++ r) = .ok (vs, r) := by
  induction hr generalizing vs with
  | nil => simp [decodePayloads] at hd; subst hd; simp [decodeRecord]
  | @cons ie t s p ss ps hf _ ih =>
    simp only [decodePayloads] at hd
    rw [bind_eq_ok] at hd
    obtain ⟨v, hv, hd⟩ := hd
    rw [bind_eq_ok] at hd
    obtain ⟨vs', hvs, hd⟩ := hd
    simp at hd; subst hd
    unfold decodeRecord
    simp only [List.flatten_cons, List.append_assoc]
    rw [decodeField_complete hf hv]
    simp [ih hvs]

/-- strict and keep differ only in how templates are accepted, not in how data is decoded -/
theorem decodeRecord_strict_eq_keep (tpl : Template) (b : Bytes) :
    decodeRecord .strict tpl b = decodeRecord .keep tpl b := by
  induction tpl generalizing b with
  | nil => rfl
  | cons ie t ih =>
    unfold decodeRecord
    simp [ih]

/-- drop mode delivers exactly the keep-mode values at the positions of known elements -/
theorem decodeRecord_drop (tpl : Template) (b : Bytes) :
    decodeRecord .drop tpl b =
      (decodeRecord .keep tpl b >>= fun (vs, r) => .ok (filterKnown tpl vs, r)) := by
  induction tpl generalizing b with
  | nil => simp [decodeRecord, filterKnown]
  | cons ie t ih =>
    unfold decodeRecord
    cases hf : decodeField ie b with
    | ok vr =>
      obtain ⟨v, r⟩ := vr
      simp only [bind_ok]
      rw [ih r]
      cases hk : decodeRecord .keep t r with
      | ok vsr =>
        obtain ⟨vs, r'⟩ := vsr
        by_cases hn : ie.name = ""
        · simp [filterKnown, IE.known, hn]
        · simp [filterKnown, IE.known, hn]
      | err => simp
      | panic => simp
      | diverge => simp
    | err => simp
    | panic => simp
    | diverge => simp

/-- the slices at the positions of known elements -/
def stripUnknown : Template → List Bytes → List Bytes
  | ie :: t, s :: ss => if IE.known ie then s :: stripUnknown t ss else stripUnknown t ss
  | _, _ => []

theorem isRecord_strip {tpl : Template} {ss ps : List Bytes} (h : IsRecord tpl ss ps) :
    IsRecord (tpl.filter IE.known) (stripUnknown tpl ss) (stripUnknown tpl ps) := by
  induction h with
  | nil => exact .nil
  | @cons ie t s p ss ps hf _ ih =>
    by_cases hk : IE.known ie = true
    · simp only [List.filter, stripUnknown, hk, if_true]; exact .cons hf ih
    · have hk' : IE.known ie = false := by simpa using hk
      simp only [List.filter, stripUnknown, hk', Bool.false_eq_true, if_false]; exact ih

theorem decodePayloads_strip {tpl : Template} {ss ps : List Bytes} {vs : List Value} (h : IsRecord tpl ss ps)
    (hd : decodePayloads .keep tpl ps = .ok vs) :
    decodePayloads .keep (tpl.filter IE.known) (stripUnknown tpl ps) = .ok (filterKnown tpl vs) := by
  induction h generalizing vs with
  | nil => simp [decodePayloads] at hd; subst hd; simp [decodePayloads, stripUnknown, filterKnown]
  | @cons ie t s p ss ps hf _ ih =>
    simp only [decodePayloads] at hd
    rw [bind_eq_ok] at hd
    obtain ⟨v, hv, hd⟩ := hd
    rw [bind_eq_ok] at hd
    obtain ⟨vs', hvs, hd⟩ := hd
    simp at hd; subst hd
    by_cases hk : IE.known ie = true
    · simp only [List.filter, stripUnknown, filterKnown, hk, if_true, decodePayloads, hv, ih hvs, bind_ok]
      simp
    · have hk' : IE.known ie = false := by simpa using hk
      simp only [List.filter, stripUnknown, filterKnown, hk', Bool.false_eq_true, if_false, ih hvs]

end Ipfix

namespace Ipfix
open Outcome C03

theorem isField_minLen {ie : IE} {s p : Bytes} (h : IsField ie s p) : ie.minLen ≤ s.length := by
  unfold IsField at h
  unfold IE.minLen
  split at h
  · rename_i hv
    simp only [hv, if_true]
    rcases h with ⟨l, rfl, _, _⟩ | ⟨hi, lo, rfl, _⟩ <;> simp
  · rename_i hv
    simp only [hv, if_false]
    obtain ⟨rfl, hl⟩ := h
    omega

theorem isRecord_minLen {tpl : Template} {ss ps : List Bytes} (h : IsRecord tpl ss ps) :
    minRecordLen tpl ≤ ss.flatten.length := by
  induction h with
  | nil => simp [minRecordLen]
  | @cons ie t s p ss ps hf _ ih =>
    have := isField_minLen hf
    simp [minRecordLen] at ih ⊢
    omega

/-- completeness of the record loop: a body that IS complete records followed by padding shorter
    than the shortest record, all of whose payloads decode, is decoded to exactly those records -/
theorem decodeRecordsFuel_complete {tpl : Template} (hmin : 0 < minRecordLen tpl) {body : Bytes}
    {raw : List (List Bytes)} {pad : Bytes} (hs : Slices tpl body raw pad) {vals : List (List Value)}
    (hd : raw.map (decodePayloads .keep tpl) = vals.map Outcome.ok) (fuel : Nat) (hf : body.length < fuel) :
    decodeRecordsFuel .keep tpl fuel body = .ok vals := by
  induction hs generalizing vals fuel with
  | done hlt =>
    cases vals with
    | nil =>
      cases fuel with
      | zero => omega
      | succ f => simp [decodeRecordsFuel, hlt]
    | cons _ _ => simp at hd
  | @cons ss ps rest recs pad hrec _ ih =>
    cases vals with
    | nil => simp at hd
    | cons v vs =>
      simp at hd
      obtain ⟨hv, hvs⟩ := hd
      cases fuel with
      | zero => omega
      | succ f =>
        have hlen := isRecord_minLen hrec
        have hlapp : (ss.flatten ++ rest).length = ss.flatten.length + rest.length := List.length_append
        have hnot : ¬ ((ss.flatten ++ rest).length < minRecordLen tpl) := by omega
        unfold decodeRecordsFuel
        rw [if_neg hnot, decodeRecord_complete rest hrec hv]
        simp only [bind_ok]
        rw [ih hvs f (by omega)]
        rfl

end Ipfix
