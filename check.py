#!/usr/bin/env python3
"""Orchestrator for the Lean-4 proof checks of go-ipfix (see DESIGN.md section 1.5).

  check.py setup                      build everything from files on disk
  check.py Cxx [--tier quick|thorough]
  check.py replay <replay.json>

Per property, one run: regenerate facts -> build + audit proofs -> build harness -> run the
correspondence (implementation vs Lean model on the same ops) -> evaluate the Lean property
predicate on the implementation's observations -> verdict + evidence.
"""
import argparse
import fcntl
import hashlib
import importlib
import json
import os
import re
import shutil
import subprocess
import sys
import time

ROOT = os.path.dirname(os.path.abspath(__file__))
REPO = os.environ.get("VERIF_REPO", "/repo")
LEAN = os.path.join(ROOT, "lean")
MUTANT = os.environ.get("VERIF_MUTANT_OVERLAY") is not None     # development runs against a changed source file
# ... never share binaries with the registered checks, nor with another development run going on at the same time
BIN = os.path.join(ROOT, ".bin-mut", str(os.getpid())) if MUTANT else os.path.join(ROOT, ".bin")
if MUTANT:
    import atexit, shutil as _sh
    atexit.register(lambda: _sh.rmtree(BIN, ignore_errors=True))
WORK = os.path.join(ROOT, ".work")
GOENV = dict(os.environ, GOFLAGS="-mod=mod", GOPROXY="off", GOSUMDB="off", GOTOOLCHAIN="local",
             CGO_ENABLED=os.environ.get("CGO_ENABLED", "1"))
ALLOWED_AXIOMS = {"propext", "Classical.choice", "Quot.sound"}
FORBIDDEN = re.compile(r"\bsorry\b|\badmit\b|^\s*axiom\s|native_decide|bv_decide|implemented_by|\bunsafe\s|maxHeartbeats\s+0")

TRUSTED_BASE = [
    "Lean 4.33.0 kernel; axioms limited to propext, Classical.choice, Quot.sound (audited per theorem with #print axioms)",
    "tools/gofacts (go/ast translator that regenerates IpfixModel/Generated/*.lean from /repo on every run)",
    "the correspondence harness (harness/, built with go -overlay against /repo's working tree), generators and check.py",
    "modelled, not verified: Go slices/strings as List UInt8, bytes.Buffer, encoding/binary big-endian, Go maps as association lists, integer conversions as mod 2^n",
]


def log(*a):
    print(*a, file=sys.stderr, flush=True)


def run(cmd, cwd=None, env=None, timeout=None, input=None):
    return subprocess.run(cmd, cwd=cwd, env=env, timeout=timeout, input=input,
                          stdout=subprocess.PIPE, stderr=subprocess.PIPE, text=True)


class Lock:
    def __init__(self, name):
        os.makedirs(WORK, exist_ok=True)
        self.path = os.path.join(WORK, name + ".lock")

    def __enter__(self):
        self.f = open(self.path, "w")
        fcntl.flock(self.f, fcntl.LOCK_EX)

    def __exit__(self, *a):
        fcntl.flock(self.f, fcntl.LOCK_UN)
        self.f.close()


# ----------------------------------------------------------------------------------------
# build steps


def build_gofacts():
    os.makedirs(BIN, exist_ok=True)
    src = os.path.join(ROOT, "tools", "gofacts")
    r = run(["go", "build", "-o", os.path.join(BIN, "gofacts"), "."], cwd=src, env=GOENV)
    if r.returncode != 0:
        raise RuntimeError("gofacts does not build:\n" + r.stderr)


def regen_facts():
    """F1..: regenerate Generated/*.lean from /repo. Returns (ok, message, sha)."""
    with Lock("gofacts"):
        if not os.path.exists(os.path.join(BIN, "gofacts")) or newer_than(os.path.join(ROOT, "tools", "gofacts"), os.path.join(BIN, "gofacts")):
            build_gofacts()
        outdir = os.path.join(LEAN, "IpfixModel", "Generated")
        r = run([os.path.join(BIN, "gofacts"), REPO, outdir])
        if r.returncode != 0:
            return False, r.stderr.strip(), ""
        h = hashlib.sha256()
        for f in sorted(os.listdir(outdir)):
            h.update(open(os.path.join(outdir, f), "rb").read())
        return True, "", h.hexdigest()[:16]


def newer_than(srcdir, target):
    try:
        t = os.path.getmtime(target)
    except OSError:
        return True
    for d, _, fs in os.walk(srcdir):
        for f in fs:
            if os.path.getmtime(os.path.join(d, f)) > t:
                return True
    return False


def lake_build(targets):
    with Lock("lake"):
        r = run(["lake", "build"] + targets, cwd=LEAN, timeout=3000)
        if r.returncode != 0:
            # another lake process (a second check started by hand) may have been rewriting the same build
            # products: a genuine proof failure fails again, unchanged
            time.sleep(5)
            r = run(["lake", "build"] + targets, cwd=LEAN, timeout=3000)
    return r.returncode == 0, r.stdout + r.stderr


def theorem_names(prop):
    """(namespace-qualified) theorem names declared in Props/<prop>.lean"""
    path = os.path.join(LEAN, "IpfixModel", "Props", prop + ".lean")
    txt = open(path).read()
    names = []
    ns = []
    for line in txt.splitlines():
        m = re.match(r"^namespace\s+(\S+)", line)
        if m:
            ns.append(m.group(1))
        m = re.match(r"^end\s+(\S+)", line)
        if m and ns and ns[-1] == m.group(1):
            ns.pop()
        m = re.match(r"^(?:private\s+)?theorem\s+(\S+)", line)
        if m:
            names.append(".".join(ns + [m.group(1)]))
    return names


def strip_comments(txt):
    txt = re.sub(r"/-.*?-/", "", txt, flags=re.S)
    txt = re.sub(r"--.*", "", txt)
    return txt


def grep_forbidden():
    hits = []
    for sub in ("IpfixModel", "Driver"):
        for d, _, fs in os.walk(os.path.join(LEAN, sub)):
            for f in fs:
                if f.endswith(".lean"):
                    p = os.path.join(d, f)
                    for i, line in enumerate(strip_comments(open(p).read()).splitlines()):
                        if FORBIDDEN.search(line):
                            hits.append("%s:%d: %s" % (os.path.relpath(p, LEAN), i + 1, line.strip()))
    return hits


def audit(prop, workdir):
    """#print axioms for every theorem of the property. Returns (axioms_by_theorem, problems)."""
    names = theorem_names(prop)
    src = "import IpfixModel.Props.%s\n" % prop + "".join("#print axioms %s\n" % n for n in names)
    path = os.path.join(workdir, "Audit_%s.lean" % prop)
    open(path, "w").write(src)
    r = run(["lake", "env", "lean", path], cwd=LEAN, timeout=1200)
    if r.returncode != 0:
        time.sleep(5)
        r = run(["lake", "env", "lean", path], cwd=LEAN, timeout=1200)
    out = r.stdout + r.stderr
    axioms = {}
    problems = []
    for m in re.finditer(r"'([^']+)' depends on axioms: \[([^\]]*)\]", out, flags=re.S):
        axioms[m.group(1)] = [a.strip() for a in m.group(2).replace("\n", " ").split(",") if a.strip()]
    for m in re.finditer(r"'([^']+)' does not depend on any axioms", out):
        axioms[m.group(1)] = []
    for n in names:
        if n not in axioms:
            problems.append("no axiom report for %s" % n)
        else:
            bad = [a for a in axioms[n] if a not in ALLOWED_AXIOMS]
            if bad:
                problems.append("%s depends on %s" % (n, ", ".join(bad)))
    if r.returncode != 0 and not problems:
        problems.append("audit file failed to elaborate: " + out[-400:])
    return axioms, problems


def write_overlay(extra=None):
    """overlay.json: verif_hooks.go files injected into /repo's packages (+ per-run extra mappings)."""
    ov = {}
    base = os.path.join(ROOT, "harness", "overlay")
    for pkg, dst in (("entities", "pkg/entities"), ("collector", "pkg/collector"), ("exporter", "pkg/exporter"),
                     ("intermediate", "pkg/intermediate"), ("cmdcollector", "cmd/collector"),
                     ("kafkaproducer", "pkg/kafka/producer")):
        d = os.path.join(base, pkg)
        if os.path.isdir(d):
            for f in sorted(os.listdir(d)):
                if f.endswith(".go"):
                    ov[os.path.join(REPO, dst, f)] = os.path.join(d, f)
    # virtual clock: every non-test file of pkg/intermediate with time.Now() -> verifNow()
    inter = os.path.join(REPO, "pkg", "intermediate")
    gen = os.path.join(WORK, "overlay_intermediate")
    os.makedirs(gen, exist_ok=True)
    for f in sorted(os.listdir(inter)):
        if f.endswith(".go") and not f.endswith("_test.go"):
            src = open(os.path.join(inter, f)).read()
            if "time.Now()" in src:
                dst = os.path.join(gen, f)
                new = src.replace("time.Now()", "verifNow()")
                if not os.path.exists(dst) or open(dst).read() != new:
                    open(dst, "w").write(new)
                ov[os.path.join(inter, f)] = dst
    if extra:
        ov.update(extra)
    # development aid only (never set by MANIFEST commands): try a mutated copy of a source file
    # without touching /repo, e.g. VERIF_MUTANT_OVERLAY='{"/repo/pkg/x/y.go": "/tmp/mut/y.go"}'
    if os.environ.get("VERIF_MUTANT_OVERLAY"):
        ov.update(json.loads(os.environ["VERIF_MUTANT_OVERLAY"]))
    # mutant runs of different checks may run side by side: one overlay file per process
    path = os.path.join(ROOT, "harness", ("overlay-mut-%d.json" % os.getpid()) if MUTANT else "overlay.json")
    if MUTANT:
        import atexit
        atexit.register(lambda p=path: os.path.exists(p) and os.remove(p))
    new = json.dumps({"Replace": ov}, indent=1, sort_keys=True)
    if not os.path.exists(path) or open(path).read() != new:
        open(path, "w").write(new)
    return path


def build_harness(race=False):
    if os.environ.get("VERIF_HARNESS_OVERRIDE") and os.environ.get("VERIF_MUTANT_OVERLAY") is not None:
        # development aid (tools/covreport.py): a coverage-instrumented build of the same harness
        return True, "", os.environ["VERIF_HARNESS_OVERRIDE"]
    with Lock("harness"):
        hd = os.path.join(ROOT, "harness")
        shutil.copyfile(os.path.join(REPO, "go.sum"), os.path.join(hd, "go.sum"))
        ov = write_overlay()
        out = os.path.join(BIN, "harness-race" if race else "harness")
        cmd = ["go", "build", "-tags", "verif", "-overlay", ov, "-o", out]
        if race:
            cmd.append("-race")
        cmd.append("./cmd/harness")
        r = run(cmd, cwd=hd, env=GOENV, timeout=1800)
        return r.returncode == 0, r.stderr, out


def driver_path(target="driver"):
    return os.path.join(LEAN, ".lake", "build", "bin", target)


# ----------------------------------------------------------------------------------------
# running ops


def run_ops(binary, lines, timeout=3600, env=None):
    """Feed op lines to a line-protocol executable; returns (outputs, exit_code)."""
    data = "\n".join(lines) + "\n"
    try:
        r = subprocess.run([binary], input=data, stdout=subprocess.PIPE, stderr=subprocess.PIPE, text=True,
                           timeout=timeout, env=env)
    except subprocess.TimeoutExpired as e:
        out = (e.stdout or b"")
        if isinstance(out, bytes):
            out = out.decode("utf-8", "replace")
        return out.splitlines() + ["hang"], -9
    return r.stdout.splitlines(), r.returncode


def run_sharded(binary, shards, timeout=3600, env=None):
    """shards: list of line lists; runs them in parallel processes."""
    procs = []
    for lines in shards:
        p = subprocess.Popen([binary], stdin=subprocess.PIPE, stdout=subprocess.PIPE, stderr=subprocess.DEVNULL, text=True, env=env)
        procs.append((p, lines))
    # feed + collect with threads to avoid pipe deadlocks
    import threading
    results = [None] * len(procs)

    def work(i, p, lines):
        try:
            out, _ = p.communicate("\n".join(lines) + "\n", timeout=timeout)
            results[i] = (out.splitlines(), p.returncode)
        except subprocess.TimeoutExpired:
            p.kill()
            out, _ = p.communicate()
            results[i] = ((out or "").splitlines() + ["hang"], -9)

    ths = [threading.Thread(target=work, args=(i, p, l)) for i, (p, l) in enumerate(procs)]
    for t in ths:
        t.start()
    for t in ths:
        t.join()
    return results


class Case:
    __slots__ = ("ops", "label", "nontrivial", "in_domain", "judge")

    def __init__(self, ops, label="", nontrivial=True, in_domain=True, judge=None):
        self.ops = ops
        self.label = label
        self.nontrivial = nontrivial
        self.in_domain = in_domain      # inside the model's domain: a model/implementation difference counts
        # the Spec predicate is judged on the implementation's observations (default: exactly the in-domain cases;
        # judge=True with in_domain=False = inputs the model does not cover but the property still speaks about)
        self.judge = in_domain if judge is None else judge


def flatten(cases):
    lines, index = [], []
    for ci, c in enumerate(cases):
        lines.append("# case %d" % ci)
        index.append((ci, -1))
        for oi, op in enumerate(c.ops):
            lines.append(op)
            index.append((ci, oi))
    return lines, index


def exec_cases(binary, cases, shards=1, timeout=3600, env=None):
    """Run all cases; returns per-case list of observation lines (padded with 'missing')."""
    if shards <= 1 or len(cases) < 4 * shards:
        groups = [cases]
    else:
        n = (len(cases) + shards - 1) // shards
        groups = [cases[i:i + n] for i in range(0, len(cases), n)]
    flat = [flatten(g) for g in groups]
    res = run_sharded(binary, [f[0] for f in flat], timeout=timeout, env=env)
    out = []
    for (lines, index), (obs, rc), g in zip(flat, res, groups):
        per = [[None] * len(c.ops) for c in g]
        for k, (ci, oi) in enumerate(index):
            if oi >= 0:
                per[ci][oi] = obs[k] if k < len(obs) else "missing"
        out.extend(per)
    return out


# ----------------------------------------------------------------------------------------
# verdict / evidence


def load_known():
    p = os.path.join(ROOT, "known_findings.json")
    if os.path.exists(p):
        return json.load(open(p))
    return {"findings": [], "fixed": []}


def write_replay(prop, seed, n, payload):
    d = os.path.join(out_root(), "replays")
    os.makedirs(d, exist_ok=True)
    p = os.path.join(d, "%s-%d-%d.json" % (prop, seed, n))
    json.dump(payload, open(p, "w"), indent=1)
    return p


def _cap(x, depth=0):
    """evidence stays readable: long strings and long lists are cut (with a marker), whatever a run produced"""
    if isinstance(x, str):
        return x if len(x) <= 4000 else x[:4000] + "...[%d more chars]" % (len(x) - 4000)
    if isinstance(x, list):
        lim = 400 if depth == 0 else 60
        y = [_cap(e, depth + 1) for e in x[:lim]]
        if len(x) > lim:
            y.append("...[%d more items]" % (len(x) - lim))
        return y
    if isinstance(x, dict):
        items = list(x.items())
        lim = 400
        y = {k: _cap(v, depth + 1) for k, v in items[:lim]}
        if len(items) > lim:
            y["..."] = "%d more keys" % (len(items) - lim)
        return y
    return x


def out_root():
    """development runs against a mutant overlay (tools/seedrun.py) never touch the committed evidence/replays"""
    if os.environ.get("VERIF_MUTANT_OVERLAY"):
        return os.path.join(WORK, "mutant-runs")
    return ROOT


def write_evidence(prop, tier, seed, coverage, wall, violations, assumptions):
    d = os.path.join(out_root(), "evidence")
    os.makedirs(d, exist_ok=True)
    coverage = {k: _cap(v) for k, v in coverage.items()}
    ev = {"property_id": prop, "tier": tier, "seed": seed, "level": "proof", "coverage": coverage,
          "assumptions": assumptions, "wall_s": round(wall, 2), "violations": violations}
    tmp = os.path.join(d, prop + ".json.tmp")
    json.dump(ev, open(tmp, "w"), indent=1)
    os.replace(tmp, os.path.join(d, prop + ".json"))


def ddmin(ops, fails):
    """minimise a failing op list (fails(ops) -> bool); keeps order."""
    n = 2
    while len(ops) >= 2:
        chunk = max(1, len(ops) // n)
        reduced = False
        for i in range(0, len(ops), chunk):
            cand = ops[:i] + ops[i + chunk:]
            if cand and fails(cand):
                ops = cand
                n = max(n - 1, 2)
                reduced = True
                break
        if not reduced:
            if chunk == 1:
                break
            n = min(len(ops), n * 2)
    return ops


def check_property(prop, tier, seed):
    t0 = time.time()
    mod = importlib.import_module("gen." + prop.lower())
    spec = mod.SPEC
    workdir = os.path.join(WORK, prop)
    os.makedirs(workdir, exist_ok=True)
    broken = []          # proof obligations / ties that no longer check
    notes = []

    # 1. regenerate facts
    ok, msg, sha = regen_facts()
    if not ok:
        broken.append("translator: gofacts cannot translate the current tree: " + msg)
    if getattr(mod, "FACTS_ERROR", ""):
        # a property module's own translator (run at its import) refused the tree
        broken.append("translator: " + mod.FACTS_ERROR)

    # 2. proofs
    obligations = theorem_names(prop)
    discharged = []
    axioms = {}
    okb, out = lake_build(["IpfixModel.Props." + prop])
    if not okb:
        errs = re.findall(r"error: (.*)", out)
        broken.append("proof: lake build IpfixModel.Props.%s fails: %s" % (prop, "; ".join(errs[:3])[:600]))
    else:
        axioms, problems = audit(prop, workdir)
        for p in problems:
            broken.append("audit: " + p)
        discharged = [n for n in obligations if n in axioms and all(a in ALLOWED_AXIOMS for a in axioms[n])]
        if getattr(mod, "FACTS_ERROR", ""):
            discharged = []      # the theorems were checked against facts that are not those of the current tree
    hits = grep_forbidden()
    if hits:
        broken.append("audit: forbidden tokens: " + "; ".join(hits[:5]))
        discharged = []
    if tier == "thorough" and okb:
        r = run(["lake", "env", "leanchecker", "IpfixModel.Props." + prop], cwd=LEAN, timeout=3000)
        if r.returncode != 0:
            broken.append("leanchecker rejects IpfixModel.Props.%s: %s" % (prop, (r.stdout + r.stderr)[-300:]))
        else:
            notes.append("leanchecker re-checked IpfixModel.Props." + prop)
    dtarget = getattr(spec, "driver_target", "driver")
    okd, outd = lake_build([dtarget])
    if not okd:
        errs = re.findall(r"error: (.*)", outd)
        broken.append("model: the Lean driver does not build: " + "; ".join(errs[:3])[:600])

    # 3. harness
    if hasattr(mod, "build_harness"):
        okh, errh, hbin = mod.build_harness()
    else:
        okh, errh, hbin = build_harness(race=getattr(spec, "race", False))
    if not okh:
        broken.append("correspondence: harness does not build against the current tree: " + errh[-600:])

    result = {"evaluations": 0, "distinct_nontrivial": 0, "samples": [], "distribution": {}, "disagreements": [],
              "predicate_failures": [], "out_of_domain_disagreements": 0}
    if okh and okd:
        result = mod.run(Ctx(prop, tier, seed, hbin, driver_path(dtarget), workdir))

    # 4. verdict
    known = load_known()
    known_for = [k for k in known.get("findings", []) if k["property"] == prop]
    violations = []
    known_hits = {}
    for f in result["predicate_failures"]:
        sig = f.get("signature", "")
        k = next((k for k in known_for if re.fullmatch(k["signature"], sig)), None)
        if k is not None:
            known_hits.setdefault(k["id"], (k, f))
        else:
            violations.append(("failing-input", f))
    unexplained = [d for d in result["disagreements"] if not d.get("explained_by_predicate_failure")]
    nf = None
    if not violations and (broken or unexplained):
        nf = {"broken": broken, "first_disagreement": unexplained[0] if unexplained else None}
    for kid, (k, f) in sorted(known_hits.items()):
        print("KNOWN-FINDING: property=%s %s [%s] e.g. %s" % (prop, k["what"], kid, json.dumps(f.get("ops", ""))[:200]))
    nviol = 0
    lines = []
    seen = set()
    for kind, f in violations:
        sig = f.get("signature", "")
        if sig in seen:
            continue
        seen.add(sig)
        nviol += 1
        path = write_replay(prop, seed, nviol, {"property": prop, "kind": "failing-input", "seed": seed, "tier": tier,
                                                 "signature": sig, "ops": f.get("ops"), "impl": f.get("impl"),
                                                 "model": f.get("model"), "predicate": f.get("predicate"),
                                                 "broken": broken, "note": f.get("note", "")})
        lines.append("VIOLATION property=%s replay=%s" % (prop, path))
        if nviol >= 5:
            break
    if nf is not None:
        nviol += 1
        path = write_replay(prop, seed, nviol, {"property": prop, "kind": "no-failing-input-found", "seed": seed, "tier": tier,
                                                 "broken": broken, "first_disagreement": nf["first_disagreement"],
                                                 "note": "a proof obligation or the model/implementation correspondence no longer checks; "
                                                         "the search over %d cases found no input on which the property predicate fails" % result["evaluations"]})
        lines.append("VIOLATION property=%s replay=%s no-failing-input-found" % (prop, path))

    wall = time.time() - t0
    coverage = {
        "obligations": len(obligations) + getattr(spec, "extra_obligations", 0),
        "discharged": len(discharged) + (getattr(spec, "extra_obligations", 0) if not broken else 0),
        "checker_cmd": "cd lean && lake build IpfixModel.Props.%s && lake env lean <#print axioms of every theorem>%s" % (
            prop, " && lake env leanchecker IpfixModel.Props." + prop if tier == "thorough" else ""),
        "trusted_base": TRUSTED_BASE + list(getattr(spec, "trusted", [])),
        "theorems": obligations,
        "axioms": axioms,
        "generated_facts_sha": sha,
        "evaluations": result["evaluations"],
        "distinct_nontrivial": result["distinct_nontrivial"],
        "rule": getattr(spec, "rule", ""),
        "samples": result["samples"][:5],
        "distribution": result["distribution"],
        "correspondence_disagreements": len(result["disagreements"]),
        "out_of_domain_disagreements": result.get("out_of_domain_disagreements", 0),
        "predicate_failures": len(result["predicate_failures"]),
        "known_findings_hit": sorted(known_hits),
        "exhaustive": bool(result.get("exhaustive", False)),
        "broken": broken,
        "notes": notes + result.get("notes", []),
    }
    if coverage["discharged"] < 1:
        coverage["discharged"] = 0
    write_evidence(prop, tier, seed, coverage, wall, nviol, list(getattr(spec, "assumptions", [])))
    for l in lines:
        print(l)
    print("%s tier=%s seed=%d obligations=%d discharged=%d cases=%d nontrivial=%d disagreements=%d predicate_failures=%d known=%d wall=%.1fs" % (
        prop, tier, seed, coverage["obligations"], coverage["discharged"], result["evaluations"], result["distinct_nontrivial"],
        len(result["disagreements"]), len(result["predicate_failures"]), len(known_hits), wall))
    return 1 if nviol else 0


class Ctx:
    def __init__(self, prop, tier, seed, harness, driver, workdir):
        self.prop, self.tier, self.seed, self.harness, self.driver, self.workdir = prop, tier, seed, harness, driver, workdir
        self.cores = int(os.environ.get("VERIF_CORES", "0")) or (os.cpu_count() or 4)

    def both(self, cases, shards=None, timeout=3600, env=None):
        shards = shards or (self.cores if self.tier == "thorough" else min(8, self.cores))
        impl = exec_cases(self.harness, cases, shards=shards, timeout=timeout, env=env)
        model = exec_cases(self.driver, cases, shards=shards, timeout=timeout)
        return impl, model

    def check_pred(self, chk_lines, shards=None):
        """second pass: 'chk ...' lines evaluated by the Lean driver (Spec.Cxx.holdsOn)."""
        cases = [Case([l]) for l in chk_lines]
        shards = shards or min(8, self.cores)
        out = exec_cases(self.driver, cases, shards=shards)
        return [o[0] for o in out]


def claimed_properties():
    try:
        m = json.load(open(os.path.join(ROOT, "MANIFEST.json")))
        return [c["property_id"] for c in m["checks"]]
    except Exception:
        return []


def setup():
    os.makedirs(BIN, exist_ok=True)
    os.makedirs(WORK, exist_ok=True)
    build_gofacts()
    ok, msg, _ = regen_facts()
    if not ok:
        print("gofacts failed:", msg)
        return 1
    # property modules may regenerate further facts at import time (tlsfacts, protofacts)
    mods = {}
    for prop in claimed_properties():
        try:
            mods[prop] = importlib.import_module("gen." + prop.lower())
        except Exception as e:
            print("cannot import gen.%s: %s" % (prop.lower(), e))
            return 1
    targets = sorted({"IpfixModel.Props." + p for p in mods} | {getattr(m.SPEC, "driver_target", "driver") for m in mods.values()} | {"driver"})
    ok, out = lake_build(targets)
    if not ok:
        print(out[-3000:])
        return 1
    ok, err, _ = build_harness()
    if not ok:
        print(err[-3000:])
        return 1
    for prop, m in mods.items():
        if hasattr(m, "build_harness"):
            ok, err, _ = m.build_harness()
            if not ok:
                print("harness for %s does not build: %s" % (prop, err[-2000:]))
                return 1
        if getattr(m.SPEC, "race", False):
            ok, err, _ = build_harness(race=True)
            if not ok:
                print(err[-3000:])
                return 1
    print("setup ok")
    return 0


def replay(path):
    rp = json.load(open(path))
    prop = rp["property"]
    mod = importlib.import_module("gen." + prop.lower())
    if hasattr(mod, "replay"):
        # schedule-dependent properties replay a case several times / with their own harness
        return mod.replay(rp)
    dtarget = getattr(mod.SPEC, "driver_target", "driver")
    if hasattr(mod, "build_harness"):
        okh, errh, hbin = mod.build_harness()
    else:
        okh, errh, hbin = build_harness(race=getattr(mod.SPEC, "race", False))
    okd, _ = lake_build([dtarget])
    if not (okh and okd):
        print("cannot build harness/driver")
        return 2
    ops = rp.get("ops") or (rp.get("first_disagreement") or {}).get("ops") or []
    if isinstance(ops, str):
        ops = [ops]
    impl, _ = run_ops(hbin, ops)
    model, _ = run_ops(driver_path(dtarget), ops)
    chk, _ = run_ops(driver_path(dtarget), ["chk %s | %s" % (o, i) for o, i in zip(ops, impl)])
    for k, (o, i, m) in enumerate(zip(ops, impl, model)):
        print("op   ", o[:300])
        print("impl ", i[:300])
        print("model", m[:300])
        if k < len(chk):
            print("spec ", chk[k][:300])
    # properties whose observations carry timestamps / scheduling noise are judged by the Spec
    # predicate alone (SPEC.compare_model = False)
    differ = impl != model if (getattr(mod.SPEC, "compare_model", True) and getattr(mod.SPEC, "replay_compare_model", True)) else False
    fails = any(c.startswith("fails") for c in chk)
    print("REPLAY: implementation and model %s; the property predicate %s on the implementation's observations" % (
        "still disagree" if differ else "agree on this input now", "FAILS" if fails else "holds (or is not defined for these ops)"))
    return 1 if (differ or fails) else 0


def main():
    ap = argparse.ArgumentParser()
    ap.add_argument("what")
    ap.add_argument("path", nargs="?")
    ap.add_argument("--tier", default=os.environ.get("VERIF_TIER", "quick"))
    a = ap.parse_args()
    sys.path.insert(0, ROOT)
    if a.what == "setup":
        sys.exit(setup())
    if a.what == "replay":
        sys.exit(replay(a.path))
    seed = int(os.environ.get("VERIF_SEED", "1"))
    sys.exit(check_property(a.what, a.tier, seed))


if __name__ == "__main__":
    main()
