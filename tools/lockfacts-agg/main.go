// lockfacts-agg: fact group F4 of DESIGN.md for the aggregation process (property C13).
// Re-extracts from /repo's working tree, with go/ast only, the lock discipline of
// `AggregationProcess` (pkg/intermediate):
//
//   - per method: every access to the shared fields flowKeyRecordMap / expirePriorityQueue /
//     workerList (read or write) and whether, at that point, a.mutex is held - either because the
//     method itself executed a.mutex.Lock()/RLock() before it and has not unlocked since (explicit
//     Unlock, or `defer a.mutex.Unlock()`), or because the method is an unexported helper that is
//     never used as a method value and EVERY call site of it holds the lock (greatest fixpoint over
//     the package's call graph: the "...WithoutLock" idiom);
//   - per method: how many times it acquires the lock (a whole-operation critical section acquires
//     it once) and whether the unlock is deferred;
//   - every invocation of a function-typed parameter (the user callbacks) and whether the lock is
//     held around it;
//   - the goroutine roots (exported methods of AggregationProcess, `go` statements anywhere in the
//     package; a goroutine that calls a function-typed struct field, like the worker loop's w.job,
//     reaches every method that is used as a method value) with the methods reachable from them.
//
// Output: IpfixModel/Generated/LocksAgg.lean (plain lists). `lock_discipline_agg` in Props/C13.lean
// is a `decide` over these lists.
//
//	lockfacts-agg <repo> <outdir>
//
// Exit status 2 = the tree has a shape this translator cannot read. The file is rewritten only when
// its content changes. VERIF_MUTANT_OVERLAY='{"<real path>": "<copy>"}' makes the translator read
// the copy, exactly as `go build -overlay` makes the compiler do (development aid).
//
// The lock state is tracked along the statement order of a method body; branches are joined by
// "held on every non-terminating path". This is a syntactic approximation (no aliasing of the
// receiver, no lock hand-over between goroutines); the race detector runs of C13 are its dynamic
// cross-check.
package main

import (
	"encoding/json"
	"fmt"
	"go/ast"
	"go/parser"
	"go/token"
	"os"
	"path/filepath"
	"sort"
	"strings"
)

const recvType = "AggregationProcess"

var sharedFields = map[string]bool{"flowKeyRecordMap": true, "expirePriorityQueue": true, "workerList": true}

// methods of the queue type that do not modify it
var readOnlyFieldMethods = map[string]bool{"Len": true, "Peek": true, "minExpireTime": true, "Less": true}

var fset = token.NewFileSet()

func die(format string, a ...interface{}) {
	fmt.Fprintf(os.Stderr, "lockfacts-agg: "+format+"\n", a...)
	os.Exit(2)
}

type access struct {
	field, kind string
	held        bool
}

type edge struct {
	callee string
	held   bool
}

type cbCall struct {
	param string
	held  bool
}

type unit struct {
	name      string // method name, or <func>$go<n> for a goroutine body
	isMethod  bool   // a method of AggregationProcess
	exported  bool
	goroutine bool
	accesses  []access
	calls     []edge
	indirect  bool // calls a function-typed struct field (w.job)
	cbs       []cbCall
	locks     int
	rlocks    int // how many of them are RLock() (shared mode)
	clock     []bool // time.Now() calls: was a.mutex held?
	deferUnl  bool
}

var (
	units        []*unit
	unitByName   = map[string]*unit{}
	methodNames  = map[string]bool{} // methods of AggregationProcess
	methodValues = map[string]bool{} // methods used as values (a.M without a call)
	funcFields   = map[string]bool{} // struct fields of function type anywhere in the package
)

type state struct {
	held     bool
	deferUnl bool
}

type walker struct {
	u      *unit
	recv   string          // receiver identifier ("" outside AggregationProcess methods)
	params map[string]bool // function-typed parameters of the enclosing function
	st     state
	outer  string // name of the enclosing declared function (for goroutine naming)
	goN    *int
}

func isRecv(w *walker, e ast.Expr) bool {
	id, ok := e.(*ast.Ident)
	return ok && w.recv != "" && id.Name == w.recv
}

// a.mutex.<name>()
func mutexCall(w *walker, c *ast.CallExpr) string {
	sel, ok := c.Fun.(*ast.SelectorExpr)
	if !ok {
		return ""
	}
	inner, ok := sel.X.(*ast.SelectorExpr)
	if !ok || inner.Sel.Name != "mutex" || !isRecv(w, inner.X) {
		return ""
	}
	return sel.Sel.Name
}

func (w *walker) record(field string, write bool) {
	k := "r"
	if write {
		k = "w"
	}
	w.u.accesses = append(w.u.accesses, access{field, k, w.st.held})
}

func (w *walker) expr(e ast.Expr, write bool) {
	switch x := e.(type) {
	case nil:
	case *ast.Ident, *ast.BasicLit:
	case *ast.SelectorExpr:
		if isRecv(w, x.X) {
			if sharedFields[x.Sel.Name] {
				w.record(x.Sel.Name, write)
			} else if methodNames[x.Sel.Name] {
				methodValues[x.Sel.Name] = true
			}
			return
		}
		w.expr(x.X, write)
	case *ast.CallExpr:
		w.call(x)
	case *ast.UnaryExpr:
		w.expr(x.X, write || x.Op == token.AND)
	case *ast.IndexExpr:
		w.expr(x.X, write)
		w.expr(x.Index, false)
	case *ast.StarExpr:
		w.expr(x.X, write)
	case *ast.ParenExpr:
		w.expr(x.X, write)
	case *ast.BinaryExpr:
		w.expr(x.X, false)
		w.expr(x.Y, false)
	case *ast.KeyValueExpr:
		w.expr(x.Key, false)
		w.expr(x.Value, false)
	case *ast.CompositeLit:
		for _, el := range x.Elts {
			w.expr(el, false)
		}
	case *ast.SliceExpr:
		w.expr(x.X, write)
		w.expr(x.Low, false)
		w.expr(x.High, false)
		w.expr(x.Max, false)
	case *ast.TypeAssertExpr:
		w.expr(x.X, write)
	case *ast.FuncLit:
		// a closure that is stored or passed on: it may run at any time, without the lock
		saved := w.st
		w.st = state{}
		w.block(x.Body.List)
		w.st = saved
	case *ast.ArrayType, *ast.MapType, *ast.ChanType, *ast.FuncType, *ast.StructType, *ast.InterfaceType, *ast.Ellipsis:
	default:
		die("%s: expression of kind %T is not handled", fset.Position(e.Pos()), e)
	}
}

func (w *walker) call(c *ast.CallExpr) {
	if m := mutexCall(w, c); m != "" {
		switch m {
		case "Lock", "RLock":
			w.st.held = true
			w.u.locks++
			if m == "RLock" {
				w.u.rlocks++
			}
		case "Unlock", "RUnlock":
			w.st.held = false
		default:
			die("%s: mutex method %s is not handled", fset.Position(c.Pos()), m)
		}
		return
	}
	switch f := c.Fun.(type) {
	case *ast.SelectorExpr:
		if id, ok := f.X.(*ast.Ident); ok && id.Name == "time" && f.Sel.Name == "Now" {
			w.u.clock = append(w.u.clock, w.st.held)
		}
		if isRecv(w, f.X) && methodNames[f.Sel.Name] {
			w.u.calls = append(w.u.calls, edge{f.Sel.Name, w.st.held})
		} else if inner, ok := f.X.(*ast.SelectorExpr); ok && isRecv(w, inner.X) && sharedFields[inner.Sel.Name] {
			w.record(inner.Sel.Name, !readOnlyFieldMethods[f.Sel.Name])
		} else {
			if funcFields[f.Sel.Name] {
				w.u.indirect = true
			}
			w.expr(f.X, false)
		}
	case *ast.Ident:
		switch {
		case f.Name == "delete" && len(c.Args) > 0:
			w.expr(c.Args[0], true)
			for _, a := range c.Args[1:] {
				w.expr(a, false)
			}
			return
		case w.params[f.Name]:
			w.u.cbs = append(w.u.cbs, cbCall{f.Name, w.st.held})
		}
	case *ast.FuncLit:
		w.block(f.Body.List) // called on the spot
	default:
		w.expr(c.Fun, false)
	}
	for _, a := range c.Args {
		w.expr(a, false)
	}
}

// block walks statements in order; reports whether control cannot fall out of its end
func (w *walker) block(list []ast.Stmt) bool {
	for _, s := range list {
		if w.stmt(s) {
			return true
		}
	}
	return false
}

// join of branch exits: held only if held on every branch that does not terminate
func (w *walker) branches(entry state, bodies [][]ast.Stmt, fallsThrough bool) bool {
	held, any := true, false
	for _, b := range bodies {
		w.st = entry
		if !w.block(b) {
			any = true
			held = held && w.st.held
		}
		entry.deferUnl = entry.deferUnl || w.st.deferUnl
	}
	if fallsThrough {
		any = true
		held = held && entry.held
	}
	w.st = entry
	if any {
		w.st.held = held
	}
	return !any
}

func (w *walker) stmt(s ast.Stmt) (terminates bool) {
	switch x := s.(type) {
	case nil, *ast.EmptyStmt:
	case *ast.ExprStmt:
		w.expr(x.X, false)
		if c, ok := x.X.(*ast.CallExpr); ok {
			if id, ok := c.Fun.(*ast.Ident); ok && id.Name == "panic" {
				return true
			}
		}
	case *ast.AssignStmt:
		for _, r := range x.Rhs {
			w.expr(r, false)
		}
		for _, l := range x.Lhs {
			w.expr(l, true)
		}
	case *ast.IncDecStmt:
		w.expr(x.X, true)
	case *ast.SendStmt:
		w.expr(x.Chan, false)
		w.expr(x.Value, false)
	case *ast.DeclStmt:
		if gd, ok := x.Decl.(*ast.GenDecl); ok {
			for _, sp := range gd.Specs {
				if vs, ok := sp.(*ast.ValueSpec); ok {
					for _, v := range vs.Values {
						w.expr(v, false)
					}
				}
			}
		}
	case *ast.ReturnStmt:
		for _, r := range x.Results {
			w.expr(r, false)
		}
		return true
	case *ast.BranchStmt:
		return x.Tok != token.FALLTHROUGH
	case *ast.LabeledStmt:
		return w.stmt(x.Stmt)
	case *ast.BlockStmt:
		return w.block(x.List)
	case *ast.DeferStmt:
		if m := mutexCall(w, x.Call); m == "Unlock" || m == "RUnlock" {
			w.st.deferUnl = true
			w.u.deferUnl = true
			return false
		}
		if lit, ok := x.Call.Fun.(*ast.FuncLit); ok {
			// runs when the function returns, BEFORE an unlock that was deferred earlier: it is inside
			// the critical section exactly if the lock is held now and is released by such a defer
			saved := w.st
			w.st = state{held: saved.held && saved.deferUnl, deferUnl: saved.deferUnl}
			w.block(lit.Body.List)
			w.st = saved
			for _, a := range x.Call.Args {
				w.expr(a, false)
			}
			return false
		}
		saved := w.st
		w.st = state{held: saved.held && saved.deferUnl, deferUnl: saved.deferUnl}
		w.call(x.Call)
		w.st = saved
	case *ast.GoStmt:
		*w.goN++
		g := &unit{name: fmt.Sprintf("%s$go%d", w.outer, *w.goN), goroutine: true}
		units = append(units, g)
		unitByName[g.name] = g
		gw := &walker{u: g, recv: w.recv, params: w.params, outer: w.outer, goN: w.goN}
		if lit, ok := x.Call.Fun.(*ast.FuncLit); ok {
			gw.block(lit.Body.List)
		} else {
			gw.call(x.Call)
		}
		for _, a := range x.Call.Args {
			w.expr(a, false)
		}
	case *ast.IfStmt:
		w.stmt(x.Init)
		w.expr(x.Cond, false)
		entry := w.st
		bodies := [][]ast.Stmt{x.Body.List}
		if x.Else != nil {
			bodies = append(bodies, []ast.Stmt{x.Else})
		}
		return w.branches(entry, bodies, x.Else == nil)
	case *ast.ForStmt:
		w.stmt(x.Init)
		w.expr(x.Cond, false)
		entry := w.st
		w.branches(entry, [][]ast.Stmt{append(append([]ast.Stmt{}, x.Body.List...), x.Post)}, true)
	case *ast.RangeStmt:
		w.expr(x.X, false)
		entry := w.st
		w.branches(entry, [][]ast.Stmt{x.Body.List}, true)
	case *ast.SwitchStmt:
		w.stmt(x.Init)
		w.expr(x.Tag, false)
		return w.clauses(x.Body.List)
	case *ast.TypeSwitchStmt:
		w.stmt(x.Init)
		w.stmt(x.Assign)
		return w.clauses(x.Body.List)
	case *ast.SelectStmt:
		return w.clauses(x.Body.List)
	default:
		die("%s: statement of kind %T is not handled", fset.Position(s.Pos()), s)
	}
	return false
}

func (w *walker) clauses(list []ast.Stmt) bool {
	entry := w.st
	var bodies [][]ast.Stmt
	hasDefault := false
	for _, c := range list {
		switch cc := c.(type) {
		case *ast.CaseClause:
			for _, e := range cc.List {
				w.expr(e, false)
			}
			if cc.List == nil {
				hasDefault = true
			}
			bodies = append(bodies, cc.Body)
		case *ast.CommClause:
			body := cc.Body
			if cc.Comm != nil {
				body = append([]ast.Stmt{cc.Comm}, body...)
			} else {
				hasDefault = true
			}
			bodies = append(bodies, body)
		}
	}
	// a `break` inside a clause leaves the switch, not the function: treat clause exits as non-terminating
	held, any := true, false
	for _, b := range bodies {
		w.st = entry
		w.block(b)
		any = true
		held = held && w.st.held
		entry.deferUnl = entry.deferUnl || w.st.deferUnl
	}
	if !hasDefault {
		any = true
		held = held && entry.held
	}
	w.st = entry
	if any {
		w.st.held = held
	}
	return false
}

func recvOf(fd *ast.FuncDecl) (typ, name string) {
	if fd.Recv == nil || len(fd.Recv.List) == 0 {
		return "", ""
	}
	t := fd.Recv.List[0].Type
	if st, ok := t.(*ast.StarExpr); ok {
		t = st.X
	}
	if id, ok := t.(*ast.Ident); ok {
		typ = id.Name
	}
	if len(fd.Recv.List[0].Names) > 0 {
		name = fd.Recv.List[0].Names[0].Name
	}
	return
}

func isFuncTyped(t ast.Expr, funcTypes map[string]bool) bool {
	switch x := t.(type) {
	case *ast.FuncType:
		return true
	case *ast.Ident:
		return funcTypes[x.Name]
	}
	return false
}

func q(s string) string { return "\"" + strings.ReplaceAll(s, "\"", "\\\"") + "\"" }

func b(x bool) string {
	if x {
		return "true"
	}
	return "false"
}

func main() {
	if len(os.Args) != 3 {
		die("usage: lockfacts-agg <repo> <outdir>")
	}
	repo, outdir := os.Args[1], os.Args[2]
	overlay := map[string]string{}
	if v := os.Getenv("VERIF_MUTANT_OVERLAY"); v != "" {
		if err := json.Unmarshal([]byte(v), &overlay); err != nil {
			die("VERIF_MUTANT_OVERLAY: %v", err)
		}
	}
	dir := filepath.Join(repo, "pkg", "intermediate")
	ents, err := os.ReadDir(dir)
	if err != nil {
		die("%v", err)
	}
	var files []*ast.File
	for _, e := range ents {
		n := e.Name()
		if !strings.HasSuffix(n, ".go") || strings.HasSuffix(n, "_test.go") {
			continue
		}
		p := filepath.Join(dir, n)
		if alt, ok := overlay[p]; ok {
			p = alt
		}
		f, err := parser.ParseFile(fset, p, nil, 0)
		if err != nil {
			die("%v", err)
		}
		files = append(files, f)
	}
	// pass 1: method names, function-typed named types and struct fields
	funcTypes := map[string]bool{}
	foundType, foundMutex := false, false
	for _, f := range files {
		for _, d := range f.Decls {
			switch x := d.(type) {
			case *ast.FuncDecl:
				if t, _ := recvOf(x); t == recvType {
					methodNames[x.Name.Name] = true
				}
			case *ast.GenDecl:
				for _, sp := range x.Specs {
					ts, ok := sp.(*ast.TypeSpec)
					if !ok {
						continue
					}
					if _, ok := ts.Type.(*ast.FuncType); ok {
						funcTypes[ts.Name.Name] = true
					}
					if st, ok := ts.Type.(*ast.StructType); ok {
						for _, fl := range st.Fields.List {
							for _, nm := range fl.Names {
								if _, ok := fl.Type.(*ast.FuncType); ok {
									funcFields[nm.Name] = true
								}
								if ts.Name.Name == recvType {
									foundType = true
									if nm.Name == "mutex" {
										foundMutex = true
									}
								}
							}
						}
					}
				}
			}
		}
	}
	if !foundType || !foundMutex {
		die("type %s with a field `mutex` not found in %s", recvType, dir)
	}
	for fld := range sharedFields {
		_ = fld
	}
	// pass 2: walk every function of the package
	for _, f := range files {
		for _, d := range f.Decls {
			fd, ok := d.(*ast.FuncDecl)
			if !ok || fd.Body == nil {
				continue
			}
			typ, rname := recvOf(fd)
			outer := fd.Name.Name
			if typ != "" {
				outer = typ + "." + fd.Name.Name
			}
			params := map[string]bool{}
			for _, p := range fd.Type.Params.List {
				if isFuncTyped(p.Type, funcTypes) {
					for _, nm := range p.Names {
						params[nm.Name] = true
					}
				}
			}
			u := &unit{name: fd.Name.Name, exported: ast.IsExported(fd.Name.Name)}
			n := 0
			w := &walker{u: u, params: params, outer: outer, goN: &n}
			if typ == recvType {
				u.isMethod = true
				w.recv = rname
				units = append(units, u)
				unitByName[u.name] = u
			} else {
				u.name = outer // walked only for the goroutines it starts
			}
			w.block(fd.Body.List)
		}
	}
	// entryHeld: greatest fixpoint - an unexported helper, never used as a method value, all of whose
	// call sites hold the lock
	callers := map[string][]struct {
		from string
		held bool
	}{}
	for _, u := range units {
		for _, e := range u.calls {
			callers[e.callee] = append(callers[e.callee], struct {
				from string
				held bool
			}{u.name, e.held})
		}
	}
	entryHeld := map[string]bool{}
	for _, u := range units {
		entryHeld[u.name] = u.isMethod && !u.exported && !methodValues[u.name] && len(callers[u.name]) > 0
	}
	for changed := true; changed; {
		changed = false
		for _, u := range units {
			if !entryHeld[u.name] {
				continue
			}
			for _, c := range callers[u.name] {
				if !c.held && !entryHeld[c.from] {
					entryHeld[u.name] = false
					changed = true
					break
				}
			}
		}
	}
	// reachability from the goroutine roots
	reach := func(root *unit) []string {
		seen := map[string]bool{}
		var order []string
		var visit func(n string)
		visit = func(n string) {
			if seen[n] {
				return
			}
			seen[n] = true
			order = append(order, n)
			u := unitByName[n]
			if u == nil {
				return
			}
			for _, e := range u.calls {
				visit(e.callee)
			}
			if u.indirect {
				var mv []string
				for m := range methodValues {
					mv = append(mv, m)
				}
				sort.Strings(mv)
				for _, m := range mv {
					visit(m)
				}
			}
		}
		visit(root.name)
		return order
	}

	var sb strings.Builder
	sb.WriteString("-- GENERATED by tools/lockfacts-agg from /repo's working tree (pkg/intermediate). Do not edit.\n")
	sb.WriteString("namespace Generated\n\n")
	sb.WriteString("/-- (method of AggregationProcess or goroutine body, shared field, \"r\" | \"w\", a.mutex held at that point -\n    locally, or because every call site of this unexported helper holds it) -/\n")
	sb.WriteString("def aggAccesses : List (String × String × String × Bool) := [")
	first := true
	seenAcc := map[string]bool{}
	for _, u := range units {
		for _, a := range u.accesses {
			g := a.held || entryHeld[u.name]
			key := u.name + "|" + a.field + "|" + a.kind + "|" + b(g)
			if seenAcc[key] {
				continue
			}
			seenAcc[key] = true
			if !first {
				sb.WriteString(",")
			}
			first = false
			sb.WriteString(fmt.Sprintf("\n  (%s, %s, %s, %s)", q(u.name), q(a.field), q(a.kind), b(g)))
		}
	}
	sb.WriteString("]\n\n")
	sb.WriteString("/-- (goroutine root: exported method or `go` statement, everything it can reach through method calls;\n    a goroutine that calls a function-typed struct field reaches every method used as a method value) -/\n")
	sb.WriteString("def aggRoots : List (String × List String) := [")
	first = true
	for _, u := range units {
		if !(u.goroutine || (u.isMethod && u.exported)) {
			continue
		}
		var qs []string
		for _, m := range reach(u) {
			qs = append(qs, q(m))
		}
		if !first {
			sb.WriteString(",")
		}
		first = false
		sb.WriteString(fmt.Sprintf("\n  (%s, [%s])", q(u.name), strings.Join(qs, ", ")))
	}
	sb.WriteString("]\n\n")
	sb.WriteString("/-- (method, number of a.mutex.Lock()/RLock() calls in its body, unlock deferred) -/\n")
	sb.WriteString("def aggLockRegions : List (String × Nat × Bool) := [")
	first = true
	for _, u := range units {
		if !first {
			sb.WriteString(",")
		}
		first = false
		sb.WriteString(fmt.Sprintf("\n  (%s, %d, %s)", q(u.name), u.locks, b(u.deferUnl)))
	}
	sb.WriteString("]\n\n")
	sb.WriteString("/-- (method, a.mutex held - locally or by every caller) for every reading of the clock (time.Now()) -/\n")
	sb.WriteString("def aggClockReads : List (String × Bool) := [")
	first = true
	for _, u := range units {
		for _, h := range u.clock {
			if !first {
				sb.WriteString(", ")
			}
			first = false
			sb.WriteString(fmt.Sprintf("(%s, %s)", q(u.name), b(h || entryHeld[u.name])))
		}
	}
	sb.WriteString("]\n\n")
	sb.WriteString("/-- methods that take a.mutex in SHARED mode (RLock): they exclude writers, not each other -/\n")
	sb.WriteString("def aggSharedLockUsers : List String := [")
	first = true
	for _, u := range units {
		if u.rlocks == 0 {
			continue
		}
		if !first {
			sb.WriteString(", ")
		}
		first = false
		sb.WriteString(q(u.name))
	}
	sb.WriteString("]\n\n")
	sb.WriteString("/-- (method, function-typed parameter it invokes, a.mutex held around the invocation) -/\n")
	sb.WriteString("def aggCallbackCalls : List (String × String × Bool) := [")
	first = true
	seenCb := map[string]bool{}
	for _, u := range units {
		for _, c := range u.cbs {
			g := c.held || entryHeld[u.name]
			key := u.name + "|" + c.param + "|" + b(g)
			if seenCb[key] {
				continue
			}
			seenCb[key] = true
			if !first {
				sb.WriteString(",")
			}
			first = false
			sb.WriteString(fmt.Sprintf("\n  (%s, %s, %s)", q(u.name), q(c.param), b(g)))
		}
	}
	sb.WriteString("]\n\n")
	sb.WriteString("/-- unexported helpers whose every call site holds the lock (the \"WithoutLock\" idiom) -/\n")
	sb.WriteString("def aggCalledWithLock : List String := [")
	first = true
	for _, u := range units {
		if entryHeld[u.name] {
			if !first {
				sb.WriteString(", ")
			}
			first = false
			sb.WriteString(q(u.name))
		}
	}
	sb.WriteString("]\n\n")
	var mv []string
	for m := range methodValues {
		mv = append(mv, q(m))
	}
	sort.Strings(mv)
	sb.WriteString("/-- methods used as method values (handed to the workers as their job) -/\n")
	sb.WriteString("def aggMethodValues : List String := [" + strings.Join(mv, ", ") + "]\n\n")
	sb.WriteString("end Generated\n")

	out := filepath.Join(outdir, "LocksAgg.lean")
	if old, err := os.ReadFile(out); err == nil && string(old) == sb.String() {
		return
	}
	if err := os.MkdirAll(outdir, 0o755); err != nil {
		die("%v", err)
	}
	tmp := out + ".tmp"
	if err := os.WriteFile(tmp, []byte(sb.String()), 0o644); err != nil {
		die("%v", err)
	}
	if err := os.Rename(tmp, out); err != nil {
		die("%v", err)
	}
}
