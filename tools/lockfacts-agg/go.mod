module lockfactsagg

go 1.23
