// tlsfacts: fact group F5 of DESIGN.md (property C18). Re-extracts from /repo's working tree, with
// go/ast only,
//   - every `tls.Config{...}` / `dtls.Config{...}` composite literal of pkg/exporter/process.go,
//     pkg/collector/tcp.go and pkg/collector/udp.go: enclosing function, path condition (the
//     conditions of the enclosing `if`s, negated for else branches and for earlier sibling `if`s whose
//     body ends in a return) and the fields set with the source text of their values;
//   - every Dial / Listen / Client / Server call of crypto/tls, pion/dtls and net in those files, and
//     every call of a local function that contains such a literal, with arguments, assigned
//     variables and path condition;
//   - every assignment to a security-relevant field of a config (x.InsecureSkipVerify = ..., ...) and
//     every mention of the identifier InsecureSkipVerify;
//   - for every such assignment whose value is a func literal (x.VerifyPeerCertificate = func...): a
//     "hook" - its path condition, the source text of the literal and the local assignments that
//     reach the variables the literal captures (and the variable x itself), transitively, each with
//     its path condition (variables are followed by go/parser's object resolution, not by name);
//   - how CollectorInput's security fields reach the CollectingProcess (pkg/collector/process.go);
//
// and writes them as Lean source (IpfixModel/Generated/TLS.lean). The decision model of C18
// (Model/TLSDecision.lean) is defined from these tables.
//
//	tlsfacts <repo> <outdir>
//
// Exit status 2 = the tree has a shape this translator cannot read. The file is rewritten only when
// its content changes. VERIF_MUTANT_OVERLAY='{"<real path>": "<copy>"}' makes the translator read
// the copy, exactly as `go build -overlay` makes the compiler do (development aid).
package main

import (
	"bytes"
	"encoding/json"
	"fmt"
	"go/ast"
	"go/parser"
	"go/printer"
	"go/token"
	"os"
	"path/filepath"
	"strconv"
	"strings"
)

var fset = token.NewFileSet()

func die(format string, a ...interface{}) {
	fmt.Fprintf(os.Stderr, "tlsfacts: "+format+"\n", a...)
	os.Exit(2)
}

var overlay = map[string]string{}

func parse(path string) *ast.File {
	if alt, ok := overlay[path]; ok {
		path = alt
	}
	f, err := parser.ParseFile(fset, path, nil, 0)
	if err != nil {
		die("%v", err)
	}
	return f
}

func render(n ast.Node) string {
	var b bytes.Buffer
	if err := printer.Fprint(&b, fset, n); err != nil {
		die("cannot render node: %v", err)
	}
	return strings.Join(strings.Fields(b.String()), " ")
}

// canonical short names of the packages whose calls / types matter
var pkgShort = map[string]string{
	"crypto/tls":              "tls",
	"github.com/pion/dtls/v2": "dtls",
	"github.com/pion/dtls/v3": "dtls",
	"github.com/pion/dtls":    "dtls",
	"net":                     "net",
}

// fields of tls.Config / dtls.Config whose later assignment would change the decision
var securityFields = map[string]bool{
	"InsecureSkipVerify": true, "InsecureSkipVerifyHello": true, "MinVersion": true, "MaxVersion": true,
	"ClientAuth": true, "RootCAs": true, "ClientCAs": true, "ServerName": true, "VerifyPeerCertificate": true,
	"VerifyConnection": true, "Certificates": true, "GetCertificate": true, "GetClientCertificate": true,
	"GetConfigForClient": true, "ExtendedMasterSecret": true, "CipherSuites": true, "PSK": true,
}

type configLit struct {
	file, fn, kind string
	conds          []string
	fields         [][2]string
}

type call struct {
	file, fn, callee string
	args, lhs, conds []string
	local            bool
}

type assign struct{ file, fn, lhs, rhs string }

// localDef is an assignment statement of the function being scanned: the variables it (re)defines and uses
type localDef struct {
	pos        token.Pos
	lhs, rhs   string
	conds      []string
	sets, uses []*ast.Object
}

type hook struct {
	file, fn, lhs, body string
	conds               []string
	lit                 *ast.FuncLit
	root                *ast.Object // the variable whose field is assigned
	defs                []localDef
}

var (
	lits      []configLit
	calls     []call
	assigns   []assign
	mentions  [][2]string
	hooks     []hook
	passThru  [][2]string
	localFuns = map[string]bool{}
	producers = map[string]bool{}
)

type scanner struct {
	file    string            // path relative to the repo
	fn      string            // enclosing function
	aliases map[string]string // local import name -> canonical short name
	defs    []localDef        // every assignment statement of the function, in source order
}

// varsIn: the local variables (resolved by the parser) mentioned below n
func varsIn(n ast.Node) []*ast.Object {
	var out []*ast.Object
	ast.Inspect(n, func(m ast.Node) bool {
		if id, ok := m.(*ast.Ident); ok && id.Obj != nil && id.Obj.Kind == ast.Var {
			out = append(out, id.Obj)
		}
		return true
	})
	return out
}

// reaching: the assignments of the function outside the hook's literal that define a variable the literal
// captures, the variable whose field the hook is assigned to, or a variable used by such an assignment
func (s *scanner) reaching(h hook) []localDef {
	want := map[*ast.Object]bool{h.root: h.root != nil}
	for _, o := range varsIn(h.lit) {
		if o.Pos() < h.lit.Pos() || o.Pos() >= h.lit.End() {
			want[o] = true
		}
	}
	take := map[int]bool{}
	for changed := true; changed; {
		changed = false
		for i, d := range s.defs {
			if take[i] || (d.pos >= h.lit.Pos() && d.pos < h.lit.End()) {
				continue
			}
			for _, o := range d.sets {
				if want[o] {
					take[i], changed = true, true
					for _, u := range d.uses {
						want[u] = true
					}
					break
				}
			}
		}
	}
	var out []localDef
	for i, d := range s.defs {
		if take[i] {
			out = append(out, d)
		}
	}
	return out
}

func (s *scanner) pkgOf(x ast.Expr) (string, bool) {
	id, ok := x.(*ast.Ident)
	if !ok {
		return "", false
	}
	p, ok := s.aliases[id.Name]
	return p, ok
}

func copyConds(c []string) []string { return append([]string(nil), c...) }

func terminates(b *ast.BlockStmt) bool {
	if b == nil || len(b.List) == 0 {
		return false
	}
	switch st := b.List[len(b.List)-1].(type) {
	case *ast.ReturnStmt:
		return true
	case *ast.ExprStmt:
		if c, ok := st.X.(*ast.CallExpr); ok {
			if id, ok := c.Fun.(*ast.Ident); ok && id.Name == "panic" {
				return true
			}
		}
	}
	return false
}

func (s *scanner) block(b *ast.BlockStmt, conds []string) {
	if b == nil {
		return
	}
	s.stmts(b.List, conds)
}

func (s *scanner) stmts(list []ast.Stmt, conds []string) {
	local := copyConds(conds)
	for _, st := range list {
		s.stmt(st, local)
		if is, ok := st.(*ast.IfStmt); ok && is.Else == nil && terminates(is.Body) {
			local = append(copyConds(local), "!("+render(is.Cond)+")")
		}
	}
}

func (s *scanner) stmt(st ast.Stmt, conds []string) {
	switch x := st.(type) {
	case nil:
	case *ast.BlockStmt:
		s.block(x, conds)
	case *ast.IfStmt:
		if x.Init != nil {
			s.stmt(x.Init, conds)
		}
		s.exprs(x.Cond, conds, nil)
		c := render(x.Cond)
		s.block(x.Body, append(copyConds(conds), c))
		if x.Else != nil {
			s.stmt(x.Else, append(copyConds(conds), "!("+c+")"))
		}
	case *ast.ForStmt:
		s.stmt(x.Init, conds)
		if x.Cond != nil {
			s.exprs(x.Cond, conds, nil)
		}
		s.stmt(x.Post, conds)
		s.block(x.Body, conds)
	case *ast.RangeStmt:
		s.exprs(x.X, conds, nil)
		s.block(x.Body, conds)
	case *ast.SwitchStmt:
		s.stmt(x.Init, conds)
		tag := ""
		if x.Tag != nil {
			s.exprs(x.Tag, conds, nil)
			tag = render(x.Tag) + " == "
		}
		for _, cc := range x.Body.List {
			cl := cc.(*ast.CaseClause)
			var names []string
			for _, e := range cl.List {
				names = append(names, tag+render(e))
			}
			c := "default"
			if len(names) > 0 {
				c = strings.Join(names, " || ")
			}
			s.stmts(cl.Body, append(copyConds(conds), "case "+c))
		}
	case *ast.TypeSwitchStmt:
		s.stmt(x.Init, conds)
		s.stmt(x.Assign, conds)
		for _, cc := range x.Body.List {
			s.stmts(cc.(*ast.CaseClause).Body, conds)
		}
	case *ast.SelectStmt:
		for _, cc := range x.Body.List {
			cl := cc.(*ast.CommClause)
			s.stmt(cl.Comm, conds)
			s.stmts(cl.Body, conds)
		}
	case *ast.LabeledStmt:
		s.stmt(x.Stmt, conds)
	case *ast.AssignStmt:
		var lhs []string
		d := localDef{pos: x.Pos(), conds: copyConds(conds)}
		for _, l := range x.Lhs {
			if id, ok := l.(*ast.Ident); ok && id.Obj != nil {
				d.sets = append(d.sets, id.Obj)
			}
		}
		for _, r := range x.Rhs {
			d.uses = append(d.uses, varsIn(r)...)
		}
		d.lhs, d.rhs = strings.Join(renderAll(x.Lhs), ", "), strings.Join(renderAll(x.Rhs), ", ")
		s.defs = append(s.defs, d)
		for _, l := range x.Lhs {
			lhs = append(lhs, render(l))
			if sel, ok := l.(*ast.SelectorExpr); ok && securityFields[sel.Sel.Name] {
				rhs := ""
				if len(x.Rhs) == len(x.Lhs) {
					for i := range x.Lhs {
						if x.Lhs[i] == l {
							rhs = render(x.Rhs[i])
						}
					}
				} else if len(x.Rhs) > 0 {
					rhs = render(x.Rhs[0])
				}
				assigns = append(assigns, assign{s.file, s.fn, render(l), rhs})
				if len(x.Rhs) == len(x.Lhs) {
					for i := range x.Lhs {
						if lit, ok := x.Rhs[i].(*ast.FuncLit); ok && x.Lhs[i] == l {
							h := hook{file: s.file, fn: s.fn, lhs: render(l), body: rhs, conds: copyConds(conds), lit: lit}
							if id, ok := sel.X.(*ast.Ident); ok {
								h.root = id.Obj
							}
							hooks = append(hooks, h)
						}
					}
				}
			}
			s.exprs(l, conds, nil)
		}
		for _, r := range x.Rhs {
			if len(x.Rhs) == 1 {
				s.exprs(r, conds, lhs)
			} else {
				s.exprs(r, conds, nil)
			}
		}
	default:
		s.exprs(st, conds, nil)
	}
}

// exprs scans everything below n that is not a statement with its own path condition. lhs names the
// variables a top-level call's results are assigned to.
func (s *scanner) exprs(n ast.Node, conds []string, lhs []string) {
	if n == nil {
		return
	}
	top := n
	ast.Inspect(n, func(m ast.Node) bool {
		switch x := m.(type) {
		case *ast.FuncLit:
			s.block(x.Body, conds)
			return false
		case *ast.Ident:
			if x.Name == "InsecureSkipVerify" {
				mentions = append(mentions, [2]string{s.file, s.fn})
			}
		case *ast.CompositeLit:
			if sel, ok := x.Type.(*ast.SelectorExpr); ok && sel.Sel.Name == "Config" {
				if p, ok := s.pkgOf(sel.X); ok && (p == "tls" || p == "dtls") {
					l := configLit{file: s.file, fn: s.fn, kind: p + ".Config", conds: copyConds(conds)}
					for i, e := range x.Elts {
						if kv, ok := e.(*ast.KeyValueExpr); ok {
							l.fields = append(l.fields, [2]string{render(kv.Key), render(kv.Value)})
						} else {
							l.fields = append(l.fields, [2]string{"#" + strconv.Itoa(i), render(e)})
						}
					}
					lits = append(lits, l)
					producers[s.fn] = true
				}
			}
		case *ast.CallExpr:
			var l []string
			if ast.Node(x) == top {
				l = lhs
			}
			switch f := x.Fun.(type) {
			case *ast.SelectorExpr:
				if p, ok := s.pkgOf(f.X); ok {
					nm := f.Sel.Name
					if strings.HasPrefix(nm, "Dial") || strings.HasPrefix(nm, "Listen") || nm == "Client" || nm == "Server" ||
						nm == "NewListener" || strings.HasPrefix(nm, "Resume") {
						calls = append(calls, call{s.file, s.fn, p + "." + nm, renderAll(x.Args), l, copyConds(conds), false})
					}
				} else if localFuns[f.Sel.Name] {
					calls = append(calls, call{s.file, s.fn, f.Sel.Name, renderAll(x.Args), l, copyConds(conds), true})
				}
			case *ast.Ident:
				if localFuns[f.Name] {
					calls = append(calls, call{s.file, s.fn, f.Name, renderAll(x.Args), l, copyConds(conds), true})
				}
			}
		}
		return true
	})
}

func renderAll(es []ast.Expr) []string {
	var out []string
	for _, e := range es {
		out = append(out, render(e))
	}
	return out
}

func aliasesOf(f *ast.File) map[string]string {
	m := map[string]string{}
	for _, im := range f.Imports {
		path, _ := strconv.Unquote(im.Path.Value)
		short, ok := pkgShort[path]
		if !ok {
			continue
		}
		name := filepath.Base(path)
		if strings.HasPrefix(name, "v") && len(name) <= 3 { // .../dtls/v2
			name = filepath.Base(filepath.Dir(path))
		}
		if im.Name != nil {
			name = im.Name.Name
		}
		m[name] = short
	}
	return m
}

// ---- Lean rendering ---------------------------------------------------------------------

func q(s string) string {
	var b strings.Builder
	b.WriteByte('"')
	for _, r := range s {
		switch r {
		case '"':
			b.WriteString("\\\"")
		case '\\':
			b.WriteString("\\\\")
		case '\n':
			b.WriteString("\\n")
		case '\t':
			b.WriteString("\\t")
		default:
			b.WriteRune(r)
		}
	}
	b.WriteByte('"')
	return b.String()
}

func qlist(l []string) string {
	var parts []string
	for _, s := range l {
		parts = append(parts, q(s))
	}
	return "[" + strings.Join(parts, ", ") + "]"
}

func main() {
	if len(os.Args) != 3 {
		die("usage: tlsfacts <repo> <outdir>")
	}
	repo, outdir := os.Args[1], os.Args[2]
	if ov := os.Getenv("VERIF_MUTANT_OVERLAY"); ov != "" {
		if err := json.Unmarshal([]byte(ov), &overlay); err != nil {
			die("VERIF_MUTANT_OVERLAY: %v", err)
		}
	}
	files := []string{"pkg/exporter/process.go", "pkg/collector/tcp.go", "pkg/collector/udp.go"}
	parsed := map[string]*ast.File{}
	for _, rel := range files {
		f := parse(filepath.Join(repo, rel))
		parsed[rel] = f
		for _, d := range f.Decls {
			if fd, ok := d.(*ast.FuncDecl); ok {
				localFuns[fd.Name.Name] = true
			}
		}
	}
	for _, rel := range files {
		f := parsed[rel]
		al := aliasesOf(f)
		for _, d := range f.Decls {
			fd, ok := d.(*ast.FuncDecl)
			if !ok || fd.Body == nil {
				continue
			}
			s := &scanner{file: rel, fn: fd.Name.Name, aliases: al}
			first := len(hooks)
			s.block(fd.Body, nil)
			for i := first; i < len(hooks); i++ {
				hooks[i].defs = s.reaching(hooks[i])
			}
		}
	}
	// how the collector's input reaches the fields the servers read (keyed literal of CollectingProcess)
	cpf := parse(filepath.Join(repo, "pkg/collector/process.go"))
	want := map[string]bool{"isEncrypted": true, "caCert": true, "serverCert": true, "serverKey": true, "protocol": true, "address": true}
	ast.Inspect(cpf, func(n ast.Node) bool {
		cl, ok := n.(*ast.CompositeLit)
		if !ok {
			return true
		}
		if id, ok := cl.Type.(*ast.Ident); !ok || id.Name != "CollectingProcess" {
			return true
		}
		for _, e := range cl.Elts {
			if kv, ok := e.(*ast.KeyValueExpr); ok {
				if k := render(kv.Key); want[k] {
					passThru = append(passThru, [2]string{k, render(kv.Value)})
				}
			}
		}
		return true
	})
	if len(lits) == 0 {
		die("no tls.Config / dtls.Config composite literal found in %v", files)
	}

	var b strings.Builder
	b.WriteString("-- GENERATED by tools/tlsfacts from /repo's working tree. Do not edit.\n")
	b.WriteString("namespace Generated\nnamespace TLS\n\n")
	b.WriteString("/-- a `tls.Config{..}` / `dtls.Config{..}` composite literal: where it is, under which path condition, which fields it sets (source text) -/\n")
	b.WriteString("structure ConfigLit where\n  file : String\n  func : String\n  kind : String\n  conds : List String\n  fields : List (String × String)\n\n")
	b.WriteString("/-- a Dial/Listen/Client/Server call of crypto/tls, pion/dtls or net, or a call of a local function that builds a config -/\n")
	b.WriteString("structure Call where\n  file : String\n  func : String\n  callee : String\n  args : List String\n  lhs : List String\n  conds : List String\n\n")
	b.WriteString("/-- a local assignment that reaches a hook: left and right hand side (source text) and path condition -/\n")
	b.WriteString("structure LocalDef where\n  lhs : String\n  rhs : String\n  conds : List String\n\n")
	b.WriteString("/-- a func literal assigned to a security-relevant field of a config after its construction: path condition, source text of the\n    literal, and the assignments (outside the literal) that reach the variables it captures and the config variable, transitively -/\n")
	b.WriteString("structure Hook where\n  file : String\n  func : String\n  lhs : String\n  conds : List String\n  body : String\n  defs : List LocalDef\n\n")
	b.WriteString("def configLits : List ConfigLit := [")
	for i, l := range lits {
		if i > 0 {
			b.WriteString(",")
		}
		var fs []string
		for _, f := range l.fields {
			fs = append(fs, "("+q(f[0])+", "+q(f[1])+")")
		}
		fmt.Fprintf(&b, "\n  { file := %s, func := %s, kind := %s,\n    conds := %s,\n    fields := [%s] }", q(l.file), q(l.fn), q(l.kind), qlist(l.conds), strings.Join(fs, ", "))
	}
	b.WriteString("]\n\n")
	b.WriteString("def calls : List Call := [")
	first := true
	for _, c := range calls {
		if c.local && !producers[c.callee] {
			continue
		}
		if !first {
			b.WriteString(",")
		}
		first = false
		fmt.Fprintf(&b, "\n  { file := %s, func := %s, callee := %s, args := %s, lhs := %s,\n    conds := %s }", q(c.file), q(c.fn), q(c.callee), qlist(c.args), qlist(c.lhs), qlist(c.conds))
	}
	b.WriteString("]\n\n")
	b.WriteString("/-- assignments to a security-relevant field of some value after its construction: (file, function, lhs, rhs) -/\n")
	b.WriteString("def fieldAssignments : List (String × String × String × String) := [")
	for i, a := range assigns {
		if i > 0 {
			b.WriteString(", ")
		}
		fmt.Fprintf(&b, "(%s, %s, %s, %s)", q(a.file), q(a.fn), q(a.lhs), q(a.rhs))
	}
	b.WriteString("]\n\n")
	b.WriteString("def hooks : List Hook := [")
	for i, h := range hooks {
		if i > 0 {
			b.WriteString(",")
		}
		var ds []string
		for _, d := range h.defs {
			ds = append(ds, fmt.Sprintf("\n      { lhs := %s, rhs := %s,\n        conds := %s }", q(d.lhs), q(d.rhs), qlist(d.conds)))
		}
		fmt.Fprintf(&b, "\n  { file := %s, func := %s, lhs := %s,\n    conds := %s,\n    body := %s,\n    defs := [%s] }", q(h.file), q(h.fn), q(h.lhs), qlist(h.conds), q(h.body), strings.Join(ds, ","))
	}
	b.WriteString("]\n\n")
	b.WriteString("/-- every mention of the identifier InsecureSkipVerify: (file, function) -/\n")
	b.WriteString("def insecureSkipVerifyMentions : List (String × String) := [")
	for i, m := range mentions {
		if i > 0 {
			b.WriteString(", ")
		}
		fmt.Fprintf(&b, "(%s, %s)", q(m[0]), q(m[1]))
	}
	b.WriteString("]\n\n")
	b.WriteString("/-- CollectingProcess field := expression over CollectorInput (pkg/collector/process.go) -/\n")
	b.WriteString("def passThrough : List (String × String) := [")
	for i, p := range passThru {
		if i > 0 {
			b.WriteString(", ")
		}
		fmt.Fprintf(&b, "(%s, %s)", q(p[0]), q(p[1]))
	}
	b.WriteString("]\n\nend TLS\nend Generated\n")

	out := filepath.Join(outdir, "TLS.lean")
	if old, err := os.ReadFile(out); err == nil && string(old) == b.String() {
		return
	}
	if err := os.MkdirAll(outdir, 0o755); err != nil {
		die("%v", err)
	}
	tmp := out + ".tmp"
	if err := os.WriteFile(tmp, []byte(b.String()), 0o644); err != nil {
		die("%v", err)
	}
	if err := os.Rename(tmp, out); err != nil {
		die("%v", err)
	}
}
