module tlsfacts

go 1.23
