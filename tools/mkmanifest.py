#!/usr/bin/env python3
"""Writes MANIFEST.json from the table below (kept in one place so it stays valid)."""
import json
import os

ROOT = os.path.dirname(os.path.dirname(os.path.abspath(__file__)))

COMMON_NOTE = ("Trusted: Lean 4.33.0 kernel (axioms propext, Classical.choice, Quot.sound only, audited per theorem on every run; "
               "no sorry/admit/native_decide/bv_decide/own axioms), the gofacts translator, the correspondence harness + generators + check.py. "
               "The theorem is about the Lean model; the model is tied to /repo on every run by regenerated facts and by running model "
               "and implementation on the same inputs. ")

CHECKS = {
    "C15": dict(
        engine="ie",
        technique="Lean 4 proof (round-trip + length theorems on the codec model) + exhaustive/boundary differential correspondence",
        text="Full proof for the model of the value codec: encode_length, decode_encode (round trip through the collector's field reader "
             "for every well-typed value of every supported type, with an arbitrary tail), wire-format theorems (bool 1/2, big-endian "
             "two's complement, address widths, 1-/3-byte prefix at the 255 and 65535 boundaries), error branches. The code is tied by "
             "exhaustive enumeration of the 8/16-bit types and boundary+random correspondence for the wide ones, and the executable "
             "predicate Ipfix.C15.holdsRT is evaluated on every implementation observation (model_holdsRT: the model's own observation "
             "satisfies it). Model/RecordBuf.lean is an EXACT model of dataRecord.GetBuffer for all element lists (ill-typed values, "
             "odd declared lengths, MAC spill); recordBuf_length (bytes written = reported length, unconditionally) and "
             "recordBuf_eq_encodeRecord (it equals the specification encoder wherever that accepts) are proved, and `ie recbuf` compares it "
             "byte for byte with the implementation.",
        design="4 (C15)",
        note="Go's typed constructors are assumed to carry the given bit patterns; float values never undergo arithmetic."),
}

CHECKS["C03"] = dict(
    engine="dec",
    technique="Lean 4 proof (safety invariant by induction over all packet histories + soundness against an independent RFC 7011 slicing relation) + differential correspondence on in-package decodePacket",
    text="Full proof for the model of decodePacket/decodeTemplateSet/decodeDataSet (with explicit panic and diverge outcomes): decode_total "
         "(for every history of packets, every mode and every byte string decoding neither crashes nor diverges; invariant TemplatesWF, "
         "registry hypothesis discharged from the regenerated registry by decide), decode_bounded (each record consumed >= 1 byte), "
         "decode_exact (the body is complete records per the independent relation Slices/IsRecord/IsField plus padding shorter than the "
         "minimum record; values are the per-type decodings of exactly those payloads), decode_template_exact (ids and enterprise numbers "
         "as on the wire, in order), decode_complete / slicing_unambiguous (every slicing the grammar admits is the one the decoder finds). Tied to the code by three packet generators x degenerate template states x three modes; the "
         "specification's expected observation is evaluated on every implementation observation.",
    design="4 (C03), 5 (D1-D4b fixed)",
    note="bytes.Buffer / binary.Read modelled as list take/drop; the message channel is drained by the harness; a 20 s watchdog stands for non-termination.")
CHECKS["C04"] = dict(
    engine="dec",
    technique="Lean 4 proof (refinement of the template store to the declarative lastValid specification, by induction over histories) + bounded-exhaustive history correspondence",
    text="Refinement proof: templates_refine (after any history the template in force for (domain,id) is lastValid of the event history), "
         "data_uses_last_valid / data_rejected_without_template, frame (other domains / ids have no influence), bad_template_erases, for the "
         "specification decodePacketSpec; code_eq_spec_off_cut + templates_refine_partial show the code's bookkeeping equals the specification "
         "except for a template set cut right after its id, where d13_witness proves the full statement false (known finding D13, pinned by an "
         "existing test). All histories up to length 3 (4 ending in data) over a 32-symbol alphabet are run against the real decoder.",
    design="4 (C04), 5 (D13)",
    note="strict mode, TCP (no expiry) in the correspondence; UDP expiry is C10.")

CHECKS["C17"] = dict(
    engine="dec",
    technique="Lean 4 proof (filter/erase commutation theorems over the decoder model) + three-mode differential correspondence + exhaustive registry cross-check",
    text="Proved for the decoder model: strict_only_registry (strict mode accepts only registry elements), keep_preserves (an unknown field is "
         "delivered as exactly the payload bytes of its complete wire field), strict_data_eq_keep, drop_omits (drop = keep filtered to the known "
         "positions, same bytes consumed), known_fields_independent (cutting the unknown fields out of template and record yields exactly the "
         "known values - uses the completeness direction of the independent slicing relation), tie_no_empty_names (the empty-name marker cannot "
         "collide with a decodable registry element); template level: strict_rejects_template_and_data, lenient_accepts_template, unknown_stand_in, "
         "keep_delivers_payload (an unknown field carries exactly the payload the exporter wrote). The same wire bytes are decoded by the real collector under the three modes and with the "
         "unknown fields cut out; Ipfix.C17.holdsCase is evaluated on the implementation's eight observations per case; the regenerated "
         "registry table is compared with GetInfoElementFromID for 4 x 65536 keys.",
    design="4 (C17)",
    note="unknown elements of length 0 are rejected in all modes since fix 52ccd48.")

CHECKS["C20"] = dict(
    engine="store",
    technique="Lean 4 proof (bounded-buffer invariant and window refinement by induction over all op sequences; render completeness) + in-package differential correspondence of cmd/collector",
    text="25 theorems on the model of the standalone collector's store and handlers: len_le_cap (every op sequence), window (items = last cap "
         "arrivals since the last reset, in order), query_last / query_response (last min(n, stored) entries in json and text), query_refused, "
         "reset_empties / reset_refused, render_complete (for every record and field the line `name: value` occurs in the rendered entry), and "
         "model_trace_holds (the model's trace satisfies the executable Spec predicate). The real addIPFIXMessage / flowRecordHandler / "
         "resetRecordHandler are driven through an overlay _test.go (go test -c) with sessions exceeding 3 x cap arrivals; the Spec predicate "
         "(stateful tracker of arrivals) is evaluated on every implementation response.",
    design="4 (C20), 5 (D10 fixed)",
    note="time.Local is set to UTC by the driver; floats are not generated (Go's shortest %v is not modelled); handlers are called through httptest without the ServeMux.")

CHECKS["C16"] = dict(
    engine="bld",
    technique="Lean 4 proof (bookkeeping invariant by induction over all op sequences; equality of the add paths; reset/new bisimulation) + public-API differential correspondence",
    text="Proved on the builder model: length_inv (for every op sequence length = 4 + sum of record lengths), serialize_length and "
         "createMsg_length (bytes serialized = length; message = 16 + length, error iff > 65535), add_paths_equiv_data / _template (element-by-"
         "element AddRecord(WithExtraElements) and slice-adopting AddRecordV2 build identical sets), reset_like_new(_run), header_len, "
         "model_holdsObs, and the out-of-domain counter-example new_vs_reset_without_prepare_differ. 12.6k op sequences (quick) run through the "
         "public API on a reused set, a fresh set and with each add path; Ipfix.C16.holdsObs is evaluated on every implementation observation "
         "and the reuse / add-path relations are also checked implementation-vs-implementation.",
    design="4 (C16)",
    note="element values are immutable in the model; template records take nil/zero values (IsValueEmpty).")

CHECKS["C02"] = dict(
    engine="exp",
    technique="Lean 4 proof (parse-after-encode theorems at message, template-record and data-record layer against an independent RFC 7011 parser) + socket-level differential correspondence",
    text="Proved: wire_header (CreateIPFIXMsg output parses as version 10, header length = bytes sent, given time/sequence/domain, one set whose "
         "length covers the rest, set id as prepared), wire_specs / wire_template (field specifiers parse back as (id, length, enterprise number "
         "exactly for enterprise elements) in order, for element ids < 32768 - the stated guard, with an example outside it), wire_data (the records "
         "of a data set are read back as exactly the values handed over: composition of C15 decode_encode over records and sets, any record "
         "count). The bytes a real ExportingProcess writes to an in-memory net.Conn are compared with the model's bytes and parsed by the "
         "independent Lean parser (Ipfix.ExpSpec) on every send.",
    design="4 (C02)",
    note="the connection is an in-memory net.Conn injected through the overlay constructor VerifNewExporter; loopback sockets are exercised by C01.")
CHECKS["C08"] = dict(
    engine="exp",
    technique="Lean 4 proof (sequence law by induction over sessions, arithmetic mod 2^32) + differential correspondence with sessions crossing the wrap",
    text="Proved: send_ok (a successful SendSet writes exactly one message, reports its byte count, stamps the configured domain and the counter "
         "after adding this set's records; templates leave the counter unchanged), seq_law (after any session of successful sends the counter is "
         "start + data records transmitted, mod 2^32 - so wrap-crossing sessions are covered), failed_send_bumps_seq (documented behaviour outside "
         "the statement), createMsg_header / sent_header (the 16 header bytes of every message: own length, export time handed in, NEW counter, "
         "configured domain), seq_in_every_message (the per-message form of the law, on the header bytes of the i-th message of any session). "
         "Sessions starting within 500 of 2^32 are run on the real exporter (overlay setter) and every header is parsed independently.",
    design="4 (C08)",
    note="export time is checked against the wall-clock second window of the call; failed attempts are outside C08.")
CHECKS["C09"] = dict(
    engine="exp",
    technique="Lean 4 proof (decision-logic theorems on SendSet: size bound, refusal leaves state, sanity check, registration only after transmission; history theorem on the provenance of the template table) + differential correspondence with invalid sends; one known finding",
    text="Proved: size_bound, error_leaves_state, data_requires_registered_template, registered_only_after_sent (repair of D6), faithful_or_error "
         "(a record with an unencodable value cannot be built, hence must be an error), data_only_after_template_sent (history form: every "
         "record of a transmitted data set names a template that an earlier successful template send of the same session carried, with that "
         "field count), wire_set_id_is_a_sent_template + d12_refused (repair of D12), refusal_is_transparent, every_sent_message_parses (whatever "
         "came before, a send that succeeds writes one message the independent parser accepts), d5_exact_witness (in the exact model of "
         "GetBuffer an IPv6 value in an IPv4 element goes out as zeros). On the unchanged tree the full statement is false in one listed way: "
         "ill-typed values are transmitted altered (D5), reported as KNOWN-FINDING with its failing inputs; any other violation is reported.",
    design="4 (C09), 5 (D5, D6 and D12 fixed)",
    note="'nothing was written' is exact because the connection is an in-memory net.Conn.")

CHECKS["C19"] = dict(
    engine="kafka",
    technique="Lean 4 proof (proto3 wire round trips, framing, count/order by induction over streams) + byte-exact differential correspondence with the real producer and consumer; one known finding",
    text="24 theorems on a Lean model of the producer path with a proto3 encoder and an independent decoder for the two shipped schemas (field "
         "numbers and the element-name mapping regenerated from flow.pb.go / flowtype*.go by tools/protofacts and tied by tie_* lemmas): "
         "varint_round_trip, frame_exact, proto_round_trip, count_and_order_partial (one payload per data record, in order, none for templates, "
         "under the explicit ValidUTF8 guard), consumer_recovers, model_satisfies_spec, and nonutf8_record_dropped / "
         "count_and_order_full_strength_fails (the full statement is false: known finding D14). The real PublishIPFIXMessages with a recording "
         "sarama.AsyncProducer and the real consumer decoder are compared byte for byte with the model on every stream.",
    design="4 (C19), 5 (D14)",
    note="google.golang.org/protobuf and sarama are modelled (byte equality on every run), not verified; payloads < 2^32 bytes.")

CHECKS["C01"] = dict(
    engine="e2e",
    technique="Lean 4 proof (composition of exporter encoders with the collector decoder: e2e_template, e2e_data; session-level e2e_session by induction over histories) + real exporter-to-collector correspondence over tcp/udp/tls/dtls x IPv4/IPv6",
    text="Proved: e2e_template (the collector model, fed the template message the exporter lays out, delivers and stores the same fields - id, "
         "enterprise, type, length, name, in order - under the same domain), e2e_data (with that template in force every record count and every "
         "well-typed value vector comes out bit-identical, IP addresses in canonical length, in every decoding mode), exporter_emits_wire (what the "
         "exporter model's SendSet writes is exactly that layout), e2e_send_data (the whole chain in one statement: set built by the builder model, "
         "sent by the exporter model, decoded by the collector model that holds the template = the values handed in), e2e_session (for ANY "
         "sequence of template and data sets that are all sent successfully, the collector - from any state - delivers the i-th message as "
         "handed over, decoded with the template most recently sent for that id, with the exporter's domain, time and sequence number; by "
         "induction over the session), tie_lookup_self (each registry element is found under its own (enterprise, id)). "
         "A real ExportingProcess is connected to a real CollectingProcess over the four transports and both address families (certificates "
         "minted at run time); every delivery is compared with the model's prediction and judged directly against what was handed to SendSet.",
    design="4 (C01)",
    note="transports are modelled as the identity on messages once established (trusted: kernel loopback, crypto/tls, pion/dtls); UDP <= 60000 and DTLS <= 8000 byte messages.")
CHECKS["C18"] = dict(
    engine="tls",
    technique="Lean 4 proof of decision logic over configurations regenerated from the source (tlsfacts) + exhaustive run of the whole configuration matrix against the real TLS/DTLS stacks; partial (library semantics assumed)",
    text="PARTIAL by nature: the theorems (client_accepts_only_authenticated for crypto/tls, dtls_client_accepts_only_authenticated for pion + the "
         "exporter's own name check, client_accepts_only_authenticated_matrix, collector_requires_client_cert, no_plaintext_path, "
         "model_satisfies_spec and transfer for every valid cell, the tie lemmas incl. tie_dtls_name_hook_source) are about the tls.Config / "
         "dtls.Config literals, the VerifyPeerCertificate hook and the Dial/Listen calls extracted from the current source by tools/tlsfacts under "
         "the documented semantics of crypto/tls and pion/dtls; that the stacks enforce them is observed, not proved, by running all 1486 matrix "
         "cells (server cert x ServerName x client cert x client CA x transport x peer version, plus plaintext peers) against the real code with "
         "certificates minted at run time. D11 (no name check by the DTLS exporter for an empty or IP ServerName) was repaired in /repo "
         "(90a2eb6): dtls_name_check_restored proves the 56 former cells refused, d11_without_hook / d11_witness_without_hook show the old "
         "failure returns if the hook is removed, dtls_valid_names_still_accepted that valid collectors are still accepted. `tls resume` ops run "
         "two exporters with different trust settings against ONE collector in one process (session resumption must not let the second skip its "
         "own authentication): resume_independent, resume_model_satisfies_spec, resumed_session_fails_spec.",
    design="4 (C18), 5 (D11 fixed)",
    note="crypto/tls, crypto/x509 and pion/dtls are trusted to enforce the configuration they are given; negotiated versions are observed only at raw peers.")

CHECKS["C07"] = dict(
    engine="agg",
    technique="Lean 4 proof (decision logic of isCorrelationRequired; induction over all arrival sequences for readiness; merge lemma) + differential correspondence over all arrival orders under a virtual clock",
    text="Proved on the aggregation model: needs_correlation_iff (the decision logic stated outright), ready_at_once, withheld_at_first, "
         "update_ready, withheld_until_both (for ANY sequence and multiplicity of source- and destination-node records the flow is ready iff a "
         "record from the other node than the first has arrived), merged_complete (every correlate field non-empty on either side is non-empty in "
         "the merged record and equals one of the two) and correlating_update_fills; retries_bounded (in every reachable state a held flow has at "
         "most MaxRetries retries), unready_due_flow_retried_or_dropped and uncorrelated_flow_dropped_after_bounded_retries / "
         "reachable_uncorrelated_flow_dropped (an uncorrelated flow that receives no further record is retried exactly MaxRetries - r times and "
         "dropped by the next due scan, never handed to the callback; other flows and their records in between); that only ready flows reach the "
         "callback is callback_only_when_due of C06. All S/D arrival orders up to length 5 x 8 flow kinds x field-emptiness patterns x scan "
         "placements are run on the real AggregationProcess under the virtual clock; Ipfix.C07.checkShown is evaluated on every exported and "
         "dumped record.",
    design="4 (C07)",
    note="flows whose records disagree on whether correlation is needed are outside the statement; fixed Antrea configuration of correlate fields.")

CHECKS["C06"] = dict(
    engine="agg",
    technique="Lean 4 proof (scheduling invariant by induction over all op sequences incl. aborted scans; loop invariant of the expiry scan; binary-heap correctness of the container/heap algorithm) + exhaustive small-trace correspondence under a virtual clock",
    text="Proved on the aggregation model, whose queue runs the real container/heap sift algorithms (Model/Heap.lean; push/pop/fix preserve the "
         "permutation and the heap order, pop returns the root and the minimum - Lemmas/Heap.lean): no_flow_stranded (after ANY sequence of "
         "arrivals, clock advances and scans - aborted by failing callbacks, with retries and drops - exactly one queue item per held flow and a "
         "valid heap), callback_only_when_due, after_complete_scan_all_future, new_flow_deadlines, record_pushes_inactive_deadline, "
         "other_flows_untouched, next_expiry_is_earliest_deadline, pop_is_earliest. All traces of length <= 5 over {record, advance A / I-A / I, "
         "scan with failing subset} on 2 keys plus long random traces are run on the real process under the virtual clock with a heap snapshot "
         "after every step: the heap array is compared position by position, and the heap-independent declarative spec (Ipfix.C06.checkSched / "
         "checkRec / checkScan / expectedExpiry) is evaluated on every implementation snapshot.",
    design="4 (C06), 5 (D7, D8 fixed)",
    note="time.Now() is replaced by the harness clock through the overlay rewrite; timeouts > 0 for after_complete_scan_all_future.")

CHECKS["C11"] = dict(
    engine="fr",
    technique="Lean 4 proof (segmentation invariance feed_segments by induction over arbitrary segment lists; frame partition; absorbing close) + exact-segmentation correspondence through net.Pipe",
    text="21 theorems on the model of the TCP reader loop (peek length, read exactly one frame, decode, close on first failure) parameterised by "
         "the decoder and instantiated with the collector model: feed_segments / segmentation_invariant (ANY segmentation delivers what the "
         "concatenation delivers), frames_partition (delivered frames are contiguous, non-overlapping slices, each as long as its header says; "
         "stream = frames + unconsumed), stops_at_first_bad (closed, nothing later delivered), round_trip, connections_independent, "
         "model_meets_spec. The real handleTCPClient runs on one end of a net.Pipe (each Write is exactly one segment, quiescence is exact, no "
         "sleeps): every single and double cut of short streams, multi-cuts of long ones, an invalid message at each position, interleaved "
         "connections; the declarative frames spec is evaluated on every implementation observation.",
    design="4 (C11), Appendix A.1",
    note="net.Pipe stands for the TCP byte stream (reliable, arbitrary segmentation); the kernel's TCP stack is not exercised by this check (C01 does).")

CHECKS["C05"] = dict(
    engine="agg",
    technique="Lean 4 proof (refinement of the incremental aggregation to a declarative history-level specification, by induction over histories) + differential correspondence with adversarial counter magnitudes under a virtual clock",
    text="Proved (Lemmas/Arith.lean, 900+ lines): for every history of one flow that respects the exporter contract, the model's aggregated "
         "record equals the declarative reading of the property over the history - node_fields_conserved (per node: latest totals, sums of "
         "deltas since the last reset mod 2^64, latest end time, throughput formula), end_time_latest, common_follows_latest, "
         "reset_clears_deltas_and_throughput_only, other_keys_unaffected, one_flow_per_key (any op sequence), throughput_wraps (the uint64 guard "
         "made visible). The real AggregationProcess is driven through its public API on histories over 2..6 five-tuples with counters up to "
         "2^61 and near 2^64, resets, exports and inactive expiry; the model agrees on all of them (also on contract-violating ones, run for "
         "diagnosis only) and the declarative specification Ipfix.C05.expected is evaluated on every dumped and exported record of the "
         "implementation.",
    design="4 (C05)",
    note="fixed Antrea statistics configuration; httpVals (JSON merge) is outside the model and the configuration.")

CHECKS["C10"] = dict(
    engine="tm",
    technique="Lean 4 proof (inductive invariant over ALL event sequences = all timer schedules, with ghost last-refresh state) + exhaustive small-depth correspondence through a harness-owned scheduled clock",
    text="19 theorems on the model of UDP template lifetime (events: template / refresh, bad template, data, clock advance, timer fire, callback "
         "reads the clock, callback finishes under the lock; timer contract as documented for time.AfterFunc/Stop/Reset): inv_step / inv_reachable "
         "(the invariant holds after EVERY event sequence), stored_has_expiry_pending (exactly one armed timer with deadline = expiry, or an "
         "effective callback in flight), removed_has_no_armed_timer, no_early_drop, usable_within_ttl, gone_after_timer_ran, "
         "expiry_is_lastRefresh_plus_ttl, model_trace_ok. The real collector runs with a harness implementation of its clock/timer interfaces "
         "whose firing, Now() and callback completion are scheduled by the trace (fired-but-pending callbacks included): all enabled sequences "
         "to depth 5-6 over 2 ids x 2 domains, random beyond; the trace predicates are evaluated on every implementation observation.",
    design="4 (C10)",
    note="time.Timer is trusted to meet the documented AfterFunc/Stop/Reset contract; the callback is parked between reading the clock and taking the lock (nothing happens in between in the code).")
CHECKS["C12"] = dict(
    engine="mux",
    technique="Lean 4 proof (per-connection FIFO through one rendezvous channel for every schedule; lock discipline by decide over extracted facts) + race-detector stress with real sockets; partial (runtime facts observed)",
    text="PARTIAL: proved for every scheduler choice sequence on the multiplexer model - per_connection_fifo, delivered_is_interleaving, "
         "accepted_all_delivered_after_stop, udp_at_most_once, conn_count_returns, stop_stops, nothing_delivered_after_stop, "
         "model_satisfies_spec - and lock_discipline_collector over the lock facts regenerated from the source by tools/lockfacts-collector (the four "
         "unguarded accesses are owner reads of netAddress in Start, witnessed by decide). Goroutine and socket leaks, Stop latency and data races "
         "are runtime facts the model cannot exhibit: they are observed on 31 (quick) / 600 (thorough) scenarios of 1-64 tcp/udp/tls clients under "
         "the race detector (one process per scenario), with abrupt closes and Stop during traffic; Ipfix.C12 predicates are evaluated on every observation.",
    design="4 (C12), 5 (D15 fixed)",
    note="Go's runtime scheduler, sync.RWMutex, the kernel's sockets and the race detector are trusted; DTLS is not exercised here (C01, C18).")
CHECKS["C13"] = dict(
    engine="lin",
    technique="Lean 4 proof (atomic operations are linearizable; soundness of the executable linearizability checker; no double export from the scan loop; lock discipline by decide) + recorded concurrent histories through the Lean checker and race-detector stress; partial",
    text="PARTIAL: proved - atomic_linearizable (an execution whose operations take effect atomically at one step between invocation and response "
         "is a sequential execution in step order, respecting real time), linearizable_sound / checker_sound, serialisation_independent, "
         "no_lost_delta, no_double_count, no_double_export (from the real scan loop), and the lock-discipline theorems over facts regenerated by "
         "tools/lockfacts-agg (every access to the flow map / expiry queue reachable from a goroutine root is inside a.mutex; callbacks run "
         "inside the critical section). That sync.RWMutex provides the atomicity and that there are no data races is observed: 2000 recorded "
         "small histories (<= 8 overlapping operations) are decided by the Lean linearizability checker against the aggregation model, and 20 "
         "stress runs with up to 16 goroutines plus the worker pool run under the race detector and are compared with the model on one serialisation.",
    design="4 (C13)",
    note="granularity is per record (the lock is taken per record, not per message); a possible Stop() deadlock with a worker blocked on the mutex was noted by inspection (liveness, outside C13).")

CHECKS["C14"] = dict(
    engine="life",
    technique="Lean 4 proof (event-level protocol of the exporter's background work and lifecycle; lockset by decide over extracted facts) + race-detector runs against real UDP/TCP sockets with randomised phases; partial (timing, termination and races observed)",
    text="PARTIAL: proved on the lifecycle model over the exporter model - refresh_emits_all_templates (one well-formed template message per "
         "recorded template per refresh, up to permutation, via C02), messages_not_intermixed / one_whole_message_per_write, "
         "refresh_preserves_seq, close_idempotent / repeated_close_noop / stop_channel_closed_once, no_write_after_close, peer_close_detected, "
         "model_satisfies_spec, unbuildable_refresh_closes / after_unbuildable_refresh_sends_fail (a recorded template that cannot be rebuilt - "
         "e.g. one with a dateTimeMicroseconds element - closes the process at the next refresh without writing, and every later send fails "
         "instead of blocking: repair of D17), and lockset_exporter + model_ties by decide over facts regenerated by tools/lockfacts-exporter (every field shared "
         "with a background goroutine is accessed under templateMutex or atomically; exactly one Write per message). Timing, goroutine "
         "termination and freedom from data races are observed: 12 UDP sessions (1 s refresh), 3 UDP sessions with an unrefreshable template (every SendSet under a 2 s watchdog) and 12 TCP scenarios (50 ms connection check, peer "
         "close, concurrent repeated Close) run against harness-owned sockets under the race detector; every datagram / stream frame is parsed "
         "by the independent parser and the Spec verdicts are evaluated on every observation.",
    design="4 (C14), 5 (D9, D17 fixed)",
    note="jsonBufferLen is written after the goroutines start and read on the JSON path (statically reachable from the refresher, never taken for template sets): kept visible as lockset_exporter_all_fields_partial.")

# what later rounds added to a check (appended to its text)
ADDED = {
    "C01": "Later additions: `e2e burst` (3-6 data sets handed over back to back with the consumer paused; deliveries matched by sequence number and judged as an in-order duplicate-free sub-sequence), the template sent a second time mid-session, one set of 1000..3000 small records in some tcp/udp sessions.",
    "C03": "Later additions: collectors configured for UDP in a third of the stateful sessions, short variable-length values in the three-octet length form.",
    "C04": "Later additions: the CONTENT of the stored template is judged after a history (`dec tpl`), same-id templates that differ only in the enterprise of an element, a withdrawal-shaped record, a template with a registered element of an undecodable type, collectors configured for UDP.",
    "C05": "Later additions: `agg msg` (several records in ONE data set through the library's encoder and the real collector decoder into AggregateMsgByFlowKey), permuted element order, records lacking correlate fields, aggregation configurations with permuted element lists, crash-only sessions for records whose template lacks any element the aggregation reads (found and fixed D19, D20).",
    "C06": "Later additions: `agg msg`, refused records for held flows (the scheduling must not change), hundreds of flows due in one scan; callbacks_earliest_deadline_first (the callbacks of a whole scan come in non-decreasing order of the queued deadline, Lemmas/SchedOrder.lean).",
    "C07": "Later additions: records that LACK correlate fields (CorrV.absent, mergeV; absent_action_not_consulted, absent_action_ready_at_once, merged_complete over the three presence cases; found and fixed D18), 16-byte IPv4 values, both nodes' records in one data set, a second node's record that the statistics update refuses, retry bound theorems over all histories.",
    "C08": "Later additions: refresh passes inside the sessions; the counter's atomicity under the concurrent refresher is pinned in C14 (tie_sequence_counter_advances_atomically); sent_message_parses (the one message of a successful SendSet, read by the independent parser: reported byte count, export time, new counter value, domain, one set covering the rest).",
    "C09": "Later additions: the connection's Write may fail or be short (sendBuiltW, failed_write_registers_nothing, data_only_after_template_WRITTEN; `exp failnext`), JSON-mode sessions judged for their refusals (sendBuiltJ, json_mode_refuses_like_ipfix, json_refusal_writes_nothing); a Write that returns the full count with an error; the application gives values to the elements of a template it has sent.",
    "C10": "Later additions: the model's atomic steps are pinned to the source by facts from tools/timerfacts (tie_add_template_is_one_locked_step, tie_expiry_assigned_before_timer_armed, tie_callback_is_one_conditional_delete, tie_conditional_delete_order, tie_expiryTime_accessors); collectors configured without a lifetime (effectiveTTL, default_lifetime_is_the_template_ttl_constant); week-long lifetimes; tie_production_clock_is_the_standard_timer.",
    "C11": "Later additions: read deadlines armed by the reader are made to expire whenever it has to wait for a segment; the collector runs with a TemplateTTL and the harness's clock, `fr tick` fires whatever a TCP collector scheduled (nothing may be).",
    "C12": "Later additions: messages past the reader's 4096-byte buffer, idle clients (6 s / 11 s), small MaxBufferSize on TCP/TLS collectors, tie_collector_arms_no_deadline, tie_template_elements_never_changed_in_place.",
    "C13": "Later additions: exclusive_lock_where_records_are_exposed, helpers_never_touch_the_mutex, clock_read_inside_critical_section, a ForAllRecordsDo callback that writes (`touch`) in the stress workloads.",
    "C14": "Later additions: tie_refresh_reads_only_the_template_map, tie_probe_arms_read_deadline_only, tie_sequence_counter_advances_atomically; tie_every_close_call_waits; TCP sessions against a collector that reads late (a Write blocked across several connection probes). Last: tie_write_result_reported_as_is (the byte count and error of the connection's Write are what the sending functions report; nothing assigns them again - catches a send path that turns a socket error into a success, which no in-memory connection can exhibit).",
    "C15": "Later additions: records grown with AddInfoElement after their buffer was taken (`ie recbufx`), whole-record observations judged by Ipfix.C15.holdsRecBuf (model_holdsRecBuf); elements that live on (`ie mut`: typed setters, ResetValue); the decoder's input buffer is overwritten before the decoded values are read.",
    "C16": "Later additions: the record list taken out of a set before a reset must not change afterwards; refused prepares mid-sequence (re-run without them and compared); the harness reuses its element slice after the copying add calls.",
    "C17": "Later additions: same-id re-definitions with other lengths, collectors configured for UDP, a collector whose DecodingMode is unset (judged as strict), unknown ids that exist under a sibling enterprise only.",
    "C18": "Later additions: dtls name-check hook ties (D11 fixed), tie_config_fields_all_interpreted (no session cache or other uninterpreted field), session resumption cells.",
    "C19": "Later additions: records after all-default (empty payload) ones, pending broker error reports on Errors().",
    "C20": "Later additions: one legal message whose rendering exceeds a mebibyte (linear-time missingFieldFast proved equal to the specified search, @[csimp]), a query during which messages arrive (`recordsc`), tie_store_fed_in_arrival_order.",
}

NOT_YET = {}


def main():
    props = [json.loads(l) for l in open(os.path.join(ROOT, "properties.jsonl"))]
    checks, na = [], []
    for p in props:
        pid = p["id"]
        if pid in CHECKS:
            c = dict(CHECKS[pid])
            # "<n> theorems on ..." at the head of a text: the count is taken from the Props file as it is now
            import re
            nthm = sum(1 for l in open(os.path.join(ROOT, "lean", "IpfixModel", "Props", pid + ".lean")) if l.startswith("theorem "))
            c["text"] = re.sub(r"^(\d+) theorems", "%d theorems" % nthm, c["text"])
            checks.append({
                "property_id": pid,
                "quick_cmd": "python3 check.py %s --tier quick" % pid,
                "thorough_cmd": "python3 check.py %s --tier thorough" % pid,
                "evidence_file": "evidence/%s.json" % pid,
                "replay_cmd_template": "python3 check.py replay {path}",
                "engine": c["engine"],
                "level_claimed": {"category": "proof", "text": c["text"] + (" " + ADDED[pid] if pid in ADDED else ""), "design_ref": "DESIGN.md section " + c["design"]},
                "level_note": COMMON_NOTE + c["note"],
                "technique": c["technique"],
            })
        else:
            na.append({"property_id": pid, "reason": NOT_YET.get(pid, "check not built yet in this session (model/harness in progress); not claimed until its check runs clean on the unchanged tree")})
    m = {
        "version": 1,
        "setup_cmd": "python3 check.py setup",
        "hooks": {
            "guard": "verif",
            "enable": "no hook commits in /repo: harness/overlay/<pkg>/verif_hooks.go (build tag verif) are added to /repo's packages with `go build -tags verif -overlay harness/overlay.json`; pkg/intermediate additionally gets time.Now() rewritten to verifNow() in the overlay copy (virtual clock); cmd/collector (package main) gets an overlay _test.go and is driven as a `go test -c` binary",
            "baseline_off_cmd": "cd /repo && go test -mod=mod -json -vet=off -count=1 -timeout 25m ./...",
            "source_commits": [],
            "add_only": True,
        },
        "engines": [
            {"name": "lean-proofs", "path": "lean/IpfixModel", "serves_properties": sorted(CHECKS), "kind_free_text": "Lean 4 models (Model/), executable predicates (Spec/), property theorems (Props/), regenerated facts (Generated/)"},
            {"name": "gofacts", "path": "tools/gofacts", "serves_properties": sorted(CHECKS), "kind_free_text": "go/ast translator: constants, tables, registry -> Lean source, on every run"},
            {"name": "harness", "path": "harness", "serves_properties": sorted(CHECKS), "kind_free_text": "Go line-protocol driver of the real code, built with -overlay against /repo's working tree"},
            {"name": "lean-driver", "path": "lean/Driver", "serves_properties": sorted(CHECKS), "kind_free_text": "compiled Lean executable running the model and the Spec predicates on the same ops"},
        ],
        "checks": checks,
        "not_applicable": na,
        "notes": "One orchestrator (check.py). Every check: regenerate facts, build+audit the property's theorems, build the harness from /repo's working tree, run model and implementation on the same generated ops, evaluate the Lean property predicate on the implementation's observations. See DESIGN.md.",
    }
    json.dump(m, open(os.path.join(ROOT, "MANIFEST.json"), "w"), indent=1)
    print("MANIFEST.json: %d checks, %d not_applicable" % (len(checks), len(na)))


if __name__ == "__main__":
    main()
