// protofacts: fact group F6 of DESIGN.md. Re-extracts from /repo's working tree, with go/ast only,
//   * the protobuf field numbers / Go types of FlowType1 and FlowType2 from the struct tags in
//     pkg/kafka/producer/protobuf/flow.pb.go,
//   * the header assignments (flowTypeN.X = msg.GetY()) of ConvertIPFIXMsgToFlowMsgs and
//   * the element-name -> struct-field switch of addAllFieldsToFlowTypeN
//     (pkg/kafka/producer/convertor/test/flowtypeN.go),
// and writes them as Lean source (IpfixModel/Generated/Proto.lean). The Kafka model (C19) is
// defined from these tables. Exit status 2 = the tree has a shape this translator cannot read.
package main

import (
	"encoding/json"
	"fmt"
	"go/ast"
	"go/parser"
	"go/token"
	"os"
	"path/filepath"
	"reflect"
	"strconv"
	"strings"
)

var fset = token.NewFileSet()

func die(format string, a ...interface{}) {
	fmt.Fprintf(os.Stderr, "protofacts: "+format+"\n", a...)
	os.Exit(2)
}

// development aid shared with check.write_overlay(): VERIF_MUTANT_OVERLAY='{"<real path>": "<copy>"}'
// makes the translator read the copy, exactly as `go build -overlay` makes the compiler do.
var overlay = map[string]string{}

func parse(path string) *ast.File {
	if alt, ok := overlay[path]; ok {
		path = alt
	}
	f, err := parser.ParseFile(fset, path, nil, 0)
	if err != nil {
		die("%v", err)
	}
	return f
}

type field struct {
	name string
	num  int
	kind int // 0 uint32 (varint), 1 uint64 (varint), 2 string (bytes)
}

// structFields reads `type <name> struct` and its protobuf tags.
func structFields(f *ast.File, name string) []field {
	var out []field
	found := false
	ast.Inspect(f, func(n ast.Node) bool {
		ts, ok := n.(*ast.TypeSpec)
		if !ok || ts.Name.Name != name {
			return true
		}
		st, ok := ts.Type.(*ast.StructType)
		if !ok {
			return true
		}
		found = true
		for _, fl := range st.Fields.List {
			if fl.Tag == nil {
				continue
			}
			tag, err := strconv.Unquote(fl.Tag.Value)
			if err != nil {
				die("bad struct tag in %s", name)
			}
			pb, ok := reflect.StructTag(tag).Lookup("protobuf")
			if !ok {
				continue
			}
			parts := strings.Split(pb, ",")
			if len(parts) < 3 || len(fl.Names) != 1 {
				die("unexpected protobuf tag %q in %s", pb, name)
			}
			num, err := strconv.Atoi(parts[1])
			if err != nil {
				die("unexpected protobuf tag %q in %s", pb, name)
			}
			proto3 := false
			for _, p := range parts {
				if p == "proto3" {
					proto3 = true
				}
				if p == "rep" || p == "req" || strings.HasPrefix(p, "oneof") || p == "packed" {
					die("field %s.%s: label %q is outside the modelled fragment of proto3", name, fl.Names[0].Name, p)
				}
			}
			if !proto3 {
				die("field %s.%s is not proto3", name, fl.Names[0].Name)
			}
			id, ok := fl.Type.(*ast.Ident)
			if !ok {
				die("field %s.%s: type is outside the modelled fragment (uint32, uint64, string)", name, fl.Names[0].Name)
			}
			var kind int
			switch {
			case id.Name == "uint32" && parts[0] == "varint":
				kind = 0
			case id.Name == "uint64" && parts[0] == "varint":
				kind = 1
			case id.Name == "string" && parts[0] == "bytes":
				kind = 2
			default:
				die("field %s.%s: %s/%s is outside the modelled fragment (uint32, uint64, string)", name, fl.Names[0].Name, id.Name, parts[0])
			}
			out = append(out, field{fl.Names[0].Name, num, kind})
		}
		return false
	})
	if !found {
		die("type %s not found", name)
	}
	return out
}

func funcDecl(f *ast.File, name string) *ast.FuncDecl {
	for _, d := range f.Decls {
		if fd, ok := d.(*ast.FuncDecl); ok && fd.Name.Name == name {
			return fd
		}
	}
	die("func %s not found", name)
	return nil
}

// sel returns (x, f) for an expression `x.f` with identifier x.
func sel(e ast.Expr) (string, string, bool) {
	s, ok := e.(*ast.SelectorExpr)
	if !ok {
		return "", "", false
	}
	id, ok := s.X.(*ast.Ident)
	if !ok {
		return "", "", false
	}
	return id.Name, s.Sel.Name, true
}

// getterOf describes the value expression of an assignment as "<GetXValue>[.String]" where the
// getter is called on `recv`; local variables assigned earlier in the same clause are resolved;
// integer conversions uint32(..)/uint64(..) are looked through (they widen).
func getterOf(e ast.Expr, recv string, locals map[string]ast.Expr) (string, bool) {
	switch x := e.(type) {
	case *ast.ParenExpr:
		return getterOf(x.X, recv, locals)
	case *ast.Ident:
		if v, ok := locals[x.Name]; ok {
			return getterOf(v, recv, locals)
		}
	case *ast.CallExpr:
		if id, ok := x.Fun.(*ast.Ident); ok && len(x.Args) == 1 && (id.Name == "uint32" || id.Name == "uint64") {
			return getterOf(x.Args[0], recv, locals)
		}
		if s, ok := x.Fun.(*ast.SelectorExpr); ok && len(x.Args) == 0 {
			if id, ok := s.X.(*ast.Ident); ok && id.Name == recv {
				return s.Sel.Name, true
			}
			if s.Sel.Name == "String" {
				g, ok := getterOf(s.X, recv, locals)
				return g + ".String", ok
			}
		}
	}
	return "", false
}

type hdrAsg struct{ field, getter string }
type mapEnt struct{ elem, field, getter string }

func headerAssignments(fd *ast.FuncDecl) []hdrAsg {
	var out []hdrAsg
	ast.Inspect(fd, func(n ast.Node) bool {
		as, ok := n.(*ast.AssignStmt)
		if !ok || len(as.Lhs) != 1 || len(as.Rhs) != 1 || as.Tok != token.ASSIGN {
			return true
		}
		_, f, ok := sel(as.Lhs[0])
		if !ok {
			return true
		}
		if g, ok := getterOf(as.Rhs[0], "msg", nil); ok {
			out = append(out, hdrAsg{f, g})
		}
		return true
	})
	return out
}

func switchMap(fd *ast.FuncDecl) []mapEnt {
	var out []mapEnt
	var sw *ast.SwitchStmt
	var recv string
	ast.Inspect(fd, func(n ast.Node) bool {
		if s, ok := n.(*ast.SwitchStmt); ok && sw == nil {
			if c, ok := s.Tag.(*ast.CallExpr); ok {
				if x, f, ok := sel(c.Fun); ok && f == "GetName" {
					sw, recv = s, x
				}
			}
		}
		return true
	})
	if sw == nil {
		die("%s: no switch on <elem>.GetName()", fd.Name.Name)
	}
	if len(fd.Type.Params.List) == 0 || len(fd.Type.Params.List[0].Names) == 0 {
		die("%s: unexpected parameters", fd.Name.Name)
	}
	target := fd.Type.Params.List[0].Names[0].Name
	for _, st := range sw.Body.List {
		cc := st.(*ast.CaseClause)
		if cc.List == nil {
			continue // default: only a warning
		}
		locals := map[string]ast.Expr{}
		var asg []hdrAsg
		for _, s := range cc.Body {
			as, ok := s.(*ast.AssignStmt)
			if !ok {
				continue // the `if flowMsg.X != "" { klog.Warningf }` guards
			}
			if len(as.Lhs) != 1 || len(as.Rhs) != 1 {
				die("%s: unexpected assignment shape", fd.Name.Name)
			}
			if id, ok := as.Lhs[0].(*ast.Ident); ok {
				locals[id.Name] = as.Rhs[0]
				continue
			}
			x, f, ok := sel(as.Lhs[0])
			if !ok || x != target {
				die("%s: assignment to something other than %s.<field>", fd.Name.Name, target)
			}
			g, ok := getterOf(as.Rhs[0], recv, locals)
			if !ok {
				die("%s: value of %s.%s is not a getter of the element", fd.Name.Name, target, f)
			}
			asg = append(asg, hdrAsg{f, g})
		}
		if len(asg) != 1 {
			die("%s: a case assigns %d fields (expected 1)", fd.Name.Name, len(asg))
		}
		for _, e := range cc.List {
			lit, ok := e.(*ast.BasicLit)
			if !ok || lit.Kind != token.STRING {
				die("%s: case label is not a string literal", fd.Name.Name)
			}
			name, _ := strconv.Unquote(lit.Value)
			out = append(out, mapEnt{name, asg[0].field, asg[0].getter})
		}
	}
	return out
}

func main() {
	if len(os.Args) != 3 {
		fmt.Fprintln(os.Stderr, "usage: protofacts <repo> <outdir>")
		os.Exit(2)
	}
	repo, outdir := os.Args[1], os.Args[2]
	if ov := os.Getenv("VERIF_MUTANT_OVERLAY"); ov != "" {
		if err := json.Unmarshal([]byte(ov), &overlay); err != nil {
			die("VERIF_MUTANT_OVERLAY: %v", err)
		}
	}
	pb := parse(filepath.Join(repo, "pkg/kafka/producer/protobuf/flow.pb.go"))
	var b strings.Builder
	b.WriteString("-- GENERATED by tools/protofacts from /repo's working tree. Do not edit.\nnamespace Generated\n\n")
	for i, ty := range []string{"FlowType1", "FlowType2"} {
		n := i + 1
		src := parse(filepath.Join(repo, fmt.Sprintf("pkg/kafka/producer/convertor/test/flowtype%d.go", n)))
		fmt.Fprintf(&b, "/-- %s: (Go field, proto field number, kind 0 = uint32 varint / 1 = uint64 varint / 2 = string) in struct order -/\n", ty)
		fmt.Fprintf(&b, "def flowType%dFields : List (String × Nat × Nat) := [\n", n)
		fs := structFields(pb, ty)
		for j, f := range fs {
			fmt.Fprintf(&b, "  (%s, %d, %d)%s\n", strconv.Quote(f.name), f.num, f.kind, comma(j, len(fs)))
		}
		b.WriteString("]\n\n")
		hs := headerAssignments(funcDecl(src, "ConvertIPFIXMsgToFlowMsgs"))
		fmt.Fprintf(&b, "/-- ConvertIPFIXMsgToFlowMsgs (flowtype%d.go): (Go field, getter of *entities.Message), in statement order -/\n", n)
		fmt.Fprintf(&b, "def flowType%dHdr : List (String × String) := [\n", n)
		for j, h := range hs {
			fmt.Fprintf(&b, "  (%s, %s)%s\n", strconv.Quote(h.field), strconv.Quote(h.getter), comma(j, len(hs)))
		}
		b.WriteString("]\n\n")
		ms := switchMap(funcDecl(src, "addAllFieldsTo"+ty))
		fmt.Fprintf(&b, "/-- addAllFieldsTo%s: element name -> (Go field, getter of the element [.String]) -/\n", ty)
		fmt.Fprintf(&b, "def flowType%dMap : List (String × String × String) := [\n", n)
		for j, m := range ms {
			fmt.Fprintf(&b, "  (%s, %s, %s)%s\n", strconv.Quote(m.elem), strconv.Quote(m.field), strconv.Quote(m.getter), comma(j, len(ms)))
		}
		b.WriteString("]\n\n")
	}
	b.WriteString("end Generated\n")
	path := filepath.Join(outdir, "Proto.lean")
	old, err := os.ReadFile(path)
	if err == nil && string(old) == b.String() {
		return
	}
	if err := os.MkdirAll(outdir, 0o755); err != nil {
		die("%v", err)
	}
	if err := os.WriteFile(path, []byte(b.String()), 0o644); err != nil {
		die("%v", err)
	}
}

func comma(i, n int) string {
	if i+1 < n {
		return ","
	}
	return ""
}
