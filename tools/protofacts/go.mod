module protofacts

go 1.23
