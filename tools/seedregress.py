#!/usr/bin/env python3
"""Regression over the kept seeded changes (development aid, not a registered check):
   tools/seedregress.py [Cxx-k ...]
For every /verif/seeded/<id>/ a scratch worktree of /repo under /tmp is created, the stored
patch.diff is run through tools/seedrun.py against the checks that caught it (meta.json
checks_run.caught_by, else the seed's own property), and the worktree is removed again.
Prints one line per seed: CAUGHT / MISSED."""
import json
import os
import subprocess
import sys

ROOT = os.path.dirname(os.path.dirname(os.path.abspath(__file__)))
WT = "/tmp/seed_regress_wt_%d" % os.getpid()      # one per run: several regressions may run side by side
want = sys.argv[1:]


def sh(cmd):
    return subprocess.run(cmd, shell=True, stdout=subprocess.PIPE, stderr=subprocess.STDOUT, text=True)


sh("git -C /repo worktree remove --force %s" % WT)
r = sh("git -C /repo worktree add --detach %s HEAD" % WT)
if r.returncode != 0:
    print(r.stdout)
    sys.exit(2)
missed = []
try:
    for sid in sorted(os.listdir(os.path.join(ROOT, "seeded"))):
        d = os.path.join(ROOT, "seeded", sid)
        if not os.path.isdir(d) or (want and sid not in want):
            continue
        meta = json.load(open(os.path.join(d, "meta.json")))
        cb = meta.get("checks_run", {}).get("caught_by") or [sid.split("-")[0]]
        if isinstance(cb, dict):      # values starting with "not caught" record a check that does NOT see this change
            props = [p for p, why in cb.items() if p.startswith("C") and not str(why).lower().startswith("not caught")][:2]
        else:
            props = [p for p in cb if p.startswith("C")][:2]
        if not props:
            print("%s RECORDED-AS-NOT-CAUGHT" % sid, flush=True)
            continue
        r = subprocess.run(["python3", os.path.join(ROOT, "tools", "seedrun.py"), WT, os.path.join(d, "patch.diff")] + props,
                           cwd=ROOT, stdout=subprocess.PIPE, stderr=subprocess.STDOUT, text=True)
        try:
            out = json.loads(r.stdout.strip().splitlines()[-1])
        except Exception:
            out = {}
        caught = [p for p, v in out.items() if v.get("exit") == 1]
        print("%s %s by=%s ran=%s" % (sid, "CAUGHT" if caught else "MISSED", ",".join(caught), ",".join(props)), flush=True)
        if not caught:
            missed.append(sid)
            print(r.stdout[-1500:])
finally:
    sh("git -C /repo worktree remove --force %s" % WT)
print("missed:", missed)
sys.exit(1 if missed else 0)
