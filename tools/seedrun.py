#!/usr/bin/env python3
"""Run checks against a seeded change WITHOUT touching /repo (development aid):
   tools/seedrun.py <worktree> <patch.diff> <Cxx> [Cyy ...]
The patch is applied inside the scratch worktree, the changed files are mapped over /repo's files
with VERIF_MUTANT_OVERLAY (pkg/intermediate files get the time.Now() -> verifNow() rewrite), the
checks run, and the worktree is restored."""
import json
import os
import subprocess
import sys

wt, patch = sys.argv[1], sys.argv[2]
props = sys.argv[3:]
ROOT = os.path.dirname(os.path.dirname(os.path.abspath(__file__)))


def sh(cmd, **kw):
    return subprocess.run(cmd, shell=True, stdout=subprocess.PIPE, stderr=subprocess.STDOUT, text=True, **kw)


sh("git -C %s checkout -- ." % wt)
r = sh("git -C %s apply %s" % (wt, patch))
if r.returncode != 0:
    print("patch does not apply:", r.stdout)
    sys.exit(2)
files = [l.strip() for l in sh("git -C %s diff --name-only" % wt).stdout.splitlines() if l.strip().endswith(".go")]
ov = {}
tmpdir = os.path.join(wt, "SEED", "_overlay")
os.makedirs(tmpdir, exist_ok=True)
for f in files:
    src = os.path.join(wt, f)
    if f.startswith("pkg/intermediate/") and not f.endswith("_test.go"):
        txt = open(src).read().replace("time.Now()", "verifNow()")
        dst = os.path.join(tmpdir, os.path.basename(f))
        open(dst, "w").write(txt)
        ov["/repo/" + f] = dst
    else:
        dst = os.path.join(tmpdir, os.path.basename(f))
        open(dst, "w").write(open(src).read())
        ov["/repo/" + f] = dst
env = dict(os.environ, VERIF_MUTANT_OVERLAY=json.dumps(ov))
out = {}
for p in props:
    r = subprocess.run(["python3", "check.py", p, "--tier", "quick"], cwd=ROOT, env=env, stdout=subprocess.PIPE, stderr=subprocess.STDOUT, text=True)
    lines = [l for l in r.stdout.splitlines() if l.startswith("VIOLATION") or l.startswith(p + " tier")]
    out[p] = {"exit": r.returncode, "lines": [l[:300] for l in lines]}
    print(p, "exit", r.returncode)
    for l in lines:
        print("   ", l[:300])
sh("git -C %s checkout -- ." % wt)
# rebuild the harness against the unchanged tree
subprocess.run(["python3", "-c", "import check; check.build_harness()"], cwd=ROOT)
print(json.dumps(out))
