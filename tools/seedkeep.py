#!/usr/bin/env python3
"""Keep a confirmed seeded change: tools/seedkeep.py <worktree> <k> <seed-id> <confirm-json> <caught_by-json>
copies SEED/patch<k>.diff, the demonstration (as .txt so that it is never compiled) and meta<k>.json
(+ confirmation and which checks caught it) into seeded/<seed-id>/."""
import json
import os
import shutil
import sys

wt, k, sid = sys.argv[1], sys.argv[2], sys.argv[3]
confirm = json.loads(sys.argv[4])
caught = json.loads(sys.argv[5])
ROOT = os.path.dirname(os.path.dirname(os.path.abspath(__file__)))
src = os.path.join(wt, "SEED")
dst = os.path.join(ROOT, "seeded", sid)
os.makedirs(dst, exist_ok=True)
shutil.copyfile(os.path.join(src, "patch%s.diff" % k), os.path.join(dst, "patch.diff"))
for f in os.listdir(src):
    if f.startswith("demo%s" % k) and os.path.isfile(os.path.join(src, f)):
        shutil.copyfile(os.path.join(src, f), os.path.join(dst, f + ".txt"))
meta = json.load(open(os.path.join(src, "meta%s.json" % k)))
meta["confirmed"] = confirm
meta["checks_run"] = {"how": "tools/seedrun.py (patch applied in the scratch worktree, changed files mapped over /repo with VERIF_MUTANT_OVERLAY, quick tier)",
                      "caught_by": caught}
json.dump(meta, open(os.path.join(dst, "meta.json"), "w"), indent=1)
print("kept", dst)
