#!/usr/bin/env python3
"""tools/seed2corpus.py <Cxx> <seedname> : copy the (shrunk) failing inputs of the replays just written
for <Cxx> into corpus/<Cxx>/<seedname>-<n>.ops"""
import json, os, sys, glob
ROOT = os.path.dirname(os.path.dirname(os.path.abspath(__file__)))
prop, name = sys.argv[1], sys.argv[2]
os.makedirs(os.path.join(ROOT, "corpus", prop), exist_ok=True)
n = 0
for f in sorted(glob.glob(os.path.join(ROOT, "replays", prop + "-*.json"))):
    r = json.load(open(f))
    ops = r.get("ops") or (r.get("first_disagreement") or {}).get("ops")
    if not ops or len(ops) > 60 or sum(len(o) for o in ops) > 20000:
        continue
    n += 1
    with open(os.path.join(ROOT, "corpus", prop, "%s-%d.ops" % (name, n)), "w") as out:
        out.write("# from seeded change %s (%s)\n" % (name, r.get("signature", r.get("kind", ""))))
        out.write("\n".join(ops) + "\n")
    if n >= 2:
        break
print(prop, name, n)
