module gofacts

go 1.23
