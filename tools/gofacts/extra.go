package main

// extra facts (switch coverage, lock discipline, TLS literals, proto tags) are added here.
func extra(repo, outdir string, en env) {}
