// lockfacts-collector: fact group F4 of DESIGN.md restricted to CollectingProcess (property C12).
// Re-extracts from /repo's working tree, with go/ast only (no type checker), for
// pkg/collector/{process.go,tcp.go,udp.go}:
//
//   - the fields of struct CollectingProcess (which of them are sync.Mutex / sync.RWMutex);
//   - the goroutine units: every method of CollectingProcess, every `go func(){..}()` literal, every
//     function literal handed to somebody else as a callback (e.g. to clock.AfterFunc), every function
//     literal bound to a variable. A literal that is invoked on the spot - `func(){ lock; defer unlock; .. }()`,
//     the idiom of tcp.go / udp.go - is part of the unit it is written in;
//   - every access `<recv>.<field>` to one of the shared fields templatesMap, clients, netAddress,
//     numOfRecordsReceived: unit, line, read or write (left-hand side of an assignment through any
//     index chain, `delete(m, k)`, ++/--, op=, &x count as writes) and the lock state at that point:
//     0 = cp.mutex not held, 1 = RLock held, 2 = Lock held. The lock state is tracked through the
//     statements of a unit in order: `cp.mutex.Lock()` / `RLock()` raise it, `Unlock()` / `RUnlock()`
//     drop it, `defer cp.mutex.Unlock()` keeps it to the end of the (possibly invoked-on-the-spot)
//     function body; where branches disagree the weaker state is taken. A deferred closure starts
//     with the lock NOT held;
//   - every call `<recv>.<method>(..)` with the lock state at the call site, and from it, for every
//     unexported method, the lock that ALL its callers hold (`entryHeld`, greatest fixpoint) - this is
//     how createUDPClient ("invoked with an exclusive lock on cp.mutex") is accounted for;
//   - the goroutine roots (exported methods, go literals, callbacks, methods started with `go`) and for
//     every unit the roots it is reachable from;
//   - `deadlineCalls`: (enclosing top-level function, method) for every call of a method named SetDeadline /
//     SetReadDeadline / SetWriteDeadline in ANY non-test .go file of pkg/collector (the directory is listed;
//     files that VERIF_MUTANT_OVERLAY adds to the directory are read too). The unchanged collector arms no
//     deadline on any connection; Props/C12 `tie_collector_arms_no_deadline` requires the list to be empty.
//
// Output: IpfixModel/Generated/LocksCollector.lean (namespace Generated.LocksCollector).
//
//	lockfacts-collector <repo> <outdir>
//
// Exit status 2 = the tree has a shape this translator cannot read. The file is rewritten only when its
// content changes. VERIF_MUTANT_OVERLAY='{"<real path>": "<copy>"}' makes the translator read the copy,
// exactly as `go build -overlay` makes the compiler do (development aid).
package main

import (
	"bytes"
	"encoding/json"
	"fmt"
	"go/ast"
	"go/parser"
	"go/printer"
	"go/token"
	"os"
	"path/filepath"
	"sort"
	"strings"
)

const structName = "CollectingProcess"

var tracked = []string{"templatesMap", "clients", "netAddress", "numOfRecordsReceived"}
var files = []string{"pkg/collector/process.go", "pkg/collector/tcp.go", "pkg/collector/udp.go"}

var fset = token.NewFileSet()
var overlay = map[string]string{}

func die(format string, a ...interface{}) {
	fmt.Fprintf(os.Stderr, "lockfacts-collector: "+format+"\n", a...)
	os.Exit(2)
}

func render(n ast.Node) string {
	var b bytes.Buffer
	if err := printer.Fprint(&b, fset, n); err != nil {
		die("cannot render node: %v", err)
	}
	return strings.Join(strings.Fields(b.String()), " ")
}

type unit struct {
	name     string
	method   string
	kind     string // method | go | callback | closure
	file     string
	line     int
	parent   *unit
	exported bool
	goRoot   bool // a method started with `go cp.m()`
	entry    int  // lock held by every caller (methods only)
	roots    []string
}

type access struct {
	file  string
	line  int
	col   int
	u     *unit
	field string
	write bool
	held  int
}

type call struct {
	file   string
	line   int
	u      *unit
	callee string
	held   int
	goStmt bool
}

var (
	units      []*unit
	methodUnit = map[string]*unit{}
	accesses   []access
	calls      []call
	isTracked  = map[string]bool{}
	isMutex    = map[string]bool{}
	isMethod   = map[string]bool{}
	structFlds [][2]string
)

type walker struct {
	file string
	recv map[string]bool
	u    *unit
}

func line(p token.Pos) int { return fset.Position(p).Line }

func meet(a, b int) int {
	if a < b {
		return a
	}
	return b
}

// lockOp recognises <recv>.<mutex>.<Lock|RLock|Unlock|RUnlock>()
func (w *walker) lockOp(e ast.Expr) string {
	c, ok := e.(*ast.CallExpr)
	if !ok {
		return ""
	}
	s, ok := c.Fun.(*ast.SelectorExpr)
	if !ok {
		return ""
	}
	m, ok := s.X.(*ast.SelectorExpr)
	if !ok || !isMutex[m.Sel.Name] {
		return ""
	}
	id, ok := m.X.(*ast.Ident)
	if !ok || !w.recv[id.Name] {
		return ""
	}
	switch s.Sel.Name {
	case "Lock", "RLock", "Unlock", "RUnlock":
		return s.Sel.Name
	case "TryLock", "TryRLock", "RLocker":
		die("%s:%d: %s on the mutex is outside what this translator understands", w.file, line(c.Pos()), s.Sel.Name)
	}
	return ""
}

func (w *walker) newUnit(kind string, lit *ast.FuncLit) *walker {
	u := &unit{name: fmt.Sprintf("%s$%s@%d", w.u.method, kind, line(lit.Pos())), method: w.u.method, kind: kind,
		file: w.file, line: line(lit.Pos()), parent: w.u}
	units = append(units, u)
	return &walker{file: w.file, recv: w.recv, u: u}
}

// stmts returns the lock state after the list and whether the list certainly leaves the function
func (w *walker) stmts(list []ast.Stmt, held int) (int, bool) {
	for i, s := range list {
		held = w.stmt(s, held)
		if _, ok := s.(*ast.ReturnStmt); ok && i == len(list)-1 {
			return held, true
		}
	}
	return held, false
}

func (w *walker) branch(entry int, bodies ...[]ast.Stmt) int {
	out := entry
	for _, b := range bodies {
		h, term := w.stmts(b, entry)
		if !term {
			out = meet(out, h)
		}
	}
	return out
}

func (w *walker) stmt(s ast.Stmt, held int) int {
	switch s := s.(type) {
	case nil:
		return held
	case *ast.ExprStmt:
		switch w.lockOp(s.X) {
		case "Lock":
			return 2
		case "RLock":
			return 1
		case "Unlock", "RUnlock":
			return 0
		}
		w.expr(s.X, held, false)
	case *ast.DeferStmt:
		if op := w.lockOp(s.Call); op != "" {
			if op == "Lock" || op == "RLock" {
				die("%s:%d: deferred %s", w.file, line(s.Pos()), op)
			}
			return held // released when the enclosing function body ends
		}
		for _, a := range s.Call.Args {
			w.expr(a, held, false)
		}
		if lit, ok := s.Call.Fun.(*ast.FuncLit); ok {
			// runs when the function returns: do not assume the lock is (still) held then
			w.stmts(lit.Body.List, 0)
		} else {
			w.callOrExpr(s.Call, 0, false, true)
		}
	case *ast.GoStmt:
		for _, a := range s.Call.Args {
			w.expr(a, held, false)
		}
		if lit, ok := s.Call.Fun.(*ast.FuncLit); ok {
			w2 := w.newUnit("go", lit)
			w2.stmts(lit.Body.List, 0)
		} else {
			w.callOrExpr(s.Call, 0, true, true)
		}
	case *ast.AssignStmt:
		for _, r := range s.Rhs {
			w.expr(r, held, false)
		}
		for _, l := range s.Lhs {
			if _, ok := l.(*ast.Ident); ok {
				continue
			}
			w.expr(l, held, true)
		}
	case *ast.IncDecStmt:
		w.expr(s.X, held, true)
	case *ast.BlockStmt:
		h, _ := w.stmts(s.List, held)
		return h
	case *ast.IfStmt:
		held = w.stmt(s.Init, held)
		w.expr(s.Cond, held, false)
		var els []ast.Stmt
		if s.Else != nil {
			els = []ast.Stmt{s.Else}
		}
		return w.branch(held, s.Body.List, els)
	case *ast.ForStmt:
		held = w.stmt(s.Init, held)
		if s.Cond != nil {
			w.expr(s.Cond, held, false)
		}
		out := w.branch(held, s.Body.List)
		w.stmt(s.Post, out)
		return out
	case *ast.RangeStmt:
		w.expr(s.X, held, false)
		return w.branch(held, s.Body.List)
	case *ast.SwitchStmt:
		held = w.stmt(s.Init, held)
		if s.Tag != nil {
			w.expr(s.Tag, held, false)
		}
		return w.clauses(s.Body, held)
	case *ast.TypeSwitchStmt:
		held = w.stmt(s.Init, held)
		held = w.stmt(s.Assign, held)
		return w.clauses(s.Body, held)
	case *ast.SelectStmt:
		return w.clauses(s.Body, held)
	case *ast.ReturnStmt:
		for _, r := range s.Results {
			w.expr(r, held, false)
		}
	case *ast.SendStmt:
		w.expr(s.Chan, held, false)
		w.expr(s.Value, held, false)
	case *ast.DeclStmt:
		if gd, ok := s.Decl.(*ast.GenDecl); ok {
			for _, sp := range gd.Specs {
				if vs, ok := sp.(*ast.ValueSpec); ok {
					for _, v := range vs.Values {
						w.expr(v, held, false)
					}
				}
			}
		}
	case *ast.LabeledStmt:
		return w.stmt(s.Stmt, held)
	case *ast.BranchStmt, *ast.EmptyStmt:
	default:
		die("%s:%d: statement kind %T not handled", w.file, line(s.Pos()), s)
	}
	return held
}

func (w *walker) clauses(body *ast.BlockStmt, held int) int {
	var bodies [][]ast.Stmt
	for _, c := range body.List {
		switch c := c.(type) {
		case *ast.CaseClause:
			for _, e := range c.List {
				w.expr(e, held, false)
			}
			bodies = append(bodies, c.Body)
		case *ast.CommClause:
			b := c.Body
			if c.Comm != nil {
				b = append([]ast.Stmt{c.Comm}, c.Body...)
			}
			bodies = append(bodies, b)
		}
	}
	return w.branch(held, bodies...)
}

// callOrExpr handles a call expression; deferred / go calls pass held = 0
func (w *walker) callOrExpr(c *ast.CallExpr, held int, goStmt bool, argsDone bool) {
	walkArgs := func() {
		if argsDone {
			return
		}
		for _, a := range c.Args {
			if lit, ok := a.(*ast.FuncLit); ok {
				w2 := w.newUnit("callback", lit)
				w2.stmts(lit.Body.List, 0)
				continue
			}
			w.expr(a, held, false)
		}
	}
	switch f := c.Fun.(type) {
	case *ast.FuncLit:
		walkArgs()
		w.stmts(f.Body.List, held) // invoked on the spot: same unit, same lock state; its own defers end with it
		return
	case *ast.Ident:
		if f.Name == "delete" && len(c.Args) == 2 {
			w.expr(c.Args[0], held, true)
			w.expr(c.Args[1], held, false)
			return
		}
	case *ast.SelectorExpr:
		if id, ok := f.X.(*ast.Ident); ok && w.recv[id.Name] && isMethod[f.Sel.Name] {
			calls = append(calls, call{file: w.file, line: line(c.Pos()), u: w.u, callee: f.Sel.Name, held: held, goStmt: goStmt})
			walkArgs()
			return
		}
		w.expr(f, held, false)
		walkArgs()
		return
	}
	w.expr(c.Fun, held, false)
	walkArgs()
}

func (w *walker) expr(e ast.Expr, held int, write bool) {
	switch e := e.(type) {
	case nil:
	case *ast.SelectorExpr:
		if id, ok := e.X.(*ast.Ident); ok && w.recv[id.Name] {
			if isTracked[e.Sel.Name] {
				p := fset.Position(e.Pos())
				accesses = append(accesses, access{file: w.file, line: p.Line, col: p.Column, u: w.u, field: e.Sel.Name, write: write, held: held})
			}
			return
		}
		w.expr(e.X, held, false)
	case *ast.IndexExpr:
		w.expr(e.X, held, write)
		w.expr(e.Index, held, false)
	case *ast.StarExpr:
		w.expr(e.X, held, write)
	case *ast.ParenExpr:
		w.expr(e.X, held, write)
	case *ast.UnaryExpr:
		w.expr(e.X, held, e.Op == token.AND)
	case *ast.BinaryExpr:
		w.expr(e.X, held, false)
		w.expr(e.Y, held, false)
	case *ast.CallExpr:
		if op := w.lockOp(e); op != "" {
			die("%s:%d: %s used as an expression", w.file, line(e.Pos()), op)
		}
		w.callOrExpr(e, held, false, false)
	case *ast.FuncLit:
		w2 := w.newUnit("closure", e)
		w2.stmts(e.Body.List, 0)
	case *ast.CompositeLit:
		for _, el := range e.Elts {
			w.expr(el, held, false)
		}
	case *ast.KeyValueExpr:
		if _, ok := e.Key.(*ast.Ident); !ok {
			w.expr(e.Key, held, false)
		}
		w.expr(e.Value, held, false)
	case *ast.SliceExpr:
		w.expr(e.X, held, write)
		w.expr(e.Low, held, false)
		w.expr(e.High, held, false)
		w.expr(e.Max, held, false)
	case *ast.TypeAssertExpr:
		w.expr(e.X, held, false)
	case *ast.Ident, *ast.BasicLit, *ast.ArrayType, *ast.MapType, *ast.ChanType, *ast.FuncType, *ast.StructType, *ast.InterfaceType, *ast.Ellipsis:
	default:
		die("%s:%d: expression kind %T not handled", w.file, line(e.Pos()), e)
	}
}

func isStructPtr(t ast.Expr) bool {
	if s, ok := t.(*ast.StarExpr); ok {
		t = s.X
	}
	id, ok := t.(*ast.Ident)
	return ok && id.Name == structName
}

func q(s string) string {
	var b strings.Builder
	b.WriteByte('"')
	for _, r := range s {
		switch r {
		case '"':
			b.WriteString("\\\"")
		case '\\':
			b.WriteString("\\\\")
		case '\n':
			b.WriteString("\\n")
		case '\t':
			b.WriteString("\\t")
		default:
			b.WriteRune(r)
		}
	}
	b.WriteByte('"')
	return b.String()
}

func qlist(l []string) string {
	p := make([]string, len(l))
	for i, s := range l {
		p[i] = q(s)
	}
	return "[" + strings.Join(p, ", ") + "]"
}

func lbool(b bool) string {
	if b {
		return "true"
	}
	return "false"
}

var parsedByPath = map[string]*ast.File{} // path actually read -> file

// collectorSources lists the non-test .go files of <repo>/pkg/collector as the compiler would see them under
// VERIF_MUTANT_OVERLAY: a replaced file is read from its replacement, a file the overlay adds is included, a
// file the overlay maps to "" is gone.
func collectorSources(repo string) []string {
	dir := filepath.Join(repo, "pkg", "collector")
	ents, err := os.ReadDir(dir)
	if err != nil {
		die("%v", err)
	}
	src := func(name string) bool { return strings.HasSuffix(name, ".go") && !strings.HasSuffix(name, "_test.go") }
	real := map[string]bool{}
	for _, e := range ents {
		if !e.IsDir() && src(e.Name()) {
			real[filepath.Join(dir, e.Name())] = true
		}
	}
	for p := range overlay {
		if filepath.Dir(p) == dir && src(filepath.Base(p)) {
			real[p] = true
		}
	}
	var out []string
	for p := range real {
		if alt, ok := overlay[p]; ok {
			if alt == "" {
				continue
			}
			p = alt
		}
		out = append(out, p)
	}
	sort.Strings(out)
	return out
}

func main() {
	if len(os.Args) != 3 {
		die("usage: lockfacts-collector <repo> <outdir>")
	}
	repo, outdir := os.Args[1], os.Args[2]
	if ov := os.Getenv("VERIF_MUTANT_OVERLAY"); ov != "" {
		if err := json.Unmarshal([]byte(ov), &overlay); err != nil {
			die("VERIF_MUTANT_OVERLAY: %v", err)
		}
	}
	for _, t := range tracked {
		isTracked[t] = true
	}
	parsed := map[string]*ast.File{}
	for _, rel := range files {
		path := filepath.Join(repo, rel)
		if alt, ok := overlay[path]; ok {
			path = alt
		}
		f, err := parser.ParseFile(fset, path, nil, 0)
		if err != nil {
			die("%v", err)
		}
		parsed[rel] = f
		parsedByPath[path] = f
	}
	// the struct
	found := false
	for _, rel := range files {
		for _, d := range parsed[rel].Decls {
			gd, ok := d.(*ast.GenDecl)
			if !ok || gd.Tok != token.TYPE {
				continue
			}
			for _, sp := range gd.Specs {
				ts := sp.(*ast.TypeSpec)
				st, ok := ts.Type.(*ast.StructType)
				if !ok || ts.Name.Name != structName {
					continue
				}
				found = true
				for _, fl := range st.Fields.List {
					ty := render(fl.Type)
					if len(fl.Names) == 0 {
						die("embedded field %s in %s: not handled", ty, structName)
					}
					for _, n := range fl.Names {
						structFlds = append(structFlds, [2]string{n.Name, ty})
						if ty == "sync.Mutex" || ty == "sync.RWMutex" {
							isMutex[n.Name] = true
						}
					}
				}
			}
		}
	}
	if !found {
		die("struct %s not found", structName)
	}
	have := map[string]bool{}
	for _, f := range structFlds {
		have[f[0]] = true
	}
	for _, t := range tracked {
		if !have[t] {
			die("struct %s has no field %s any more: the shared-field list of this translator is out of date", structName, t)
		}
	}
	if len(isMutex) != 1 {
		die("struct %s has %d mutex fields, expected exactly one", structName, len(isMutex))
	}
	// methods
	type decl struct {
		rel string
		fd  *ast.FuncDecl
	}
	var decls []decl
	for _, rel := range files {
		for _, d := range parsed[rel].Decls {
			fd, ok := d.(*ast.FuncDecl)
			if !ok || fd.Body == nil {
				continue
			}
			if fd.Recv != nil && len(fd.Recv.List) == 1 && isStructPtr(fd.Recv.List[0].Type) {
				isMethod[fd.Name.Name] = true
			}
			decls = append(decls, decl{rel, fd})
		}
	}
	for _, d := range decls {
		fd := d.fd
		recv := map[string]bool{}
		isM := false
		if fd.Recv != nil && len(fd.Recv.List) == 1 && isStructPtr(fd.Recv.List[0].Type) {
			isM = true
			for _, n := range fd.Recv.List[0].Names {
				recv[n.Name] = true
			}
		}
		for _, p := range fd.Type.Params.List {
			if isStructPtr(p.Type) {
				for _, n := range p.Names {
					recv[n.Name] = true
				}
			}
		}
		if len(recv) == 0 {
			// a plain function: it can still build / return a CollectingProcess through a local variable
			ast.Inspect(fd.Body, func(n ast.Node) bool {
				if as, ok := n.(*ast.AssignStmt); ok && as.Tok == token.DEFINE && len(as.Lhs) == len(as.Rhs) {
					for i, r := range as.Rhs {
						if u, ok := r.(*ast.UnaryExpr); ok && u.Op == token.AND {
							if cl, ok := u.X.(*ast.CompositeLit); ok && isStructPtr(cl.Type) {
								if id, ok := as.Lhs[i].(*ast.Ident); ok {
									recv[id.Name] = true
								}
							}
						}
					}
				}
				return true
			})
		}
		u := &unit{name: fd.Name.Name, method: fd.Name.Name, kind: "function", file: d.rel, line: line(fd.Pos())}
		if isM {
			u.kind = "method"
			u.exported = ast.IsExported(fd.Name.Name)
			methodUnit[fd.Name.Name] = u
		}
		units = append(units, u)
		w := &walker{file: d.rel, recv: recv, u: u}
		w.stmts(fd.Body.List, 0)
	}
	// methods started with `go cp.m()`
	for _, c := range calls {
		if c.goStmt {
			if u := methodUnit[c.callee]; u != nil {
				u.goRoot = true
			}
		}
	}
	// entryHeld: greatest fixpoint of  entry(m) = min over call sites of max(site.held, entry(site.unit))
	sites := map[string][]call{}
	for _, c := range calls {
		if !c.goStmt {
			sites[c.callee] = append(sites[c.callee], c)
		}
	}
	for _, u := range units {
		if u.kind == "method" && !u.exported && !u.goRoot && len(sites[u.name]) > 0 {
			u.entry = 2
		}
	}
	for changed := true; changed; {
		changed = false
		for _, u := range units {
			if u.entry == 0 {
				continue
			}
			e := 2
			for _, c := range sites[u.name] {
				h := c.held
				if c.u.entry > h {
					h = c.u.entry
				}
				e = meet(e, h)
			}
			if e != u.entry {
				u.entry = e
				changed = true
			}
		}
	}
	// roots and reachability
	type root struct {
		name, kind, file string
		line             int
		u                *unit
	}
	var roots []root
	for _, u := range units {
		switch {
		case u.kind == "method" && u.exported:
			roots = append(roots, root{u.name, "api", u.file, u.line, u})
		case u.kind == "go" || u.kind == "callback":
			roots = append(roots, root{u.name, u.kind, u.file, u.line, u})
		case u.goRoot:
			roots = append(roots, root{u.name, "go", u.file, u.line, u})
		}
	}
	succ := map[*unit][]*unit{}
	for _, c := range calls {
		if t := methodUnit[c.callee]; t != nil && !c.goStmt {
			succ[c.u] = append(succ[c.u], t)
		}
	}
	for _, u := range units {
		if u.kind == "closure" && u.parent != nil {
			succ[u.parent] = append(succ[u.parent], u)
		}
	}
	for _, r := range roots {
		seen := map[*unit]bool{r.u: true}
		todo := []*unit{r.u}
		for len(todo) > 0 {
			u := todo[0]
			todo = todo[1:]
			u.roots = append(u.roots, r.name)
			for _, v := range succ[u] {
				if !seen[v] {
					seen[v] = true
					todo = append(todo, v)
				}
			}
		}
	}
	fileIdx := map[string]int{}
	for i, f := range files {
		fileIdx[f] = i
	}
	sort.SliceStable(accesses, func(i, j int) bool {
		a, b := accesses[i], accesses[j]
		if a.file != b.file {
			return fileIdx[a.file] < fileIdx[b.file]
		}
		if a.line != b.line {
			return a.line < b.line
		}
		return a.col < b.col
	})
	sort.SliceStable(calls, func(i, j int) bool {
		a, b := calls[i], calls[j]
		if a.file != b.file {
			return fileIdx[a.file] < fileIdx[b.file]
		}
		return a.line < b.line
	})

	var b strings.Builder
	b.WriteString("-- GENERATED by tools/lockfacts-collector from /repo's working tree. Do not edit.\n")
	b.WriteString("namespace Generated\nnamespace LocksCollector\n\n")
	b.WriteString("/-- one syntactic access `<recv>.<field>` to a shared field of CollectingProcess.\n")
	b.WriteString("    held: lock state of cp.mutex at the access inside its own unit (0 none, 1 RLock, 2 Lock);\n")
	b.WriteString("    entryHeld: the lock that every caller of the unit holds (unexported methods only, else 0);\n")
	b.WriteString("    roots: the goroutine roots the unit is reachable from -/\n")
	b.WriteString("structure Access where\n  file : String\n  line : Nat\n  unit : String\n  method : String\n  field : String\n  write : Bool\n  held : Nat\n  entryHeld : Nat\n  roots : List String\n\n")
	b.WriteString("/-- a goroutine root: kind = api (exported method, called by the application) | go (`go` statement) | callback (function literal handed to a callee, e.g. a timer) -/\n")
	b.WriteString("structure Root where\n  name : String\n  kind : String\n  file : String\n  line : Nat\n\n")
	b.WriteString("/-- a call `<recv>.<callee>(..)` of a method of CollectingProcess, with the lock state at the call site -/\n")
	b.WriteString("structure Call where\n  file : String\n  line : Nat\n  unit : String\n  callee : String\n  held : Nat\n  viaGo : Bool\n\n")
	b.WriteString("def structName : String := " + q(structName) + "\n\n")
	b.WriteString("def structFields : List (String × String) := [")
	for i, f := range structFlds {
		if i > 0 {
			b.WriteString(",")
		}
		b.WriteString("\n  (" + q(f[0]) + ", " + q(f[1]) + ")")
	}
	b.WriteString("]\n\n")
	var mx []string
	for _, f := range structFlds {
		if isMutex[f[0]] {
			mx = append(mx, f[0])
		}
	}
	b.WriteString("def mutexFields : List String := " + qlist(mx) + "\n\n")
	b.WriteString("def sharedFields : List String := " + qlist(tracked) + "\n\n")
	b.WriteString("def roots : List Root := [")
	for i, r := range roots {
		if i > 0 {
			b.WriteString(",")
		}
		fmt.Fprintf(&b, "\n  { name := %s, kind := %s, file := %s, line := %d }", q(r.name), q(r.kind), q(r.file), r.line)
	}
	b.WriteString("]\n\n")
	b.WriteString("def accesses : List Access := [")
	for i, a := range accesses {
		if i > 0 {
			b.WriteString(",")
		}
		fmt.Fprintf(&b, "\n  { file := %s, line := %d, unit := %s, method := %s, field := %s, write := %s, held := %d, entryHeld := %d,\n    roots := %s }",
			q(a.file), a.line, q(a.u.name), q(a.u.method), q(a.field), lbool(a.write), a.held, a.u.entry, qlist(a.u.roots))
	}
	b.WriteString("]\n\n")
	b.WriteString("def calls : List Call := [")
	for i, c := range calls {
		if i > 0 {
			b.WriteString(",")
		}
		fmt.Fprintf(&b, "\n  { file := %s, line := %d, unit := %s, callee := %s, held := %d, viaGo := %s }",
			q(c.file), c.line, q(c.u.name), q(c.callee), c.held, lbool(c.goStmt))
	}
	b.WriteString("]\n\n")
	// The element list of a stored template (template.ies) is handed out by getTemplateIEs and read by
	// decodeDataSet AFTER the read lock is released. That is sound only because a published list is never
	// changed in place: every syntactic use of `<x>.ies` that could do so (re-slicing, append to it, copy into
	// it, assignment to one of its elements) is listed here, and a tie theorem requires the list to be empty.
	type inplace struct {
		file string
		line int
		kind string
	}
	var inpl []inplace
	isIes := func(e ast.Expr) bool {
		sel, ok := e.(*ast.SelectorExpr)
		return ok && sel.Sel.Name == "ies"
	}
	for _, rel := range files {
		rel := rel
		ast.Inspect(parsed[rel], func(n ast.Node) bool {
			switch x := n.(type) {
			case *ast.SliceExpr:
				if isIes(x.X) {
					inpl = append(inpl, inplace{rel, line(x.Pos()), "reslice"})
				}
			case *ast.CallExpr:
				if id, ok := x.Fun.(*ast.Ident); ok && len(x.Args) > 0 && isIes(x.Args[0]) && (id.Name == "append" || id.Name == "copy" || id.Name == "clear") {
					inpl = append(inpl, inplace{rel, line(x.Pos()), id.Name})
				}
			case *ast.AssignStmt:
				for _, l := range x.Lhs {
					if ix, ok := l.(*ast.IndexExpr); ok && isIes(ix.X) {
						inpl = append(inpl, inplace{rel, line(x.Pos()), "element-assign"})
					}
				}
			}
			return true
		})
	}
	b.WriteString("/-- uses of a stored template's element list `.ies` that could change it in place (file, line, kind) -/\n")
	b.WriteString("def templateIesInPlace : List (String × Nat × String) := [")
	for i, u := range inpl {
		if i > 0 {
			b.WriteString(", ")
		}
		fmt.Fprintf(&b, "(%s, %d, %s)", q(u.file), u.line, q(u.kind))
	}
	b.WriteString("]\n\n")
	// Deadlines: the model's connections deliver whatever arrives, whenever it arrives. Every call of a method
	// named Set(Read|Write)?Deadline anywhere in the package's non-test files is listed (by name only - there is
	// no type checker here: a method of that name on anything is reported).
	type dlCall struct {
		file, fn, method string
		line             int
	}
	var dls []dlCall
	for _, path := range collectorSources(repo) {
		f := parsedByPath[path]
		if f == nil {
			var err error
			if f, err = parser.ParseFile(fset, path, nil, 0); err != nil {
				die("%v", err)
			}
		}
		for _, d := range f.Decls {
			encl := "<package level>"
			if fd, ok := d.(*ast.FuncDecl); ok {
				encl = fd.Name.Name
			}
			ast.Inspect(d, func(n ast.Node) bool {
				c, ok := n.(*ast.CallExpr)
				if !ok {
					return true
				}
				if sel, ok := c.Fun.(*ast.SelectorExpr); ok {
					switch sel.Sel.Name {
					case "SetDeadline", "SetReadDeadline", "SetWriteDeadline":
						dls = append(dls, dlCall{filepath.Base(path), encl, sel.Sel.Name, line(c.Pos())})
					}
				}
				return true
			})
		}
	}
	b.WriteString("/-- every call of a method named SetDeadline / SetReadDeadline / SetWriteDeadline in the non-test files of\n")
	b.WriteString("    pkg/collector: (enclosing top-level function, method)")
	for _, d := range dls {
		fmt.Fprintf(&b, "\n    %s:%d %s.%s", d.file, d.line, d.fn, d.method)
	}
	b.WriteString(" -/\n")
	b.WriteString("def deadlineCalls : List (String × String) := [")
	for i, d := range dls {
		if i > 0 {
			b.WriteString(", ")
		}
		fmt.Fprintf(&b, "(%s, %s)", q(d.fn), q(d.method))
	}
	b.WriteString("]\n\n")
	b.WriteString("end LocksCollector\nend Generated\n")

	out := filepath.Join(outdir, "LocksCollector.lean")
	if old, err := os.ReadFile(out); err == nil && string(old) == b.String() {
		return
	}
	if err := os.WriteFile(out+".tmp", []byte(b.String()), 0o644); err != nil {
		die("%v", err)
	}
	if err := os.Rename(out+".tmp", out); err != nil {
		die("%v", err)
	}
}
