module lockfactscollector

go 1.23
