// lockfacts-exporter: fact group F4 of DESIGN.md restricted to pkg/exporter (property C14).
// Re-extracts from /repo's working tree, with go/ast only, the lock discipline of
// `ExportingProcess`:
//
//   - the fields of the struct with the source text of their types;
//   - for every method (and for InitExportingProcess, split into the part before the first `go`
//     statement, the part after it, and each `go func` literal) every access to a field: read or
//     write, and HOW: "plain", "mutex" + the mutex field (textually between <recv>.<mutex>.Lock() and the
//     matching Unlock(), or after a Lock() whose Unlock() is deferred), "atomic" (&recv.field handed to a
//     sync/atomic function), "atomicMethod" (a method of a sync/atomic type such as atomic.Bool),
//     "sync" (a method of sync.Mutex / sync.RWMutex / sync.WaitGroup);
//   - the call edges between these units (calls of methods of ExportingProcess on the receiver);
//   - the methods called on fields that hold a foreign value (the connection: Write, Read, Close, ...);
//   - the goroutine roots: the `go func` literals of InitExportingProcess (background) with the
//     condition of the enclosing `if`, and the exported methods (application goroutine).
//
// and writes them as Lean source (IpfixModel/Generated/LocksExporter.lean).
//
//	lockfacts-exporter <repo> <outdir>
//
// Exit status 2 = the tree has a shape this translator cannot read. The file is rewritten only when
// its content changes. VERIF_MUTANT_OVERLAY='{"<real path>": "<copy>"}' makes the translator read
// the copy, exactly as `go build -overlay` makes the compiler do (development aid).
package main

import (
	"bytes"
	"encoding/json"
	"fmt"
	"go/ast"
	"go/parser"
	"go/printer"
	"go/token"
	"os"
	"path/filepath"
	"sort"
	"strconv"
	"strings"
)

const typeName = "ExportingProcess"

var fset = token.NewFileSet()

func die(format string, a ...interface{}) {
	fmt.Fprintf(os.Stderr, "lockfacts-exporter: "+format+"\n", a...)
	os.Exit(2)
}

func render(n ast.Node) string {
	var b bytes.Buffer
	if err := printer.Fprint(&b, fset, n); err != nil {
		die("cannot render node: %v", err)
	}
	return strings.Join(strings.Fields(b.String()), " ")
}

type access struct {
	unit, field, how, lock string
	write                  bool
	line                   int
}

// a method called on the connection field: conn.Write / Read / Close / SetReadDeadline ...
type connCall struct {
	unit, field, method string
	line                int
}

type edge struct{ from, to string }

type goLit struct{ name, cond string }

var (
	fieldTypes  = map[string]string{}
	fieldOrder  []string
	methods     = map[string]bool{}
	accesses    []access
	edges       []edge
	goLits      []goLit
	exportedFns []string
	connCalls   []connCall
	atomicOps   []connCall // (unit, field, sync/atomic function, line)
	postUnits   []string
	unitOrder   []string
	unitSeen    = map[string]bool{}
)

func addUnit(u string) {
	if !unitSeen[u] {
		unitSeen[u] = true
		unitOrder = append(unitOrder, u)
	}
}

func isSyncType(t string) bool {
	return t == "sync.Mutex" || t == "sync.RWMutex" || t == "sync.WaitGroup" || t == "sync.Once"
}

func isMutexType(t string) bool { return t == "sync.Mutex" || t == "sync.RWMutex" }

func isAtomicType(t string) bool { return strings.HasPrefix(t, "atomic.") }

// recvTypeName returns the name of the receiver's (pointer) base type
func recvTypeName(fd *ast.FuncDecl) (typ, name string) {
	if fd.Recv == nil || len(fd.Recv.List) != 1 {
		return "", ""
	}
	f := fd.Recv.List[0]
	t := f.Type
	if s, ok := t.(*ast.StarExpr); ok {
		t = s.X
	}
	id, ok := t.(*ast.Ident)
	if !ok {
		return "", ""
	}
	if len(f.Names) == 1 {
		name = f.Names[0].Name
	}
	return id.Name, name
}

// localVarsOfType: identifiers assigned `&ExportingProcess{...}` / `ExportingProcess{...}` in a plain function
func localVarsOfType(body *ast.BlockStmt) map[string]bool {
	out := map[string]bool{}
	ast.Inspect(body, func(n ast.Node) bool {
		as, ok := n.(*ast.AssignStmt)
		if !ok {
			return true
		}
		for i, r := range as.Rhs {
			e := r
			if u, ok := e.(*ast.UnaryExpr); ok && u.Op == token.AND {
				e = u.X
			}
			cl, ok := e.(*ast.CompositeLit)
			if !ok {
				continue
			}
			if id, ok := cl.Type.(*ast.Ident); ok && id.Name == typeName && i < len(as.Lhs) {
				if l, ok := as.Lhs[i].(*ast.Ident); ok {
					out[l.Name] = true
				}
			}
		}
		return true
	})
	return out
}

type lockEvent struct {
	pos   token.Pos
	field string
	delta int
}

type walker struct {
	recv      map[string]bool // identifiers denoting the ExportingProcess
	atomicPkg string          // local name of sync/atomic
	stack     []ast.Node
	unit      string
	// for InitExportingProcess-like plain functions
	plain    bool
	fnName   string
	firstGo  token.Pos
	litCount int
	locks    map[string][]lockEvent // per unit
	pending  []pendingAccess
}

type pendingAccess struct {
	unit, field string
	write       bool
	how         string // "" = decide by lock state
	pos         token.Pos
}

func (w *walker) unitAt(pos token.Pos) string {
	if !w.plain {
		return w.fnName
	}
	if w.firstGo.IsValid() && pos > w.firstGo {
		return w.fnName + ":post"
	}
	return w.fnName + ":pre"
}

func (w *walker) isRecv(e ast.Expr) bool {
	id, ok := e.(*ast.Ident)
	return ok && w.recv[id.Name]
}

// fieldSel: e is <recv>.<field of the struct>
func (w *walker) fieldSel(e ast.Expr) (string, bool) {
	s, ok := e.(*ast.SelectorExpr)
	if !ok || !w.isRecv(s.X) {
		return "", false
	}
	if _, ok := fieldTypes[s.Sel.Name]; !ok {
		return "", false
	}
	return s.Sel.Name, true
}

func (w *walker) parent(k int) ast.Node {
	if len(w.stack) <= k {
		return nil
	}
	return w.stack[len(w.stack)-1-k]
}

func atomicWrites(name string) bool {
	return !strings.HasPrefix(name, "Load")
}

var atomicMethodWrites = map[string]bool{"Store": true, "Swap": true, "CompareAndSwap": true, "Add": true, "And": true, "Or": true}

func (w *walker) classify(sel *ast.SelectorExpr, field string, unit string) {
	ft := fieldTypes[field]
	p1, p2 := w.parent(1), w.parent(2)
	// <recv>.<field>.<Method>(...)
	if ps, ok := p1.(*ast.SelectorExpr); ok && ps.X == ast.Expr(sel) {
		if call, ok := p2.(*ast.CallExpr); ok && call.Fun == ast.Expr(ps) {
			m := ps.Sel.Name
			switch {
			case isAtomicType(ft):
				w.pending = append(w.pending, pendingAccess{unit, field, atomicMethodWrites[m], "atomicMethod", sel.Pos()})
				return
			case isSyncType(ft):
				if isMutexType(ft) {
					inDefer := false
					for _, n := range w.stack {
						if _, ok := n.(*ast.DeferStmt); ok {
							inDefer = true
						}
					}
					switch m {
					case "Lock", "RLock":
						w.locks[unit] = append(w.locks[unit], lockEvent{call.Pos(), field, +1})
					case "Unlock", "RUnlock":
						if !inDefer {
							w.locks[unit] = append(w.locks[unit], lockEvent{call.Pos(), field, -1})
						}
					}
				}
				w.pending = append(w.pending, pendingAccess{unit, field, false, "sync", sel.Pos()})
				return
			default:
				// a method of an interface / other type held in the field (net.Conn: Write, Read, Close, ...)
				connCalls = append(connCalls, connCall{unit, field, m, fset.Position(call.Pos()).Line})
			}
		}
	}
	// atomic.Xxx(&<recv>.<field>, ...)
	if u, ok := p1.(*ast.UnaryExpr); ok && u.Op == token.AND {
		if call, ok := p2.(*ast.CallExpr); ok {
			if fs, ok := call.Fun.(*ast.SelectorExpr); ok {
				if id, ok := fs.X.(*ast.Ident); ok && id.Name == w.atomicPkg && w.atomicPkg != "" {
					w.pending = append(w.pending, pendingAccess{unit, field, atomicWrites(fs.Sel.Name), "atomic", sel.Pos()})
					atomicOps = append(atomicOps, connCall{unit, field, fs.Sel.Name, fset.Position(call.Pos()).Line})
					return
				}
			}
		}
		// the address escapes some other way: treat as a plain write (conservative)
		w.pending = append(w.pending, pendingAccess{unit, field, true, "", sel.Pos()})
		return
	}
	// write contexts: climb through index / selector / star / paren expressions
	var child ast.Node = sel
	write := false
	for k := 1; ; k++ {
		p := w.parent(k)
		if p == nil {
			break
		}
		switch pp := p.(type) {
		case *ast.IndexExpr:
			if pp.X == child {
				child = p
				continue
			}
		case *ast.SelectorExpr:
			if pp.X == child {
				child = p
				continue
			}
		case *ast.StarExpr, *ast.ParenExpr:
			child = p
			continue
		case *ast.AssignStmt:
			for _, l := range pp.Lhs {
				if l == child {
					write = true
				}
			}
		case *ast.IncDecStmt:
			if pp.X == child {
				write = true
			}
		case *ast.CallExpr:
			if id, ok := pp.Fun.(*ast.Ident); ok && id.Name == "delete" && len(pp.Args) > 0 && pp.Args[0] == child {
				write = true
			}
		}
		break
	}
	w.pending = append(w.pending, pendingAccess{unit, field, write, "", sel.Pos()})
}

func (w *walker) Visit(n ast.Node) ast.Visitor {
	if n == nil {
		w.stack = w.stack[:len(w.stack)-1]
		return nil
	}
	w.stack = append(w.stack, n)
	switch x := n.(type) {
	case *ast.GoStmt:
		if lit, ok := x.Call.Fun.(*ast.FuncLit); ok {
			// a goroutine root: walk the literal as a unit of its own
			w.litCount++
			name := fmt.Sprintf("%s$go%d", w.fnName, w.litCount)
			cond := ""
			for i := len(w.stack) - 1; i >= 0; i-- {
				if is, ok := w.stack[i].(*ast.IfStmt); ok {
					cond = render(is.Cond)
					break
				}
			}
			goLits = append(goLits, goLit{name, cond})
			addUnit(name)
			sub := &walker{recv: w.recv, atomicPkg: w.atomicPkg, fnName: name, locks: w.locks}
			sub.unit = name
			ast.Walk(sub, lit.Body)
			w.pending = append(w.pending, sub.pending...)
			for _, a := range x.Call.Args {
				ast.Walk(w, a)
			}
			w.stack = w.stack[:len(w.stack)-1]
			return nil
		}
		// go <recv>.method(...): the method is a background root
		if s, ok := x.Call.Fun.(*ast.SelectorExpr); ok && w.isRecv(s.X) && methods[s.Sel.Name] {
			w.litCount++
			name := fmt.Sprintf("%s$go%d", w.fnName, w.litCount)
			goLits = append(goLits, goLit{name, "go " + s.Sel.Name})
			addUnit(name)
			edges = append(edges, edge{name, s.Sel.Name})
		}
	case *ast.CallExpr:
		if s, ok := x.Fun.(*ast.SelectorExpr); ok && w.isRecv(s.X) && methods[s.Sel.Name] {
			edges = append(edges, edge{w.unitAt(x.Pos()), s.Sel.Name})
		}
	case *ast.CompositeLit:
		// &ExportingProcess{field: value, ...}: initialisation, counted as plain writes of the unit
		if id, ok := x.Type.(*ast.Ident); ok && id.Name == typeName {
			for _, el := range x.Elts {
				if kv, ok := el.(*ast.KeyValueExpr); ok {
					if k, ok := kv.Key.(*ast.Ident); ok {
						if _, ok := fieldTypes[k.Name]; ok {
							w.pending = append(w.pending, pendingAccess{w.unitAt(x.Pos()), k.Name, true, "", k.Pos()})
						}
					}
				}
			}
		}
	case *ast.SelectorExpr:
		if f, ok := w.fieldSel(x); ok {
			w.classify(x, f, w.unitAt(x.Pos()))
		}
	}
	return w
}

func firstGoPos(body *ast.BlockStmt) token.Pos {
	var p token.Pos
	ast.Inspect(body, func(n ast.Node) bool {
		if g, ok := n.(*ast.GoStmt); ok && !p.IsValid() {
			p = g.Pos()
		}
		return true
	})
	return p
}

func lstr(s string) string { return strconv.Quote(s) }

func main() {
	if len(os.Args) != 3 {
		die("usage: lockfacts-exporter <repo> <outdir>")
	}
	repo, outdir := os.Args[1], os.Args[2]
	overlay := map[string]string{}
	if s := os.Getenv("VERIF_MUTANT_OVERLAY"); s != "" {
		if err := json.Unmarshal([]byte(s), &overlay); err != nil {
			die("VERIF_MUTANT_OVERLAY: %v", err)
		}
	}
	dir := filepath.Join(repo, "pkg", "exporter")
	ents, err := os.ReadDir(dir)
	if err != nil {
		die("%v", err)
	}
	var files []*ast.File
	var names []string
	for _, e := range ents {
		n := e.Name()
		if e.IsDir() || !strings.HasSuffix(n, ".go") || strings.HasSuffix(n, "_test.go") {
			continue
		}
		p := filepath.Join(dir, n)
		if alt, ok := overlay[p]; ok {
			p = alt
		}
		f, err := parser.ParseFile(fset, p, nil, 0)
		if err != nil {
			die("%v", err)
		}
		files = append(files, f)
		names = append(names, n)
	}
	// the struct
	found := false
	for _, f := range files {
		for _, d := range f.Decls {
			gd, ok := d.(*ast.GenDecl)
			if !ok || gd.Tok != token.TYPE {
				continue
			}
			for _, s := range gd.Specs {
				ts := s.(*ast.TypeSpec)
				st, ok := ts.Type.(*ast.StructType)
				if !ok || ts.Name.Name != typeName {
					continue
				}
				found = true
				for _, fl := range st.Fields.List {
					for _, nm := range fl.Names {
						fieldTypes[nm.Name] = render(fl.Type)
						fieldOrder = append(fieldOrder, nm.Name)
					}
				}
			}
		}
	}
	if !found {
		die("type %s not found in %s", typeName, dir)
	}
	// the methods
	for _, f := range files {
		for _, d := range f.Decls {
			if fd, ok := d.(*ast.FuncDecl); ok {
				if t, _ := recvTypeName(fd); t == typeName {
					methods[fd.Name.Name] = true
				}
			}
		}
	}
	locks := map[string][]lockEvent{}
	var pend []pendingAccess
	for _, f := range files {
		atomicPkg := ""
		for _, im := range f.Imports {
			if p, _ := strconv.Unquote(im.Path.Value); p == "sync/atomic" {
				atomicPkg = "atomic"
				if im.Name != nil {
					atomicPkg = im.Name.Name
				}
			}
		}
		for _, d := range f.Decls {
			fd, ok := d.(*ast.FuncDecl)
			if !ok || fd.Body == nil {
				continue
			}
			t, rn := recvTypeName(fd)
			var w *walker
			switch {
			case t == typeName:
				if rn == "" || rn == "_" {
					continue
				}
				w = &walker{recv: map[string]bool{rn: true}, atomicPkg: atomicPkg, fnName: fd.Name.Name, locks: locks}
				addUnit(fd.Name.Name)
				if fd.Name.IsExported() {
					exportedFns = append(exportedFns, fd.Name.Name)
				}
			case t == "":
				vars := localVarsOfType(fd.Body)
				if len(vars) == 0 {
					continue
				}
				w = &walker{recv: vars, atomicPkg: atomicPkg, fnName: fd.Name.Name, plain: true, firstGo: firstGoPos(fd.Body), locks: locks}
				addUnit(fd.Name.Name + ":pre")
				addUnit(fd.Name.Name + ":post")
				postUnits = append(postUnits, fd.Name.Name+":post")
			default:
				continue
			}
			ast.Walk(w, fd.Body)
			pend = append(pend, w.pending...)
		}
	}
	if len(goLits) == 0 {
		die("no `go` statement found in a function that builds an %s (expected the background goroutines of InitExportingProcess)", typeName)
	}
	for _, p := range pend {
		how := p.how
		lock := ""
		if how == "" {
			how = "plain"
			held := map[string]int{}
			for _, ev := range locks[p.unit] {
				if ev.pos < p.pos {
					held[ev.field] += ev.delta
				}
			}
			var hs []string
			for f, n := range held {
				if n > 0 {
					hs = append(hs, f)
				}
			}
			sort.Strings(hs)
			if len(hs) > 0 {
				how, lock = "mutex", hs[0]
			}
		}
		accesses = append(accesses, access{p.unit, p.field, how, lock, p.write, fset.Position(p.pos).Line})
	}
	sort.SliceStable(accesses, func(i, j int) bool {
		if accesses[i].line != accesses[j].line {
			return accesses[i].line < accesses[j].line
		}
		return accesses[i].field < accesses[j].field
	})
	// de-duplicate edges
	seenE := map[edge]bool{}
	var es []edge
	for _, e := range edges {
		if !seenE[e] {
			seenE[e] = true
			es = append(es, e)
		}
	}
	sort.Strings(exportedFns)

	var b strings.Builder
	b.WriteString("-- GENERATED by tools/lockfacts-exporter from /repo's working tree (pkg/exporter: " + strings.Join(names, ", ") + "). Do not edit.\n")
	b.WriteString("namespace Generated\nnamespace LocksExporter\n\n")
	b.WriteString("/-- one syntactic access to a field of `ExportingProcess`: in which unit (method, `InitExportingProcess:pre` / `:post` =\n")
	b.WriteString("    before / after the first `go` statement, `<func>$go<n>` = the n-th `go func` literal), read or write, and how:\n")
	b.WriteString("    \"plain\" | \"mutex\" (then `lock` names the mutex field) | \"atomic\" (sync/atomic function on &field) |\n")
	b.WriteString("    \"atomicMethod\" (method of an atomic.* type) | \"sync\" (method of sync.Mutex / RWMutex / WaitGroup) -/\n")
	b.WriteString("structure Access where\n  unit : String\n  field : String\n  write : Bool\n  how : String\n  lock : String\n  line : Nat\n  deriving Repr, DecidableEq\n\n")
	b.WriteString("/-- fields of ExportingProcess with the source text of their types -/\n")
	b.WriteString("def fields : List (String × String) := [")
	for i, f := range fieldOrder {
		if i > 0 {
			b.WriteString(", ")
		}
		b.WriteString("(" + lstr(f) + ", " + lstr(fieldTypes[f]) + ")")
	}
	b.WriteString("]\n\n")
	b.WriteString("def units : List String := [")
	for i, u := range unitOrder {
		if i > 0 {
			b.WriteString(", ")
		}
		b.WriteString(lstr(u))
	}
	b.WriteString("]\n\n")
	b.WriteString("def accesses : List Access := [\n")
	for i, a := range accesses {
		sep := ","
		if i == len(accesses)-1 {
			sep = ""
		}
		fmt.Fprintf(&b, "  { unit := %s, field := %s, write := %v, how := %s, lock := %s, line := %d }%s\n", lstr(a.unit), lstr(a.field), a.write, lstr(a.how), lstr(a.lock), a.line, sep)
	}
	b.WriteString("]\n\n")
	b.WriteString("/-- call edges: unit -> method of ExportingProcess called on the receiver -/\n")
	b.WriteString("def calls : List (String × String) := [")
	for i, e := range es {
		if i > 0 {
			b.WriteString(", ")
		}
		b.WriteString("(" + lstr(e.from) + ", " + lstr(e.to) + ")")
	}
	b.WriteString("]\n\n")
	b.WriteString("/-- background goroutine roots: the `go` statements, with the condition of the enclosing `if` -/\n")
	b.WriteString("def goroutines : List (String × String) := [")
	for i, g := range goLits {
		if i > 0 {
			b.WriteString(", ")
		}
		b.WriteString("(" + lstr(g.name) + ", " + lstr(g.cond) + ")")
	}
	b.WriteString("]\n\n")
	b.WriteString("/-- exported methods: the roots of the application goroutine -/\n")
	b.WriteString("def exported : List String := [")
	for i, f := range exportedFns {
		if i > 0 {
			b.WriteString(", ")
		}
		b.WriteString(lstr(f))
	}
	b.WriteString("]\n\n")
	b.WriteString("/-- the part of a constructor that runs after its first `go` statement (it runs on the application's goroutine, concurrently with the background goroutines) -/\n")
	b.WriteString("def postStartUnits : List String := [")
	for i, u := range postUnits {
		if i > 0 {
			b.WriteString(", ")
		}
		b.WriteString(lstr(u))
	}
	b.WriteString("]\n\n")
	b.WriteString("/-- method calls on fields that hold an interface / foreign value (the connection): (unit, field, method, line) -/\n")
	b.WriteString("def fieldCalls : List (String × String × String × Nat) := [")
	for i, c := range connCalls {
		if i > 0 {
			b.WriteString(", ")
		}
		fmt.Fprintf(&b, "(%s, %s, %s, %d)", lstr(c.unit), lstr(c.field), lstr(c.method), c.line)
	}
	b.WriteString("]\n\n/-- the top-level statements of the exported CloseConnToCollector, as source text -/\n")
	b.WriteString("def closeBody : List String := [")
	{
		var stmts []string
		for _, f := range files {
			for _, d := range f.Decls {
				fd, ok := d.(*ast.FuncDecl)
				if !ok || fd.Body == nil || fd.Name.Name != "CloseConnToCollector" {
					continue
				}
				if t, _ := recvTypeName(fd); t != typeName {
					continue
				}
				for _, st := range fd.Body.List {
					var sb bytes.Buffer
					printer.Fprint(&sb, fset, st)
					stmts = append(stmts, lstr(strings.Join(strings.Fields(sb.String()), " ")))
				}
			}
		}
		b.WriteString(strings.Join(stmts, ", "))
	}
	b.WriteString("]\n\n/-- sync/atomic functions applied to the address of a field: (unit, field, function, line) -/\n")
	b.WriteString("def atomicOps : List (String × String × String × Nat) := [")
	for i, c := range atomicOps {
		if i > 0 {
			b.WriteString(", ")
		}
		fmt.Fprintf(&b, "(%s, %s, %s, %d)", lstr(c.unit), lstr(c.field), lstr(c.method), c.line)
	}
	b.WriteString("]\n\n/-- what happens to the results of `<recv>.connToCollector.Write(...)`: (unit, variables the call's results are assigned\n    to) and every LATER statement of the same method that assigns one of those variables again: (unit, variable, line) -/\n")
	{
		type ww struct {
			unit string
			vars []string
		}
		var writes []ww
		var rewrites []connCall
		for _, f := range files {
			for _, d := range f.Decls {
				fd, ok := d.(*ast.FuncDecl)
				if !ok || fd.Body == nil {
					continue
				}
				t, recv := recvTypeName(fd)
				if t != typeName {
					continue
				}
				isWrite := func(e ast.Expr) bool {
					call, ok := e.(*ast.CallExpr)
					if !ok {
						return false
					}
					sel, ok := call.Fun.(*ast.SelectorExpr)
					if !ok || sel.Sel.Name != "Write" {
						return false
					}
					fld, ok := sel.X.(*ast.SelectorExpr)
					if !ok || fld.Sel.Name != "connToCollector" {
						return false
					}
					id, ok := fld.X.(*ast.Ident)
					return ok && id.Name == recv
				}
				vars := map[string]token.Pos{}
				ast.Inspect(fd.Body, func(n ast.Node) bool {
					as, ok := n.(*ast.AssignStmt)
					if !ok || len(as.Rhs) != 1 || !isWrite(as.Rhs[0]) {
						return true
					}
					var names []string
					for _, l := range as.Lhs {
						if id, ok := l.(*ast.Ident); ok {
							names = append(names, id.Name)
							if id.Name != "_" {
								if _, seen := vars[id.Name]; !seen {
									vars[id.Name] = as.End()
								}
							}
						} else {
							names = append(names, "?")
						}
					}
					writes = append(writes, ww{fd.Name.Name, names})
					return true
				})
				ast.Inspect(fd.Body, func(n ast.Node) bool {
					switch st := n.(type) {
					case *ast.AssignStmt:
						if len(st.Rhs) == 1 && isWrite(st.Rhs[0]) {
							return true
						}
						for _, l := range st.Lhs {
							if id, ok := l.(*ast.Ident); ok {
								if after, is := vars[id.Name]; is && st.Pos() >= after {
									rewrites = append(rewrites, connCall{fd.Name.Name, "", id.Name, fset.Position(st.Pos()).Line})
								}
							}
						}
					case *ast.IncDecStmt:
						if id, ok := st.X.(*ast.Ident); ok {
							if after, is := vars[id.Name]; is && st.Pos() >= after {
								rewrites = append(rewrites, connCall{fd.Name.Name, "", id.Name, fset.Position(st.Pos()).Line})
							}
						}
					}
					return true
				})
			}
		}
		b.WriteString("def connWrites : List (String × List String) := [")
		for i, w := range writes {
			if i > 0 {
				b.WriteString(", ")
			}
			var q []string
			for _, v := range w.vars {
				q = append(q, lstr(v))
			}
			fmt.Fprintf(&b, "(%s, [%s])", lstr(w.unit), strings.Join(q, ", "))
		}
		b.WriteString("]\n\ndef writeResultRewrites : List (String × String × Nat) := [")
		for i, c := range rewrites {
			if i > 0 {
				b.WriteString(", ")
			}
			fmt.Fprintf(&b, "(%s, %s, %d)", lstr(c.unit), lstr(c.method), c.line)
		}
	}
	b.WriteString("]\n\nend LocksExporter\nend Generated\n")

	if err := os.MkdirAll(outdir, 0o755); err != nil {
		die("%v", err)
	}
	out := filepath.Join(outdir, "LocksExporter.lean")
	if old, err := os.ReadFile(out); err == nil && string(old) == b.String() {
		return
	}
	tmp := out + ".tmp"
	if err := os.WriteFile(tmp, []byte(b.String()), 0o644); err != nil {
		die("%v", err)
	}
	if err := os.Rename(tmp, out); err != nil {
		die("%v", err)
	}
}
