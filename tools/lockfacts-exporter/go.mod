module lockfactsexporter

go 1.23
