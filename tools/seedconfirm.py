#!/usr/bin/env python3
"""Confirm a seeded change in its scratch worktree: existing tests pass with the patch, the
demonstration fails with it and passes without it.  tools/seedconfirm.py <worktree> <k>"""
import json
import os
import re
import subprocess
import sys

wt, k = sys.argv[1], sys.argv[2]
seed = os.path.join(wt, "SEED")
meta = json.load(open(os.path.join(seed, "meta%s.json" % k)))
env = dict(os.environ, GOFLAGS="-mod=mod", GOPROXY="off", GOSUMDB="off", GOTOOLCHAIN="local")
PKGDIR = {"collector": "pkg/collector", "exporter": "pkg/exporter", "exporter_test": "pkg/exporter", "entities": "pkg/entities",
          "entities_test": "pkg/entities", "intermediate": "pkg/intermediate", "main": "cmd/collector", "collector_test": "pkg/collector",
          "producer": "pkg/kafka/producer", "registry": "pkg/registry", "test": "pkg/kafka/producer/convertor/test",
          "consumer": "pkg/kafka/consumer"}
RUN = {"pkg/collector": "-run 'TestCollectingProcess_|TestFakeAfterFunc|TestTCPCollectingProcess_|TestUDPCollectingProcess_(DecodePacketError|ReceiveDataRecord|ReceiveTemplateRecord|TemplateAddAndDelete|TemplateExpire|TemplateUpdate)'",
       "pkg/exporter": "-run 'TestExportingProcess_|TestInitExportingProcessWithTLS'"}


def sh(cmd, timeout=900):
    r = subprocess.run(cmd, shell=True, cwd=wt, env=env, stdout=subprocess.PIPE, stderr=subprocess.STDOUT, text=True, timeout=timeout)
    return r.returncode, r.stdout


demo = next(f for f in os.listdir(seed) if f.startswith("demo%s" % k))
src = os.path.join(seed, demo)
if os.path.isdir(src):
    print("demo is a directory; run manually")
    sys.exit(2)
pkg = re.search(r"^package\s+(\w+)", open(src).read(), re.M).group(1)
dest_dir = PKGDIR.get(pkg, "pkg/" + pkg)
created_dir = not os.path.isdir(os.path.join(wt, dest_dir))
os.makedirs(os.path.join(wt, dest_dir), exist_ok=True)
dest = os.path.join(wt, dest_dir, "zz_seed_demo%s_test.go" % k)
m = re.search(r"-run\s+'?\"?([^'\"\s]+)", meta["demo_cmd"])
run = m.group(1) if m else "."
race = "-race " if "-race" in meta["demo_cmd"] else ""     # demonstrations of data races need the detector
res = {}
sh("git checkout -- .")
open(dest, "w").write(open(src).read())
rc, out = sh("go test %s-vet=off -count=1 -run '%s' ./%s/" % (race, run, dest_dir))
res["demo_passes_without_patch"] = rc == 0
rc, out = sh("git apply SEED/patch%s.diff" % k)
assert rc == 0, out
rc, out = sh("go test %s-vet=off -count=1 -run '%s' ./%s/" % (race, run, dest_dir))
res["demo_fails_with_patch"] = rc != 0
res["demo_output_tail"] = out[-400:]
os.remove(dest)
if created_dir:
    os.rmdir(os.path.join(wt, dest_dir))
touched = sorted({os.path.dirname(l.strip()) for l in sh("git diff --name-only")[1].splitlines() if l.strip().endswith(".go")})
ok = True
tested = []
touched = [d for d in touched if d != "pkg/kafka/producer"] + (["pkg/kafka/producer/convertor/test"] if "pkg/kafka/producer" in touched else [])
for d in touched + [x for x in ("pkg/entities", "pkg/collector", "pkg/exporter", "pkg/intermediate") if x not in touched]:
    if not os.path.isdir(os.path.join(wt, d)):
        continue
    rc, out = sh("go test -vet=off -count=1 %s ./%s/" % (RUN.get(d, ""), d))
    tested.append(d)
    if rc != 0:
        ok = False
        res["existing_test_failure"] = d + ": " + out[-600:]
rc, out = sh("go build ./pkg/... ./cmd/...")
res["builds"] = rc == 0
res["existing_tests_pass_with_patch"] = ok
res["tested_packages"] = tested
sh("git checkout -- .")
print(json.dumps(res, indent=1))
