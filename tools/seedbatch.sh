#!/bin/bash
# development aid: tools/seedbatch.sh <worktree> <related checks...>
# confirms both seeded changes found in <worktree>/SEED (tools/seedconfirm.py) and runs the named
# checks against each (tools/seedrun.py); prints one block per seed.
here=$(cd "$(dirname "$0")" && pwd)
wt=$1; shift
for k in 1 2; do
  echo "== $wt seed $k: $(python3 -c "import json;print(json.load(open('$wt/SEED/meta$k.json'))['summary'][:150])")"
  python3 $here/seedconfirm.py $wt $k 2>&1 | python3 -c "
import sys,json
t=sys.stdin.read()
try:
    r=json.loads(t[t.index('{'):]); print('   confirm', {k:v for k,v in r.items() if k not in ('demo_output_tail','tested_packages')})
except Exception as e: print('   confirm ERR',t[-400:])"
  python3 $here/seedrun.py $wt $wt/SEED/patch$k.diff "$@" 2>&1 | grep -v "^{" | cut -c1-300
done
