module timerfacts

go 1.23
