// timerfacts: the structural facts behind the atomicity assumptions of the event model of property C10
// (Model/Timers.lean). Re-extracted from /repo's working tree with go/ast only (no type checker), from the
// non-test files of pkg/collector:
//
//   - addTemplatePaths: every path through `addTemplate` as the ordered list of its "interesting statements"
//     (operations on cp.mutex, calls on the receiver such as cp.clock.Now, the assignment to `.expiryTime`,
//     the calls that arm a timer - cp.clock.AfterFunc / <x>.expiryTimer.Reset -, <x>.expiryTimer.Stop, deletions
//     from cp.templatesMap). An `if` forks the path, a loop body is taken zero times or once, a `return` ends it.
//     Function literals are NOT part of the path of the function they are written in;
//   - timerCallbacks: for every cp.clock.AfterFunc call the function literal it is given: the lexical list of
//     ALL its calls and control statements (log calls get the kind `log`, calls this translator knows nothing
//     about the kind `call-other`), and for every condition argument of a cp.deleteTemplateWithConds call made
//     in it: whether it is a function literal, its parameter, how often it reads `<param>.expiryTime` and
//     `<anything else>.expiryTime`, the comparison methods called on an expiryTime value with their
//     arguments, its returned expression (parameter renamed to T) and its source text;
//   - deleteTemplateWithCondsOrder / deleteTemplateOrder: the lexical list of the statements of these two
//     methods, with nesting depth and the lock state of cp.mutex (0 none, 1 RLock, 2 Lock) at each of them;
//   - expiryTimeAccesses: every syntactic access `<x>.expiryTime` in the package (unit, read / write, lock
//     state inside its own unit). Units are named <function>[/timer-callback][/delete-cond][/go][/defer][/func];
//   - deleteCalls: every call cp.deleteTemplate / cp.deleteTemplateWithConds (unit, number of conditions).
//
// Output: IpfixModel/Generated/Timers.lean (namespace Generated.TimerFacts).
//
//	timerfacts <repo> <outdir>
//
// Exit status 2 = the tree has a shape this translator cannot read. The file is rewritten only when its
// content changes. VERIF_MUTANT_OVERLAY='{"<real path>": "<copy>"}' makes the translator read the copy,
// exactly as `go build -overlay` makes the compiler do (development aid).
package main

import (
	"bytes"
	"encoding/json"
	"fmt"
	"go/ast"
	"go/parser"
	"go/printer"
	"go/token"
	"os"
	"path/filepath"
	"sort"
	"strings"
)

const structName = "CollectingProcess"
const pkgDir = "pkg/collector"

var fset = token.NewFileSet()
var overlay = map[string]string{}
var isMutex = map[string]bool{}

func die(format string, a ...interface{}) {
	fmt.Fprintf(os.Stderr, "timerfacts: "+format+"\n", a...)
	os.Exit(2)
}

func render(n ast.Node) string {
	var b bytes.Buffer
	if err := printer.Fprint(&b, fset, n); err != nil {
		die("cannot render node: %v", err)
	}
	return strings.Join(strings.Fields(b.String()), " ")
}

func renderList(l []ast.Expr) string {
	p := make([]string, len(l))
	for i, e := range l {
		p[i] = render(e)
	}
	return strings.Join(p, ", ")
}

func line(p token.Pos) int { return fset.Position(p).Line }

type ev struct {
	kind   string
	line   int
	depth  int
	held   int
	detail string
}

// kinds that take part in a path of addTemplate (everything else only clutters the enumeration)
var pathKinds = map[string]bool{
	"lock": true, "rlock": true, "unlock": true, "runlock": true, "defer-unlock": true, "defer-runlock": true,
	"call-cp": true, "bind-now": true, "assign-expiryTime": true, "read-expiryTime": true,
	"arm-AfterFunc": true, "arm-Reset": true, "stop-timer": true,
	"delete-template-entry": true, "delete-domain-entry": true, "delete-other": true,
	"call-cond": true, "range-conds": true, "end-range-conds": true, "defer": true, "go": true,
}

type litInfo struct {
	lit  *ast.FuncLit
	role string
	call *ast.CallExpr
}

type callRec struct {
	c      *ast.CallExpr
	kind   string
	detail string
	held   int
}

type walker struct {
	file      string
	recv      string
	unit      string
	condParam string
	condVars  map[string]bool
	evs       []ev
	depth     int
	held      int
	pathMode  bool
	lits      []litInfo
	calls     []callRec
	children  map[*ast.FuncLit]*walker
}

func (w *walker) emit(kind string, pos token.Pos, detail string) {
	if w.pathMode && !pathKinds[kind] {
		return
	}
	w.evs = append(w.evs, ev{kind, line(pos), w.depth, w.held, detail})
}

func meet(a, b int) int {
	if a < b {
		return a
	}
	return b
}

// lockOp recognises <recv>.<mutex>.<Lock|RLock|Unlock|RUnlock>()
func (w *walker) lockOp(c *ast.CallExpr) string {
	s, ok := c.Fun.(*ast.SelectorExpr)
	if !ok {
		return ""
	}
	m, ok := s.X.(*ast.SelectorExpr)
	if !ok || !isMutex[m.Sel.Name] {
		return ""
	}
	id, ok := m.X.(*ast.Ident)
	if !ok || w.recv == "" || id.Name != w.recv {
		return ""
	}
	switch s.Sel.Name {
	case "Lock", "RLock", "Unlock", "RUnlock":
		return s.Sel.Name
	}
	die("%s:%d: %s on the mutex is outside what this translator understands", w.file, line(c.Pos()), s.Sel.Name)
	return ""
}

// selector path x.a.b.c -> ("x", "a.b.c"); ok = false when the chain does not start at an identifier
func selPath(e ast.Expr) (string, string, bool) {
	var parts []string
	for {
		switch x := e.(type) {
		case *ast.SelectorExpr:
			parts = append([]string{x.Sel.Name}, parts...)
			e = x.X
		case *ast.Ident:
			return x.Name, strings.Join(parts, "."), true
		default:
			return "", "", false
		}
	}
}

func (w *walker) isTemplatesMap(e ast.Expr) bool {
	root, path, ok := selPath(e)
	return ok && w.recv != "" && root == w.recv && path == "templatesMap"
}

func (w *walker) classify(c *ast.CallExpr) (string, string) {
	switch f := c.Fun.(type) {
	case *ast.Ident:
		if f.Name == "delete" && len(c.Args) == 2 {
			if ix, ok := c.Args[0].(*ast.IndexExpr); ok && w.isTemplatesMap(ix.X) {
				return "delete-template-entry", render(c)
			}
			if w.isTemplatesMap(c.Args[0]) {
				return "delete-domain-entry", render(c)
			}
			return "delete-other", render(c)
		}
		if w.condVars[f.Name] || (w.condParam != "" && f.Name == w.condParam) {
			return "call-cond", renderList(c.Args)
		}
		return "call-other", f.Name
	case *ast.IndexExpr:
		if id, ok := f.X.(*ast.Ident); ok && w.condParam != "" && id.Name == w.condParam {
			return "call-cond", renderList(c.Args)
		}
	case *ast.SelectorExpr:
		if root, path, ok := selPath(f); ok && w.recv != "" && root == w.recv {
			if f.Sel.Name == "AfterFunc" && len(c.Args) == 2 {
				return "arm-AfterFunc", render(c.Args[0])
			}
			return "call-cp", path
		}
		if x, ok := f.X.(*ast.SelectorExpr); ok && x.Sel.Name == "expiryTimer" {
			switch f.Sel.Name {
			case "Reset":
				return "arm-Reset", renderList(c.Args)
			case "Stop":
				return "stop-timer", render(x)
			}
		}
		if r := render(f); strings.HasPrefix(r, "klog.") {
			return "log", r
		}
	}
	return "call-other", render(c.Fun)
}

func (w *walker) call(c *ast.CallExpr, how string) {
	if op := w.lockOp(c); op != "" {
		switch {
		case how == "" && op == "Lock":
			w.held = 2
			w.emit("lock", c.Pos(), "")
		case how == "" && op == "RLock":
			w.held = 1
			w.emit("rlock", c.Pos(), "")
		case how == "" && op == "Unlock":
			w.held = 0
			w.emit("unlock", c.Pos(), "")
		case how == "" && op == "RUnlock":
			w.held = 0
			w.emit("runlock", c.Pos(), "")
		case how == "defer" && op == "Unlock":
			w.emit("defer-unlock", c.Pos(), "")
		case how == "defer" && op == "RUnlock":
			w.emit("defer-runlock", c.Pos(), "")
		default:
			die("%s:%d: %s %s of the mutex", w.file, line(c.Pos()), how, op)
		}
		return
	}
	kind, detail := w.classify(c)
	var inline *ast.FuncLit
	switch f := c.Fun.(type) {
	case *ast.SelectorExpr:
		w.expr(f.X)
	case *ast.FuncLit:
		inline = f
	case *ast.Ident:
	default:
		w.expr(c.Fun)
	}
	role := "func"
	if kind == "arm-AfterFunc" {
		role = "timer-callback"
	} else if kind == "call-cp" && detail == "deleteTemplateWithConds" {
		role = "delete-cond"
	}
	for _, a := range c.Args {
		if lit, ok := a.(*ast.FuncLit); ok {
			w.lits = append(w.lits, litInfo{lit, role, c})
			continue
		}
		w.expr(a)
	}
	if inline != nil && how == "" {
		// invoked on the spot: part of the unit it is written in
		w.lexStmts(inline.Body.List)
		return
	}
	if inline != nil {
		w.lits = append(w.lits, litInfo{inline, how, c})
		w.emit(how, c.Pos(), "func")
		return
	}
	if how != "" {
		w.emit(how, c.Pos(), kind+" "+detail)
	}
	h := w.held
	if how != "" {
		h = 0 // runs later / elsewhere: do not assume the lock is held then
	}
	w.calls = append(w.calls, callRec{c, kind, detail, h})
	if how == "" {
		w.emit(kind, c.Pos(), detail)
	}
}

func isExpirySel(e ast.Expr) (*ast.SelectorExpr, bool) {
	s, ok := e.(*ast.SelectorExpr)
	return s, ok && s.Sel.Name == "expiryTime"
}

func (w *walker) expr(e ast.Expr) {
	switch e := e.(type) {
	case nil:
	case *ast.SelectorExpr:
		w.expr(e.X)
		if e.Sel.Name == "expiryTime" {
			w.emit("read-expiryTime", e.Pos(), render(e))
		}
	case *ast.CallExpr:
		w.call(e, "")
	case *ast.FuncLit:
		w.lits = append(w.lits, litInfo{e, "func", nil})
	case *ast.UnaryExpr:
		if s, ok := isExpirySel(e.X); ok && e.Op == token.AND {
			w.expr(s.X)
			w.emit("assign-expiryTime", e.Pos(), "&")
			return
		}
		w.expr(e.X)
	case *ast.BinaryExpr:
		w.expr(e.X)
		w.expr(e.Y)
	case *ast.ParenExpr:
		w.expr(e.X)
	case *ast.StarExpr:
		w.expr(e.X)
	case *ast.IndexExpr:
		w.expr(e.X)
		w.expr(e.Index)
	case *ast.IndexListExpr:
		w.expr(e.X)
		for _, i := range e.Indices {
			w.expr(i)
		}
	case *ast.SliceExpr:
		w.expr(e.X)
		w.expr(e.Low)
		w.expr(e.High)
		w.expr(e.Max)
	case *ast.TypeAssertExpr:
		w.expr(e.X)
	case *ast.CompositeLit:
		for _, el := range e.Elts {
			if kv, ok := el.(*ast.KeyValueExpr); ok {
				if id, ok := kv.Key.(*ast.Ident); ok {
					w.expr(kv.Value)
					if id.Name == "expiryTime" {
						w.emit("assign-expiryTime", kv.Pos(), render(kv.Value))
					}
					continue
				}
				w.expr(kv.Key)
				w.expr(kv.Value)
				continue
			}
			w.expr(el)
		}
	case *ast.KeyValueExpr:
		w.expr(e.Key)
		w.expr(e.Value)
	case *ast.Ident, *ast.BasicLit, *ast.ArrayType, *ast.MapType, *ast.ChanType, *ast.FuncType, *ast.StructType, *ast.InterfaceType, *ast.Ellipsis:
	default:
		die("%s:%d: expression kind %T not handled", w.file, line(e.Pos()), e)
	}
}

// lexStmts walks a statement list in source order; true = the list certainly leaves the function
func (w *walker) lexStmts(list []ast.Stmt) bool {
	for i, s := range list {
		w.lexStmt(s)
		if _, ok := s.(*ast.ReturnStmt); ok && i == len(list)-1 {
			return true
		}
	}
	return false
}

// elseIf wraps the `if` of an `else if` so that it stays at the depth of the `if` it belongs to
type elseIf struct{ ast.Stmt }

func (w *walker) branches(bodies ...[]ast.Stmt) {
	entry := w.held
	out := entry
	for _, b := range bodies {
		w.held = entry
		term := false
		if len(b) == 1 {
			if e, ok := b[0].(elseIf); ok {
				w.lexStmt(e.Stmt)
				out = meet(out, w.held)
				continue
			}
		}
		w.depth++
		term = w.lexStmts(b)
		w.depth--
		if !term {
			out = meet(out, w.held)
		}
	}
	w.held = out
}

func (w *walker) clauses(body *ast.BlockStmt) {
	var bodies [][]ast.Stmt
	for _, c := range body.List {
		switch c := c.(type) {
		case *ast.CaseClause:
			for _, e := range c.List {
				w.expr(e)
			}
			bodies = append(bodies, c.Body)
		case *ast.CommClause:
			b := c.Body
			if c.Comm != nil {
				b = append([]ast.Stmt{c.Comm}, c.Body...)
			}
			bodies = append(bodies, b)
		}
	}
	w.branches(bodies...)
}

// rangeHeader emits the header of a range statement; true = it ranges over the condition functions
func (w *walker) rangeHeader(s *ast.RangeStmt) bool {
	w.expr(s.X)
	if id, ok := s.X.(*ast.Ident); ok && w.condParam != "" && id.Name == w.condParam {
		if v, ok := s.Value.(*ast.Ident); ok && v.Name != "_" {
			w.condVars[v.Name] = true
		}
		w.emit("range-conds", s.Pos(), render(s.X))
		return true
	}
	w.emit("range", s.Pos(), render(s.X))
	return false
}

func (w *walker) lexStmt(s ast.Stmt) {
	switch s := s.(type) {
	case nil:
	case *ast.ExprStmt:
		w.expr(s.X)
	case *ast.DeferStmt:
		w.call(s.Call, "defer")
	case *ast.GoStmt:
		w.call(s.Call, "go")
	case *ast.AssignStmt:
		for _, r := range s.Rhs {
			w.expr(r)
		}
		if len(s.Lhs) == 1 && len(s.Rhs) == 1 {
			if id, ok := s.Lhs[0].(*ast.Ident); ok {
				if c, ok := s.Rhs[0].(*ast.CallExpr); ok && w.lockOp(c) == "" {
					if k, d := w.classify(c); k == "call-cp" && d == "clock.Now" {
						w.emit("bind-now", s.Pos(), id.Name)
					}
				}
			}
		}
		for i, l := range s.Lhs {
			if sel, ok := isExpirySel(l); ok {
				w.expr(sel.X)
				d := render(s)
				if len(s.Lhs) == len(s.Rhs) {
					d = render(s.Rhs[i])
				}
				w.emit("assign-expiryTime", l.Pos(), d)
				continue
			}
			if _, ok := l.(*ast.Ident); ok {
				continue
			}
			w.expr(l)
		}
	case *ast.IncDecStmt:
		w.expr(s.X)
	case *ast.BlockStmt:
		w.lexStmts(s.List)
	case *ast.IfStmt:
		w.lexStmt(s.Init)
		w.expr(s.Cond)
		w.emit("if", s.Pos(), render(s.Cond))
		switch e := s.Else.(type) {
		case nil:
			w.branches(s.Body.List)
		case *ast.IfStmt:
			w.branches(s.Body.List, []ast.Stmt{elseIf{e}})
		case *ast.BlockStmt:
			w.branches(s.Body.List, e.List)
		default:
			die("%s:%d: else branch of kind %T", w.file, line(s.Pos()), e)
		}
	case *ast.ForStmt:
		w.lexStmt(s.Init)
		w.expr(s.Cond)
		w.emit("for", s.Pos(), "")
		w.branches(append(append([]ast.Stmt{}, s.Body.List...), s.Post))
	case *ast.RangeStmt:
		conds := w.rangeHeader(s)
		w.branches(s.Body.List)
		if conds {
			w.emit("end-range-conds", s.End(), "")
		}
	case *ast.SwitchStmt:
		w.lexStmt(s.Init)
		w.expr(s.Tag)
		w.emit("switch", s.Pos(), "")
		w.clauses(s.Body)
	case *ast.TypeSwitchStmt:
		w.lexStmt(s.Init)
		w.lexStmt(s.Assign)
		w.emit("switch", s.Pos(), "")
		w.clauses(s.Body)
	case *ast.SelectStmt:
		w.emit("select", s.Pos(), "")
		w.clauses(s.Body)
	case *ast.ReturnStmt:
		for _, r := range s.Results {
			w.expr(r)
		}
		w.emit("return", s.Pos(), renderList(s.Results))
	case *ast.SendStmt:
		w.expr(s.Chan)
		w.expr(s.Value)
	case *ast.DeclStmt:
		if gd, ok := s.Decl.(*ast.GenDecl); ok {
			for _, sp := range gd.Specs {
				if vs, ok := sp.(*ast.ValueSpec); ok {
					for _, v := range vs.Values {
						w.expr(v)
					}
				}
			}
		}
	case *ast.LabeledStmt:
		w.lexStmt(s.Stmt)
	case *ast.BranchStmt:
		w.emit("branch", s.Pos(), s.Tok.String())
	case *ast.EmptyStmt:
	default:
		die("%s:%d: statement kind %T not handled", w.file, line(s.Pos()), s)
	}
}

// ---------------------------------------------------------------------------------------
// paths

type pstate struct {
	evs  []ev
	held int
	done bool
}

func clone(in []pstate) []pstate {
	out := make([]pstate, len(in))
	for i, s := range in {
		out[i] = pstate{append([]ev(nil), s.evs...), s.held, s.done}
	}
	return out
}

func dedupe(in []pstate) []pstate {
	seen := map[string]bool{}
	var out []pstate
	for _, s := range in {
		k := fmt.Sprint(s.evs, s.held, s.done)
		if !seen[k] {
			seen[k] = true
			out = append(out, s)
		}
	}
	if len(out) > 4096 {
		die("more than 4096 distinct paths")
	}
	return out
}

// simple applies a piece of the lexical walker to every live state
func (w *walker) simple(in []pstate, depth int, f func(tw *walker)) []pstate {
	for i := range in {
		tw := &walker{file: w.file, recv: w.recv, unit: w.unit, condParam: w.condParam, condVars: w.condVars,
			depth: depth, held: in[i].held, pathMode: true}
		f(tw)
		in[i].evs = append(in[i].evs, tw.evs...)
		in[i].held = tw.held
	}
	return in
}

func (w *walker) pathList(list []ast.Stmt, in []pstate, depth int) []pstate {
	for _, s := range list {
		in = w.pathStmt(s, in, depth)
	}
	return in
}

func (w *walker) pathClauses(body *ast.BlockStmt, live []pstate, depth int) []pstate {
	var res []pstate
	hasDefault := false
	for _, c := range body.List {
		switch c := c.(type) {
		case *ast.CaseClause:
			if c.List == nil {
				hasDefault = true
			}
			st := w.simple(clone(live), depth, func(tw *walker) {
				for _, e := range c.List {
					tw.expr(e)
				}
			})
			res = append(res, w.pathList(c.Body, st, depth+1)...)
		case *ast.CommClause:
			if c.Comm == nil {
				hasDefault = true
			}
			st := clone(live)
			if c.Comm != nil {
				st = w.pathStmt(c.Comm, st, depth+1)
			}
			res = append(res, w.pathList(c.Body, st, depth+1)...)
		}
	}
	if !hasDefault {
		res = append(res, live...)
	}
	return res
}

func (w *walker) pathStmt(s ast.Stmt, in []pstate, depth int) []pstate {
	if s == nil {
		return in
	}
	var live, out []pstate
	for _, st := range in {
		if st.done {
			out = append(out, st)
		} else {
			live = append(live, st)
		}
	}
	if len(live) == 0 {
		return in
	}
	var res []pstate
	switch s := s.(type) {
	case *ast.BlockStmt:
		res = w.pathList(s.List, live, depth)
	case *ast.IfStmt:
		live = w.pathStmt(s.Init, live, depth)
		live = w.simple(live, depth, func(tw *walker) { tw.expr(s.Cond) })
		res = w.pathList(s.Body.List, clone(live), depth+1)
		switch e := s.Else.(type) {
		case nil:
			res = append(res, live...)
		case *ast.IfStmt:
			res = append(res, w.pathStmt(e, live, depth)...)
		default:
			res = append(res, w.pathStmt(e, live, depth+1)...)
		}
	case *ast.ForStmt:
		live = w.pathStmt(s.Init, live, depth)
		live = w.simple(live, depth, func(tw *walker) { tw.expr(s.Cond) })
		once := w.pathList(s.Body.List, clone(live), depth+1)
		once = w.pathStmt(s.Post, once, depth+1)
		res = append(live, once...)
	case *ast.RangeStmt:
		conds := false
		live = w.simple(live, depth, func(tw *walker) { conds = tw.rangeHeader(s) })
		once := w.pathList(s.Body.List, clone(live), depth+1)
		res = append(live, once...)
		if conds {
			// a `return` inside the body has ended its path already
			for i := range res {
				if !res[i].done {
					res[i].evs = append(res[i].evs, ev{"end-range-conds", line(s.End()), depth, res[i].held, ""})
				}
			}
		}
	case *ast.SwitchStmt:
		live = w.pathStmt(s.Init, live, depth)
		live = w.simple(live, depth, func(tw *walker) { tw.expr(s.Tag) })
		res = w.pathClauses(s.Body, live, depth)
	case *ast.TypeSwitchStmt:
		live = w.pathStmt(s.Init, live, depth)
		live = w.pathStmt(s.Assign, live, depth)
		res = w.pathClauses(s.Body, live, depth)
	case *ast.SelectStmt:
		res = w.pathClauses(s.Body, live, depth)
	case *ast.ReturnStmt:
		res = w.simple(live, depth, func(tw *walker) { tw.lexStmt(s) })
		for i := range res {
			res[i].done = true
		}
	case *ast.LabeledStmt:
		res = w.pathStmt(s.Stmt, live, depth)
	default:
		res = w.simple(live, depth, func(tw *walker) { tw.lexStmt(s) })
	}
	return dedupe(append(out, res...))
}

// ---------------------------------------------------------------------------------------
// units

type unit struct {
	name string
	file string
	line int
	evs  []ev
}

type cond struct {
	line       int
	isLit      bool
	param      string
	paramReads int
	otherReads int
	cmp        [][2]string
	usesRecv   bool
	ret        string
	src        string
	order      []ev
}

type callback struct {
	inFunc string
	unit   string
	line   int
	isLit  bool
	order  []ev
	conds  []cond
}

type delCall struct {
	unit   string
	callee string
	conds  int
	line   int
	held   int
}

var (
	units     []*unit
	callbacks []callback
	delCalls  []delCall
)

func analyseCond(recv string, a ast.Expr, order []ev) cond {
	c := cond{line: line(a.Pos()), src: render(a), order: order}
	lit, ok := a.(*ast.FuncLit)
	if !ok {
		return c
	}
	c.isLit = true
	if ps := lit.Type.Params; ps != nil && len(ps.List) > 0 && len(ps.List[0].Names) > 0 {
		c.param = ps.List[0].Names[0].Name
	}
	var paramIdents []*ast.Ident
	ast.Inspect(lit.Body, func(n ast.Node) bool {
		switch x := n.(type) {
		case *ast.SelectorExpr:
			if x.Sel.Name == "expiryTime" {
				if id, ok := x.X.(*ast.Ident); ok && c.param != "" && id.Name == c.param {
					c.paramReads++
				} else {
					c.otherReads++
				}
			}
		case *ast.CallExpr:
			if f, ok := x.Fun.(*ast.SelectorExpr); ok {
				if _, ok := isExpirySel(f.X); ok {
					c.cmp = append(c.cmp, [2]string{f.Sel.Name, renderList(x.Args)})
				}
			}
		case *ast.Ident:
			if recv != "" && x.Name == recv {
				c.usesRecv = true
			}
			if c.param != "" && x.Name == c.param {
				paramIdents = append(paramIdents, x)
			}
		}
		return true
	})
	if len(lit.Body.List) == 1 {
		if r, ok := lit.Body.List[0].(*ast.ReturnStmt); ok && len(r.Results) == 1 {
			for _, id := range paramIdents {
				id.Name = "T"
			}
			c.ret = render(r.Results[0])
			for _, id := range paramIdents {
				id.Name = c.param
			}
		}
	}
	return c
}

// walkUnit walks one function body lexically, registers it and everything nested in it, and returns its events
func walkUnit(name, file, recv, condParam string, pos token.Pos, body *ast.BlockStmt) *walker {
	w := &walker{file: file, recv: recv, unit: name, condParam: condParam, condVars: map[string]bool{}}
	w.lexStmts(body.List)
	u := &unit{name: name, file: file, line: line(pos), evs: w.evs}
	units = append(units, u)
	children := map[*ast.FuncLit]*walker{}
	w.children = children
	for _, l := range w.lits {
		role := l.role
		if role == "" {
			role = "func"
		}
		children[l.lit] = walkUnit(name+"/"+role, file, recv, "", l.lit.Pos(), l.lit.Body)
	}
	for _, c := range w.calls {
		switch {
		case c.kind == "arm-AfterFunc":
			cb := callback{inFunc: name, line: line(c.c.Pos())}
			if lit, ok := c.c.Args[1].(*ast.FuncLit); ok {
				cw := children[lit]
				cb.isLit = true
				cb.unit = cw.unit
				cb.order = cw.evs
				for _, cc := range cw.calls {
					if cc.kind == "call-cp" && cc.detail == "deleteTemplateWithConds" && len(cc.c.Args) > 2 {
						for _, a := range cc.c.Args[2:] {
							var order []ev
							if cl, ok := a.(*ast.FuncLit); ok && cw.children[cl] != nil {
								order = cw.children[cl].evs
							}
							cb.conds = append(cb.conds, analyseCond(recv, a, order))
						}
					}
				}
			}
			callbacks = append(callbacks, cb)
		case c.kind == "call-cp" && (c.detail == "deleteTemplate" || c.detail == "deleteTemplateWithConds"):
			n := 0
			if c.detail == "deleteTemplateWithConds" && len(c.c.Args) > 2 {
				n = len(c.c.Args) - 2
			}
			delCalls = append(delCalls, delCall{name, c.detail, n, line(c.c.Pos()), c.held})
		}
	}
	return w
}

func isStructPtr(t ast.Expr) bool {
	if s, ok := t.(*ast.StarExpr); ok {
		t = s.X
	}
	id, ok := t.(*ast.Ident)
	return ok && id.Name == structName
}

// ---------------------------------------------------------------------------------------
// output

func q(s string) string {
	var b strings.Builder
	b.WriteByte('"')
	for _, r := range s {
		switch r {
		case '"':
			b.WriteString("\\\"")
		case '\\':
			b.WriteString("\\\\")
		case '\n':
			b.WriteString("\\n")
		case '\t':
			b.WriteString("\\t")
		default:
			b.WriteRune(r)
		}
	}
	b.WriteByte('"')
	return b.String()
}

func lbool(b bool) string {
	if b {
		return "true"
	}
	return "false"
}

func evList(l []ev, indent string) string {
	if len(l) == 0 {
		return "[]"
	}
	var b strings.Builder
	b.WriteString("[")
	for i, e := range l {
		if i > 0 {
			b.WriteString(",")
		}
		fmt.Fprintf(&b, "\n%s{ kind := %s, line := %d, depth := %d, held := %d, detail := %s }", indent, q(e.kind), e.line, e.depth, e.held, q(e.detail))
	}
	b.WriteString("]")
	return b.String()
}

func main() {
	if len(os.Args) != 3 {
		die("usage: timerfacts <repo> <outdir>")
	}
	repo, outdir := os.Args[1], os.Args[2]
	if ov := os.Getenv("VERIF_MUTANT_OVERLAY"); ov != "" {
		if err := json.Unmarshal([]byte(ov), &overlay); err != nil {
			die("VERIF_MUTANT_OVERLAY: %v", err)
		}
	}
	// the non-test files of the package (a file that exists only in the overlay counts as well)
	names := map[string]bool{}
	ents, err := os.ReadDir(filepath.Join(repo, pkgDir))
	if err != nil {
		die("%v", err)
	}
	for _, e := range ents {
		names[e.Name()] = true
	}
	for real := range overlay {
		if filepath.Dir(real) == filepath.Join(repo, pkgDir) {
			names[filepath.Base(real)] = true
		}
	}
	var files []string
	for n := range names {
		if strings.HasSuffix(n, ".go") && !strings.HasSuffix(n, "_test.go") {
			files = append(files, pkgDir+"/"+n)
		}
	}
	sort.Strings(files)
	parsed := map[string]*ast.File{}
	for _, rel := range files {
		path := filepath.Join(repo, rel)
		if alt, ok := overlay[path]; ok {
			if alt == "" { // go build -overlay: an empty replacement deletes the file
				continue
			}
			path = alt
		}
		f, err := parser.ParseFile(fset, path, nil, 0)
		if err != nil {
			die("%v", err)
		}
		parsed[rel] = f
	}
	// the structs
	var tplFields [][2]string
	foundCP, foundTpl := false, false
	for _, rel := range files {
		if parsed[rel] == nil {
			continue
		}
		for _, d := range parsed[rel].Decls {
			gd, ok := d.(*ast.GenDecl)
			if !ok || gd.Tok != token.TYPE {
				continue
			}
			for _, sp := range gd.Specs {
				ts := sp.(*ast.TypeSpec)
				st, ok := ts.Type.(*ast.StructType)
				if !ok {
					continue
				}
				for _, fl := range st.Fields.List {
					ty := render(fl.Type)
					for _, n := range fl.Names {
						switch ts.Name.Name {
						case structName:
							foundCP = true
							if ty == "sync.Mutex" || ty == "sync.RWMutex" {
								isMutex[n.Name] = true
							}
						case "template":
							foundTpl = true
							tplFields = append(tplFields, [2]string{n.Name, ty})
						}
					}
				}
			}
		}
	}
	if !foundCP || !foundTpl {
		die("struct %s or struct template not found in %s", structName, pkgDir)
	}
	if len(isMutex) != 1 {
		die("struct %s has %d mutex fields, expected exactly one", structName, len(isMutex))
	}
	// the functions
	var addPaths [][]ev
	var delOrder, delCondsOrder []ev
	delCondsSig := ""
	foundAdd, foundDelConds := false, false
	for _, rel := range files {
		if parsed[rel] == nil {
			continue
		}
		for _, d := range parsed[rel].Decls {
			fd, ok := d.(*ast.FuncDecl)
			if !ok || fd.Body == nil {
				continue
			}
			recv := ""
			isM := false
			if fd.Recv != nil && len(fd.Recv.List) == 1 && isStructPtr(fd.Recv.List[0].Type) {
				isM = true
				if len(fd.Recv.List[0].Names) == 1 {
					recv = fd.Recv.List[0].Names[0].Name
				}
			}
			name := fd.Name.Name
			if fd.Recv != nil && !isM {
				name = render(fd.Recv.List[0].Type) + "." + name
			}
			condParam := ""
			if isM && name == "deleteTemplateWithConds" {
				ps := fd.Type.Params.List
				if len(ps) > 0 {
					last := ps[len(ps)-1]
					if _, ok := last.Type.(*ast.Ellipsis); ok && len(last.Names) == 1 {
						condParam = last.Names[0].Name
					}
				}
				if condParam == "" {
					die("%s:%d: deleteTemplateWithConds has no variadic parameter any more", rel, line(fd.Pos()))
				}
				delCondsSig = render(fd.Type)
			}
			w := walkUnit(name, rel, recv, condParam, fd.Pos(), fd.Body)
			if !isM {
				continue
			}
			switch name {
			case "addTemplate":
				foundAdd = true
				pw := &walker{file: rel, recv: recv, unit: name, condVars: map[string]bool{}}
				for _, st := range pw.pathList(fd.Body.List, []pstate{{}}, 0) {
					addPaths = append(addPaths, st.evs)
				}
			case "deleteTemplate":
				delOrder = w.evs
			case "deleteTemplateWithConds":
				foundDelConds = true
				delCondsOrder = w.evs
			}
		}
	}
	if !foundAdd || !foundDelConds {
		die("method addTemplate or deleteTemplateWithConds of %s not found in %s", structName, pkgDir)
	}
	sort.SliceStable(addPaths, func(i, j int) bool {
		a, b := addPaths[i], addPaths[j]
		for k := 0; k < len(a) && k < len(b); k++ {
			if a[k].line != b[k].line {
				return a[k].line < b[k].line
			}
		}
		return len(a) < len(b)
	})

	var b strings.Builder
	b.WriteString("-- GENERATED by tools/timerfacts from /repo's working tree. Do not edit.\n")
	b.WriteString("namespace Generated\nnamespace TimerFacts\n\n")
	b.WriteString("/-- one \"interesting statement\" of a function body. kind:\n")
	b.WriteString("    lock | rlock | unlock | runlock | defer-unlock | defer-runlock  (cp.mutex; `held` is the state AFTER the statement),\n")
	b.WriteString("    call-cp (a call on the receiver; detail = the selector path, e.g. clock.Now, deleteTemplateWithConds),\n")
	b.WriteString("    bind-now (`x := cp.clock.Now()`; detail = x), assign-expiryTime (detail = the assigned expression),\n")
	b.WriteString("    read-expiryTime, arm-AfterFunc / arm-Reset (detail = the duration), stop-timer (`<x>.expiryTimer.Stop()`),\n")
	b.WriteString("    delete-template-entry (`delete(cp.templatesMap[..], ..)`), delete-domain-entry (`delete(cp.templatesMap, ..)`),\n")
	b.WriteString("    delete-other, range-conds / end-range-conds (the loop over the variadic condition parameter), call-cond (a\n")
	b.WriteString("    condition function is called; detail = its arguments), if (detail = the condition) | for | range | switch |\n")
	b.WriteString("    select | branch | return (detail = the results) | defer | go, log (klog call), call-other (any other call;\n")
	b.WriteString("    detail = the called expression).\n")
	b.WriteString("    depth: nesting depth of control statements inside the function body; held: lock state of cp.mutex inside\n")
	b.WriteString("    this unit (0 none, 1 RLock, 2 Lock; a function literal starts with 0) -/\n")
	b.WriteString("structure Ev where\n  kind : String\n  line : Nat\n  depth : Nat\n  held : Nat\n  detail : String\n\n")
	b.WriteString("/-- a condition argument of a cp.deleteTemplateWithConds call made in a timer callback.\n")
	b.WriteString("    paramExpiryReads: occurrences of `<param>.expiryTime`; otherExpiryReads: `.expiryTime` of anything else;\n")
	b.WriteString("    cmp: methods called on an expiryTime value, with their arguments; usesRecv: the receiver occurs in it;\n")
	b.WriteString("    ret: the returned expression if the body is a single return, parameter renamed to T -/\n")
	b.WriteString("structure Cond where\n  line : Nat\n  isFuncLit : Bool\n  param : String\n  paramExpiryReads : Nat\n  otherExpiryReads : Nat\n  cmp : List (String × String)\n  usesRecv : Bool\n  ret : String\n  src : String\n  order : List Ev\n\n")
	b.WriteString("/-- the function handed to cp.clock.AfterFunc: `order` lists ALL its calls and control statements in source\n")
	b.WriteString("    order (the bodies of the function literals it passes on are units of their own) -/\n")
	b.WriteString("structure Callback where\n  inFunc : String\n  unit : String\n  line : Nat\n  isFuncLit : Bool\n  order : List Ev\n  conds : List Cond\n\n")
	b.WriteString("/-- one syntactic access `<x>.expiryTime` -/\n")
	b.WriteString("structure Access where\n  unit : String\n  file : String\n  line : Nat\n  write : Bool\n  held : Nat\n\n")
	b.WriteString("/-- a call cp.deleteTemplate(..) / cp.deleteTemplateWithConds(..): conds = number of condition arguments -/\n")
	b.WriteString("structure DeleteCall where\n  unit : String\n  callee : String\n  conds : Nat\n  line : Nat\n  held : Nat\n\n")
	b.WriteString("def files : List String := [")
	first := true
	for _, f := range files {
		if parsed[f] == nil {
			continue
		}
		if !first {
			b.WriteString(", ")
		}
		first = false
		b.WriteString(q(f))
	}
	b.WriteString("]\n\n")
	// the production clock: the statements of realClock's methods as source text (the harness supplies its own clock, so
	// nothing it runs goes through these)
	b.WriteString("/-- (method of realClock, its top-level statements as source text) -/\ndef realClockMethods : List (String × List String) := [")
	{
		var rows []string
		for _, rel := range files {
			if parsed[rel] == nil {
				continue
			}
			for _, d := range parsed[rel].Decls {
				fd, ok := d.(*ast.FuncDecl)
				if !ok || fd.Body == nil || fd.Recv == nil || len(fd.Recv.List) != 1 {
					continue
				}
				rt := fd.Recv.List[0].Type
				if st, ok := rt.(*ast.StarExpr); ok {
					rt = st.X
				}
				if id, ok := rt.(*ast.Ident); !ok || id.Name != "realClock" {
					continue
				}
				var stmts []string
				for _, st := range fd.Body.List {
					var sb bytes.Buffer
					printer.Fprint(&sb, fset, st)
					stmts = append(stmts, q(strings.Join(strings.Fields(sb.String()), " ")))
				}
				rows = append(rows, fmt.Sprintf("(%s, [%s])", q(fd.Name.Name), strings.Join(stmts, ", ")))
			}
		}
		sort.Strings(rows)
		b.WriteString(strings.Join(rows, ", "))
	}
	b.WriteString("]\n\n")
	b.WriteString("/-- fields of struct template -/\ndef templateFields : List (String × String) := [")
	for i, f := range tplFields {
		if i > 0 {
			b.WriteString(", ")
		}
		b.WriteString("(" + q(f[0]) + ", " + q(f[1]) + ")")
	}
	b.WriteString("]\n\n")
	b.WriteString("/-- every path through addTemplate (an `if` forks, a loop body runs zero times or once, `return` ends the path) -/\n")
	b.WriteString("def addTemplatePaths : List (List Ev) := [")
	for i, p := range addPaths {
		if i > 0 {
			b.WriteString(",")
		}
		b.WriteString("\n  " + evList(p, "    "))
	}
	b.WriteString("]\n\n")
	b.WriteString("def timerCallbacks : List Callback := [")
	for i, cb := range callbacks {
		if i > 0 {
			b.WriteString(",")
		}
		fmt.Fprintf(&b, "\n  { inFunc := %s, unit := %s, line := %d, isFuncLit := %s,\n    order := %s,\n    conds := [", q(cb.inFunc), q(cb.unit), cb.line, lbool(cb.isLit), evList(cb.order, "      "))
		for j, c := range cb.conds {
			if j > 0 {
				b.WriteString(",")
			}
			fmt.Fprintf(&b, "\n      { line := %d, isFuncLit := %s, param := %s, paramExpiryReads := %d, otherExpiryReads := %d,\n        cmp := [", c.line, lbool(c.isLit), q(c.param), c.paramReads, c.otherReads)
			for k, m := range c.cmp {
				if k > 0 {
					b.WriteString(", ")
				}
				b.WriteString("(" + q(m[0]) + ", " + q(m[1]) + ")")
			}
			fmt.Fprintf(&b, "], usesRecv := %s,\n        ret := %s,\n        src := %s,\n        order := %s }", lbool(c.usesRecv), q(c.ret), q(c.src), evList(c.order, "          "))
		}
		b.WriteString("] }")
	}
	b.WriteString("]\n\n")
	b.WriteString("def deleteTemplateOrder : List Ev := " + evList(delOrder, "  ") + "\n\n")
	b.WriteString("def deleteTemplateWithCondsType : String := " + q(delCondsSig) + "\n\n")
	b.WriteString("def deleteTemplateWithCondsOrder : List Ev := " + evList(delCondsOrder, "  ") + "\n\n")
	b.WriteString("def expiryTimeAccesses : List Access := [")
	n := 0
	for _, u := range units {
		for _, e := range u.evs {
			if e.kind != "assign-expiryTime" && e.kind != "read-expiryTime" {
				continue
			}
			if n > 0 {
				b.WriteString(",")
			}
			n++
			fmt.Fprintf(&b, "\n  { unit := %s, file := %s, line := %d, write := %s, held := %d }", q(u.name), q(u.file), e.line, lbool(e.kind == "assign-expiryTime"), e.held)
		}
	}
	b.WriteString("]\n\n")
	b.WriteString("def deleteCalls : List DeleteCall := [")
	for i, c := range delCalls {
		if i > 0 {
			b.WriteString(",")
		}
		fmt.Fprintf(&b, "\n  { unit := %s, callee := %s, conds := %d, line := %d, held := %d }", q(c.unit), q(c.callee), c.conds, c.line, c.held)
	}
	b.WriteString("]\n\n")
	b.WriteString("end TimerFacts\nend Generated\n")

	out := filepath.Join(outdir, "Timers.lean")
	if old, err := os.ReadFile(out); err == nil && string(old) == b.String() {
		return
	}
	if err := os.WriteFile(out+".tmp", []byte(b.String()), 0o644); err != nil {
		die("%v", err)
	}
	if err := os.Rename(out+".tmp", out); err != nil {
		die("%v", err)
	}
}
