#!/usr/bin/env python3
"""Development aid: statement coverage of the library's anchored files under the correspondence
runs of the main harness (C01-C09, C15-C17).  tools/covreport.py [Cxx ...]
Builds a coverage-instrumented copy of the harness against a scratch copy of /repo that has the
overlay files physically in place (go's cover tool does not follow -overlay additions), runs the
named checks' quick tier with that binary (evidence goes to .work/mutant-runs, never to
evidence/), and prints per-function coverage + the uncovered line ranges of the anchored files.
Everything under /tmp is removed afterwards."""
import json
import os
import re
import shutil
import subprocess
import sys

ROOT = os.path.dirname(os.path.dirname(os.path.abspath(__file__)))
sys.path.insert(0, ROOT)
import check  # noqa: E402

props = sys.argv[1:] or ["C15", "C16", "C02", "C03", "C04", "C17", "C08", "C09", "C01", "C05", "C06", "C07"]
REPO2 = "/tmp/cov_repo"
H2 = "/tmp/cov_harness"
COV = os.path.join(ROOT, ".work", "cover")
env = dict(os.environ, GOFLAGS="-mod=mod", GOPROXY="off", GOSUMDB="off", GOTOOLCHAIN="local")


def sh(cmd, **kw):
    return subprocess.run(cmd, shell=True, stdout=subprocess.PIPE, stderr=subprocess.STDOUT, text=True, env=env, **kw)


for d in (REPO2, H2, COV):
    shutil.rmtree(d, ignore_errors=True)
os.makedirs(COV)
sh("rsync -a --exclude .git /repo/ %s/" % REPO2)
ov = json.load(open(check.write_overlay()))["Replace"]
for dst, src in ov.items():
    shutil.copyfile(src, dst.replace("/repo/", REPO2 + "/", 1))
sh("rsync -a %s/harness/ %s/" % (ROOT, H2))
gm = open(os.path.join(H2, "go.mod")).read().replace("=> /repo", "=> " + REPO2)
open(os.path.join(H2, "go.mod"), "w").write(gm)
r = sh("go build -tags verif -cover -coverpkg=./...,github.com/vmware/go-ipfix/pkg/... -o %s/harness-cover ./cmd/harness" % H2, cwd=H2)
if r.returncode != 0:
    print(r.stdout[-3000:])
    sys.exit(2)
env2 = dict(env, VERIF_HARNESS_OVERRIDE=H2 + "/harness-cover", VERIF_MUTANT_OVERLAY="{}", GOCOVERDIR=COV)
for p in props:
    r = subprocess.run(["python3", "check.py", p, "--tier", "quick"], cwd=ROOT, env=env2, stdout=subprocess.PIPE, stderr=subprocess.STDOUT, text=True)
    print(r.stdout.strip().splitlines()[-1][:200])
sh("go tool covdata textfmt -i=%s -o=%s/cover.txt" % (COV, COV), cwd=H2)
r = sh("go tool cover -func=%s/cover.txt" % COV, cwd=H2)
ANCH = ("pkg/entities/ie.go", "pkg/entities/ie_value.go", "pkg/entities/record.go", "pkg/entities/set.go", "pkg/entities/message.go",
        "pkg/collector/process.go", "pkg/collector/tcp.go", "pkg/collector/udp.go", "pkg/exporter/process.go", "pkg/exporter/msg.go",
        "pkg/intermediate/aggregate.go", "pkg/intermediate/expire_priority_queue.go", "pkg/registry/registry.go")
print("\n== functions of anchored files below 100% ==")
for l in r.stdout.splitlines():
    if any(a in l for a in ANCH) and not l.rstrip().endswith("100.0%"):
        print(l.replace("github.com/vmware/go-ipfix/", ""))
# uncovered blocks
print("\n== uncovered blocks (file:startline-endline) ==")
unc = {}
for l in open(os.path.join(COV, "cover.txt")):
    m = re.match(r"github.com/vmware/go-ipfix/(\S+?):(\d+)\.\d+,(\d+)\.\d+ (\d+) (\d+)", l)
    if m and m.group(5) == "0" and m.group(1) in ANCH:
        unc.setdefault(m.group(1), []).append((int(m.group(2)), int(m.group(3))))
for f in sorted(unc):
    print(f, " ".join("%d-%d" % b for b in sorted(set(unc[f]))))
shutil.copyfile(os.path.join(COV, "cover.txt"), os.path.join(ROOT, ".work", "cover.txt"))
for d in (REPO2, H2):
    shutil.rmtree(d, ignore_errors=True)
