//go:build verif

package intermediate

import (
	"sort"
	"time"

	"github.com/vmware/go-ipfix/pkg/entities"
)

// Virtual clock: check.py maps every non-test file of this package to a copy in which the
// token sequence time.Now() is replaced by verifNow().
var verifClock func() time.Time

func verifNow() time.Time {
	if verifClock != nil {
		return verifClock()
	}
	return time.Now()
}

func VerifSetClock(f func() time.Time) { verifClock = f }

// VerifItem is a snapshot of one priority-queue item.
type VerifItem struct {
	Key      FlowKey
	Active   time.Time
	Inactive time.Time
	Index    int
	Pos      int
	// the queue item points at the record held in the map under the same key
	PointsAtHeld bool
	Ready        bool
	Retries      int
}

// VerifSnapshot returns the held flow keys (sorted) and the queue items in heap order.
func (a *AggregationProcess) VerifSnapshot() ([]FlowKey, []VerifItem) {
	a.mutex.Lock()
	defer a.mutex.Unlock()
	var keys []FlowKey
	for k := range a.flowKeyRecordMap {
		keys = append(keys, k)
	}
	sort.Slice(keys, func(i, j int) bool { return keyLess(keys[i], keys[j]) })
	var items []VerifItem
	for pos, it := range a.expirePriorityQueue {
		held, ok := a.flowKeyRecordMap[*it.flowKey]
		items = append(items, VerifItem{
			Key: *it.flowKey, Active: it.activeExpireTime, Inactive: it.inactiveExpireTime, Index: it.index, Pos: pos,
			PointsAtHeld: ok && held == it.flowRecord && held.PriorityQueueItem == it,
			Ready:        it.flowRecord.ReadyToSend, Retries: it.flowRecord.waitForReadyToSendRetries,
		})
	}
	return keys, items
}

func keyLess(a, b FlowKey) bool {
	if a.SourceAddress != b.SourceAddress {
		return a.SourceAddress < b.SourceAddress
	}
	if a.DestinationAddress != b.DestinationAddress {
		return a.DestinationAddress < b.DestinationAddress
	}
	if a.Protocol != b.Protocol {
		return a.Protocol < b.Protocol
	}
	if a.SourcePort != b.SourcePort {
		return a.SourcePort < b.SourcePort
	}
	return a.DestinationPort < b.DestinationPort
}

func VerifKeyLess(a, b FlowKey) bool { return keyLess(a, b) }

// VerifRecordFlags exposes the unexported per-flow flags.
func (r *AggregationFlowRecord) VerifFlags() (ready bool, retries int, correlatedFilled bool, isIPv4 bool) {
	return r.ReadyToSend, r.waitForReadyToSendRetries, r.areCorrelatedFieldsFilled, r.isIPv4
}

// VerifFlowKey exposes getFlowKeyFromRecord (the five-tuple of a record, and whether both addresses are IPv4 ones).
func VerifFlowKey(r entities.Record) (*FlowKey, bool, error) { return getFlowKeyFromRecord(r) }
