//go:build verif

package collector

import (
	"bytes"
	"net"
	"sort"
	"time"

	"github.com/vmware/go-ipfix/pkg/entities"
)

// VerifClock / VerifTimer export the package's unexported clock interfaces so that the harness
// can supply its own scheduled implementation (property C10).
type VerifTimer interface {
	Stop() bool
	Reset(d time.Duration) bool
}

type VerifClock interface {
	Now() time.Time
	AfterFunc(d time.Duration, f func()) VerifTimer
}

type verifClockAdapter struct{ c VerifClock }

func (a verifClockAdapter) Now() time.Time { return a.c.Now() }
func (a verifClockAdapter) AfterFunc(d time.Duration, f func()) timer {
	return a.c.AfterFunc(d, f)
}

// VerifNewCollector builds a collecting process that is never Start()ed: packets are handed to
// decodePacket directly. Decoded messages are drained from the message channel in the background.
func VerifNewCollector(input CollectorInput, c VerifClock) (*CollectingProcess, error) {
	var ck clock = realClock{}
	if c != nil {
		ck = verifClockAdapter{c}
	}
	cp, err := initCollectingProcess(input, ck)
	if err != nil {
		return nil, err
	}
	go func() {
		for range cp.messageChan {
		}
	}()
	return cp, nil
}

// VerifNewCollectorNoDrainClock is VerifNewCollectorNoDrain with the caller's clock.
func VerifNewCollectorNoDrainClock(input CollectorInput, c VerifClock) (*CollectingProcess, error) {
	return initCollectingProcess(input, verifClockAdapter{c})
}

// VerifNewCollectorNoDrain is like VerifNewCollector but leaves the message channel to the caller.
func VerifNewCollectorNoDrain(input CollectorInput) (*CollectingProcess, error) {
	return initCollectingProcess(input, realClock{})
}

func (cp *CollectingProcess) VerifDecodePacket(b []byte, exportAddress string) (*entities.Message, error) {
	return cp.decodePacket(bytes.NewBuffer(b), exportAddress)
}

// VerifTemplateKeys returns the (obsDomainID, templateID) pairs currently stored, sorted.
func (cp *CollectingProcess) VerifTemplateKeys() [][2]uint32 {
	cp.mutex.RLock()
	defer cp.mutex.RUnlock()
	var keys [][2]uint32
	for d, m := range cp.templatesMap {
		for id := range m {
			keys = append(keys, [2]uint32{d, uint32(id)})
		}
	}
	sort.Slice(keys, func(i, j int) bool {
		if keys[i][0] != keys[j][0] {
			return keys[i][0] < keys[j][0]
		}
		return keys[i][1] < keys[j][1]
	})
	return keys
}

// VerifTemplate returns the stored element list for a template (nil if absent).
func (cp *CollectingProcess) VerifTemplate(dom uint32, id uint16) ([]*entities.InfoElement, bool) {
	cp.mutex.RLock()
	defer cp.mutex.RUnlock()
	t, ok := cp.templatesMap[dom][id]
	if !ok {
		return nil, false
	}
	return t.ies, true
}

// VerifSetTemplate installs a template directly (no timer), for element-level round trips.
func (cp *CollectingProcess) VerifSetTemplate(dom uint32, id uint16, ies []*entities.InfoElement) {
	cp.mutex.Lock()
	defer cp.mutex.Unlock()
	if _, ok := cp.templatesMap[dom]; !ok {
		cp.templatesMap[dom] = make(map[uint16]*template)
	}
	cp.templatesMap[dom][id] = &template{ies: ies}
}

func (cp *CollectingProcess) VerifDecodeDataSet(b []byte, dom uint32, id uint16) (entities.Set, error) {
	return cp.decodeDataSet(bytes.NewBuffer(b), dom, id)
}

// VerifHandleTCPClient runs the real per-connection reader on the given connection.
func (cp *CollectingProcess) VerifHandleTCPClient(conn net.Conn) {
	cp.handleTCPClient(conn)
}

func (cp *CollectingProcess) VerifStopChan() chan struct{} { return cp.stopChan }
