//go:build verif

// In-package line-protocol driver for the standalone collector's record store (property C20).
// Injected into /repo/cmd/collector with `go test -c -tags verif -overlay ...`; nothing in /repo
// is modified. Run as
//
//	VERIF_OPS_STDIN=1 harness-cmdcollector -test.run '^TestVerifDriver$' 3>&1 >/dev/null
//
// ops are read from stdin (one per line), exactly one observation line per op is written to
// file descriptor 3 (or to the file named by VERIF_OBS_OUT), so the testing package's own
// PASS/ok output cannot get into the protocol. See /verif/lean/Driver/MainStore.lean for the
// protocol. The driver calls the real addIPFIXMessage, flowRecordHandler and resetRecordHandler
// (the handlers through net/http/httptest) and reads len(flowRecords) / the newest entry after
// an arrival.
package main

import (
	"bufio"
	"encoding/hex"
	"fmt"
	"io"
	"math"
	"net"
	"net/http/httptest"
	"net/url"
	"os"
	"strconv"
	"strings"
	"testing"
	"time"

	"k8s.io/klog/v2"

	"github.com/vmware/go-ipfix/pkg/entities"
	"github.com/vmware/go-ipfix/pkg/registry"
)

func vUnhex(s string) ([]byte, error) {
	if s == "-" {
		return []byte{}, nil
	}
	return hex.DecodeString(s)
}

func vHex(b []byte) string {
	if len(b) == 0 {
		return "-"
	}
	return hex.EncodeToString(b)
}

// IE token: ent:id:ty:len:hexname
func vParseIE(tok string) (*entities.InfoElement, error) {
	p := strings.Split(tok, ":")
	if len(p) != 5 {
		return nil, fmt.Errorf("bad ie token")
	}
	ent, e1 := strconv.ParseUint(p[0], 10, 32)
	id, e2 := strconv.ParseUint(p[1], 10, 16)
	ty, e3 := strconv.ParseUint(p[2], 10, 8)
	ln, e4 := strconv.ParseUint(p[3], 10, 16)
	name, e5 := vUnhex(p[4])
	for _, e := range []error{e1, e2, e3, e4, e5} {
		if e != nil {
			return nil, e
		}
	}
	return entities.NewInfoElement(string(name), uint16(id), entities.IEDataType(ty), uint32(ent), uint16(ln)), nil
}

func vParseIEs(tok string) ([]*entities.InfoElement, error) {
	if tok == "-" {
		return nil, nil
	}
	var out []*entities.InfoElement
	for _, t := range strings.Split(tok, ",") {
		ie, err := vParseIE(t)
		if err != nil {
			return nil, err
		}
		out = append(out, ie)
	}
	return out, nil
}

// value tokens: n<decimal> (bit pattern), t / f, x<hex> (x- empty); built with the typed
// constructors of the public API, as the collector's decoder does
func vMkElem(ie *entities.InfoElement, tok string) (entities.InfoElementWithValue, error) {
	if tok == "" {
		return nil, fmt.Errorf("empty value")
	}
	kind, rest := tok[0], tok[1:]
	var n uint64
	var b []byte
	var err error
	switch kind {
	case 'n':
		n, err = strconv.ParseUint(rest, 10, 64)
	case 'x':
		b, err = vUnhex(rest)
	case 't', 'f':
	default:
		err = fmt.Errorf("bad value kind")
	}
	if err != nil {
		return nil, err
	}
	num := func(max uint64) error {
		if kind != 'n' || n > max {
			return fmt.Errorf("value kind mismatch")
		}
		return nil
	}
	byt := func() error {
		if kind != 'x' {
			return fmt.Errorf("value kind mismatch")
		}
		return nil
	}
	switch ie.DataType {
	case entities.Unsigned8:
		if err := num(math.MaxUint8); err != nil {
			return nil, err
		}
		return entities.NewUnsigned8InfoElement(ie, uint8(n)), nil
	case entities.Unsigned16:
		if err := num(math.MaxUint16); err != nil {
			return nil, err
		}
		return entities.NewUnsigned16InfoElement(ie, uint16(n)), nil
	case entities.Unsigned32:
		if err := num(math.MaxUint32); err != nil {
			return nil, err
		}
		return entities.NewUnsigned32InfoElement(ie, uint32(n)), nil
	case entities.Unsigned64:
		if err := num(math.MaxUint64); err != nil {
			return nil, err
		}
		return entities.NewUnsigned64InfoElement(ie, n), nil
	case entities.Signed8:
		if err := num(math.MaxUint8); err != nil {
			return nil, err
		}
		return entities.NewSigned8InfoElement(ie, int8(uint8(n))), nil
	case entities.Signed16:
		if err := num(math.MaxUint16); err != nil {
			return nil, err
		}
		return entities.NewSigned16InfoElement(ie, int16(uint16(n))), nil
	case entities.Signed32:
		if err := num(math.MaxUint32); err != nil {
			return nil, err
		}
		return entities.NewSigned32InfoElement(ie, int32(uint32(n))), nil
	case entities.Signed64:
		if err := num(math.MaxUint64); err != nil {
			return nil, err
		}
		return entities.NewSigned64InfoElement(ie, int64(n)), nil
	case entities.Float32:
		if err := num(math.MaxUint32); err != nil {
			return nil, err
		}
		return entities.NewFloat32InfoElement(ie, math.Float32frombits(uint32(n))), nil
	case entities.Float64:
		if err := num(math.MaxUint64); err != nil {
			return nil, err
		}
		return entities.NewFloat64InfoElement(ie, math.Float64frombits(n)), nil
	case entities.Boolean:
		if kind != 't' && kind != 'f' {
			return nil, fmt.Errorf("bad bool")
		}
		return entities.NewBoolInfoElement(ie, kind == 't'), nil
	case entities.MacAddress:
		if err := byt(); err != nil {
			return nil, err
		}
		return entities.NewMacAddressInfoElement(ie, net.HardwareAddr(b)), nil
	case entities.String:
		if err := byt(); err != nil {
			return nil, err
		}
		return entities.NewStringInfoElement(ie, string(b)), nil
	case entities.DateTimeSeconds:
		if err := num(math.MaxUint32); err != nil {
			return nil, err
		}
		return entities.NewDateTimeSecondsInfoElement(ie, uint32(n)), nil
	case entities.DateTimeMilliseconds:
		if err := num(math.MaxUint64); err != nil {
			return nil, err
		}
		return entities.NewDateTimeMillisecondsInfoElement(ie, n), nil
	case entities.Ipv4Address, entities.Ipv6Address:
		if err := byt(); err != nil {
			return nil, err
		}
		return entities.NewIPAddressInfoElement(ie, net.IP(b)), nil
	case entities.OctetArray:
		if err := byt(); err != nil {
			return nil, err
		}
		return entities.NewOctetArrayInfoElement(ie, b), nil
	default:
		// types without a typed constructor: the carrier does not matter, the renderer only
		// prints the element name and a fixed text
		switch kind {
		case 'x':
			return entities.NewOctetArrayInfoElement(ie, b), nil
		case 'n':
			return entities.NewUnsigned64InfoElement(ie, n), nil
		default:
			return entities.NewBoolInfoElement(ie, kind == 't'), nil
		}
	}
}

// the element of a template record: zero value, as DecodeAndCreateInfoElementWithValue(ie, nil)
func vTplElem(ie *entities.InfoElement) entities.InfoElementWithValue {
	if e, err := entities.DecodeAndCreateInfoElementWithValue(ie, nil); err == nil {
		return e
	}
	return entities.NewOctetArrayInfoElement(ie, nil)
}

func vParam(tok string) (string, bool, error) {
	if tok == "-" {
		return "", false, nil
	}
	if !strings.HasPrefix(tok, "h") {
		return "", false, fmt.Errorf("bad parameter token")
	}
	if tok == "h" {
		return "", true, nil
	}
	b, err := hex.DecodeString(tok[1:])
	return string(b), true, err
}

func vUint(tok string, bits int) (uint64, error) { return strconv.ParseUint(tok, 10, bits) }

func vNewMessage(a []string) (*entities.Message, uint16, error) {
	// a = <ver> <dom> <seq> <len> <time> <id>
	ver, e1 := vUint(a[0], 16)
	dom, e2 := vUint(a[1], 32)
	seq, e3 := vUint(a[2], 32)
	ln, e4 := vUint(a[3], 16)
	tm, e5 := vUint(a[4], 32)
	id, e6 := vUint(a[5], 16)
	for _, e := range []error{e1, e2, e3, e4, e5, e6} {
		if e != nil {
			return nil, 0, e
		}
	}
	msg := entities.NewMessage(true)
	msg.SetVersion(uint16(ver))
	msg.SetObsDomainID(uint32(dom))
	msg.SetSequenceNum(uint32(seq))
	msg.SetMessageLen(uint16(ln))
	msg.SetExportTime(uint32(tm))
	return msg, uint16(id), nil
}

var vLast *entities.Message

// vStallWriter stalls the handler's first Write until released
type vStallWriter struct {
	*httptest.ResponseRecorder
	entered, release chan struct{}
	once             bool
}

func (w *vStallWriter) Write(b []byte) (int, error) {
	if !w.once {
		w.once = true
		close(w.entered)
		<-w.release
	}
	return w.ResponseRecorder.Write(b)
}

func vAdded() string {
	mutex.Lock()
	defer mutex.Unlock()
	n := len(flowRecords)
	if n == 0 {
		return "ok 0 -"
	}
	return fmt.Sprintf("ok %d %s", n, vHex([]byte(flowRecords[n-1])))
}

func vStoreOp(a []string) string {
	if len(a) == 0 {
		return "bad-op"
	}
	switch a[0] {
	case "add":
		if len(a) < 2 {
			return "bad-op"
		}
		switch a[1] {
		case "tpl":
			if len(a) != 9 {
				return "bad-op"
			}
			msg, id, err := vNewMessage(a[2:8])
			if err != nil {
				return "bad-op"
			}
			set := entities.NewSet(true)
			if err := set.PrepareSet(entities.Template, id); err != nil {
				return "seterr"
			}
			if a[8] != "~" {
				for _, g := range strings.Split(a[8], ";") {
					ies, err := vParseIEs(g)
					if err != nil {
						return "bad-op"
					}
					elems := make([]entities.InfoElementWithValue, 0, len(ies))
					for _, ie := range ies {
						elems = append(elems, vTplElem(ie))
					}
					if err := set.AddRecordV2(elems, id); err != nil {
						return "adderr"
					}
				}
			}
			msg.AddSet(set)
			vLast = msg
			addIPFIXMessage(msg)
			return vAdded()
		case "data":
			if len(a) != 10 {
				return "bad-op"
			}
			msg, id, err := vNewMessage(a[2:8])
			if err != nil {
				return "bad-op"
			}
			ies, err := vParseIEs(a[8])
			if err != nil {
				return "bad-op"
			}
			set := entities.NewSet(true)
			if err := set.PrepareSet(entities.Data, id); err != nil {
				return "seterr"
			}
			if a[9] != "-" {
				for _, r := range strings.Split(a[9], ";") {
					var toks []string
					if r != "." {
						toks = strings.Split(r, ",")
					}
					if len(toks) != len(ies) {
						return "bad-op"
					}
					elems := make([]entities.InfoElementWithValue, 0, len(ies))
					for i, ie := range ies {
						e, err := vMkElem(ie, toks[i])
						if err != nil {
							return "bad-op"
						}
						elems = append(elems, e)
					}
					if err := set.AddRecordV2(elems, id); err != nil {
						return "adderr"
					}
				}
			}
			msg.AddSet(set)
			vLast = msg
			addIPFIXMessage(msg)
			return vAdded()
		}
		return "bad-op"
	case "recordsc":
		// a records query during which k further copies of the newest message arrive: the arrivals are
		// started once the handler is writing its response (it then holds the store lock) and get 20 ms
		// to run before the response is allowed to complete
		if len(a) != 5 {
			return "bad-op"
		}
		k, err := strconv.Atoi(a[4])
		if err != nil || k < 0 || k > 64 {
			return "bad-op"
		}
		q := url.Values{}
		if v, ok, err := vParam(a[2]); err != nil {
			return "bad-op"
		} else if ok {
			q.Set("count", v)
		}
		if v, ok, err := vParam(a[3]); err != nil {
			return "bad-op"
		} else if ok {
			q.Set("format", v)
		}
		target := "/records"
		if enc := q.Encode(); enc != "" {
			target += "?" + enc
		}
		req := httptest.NewRequest(a[1], target, nil)
		sw := &vStallWriter{ResponseRecorder: httptest.NewRecorder(), entered: make(chan struct{}), release: make(chan struct{})}
		done := make(chan struct{})
		go func() { defer close(done); defer func() { recover() }(); flowRecordHandler(sw, req) }()
		select {
		case <-sw.entered:
		case <-done:
		}
		arrived := make(chan struct{})
		go func() {
			defer close(arrived)
			mutex.Lock()
			empty := len(flowRecords) == 0
			mutex.Unlock()
			for i := 0; i < k && vLast != nil && !empty; i++ {
				addIPFIXMessage(vLast)
			}
		}()
		select {
		case <-arrived:
		case <-time.After(20 * time.Millisecond):
		}
		close(sw.release)
		<-done
		<-arrived
		return fmt.Sprintf("%d %s", sw.Code, vHex(sw.Body.Bytes()))
	case "records":
		if len(a) != 4 {
			return "bad-op"
		}
		q := url.Values{}
		if v, ok, err := vParam(a[2]); err != nil {
			return "bad-op"
		} else if ok {
			q.Set("count", v)
		}
		if v, ok, err := vParam(a[3]); err != nil {
			return "bad-op"
		} else if ok {
			q.Set("format", v)
		}
		target := "/records"
		if enc := q.Encode(); enc != "" {
			target += "?" + enc
		}
		req := httptest.NewRequest(a[1], target, nil)
		rr := httptest.NewRecorder()
		flowRecordHandler(rr, req)
		return fmt.Sprintf("%d %s", rr.Code, vHex(rr.Body.Bytes()))
	case "reset":
		if len(a) != 2 {
			return "bad-op"
		}
		req := httptest.NewRequest(a[1], "/reset", nil)
		rr := httptest.NewRecorder()
		resetRecordHandler(rr, req)
		return fmt.Sprintf("%d %s", rr.Code, vHex(rr.Body.Bytes()))
	}
	return "bad-op"
}

func vRunOp(line string) (out string) {
	f := strings.Fields(line)
	if len(f) == 0 || strings.HasPrefix(f[0], "#") {
		return "skip"
	}
	if f[0] != "store" {
		return "bad-op"
	}
	defer func() {
		if r := recover(); r != nil {
			if os.Getenv("VERIF_PANIC_TRACE") != "" {
				fmt.Fprintf(os.Stderr, "panic in %q: %v\n", line, r)
			}
			out = "panic"
		}
	}()
	return vStoreOp(f[1:])
}

func TestVerifDriver(t *testing.T) {
	if os.Getenv("VERIF_OPS_STDIN") != "1" {
		t.Skip("line-protocol driver; only runs when VERIF_OPS_STDIN=1")
	}
	var w io.Writer
	if p := os.Getenv("VERIF_OBS_OUT"); p != "" {
		f, err := os.OpenFile(p, os.O_WRONLY|os.O_CREATE|os.O_TRUNC, 0o644)
		if err != nil {
			t.Fatal(err)
		}
		defer f.Close()
		w = f
	} else {
		f := os.NewFile(3, "observations")
		if f == nil {
			t.Fatal("file descriptor 3 is not open")
		}
		defer f.Close()
		w = f
	}
	klog.SetOutput(io.Discard)
	klog.LogToStderr(false)
	time.Local = time.UTC // the model renders time.Unix(t, 0) in UTC
	registry.LoadRegistry()

	in := bufio.NewReaderSize(os.Stdin, 1<<20)
	out := bufio.NewWriterSize(w, 1<<20)
	defer out.Flush()
	for {
		line, err := in.ReadString('\n')
		if len(line) > 0 {
			out.WriteString(vRunOp(strings.TrimRight(line, "\r\n")))
			out.WriteByte('\n')
		}
		if err != nil {
			break
		}
	}
}
