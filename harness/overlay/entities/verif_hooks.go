//go:build verif

package entities

// VerifEncodeElement exposes encodeInfoElementValueToBuff (with its error) to the harness.
func VerifEncodeElement(e InfoElementWithValue, buf []byte, idx int) error {
	return encodeInfoElementValueToBuff(e, buf, idx)
}
