//go:build verif

package exporter

import (
	"net"
	"sync"
	"sync/atomic"

	"github.com/vmware/go-ipfix/pkg/entities"
)

// VerifNewExporter builds an exporting process on an existing connection (no dial, no
// background goroutines), so that "nothing was written" can be observed exactly.
func VerifNewExporter(conn net.Conn, obsDomainID uint32) *ExportingProcess {
	return &ExportingProcess{
		connToCollector: conn,
		obsDomainID:     obsDomainID,
		seqNumber:       0,
		templateID:      startTemplateID,
		templatesMap:    make(map[uint16]templateValue),
		wg:              sync.WaitGroup{},
		stopCh:          make(chan struct{}),
	}
}

// VerifNewExporterJSON is VerifNewExporter for ExporterInput.SendJSONRecord = true (with the default
// JSON buffer length InitExportingProcess uses when none is given).
func VerifNewExporterJSON(conn net.Conn, obsDomainID uint32) *ExportingProcess {
	ep := VerifNewExporter(conn, obsDomainID)
	ep.sendJSONRecord = true
	ep.jsonBufferLen = defaultJSONBufferLen
	return ep
}

func (ep *ExportingProcess) VerifSetSeq(v uint32) { atomic.StoreUint32(&ep.seqNumber, v) }
func (ep *ExportingProcess) VerifSeq() uint32     { return atomic.LoadUint32(&ep.seqNumber) }

func (ep *ExportingProcess) VerifTemplateIDs() []uint16 {
	ep.templateMutex.Lock()
	defer ep.templateMutex.Unlock()
	var ids []uint16
	for id := range ep.templatesMap {
		ids = append(ids, id)
	}
	return ids
}

func (ep *ExportingProcess) VerifSendRefreshedTemplates() error { return ep.sendRefreshedTemplates() }

var _ = entities.TemplateSetID
