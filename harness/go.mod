module verifharness

go 1.23.0

require (
	github.com/IBM/sarama v1.43.3
	github.com/pion/dtls/v2 v2.2.12
	github.com/vmware/go-ipfix v0.0.0
	google.golang.org/protobuf v1.34.2
	k8s.io/klog/v2 v2.130.1
)

require (
	github.com/davecgh/go-spew v1.1.2-0.20180830191138-d8f796af33cc // indirect
	github.com/eapache/go-resiliency v1.7.0 // indirect
	github.com/eapache/go-xerial-snappy v0.0.0-20230731223053-c322873962e3 // indirect
	github.com/eapache/queue v1.1.0 // indirect
	github.com/go-logr/logr v1.4.2 // indirect
	github.com/golang/snappy v0.0.4 // indirect
	github.com/hashicorp/errwrap v1.1.0 // indirect
	github.com/hashicorp/go-multierror v1.1.1 // indirect
	github.com/hashicorp/go-uuid v1.0.3 // indirect
	github.com/jcmturner/aescts/v2 v2.0.0 // indirect
	github.com/jcmturner/dnsutils/v2 v2.0.0 // indirect
	github.com/jcmturner/gofork v1.7.6 // indirect
	github.com/jcmturner/gokrb5/v8 v8.4.4 // indirect
	github.com/jcmturner/rpc/v2 v2.0.3 // indirect
	github.com/klauspost/compress v1.17.9 // indirect
	github.com/pierrec/lz4/v4 v4.1.21 // indirect
	github.com/pion/logging v0.2.2 // indirect
	github.com/pion/transport/v2 v2.2.10 // indirect
	github.com/rcrowley/go-metrics v0.0.0-20201227073835-cf1acfcdf475 // indirect
	golang.org/x/crypto v0.27.0 // indirect
	golang.org/x/net v0.29.0 // indirect
	golang.org/x/sys v0.25.0 // indirect
)

replace github.com/vmware/go-ipfix => /repo
