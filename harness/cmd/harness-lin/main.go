// harness-lin: drives the REAL aggregation process of go-ipfix (pkg/intermediate) from several
// goroutines at once and records what happened (property C13). Built with
//
//	go build -race -tags verif -overlay overlay.json
//
// so that the race detector watches every run (GORACE="halt_on_error=1 exitcode=66": a data race
// ends the process with exit code 66 and the report on stderr) and the virtual clock / snapshot
// hooks of harness/overlay/intermediate are compiled in. Counterpart of lean/Driver/MainLin.lean.
//
// One case per input line, one observation line per case:
//
//	lin small  <A> <I> <W> <seed> <procs> <segments>   -> hist <ev> ; <ev> ; ... ; final flows <dump> queue <k/active/inactive,..>
//	lin stress <A> <I> <W> <seed> <procs> <segments>   -> stress <ok|fail:why> nexports=<n> final flows <dump> queue <...>
//
//	<segments> := <segment> @@ <segment> ...
//	<segment>  := seq <op> ; <op> ; ...                 executed by the main goroutine, one after the other (the
//	                                                     virtual clock only moves here: `adv <ms>`)
//	            | par <thread> @ <thread> @ ...          all threads are released together by a barrier and run concurrently
//	<thread>   := g <op> ; <op> ...                      a goroutine calling the public API directly
//	            | pool <msg> ; <msg> ...                 a goroutine pushing messages into MessageChan (built-in worker pool,
//	                                                     W workers started with Start()); <msg> := rec ... + rec ... (one data set)
//	            | shared <rec op> ; ...                  not a goroutine: the records the `shr` ops take, in ticket order
//	<op>       := rec <key> <flowType> <corr> <start> <end> <reason> <tcpHex> <stats>   AggregateMsgByFlowKey  -> ok | err
//	            | scan <failkeys|-> <reset 0|1>          ForAllExpiredFlowRecordsDo                 -> cb <k>=<dump>;...|- <ok|fail>
//	            | nflows | expiry | dump                 GetNumFlows | GetExpiryFromExpirePriorityQueue | ForAllRecordsDo (sorted)
//	            | getrecs <key|0>                        GetRecords (stress only; the answer is only counted)
//	            | touch                                  ForAllRecordsDo with a callback that writes a flag of every record
//	                                                     (stress only; the answer is only counted)
//	            | shr                                    stress only: take the next shared record under a harness-side ticket
//	                                                     lock and ingest it (so that the end times of the shared key arrive in
//	                                                     increasing order - the model adds a record's deltas only if it is newer)
//	            | adv <ms>                               seq only
//
// small: every operation of a par segment is stamped from ONE atomic counter right before the
// call and right after its return; the history is printed as
//
//	<opid> inv <thread> <stamp> <op tokens>  /  <opid> res <stamp> <observation>
//
// in stamp order, followed by the final state (dump + queue as a set). stress: no per-operation
// observations; the harness asserts that no key is exported twice within a scan nor twice within one
// concurrent phase (the clock is frozen and the timeouts are positive), waits for the worker pool to
// drain (W barrier messages), calls Stop() and prints the final state.
//
// A seeded PRNG per thread inserts runtime.Gosched() / short sleeps / spins before operations.
package main

import (
	"bufio"
	"bytes"
	"encoding/hex"
	"flag"
	"fmt"
	"io"
	"math"
	"math/rand"
	"net"
	"os"
	"os/exec"
	"runtime"
	"sort"
	"strconv"
	"strings"
	"sync"
	"sync/atomic"
	"time"

	"github.com/vmware/go-ipfix/pkg/entities"
	"github.com/vmware/go-ipfix/pkg/intermediate"
	"github.com/vmware/go-ipfix/pkg/registry"
	"k8s.io/klog/v2"
)

var (
	aggBase = time.Unix(1700000000, 0)
	aggNow  atomic.Int64
)

var corrFields = []string{"sourcePodName", "sourcePodNamespace", "sourceNodeName", "destinationPodName", "destinationPodNamespace",
	"destinationNodeName", "destinationClusterIPv4", "destinationServicePort", "ingressNetworkPolicyRuleAction",
	"egressNetworkPolicyRuleAction", "ingressNetworkPolicyRulePriority", "destinationClusterIPv6"}
var statsElems = []string{"packetTotalCount", "packetDeltaCount", "octetTotalCount", "octetDeltaCount",
	"reversePacketTotalCount", "reversePacketDeltaCount", "reverseOctetTotalCount", "reverseOctetDeltaCount"}

func withSuffix(l []string, suf string) []string {
	var out []string
	for _, s := range l {
		out = append(out, s+suf)
	}
	return out
}

// flow key k (1..65535) <-> 10.0.0.1:k -> 10.0.0.2:5678 / tcp (keys are opaque numbers in the model)
func keyToken(k intermediate.FlowKey) int {
	if k.SourceAddress == "10.0.0.1" && k.DestinationAddress == "10.0.0.2" && k.Protocol == 6 && k.DestinationPort == 5678 {
		return int(k.SourcePort)
	}
	return -1
}

func flowKeyOf(k int) intermediate.FlowKey {
	return intermediate.FlowKey{SourceAddress: "10.0.0.1", DestinationAddress: "10.0.0.2", Protocol: 6, SourcePort: uint16(k), DestinationPort: 5678}
}

func unhex(s string) ([]byte, error) {
	if s == "-" {
		return nil, nil
	}
	return hex.DecodeString(s)
}

func hexs(b []byte) string {
	if len(b) == 0 {
		return "-"
	}
	return hex.EncodeToString(b)
}

var ieCache sync.Map

func regIE(name string) *entities.InfoElement {
	if v, ok := ieCache.Load(name); ok {
		return v.(*entities.InfoElement)
	}
	for _, ent := range []uint32{registry.IANAEnterpriseID, registry.AntreaEnterpriseID, registry.IANAReversedEnterpriseID} {
		if ie, err := registry.GetInfoElement(name, ent); err == nil {
			ieCache.Store(name, ie)
			return ie
		}
	}
	panic("no element " + name)
}

func mkElem(ie *entities.InfoElement, tok string) (entities.InfoElementWithValue, error) {
	if tok == "" {
		return nil, fmt.Errorf("empty value")
	}
	kind, rest := tok[0], tok[1:]
	switch kind {
	case 'n':
		n, err := strconv.ParseUint(rest, 10, 64)
		if err != nil {
			return nil, err
		}
		switch ie.DataType {
		case entities.Unsigned8:
			if n > math.MaxUint8 {
				return nil, fmt.Errorf("bad u8")
			}
			return entities.NewUnsigned8InfoElement(ie, uint8(n)), nil
		case entities.Unsigned16:
			if n > math.MaxUint16 {
				return nil, fmt.Errorf("bad u16")
			}
			return entities.NewUnsigned16InfoElement(ie, uint16(n)), nil
		case entities.Unsigned32:
			if n > math.MaxUint32 {
				return nil, fmt.Errorf("bad u32")
			}
			return entities.NewUnsigned32InfoElement(ie, uint32(n)), nil
		case entities.Unsigned64:
			return entities.NewUnsigned64InfoElement(ie, n), nil
		case entities.Signed32:
			if n > math.MaxUint32 {
				return nil, fmt.Errorf("bad s32")
			}
			return entities.NewSigned32InfoElement(ie, int32(uint32(n))), nil
		}
	case 'x':
		b, err := unhex(rest)
		if err != nil {
			return nil, err
		}
		switch ie.DataType {
		case entities.String:
			return entities.NewStringInfoElement(ie, string(b)), nil
		case entities.Ipv4Address, entities.Ipv6Address:
			return entities.NewIPAddressInfoElement(ie, net.IP(b)), nil
		}
	}
	return nil, fmt.Errorf("value kind mismatch for %s", ie.Name)
}

func valueToken(e entities.InfoElementWithValue) string {
	switch e.GetDataType() {
	case entities.Unsigned8:
		return fmt.Sprintf("n%d", e.GetUnsigned8Value())
	case entities.Unsigned16:
		return fmt.Sprintf("n%d", e.GetUnsigned16Value())
	case entities.Unsigned32:
		return fmt.Sprintf("n%d", e.GetUnsigned32Value())
	case entities.Unsigned64:
		return fmt.Sprintf("n%d", e.GetUnsigned64Value())
	case entities.Signed32:
		return fmt.Sprintf("n%d", uint32(e.GetSigned32Value()))
	case entities.String:
		return "x" + hexs([]byte(e.GetStringValue()))
	case entities.Ipv4Address, entities.Ipv6Address:
		return "x" + hexs(e.GetIPAddressValue())
	}
	return "?"
}

// the element list of one record: <key> <flowType> <corr> <start> <end> <reason> <tcpHex> <stats>
func recElems(a []string) ([]entities.InfoElementWithValue, error) {
	if len(a) != 8 {
		return nil, fmt.Errorf("bad record")
	}
	k, err := strconv.Atoi(a[0])
	if err != nil || k < 1 || k > 65535 {
		return nil, fmt.Errorf("bad key")
	}
	ft, e0 := strconv.ParseUint(a[1], 10, 8)
	corr := strings.Split(a[2], ",")
	if len(corr) != len(corrFields) {
		return nil, fmt.Errorf("bad corr")
	}
	start, e1 := strconv.ParseUint(a[3], 10, 32)
	end, e2 := strconv.ParseUint(a[4], 10, 32)
	reason, e3 := strconv.ParseUint(a[5], 10, 8)
	for _, e := range []error{e0, e1, e2, e3} {
		if e != nil {
			return nil, e
		}
	}
	tcp, err := unhex(a[6])
	if err != nil {
		return nil, err
	}
	stats := strings.Split(a[7], ",")
	if len(stats) != len(statsElems) {
		return nil, fmt.Errorf("bad stats")
	}
	fk := flowKeyOf(k)
	var es []entities.InfoElementWithValue
	es = append(es, entities.NewUnsigned16InfoElement(regIE("sourceTransportPort"), fk.SourcePort))
	es = append(es, entities.NewUnsigned16InfoElement(regIE("destinationTransportPort"), fk.DestinationPort))
	es = append(es, entities.NewUnsigned8InfoElement(regIE("protocolIdentifier"), fk.Protocol))
	es = append(es, entities.NewIPAddressInfoElement(regIE("sourceIPv4Address"), net.ParseIP(fk.SourceAddress).To4()))
	es = append(es, entities.NewIPAddressInfoElement(regIE("destinationIPv4Address"), net.ParseIP(fk.DestinationAddress).To4()))
	es = append(es, entities.NewUnsigned8InfoElement(regIE("flowType"), uint8(ft)))
	for i, name := range corrFields {
		if corr[i] == "~" {
			continue // the record does not carry this correlate field (same token as the engine `agg` of cmd/harness)
		}
		e, err := mkElem(regIE(name), corr[i])
		if err != nil {
			return nil, err
		}
		es = append(es, e)
	}
	es = append(es, entities.NewDateTimeSecondsInfoElement(regIE("flowStartSeconds"), uint32(start)))
	es = append(es, entities.NewDateTimeSecondsInfoElement(regIE("flowEndSeconds"), uint32(end)))
	es = append(es, entities.NewUnsigned8InfoElement(regIE("flowEndReason"), uint8(reason)))
	es = append(es, entities.NewStringInfoElement(regIE("tcpState"), string(tcp)))
	for i, name := range statsElems {
		v, err := strconv.ParseUint(stats[i], 10, 64)
		if err != nil {
			return nil, err
		}
		es = append(es, entities.NewUnsigned64InfoElement(regIE(name), v))
	}
	return es, nil
}

// a message carrying one data set with the given records, as a collector would hand it over
func mkMessage(recs [][]string) (*entities.Message, error) {
	set := entities.NewSet(true)
	if err := set.PrepareSet(entities.Data, 256); err != nil {
		return nil, err
	}
	for _, r := range recs {
		es, err := recElems(r)
		if err != nil {
			return nil, err
		}
		if err := set.AddRecordV2(es, 256); err != nil {
			return nil, err
		}
	}
	msg := entities.NewMessage(true)
	msg.AddSet(set)
	return msg, nil
}

func u64s(r entities.Record, names []string) string {
	var out []string
	for _, n := range names {
		e, _, ok := r.GetInfoElementWithValue(n)
		if !ok {
			out = append(out, "?")
		} else {
			out = append(out, strconv.FormatUint(e.GetUnsigned64Value(), 10))
		}
	}
	return strings.Join(out, ",")
}

func u32of(r entities.Record, n string) string {
	e, _, ok := r.GetInfoElementWithValue(n)
	if !ok {
		return "?"
	}
	return strconv.FormatUint(uint64(e.GetUnsigned32Value()), 10)
}

func aggDump(rec *intermediate.AggregationFlowRecord) string {
	r := rec.Record
	var corr []string
	for _, n := range corrFields {
		e, _, ok := r.GetInfoElementWithValue(n)
		if !ok {
			corr = append(corr, "~")
		} else {
			corr = append(corr, valueToken(e))
		}
	}
	ft, _, ok1 := r.GetInfoElementWithValue("flowType")
	reason, _, ok2 := r.GetInfoElementWithValue("flowEndReason")
	tcp, _, ok3 := r.GetInfoElementWithValue("tcpState")
	if !ok1 || !ok2 || !ok3 {
		return "?"
	}
	ready, retries, filled, _ := rec.VerifFlags()
	b := func(x bool) string {
		if x {
			return "1"
		}
		return "0"
	}
	return fmt.Sprintf("%d/%s/%s/%s/%d/%s/%s/%s/%s/%s/%s/%s/%s/%s/%s/%d/%s", ft.GetUnsigned8Value(), strings.Join(corr, ","),
		u32of(r, "flowStartSeconds"), u32of(r, "flowEndSeconds"), reason.GetUnsigned8Value(), hexs([]byte(tcp.GetStringValue())),
		u64s(r, statsElems), u64s(r, withSuffix(statsElems, "FromSourceNode")), u64s(r, withSuffix(statsElems, "FromDestinationNode")),
		u32of(r, "flowEndSecondsFromSourceNode"), u32of(r, "flowEndSecondsFromDestinationNode"),
		u64s(r, []string{"throughput", "reverseThroughput"}), u64s(r, []string{"throughputFromSourceNode", "reverseThroughputFromSourceNode"}),
		u64s(r, []string{"throughputFromDestinationNode", "reverseThroughputFromDestinationNode"}), b(ready), retries, b(filled))
}

// ----------------------------------------------------------------------------------------

type op struct {
	toks []string
	msg  *entities.Message // pre-built for rec ops and pool messages
}

type thread struct {
	kind string
	ops  []op
}

type segment struct {
	par     bool
	ops     []op
	threads []thread
}

func splitToks(toks []string, sep string) [][]string {
	var out [][]string
	cur := []string{}
	for _, t := range toks {
		if t == sep {
			out = append(out, cur)
			cur = []string{}
		} else {
			cur = append(cur, t)
		}
	}
	return append(out, cur)
}

func mkOp(toks []string, pool bool) (op, error) {
	o := op{toks: toks}
	if len(toks) == 0 {
		return o, fmt.Errorf("empty op")
	}
	if pool {
		var recs [][]string
		for _, r := range splitToks(toks, "+") {
			if len(r) != 9 || r[0] != "rec" {
				return o, fmt.Errorf("bad pool message")
			}
			recs = append(recs, r[1:])
		}
		m, err := mkMessage(recs)
		o.msg = m
		return o, err
	}
	switch toks[0] {
	case "rec":
		if len(toks) != 9 {
			return o, fmt.Errorf("bad rec")
		}
		m, err := mkMessage([][]string{toks[1:]})
		o.msg = m
		return o, err
	case "scan":
		if len(toks) != 3 {
			return o, fmt.Errorf("bad scan")
		}
	case "nflows", "expiry", "dump", "shr", "touch":
		if len(toks) != 1 {
			return o, fmt.Errorf("bad op")
		}
	case "getrecs", "adv":
		if len(toks) != 2 {
			return o, fmt.Errorf("bad op")
		}
		if _, err := strconv.Atoi(toks[1]); err != nil {
			return o, err
		}
	default:
		return o, fmt.Errorf("unknown op %s", toks[0])
	}
	return o, nil
}

func parseSegments(toks []string) ([]segment, error) {
	var segs []segment
	for _, st := range splitToks(toks, "@@") {
		if len(st) == 0 {
			continue
		}
		switch st[0] {
		case "seq":
			s := segment{}
			for _, ot := range splitToks(st[1:], ";") {
				if len(ot) == 0 {
					continue
				}
				o, err := mkOp(ot, false)
				if err != nil {
					return nil, err
				}
				s.ops = append(s.ops, o)
			}
			segs = append(segs, s)
		case "par":
			s := segment{par: true}
			for _, tt := range splitToks(st[1:], "@") {
				if len(tt) == 0 {
					continue
				}
				th := thread{kind: tt[0]}
				if th.kind != "g" && th.kind != "pool" && th.kind != "shared" {
					return nil, fmt.Errorf("bad thread kind")
				}
				for _, ot := range splitToks(tt[1:], ";") {
					if len(ot) == 0 {
						continue
					}
					o, err := mkOp(ot, th.kind == "pool")
					if err != nil {
						return nil, err
					}
					th.ops = append(th.ops, o)
				}
				s.threads = append(s.threads, th)
			}
			segs = append(segs, s)
		default:
			return nil, fmt.Errorf("bad segment")
		}
	}
	return segs, nil
}

// ----------------------------------------------------------------------------------------

type run struct {
	ap       *intermediate.AggregationProcess
	small    bool
	workers  int
	ch       chan *entities.Message
	ctr      atomic.Int64 // stamps
	nextOpID atomic.Int64
	evMu     sync.Mutex
	events   []event
	failMu   sync.Mutex
	failure  string
	// exports of the current concurrent phase (frozen clock): key -> count
	expMu     sync.Mutex
	phaseExp  map[int]int
	nexports  int
	sharedMu  sync.Mutex
	shared    []op
	sharedPos int
	// yield inside the callbacks (i.e. inside the critical section) so that other goroutines pile up on the lock
	cbYield bool
}

type event struct {
	stamp int64
	text  string
}

func (r *run) fail(why string) {
	r.failMu.Lock()
	if r.failure == "" {
		r.failure = why
	}
	r.failMu.Unlock()
}

func (r *run) scan(failTok, resetTok string) string {
	fail := map[int]bool{}
	if failTok != "-" {
		for _, t := range strings.Split(failTok, ",") {
			k, _ := strconv.Atoi(t)
			fail[k] = true
		}
	}
	reset := resetTok == "1"
	var cbs []string
	seen := map[int]bool{}
	err := r.ap.ForAllExpiredFlowRecordsDo(func(key intermediate.FlowKey, rec *intermediate.AggregationFlowRecord) error {
		k := keyToken(key)
		if r.cbYield {
			runtime.Gosched()
		}
		cbs = append(cbs, fmt.Sprintf("%d=%s", k, aggDump(rec)))
		if seen[k] {
			r.fail(fmt.Sprintf("double-export-in-scan key=%d", k))
		}
		seen[k] = true
		if fail[k] {
			return fmt.Errorf("callback failure requested")
		}
		r.expMu.Lock()
		r.phaseExp[k]++
		r.nexports++
		if r.phaseExp[k] > 1 {
			r.fail(fmt.Sprintf("double-export-in-phase key=%d", k))
		}
		r.expMu.Unlock()
		if reset {
			if err := r.ap.ResetStatAndThroughputElementsInRecord(rec.Record); err != nil {
				return err
			}
		}
		return nil
	})
	res := "ok"
	if err != nil {
		res = "fail"
	}
	if len(cbs) == 0 {
		return "cb - " + res
	}
	return "cb " + strings.Join(cbs, ";") + " " + res
}

func (r *run) dump() string {
	type kv struct {
		k int
		d string
	}
	var all []kv
	r.ap.ForAllRecordsDo(func(key intermediate.FlowKey, rec *intermediate.AggregationFlowRecord) error {
		if r.cbYield {
			runtime.Gosched()
		}
		all = append(all, kv{keyToken(key), aggDump(rec)})
		return nil
	})
	sort.Slice(all, func(i, j int) bool { return all[i].k < all[j].k })
	var out []string
	for _, x := range all {
		out = append(out, fmt.Sprintf("%d=%s", x.k, x.d))
	}
	if len(out) == 0 {
		return "-"
	}
	return strings.Join(out, ";")
}

func (r *run) final() string {
	_, items := r.ap.VerifSnapshot()
	type q struct{ k, a, i int64 }
	var qs []q
	for _, it := range items {
		qs = append(qs, q{int64(keyToken(it.Key)), it.Active.Sub(aggBase).Milliseconds(), it.Inactive.Sub(aggBase).Milliseconds()})
	}
	sort.Slice(qs, func(i, j int) bool { return qs[i].k < qs[j].k })
	var out []string
	for _, x := range qs {
		out = append(out, fmt.Sprintf("%d/%d/%d", x.k, x.a, x.i))
	}
	qt := "-"
	if len(out) > 0 {
		qt = strings.Join(out, ",")
	}
	return "final flows " + r.dump() + " queue " + qt
}

// exec runs one operation through the public API and returns its observation
func (r *run) exec(o op) string {
	switch o.toks[0] {
	case "rec":
		if err := r.ap.AggregateMsgByFlowKey(o.msg); err != nil {
			return "err"
		}
		return "ok"
	case "scan":
		return r.scan(o.toks[1], o.toks[2])
	case "nflows":
		return strconv.FormatInt(r.ap.GetNumFlows(), 10)
	case "expiry":
		return strconv.FormatInt(r.ap.GetExpiryFromExpirePriorityQueue().Milliseconds(), 10)
	case "dump":
		return r.dump()
	case "touch":
		// the documented use of ForAllRecordsDo: a callback that WRITES to the record it is shown (here a flag nothing
		// else reads). Two of them, or one and GetRecords, must exclude each other - the race detector sees it if not.
		n := 0
		r.ap.ForAllRecordsDo(func(key intermediate.FlowKey, rec *intermediate.AggregationFlowRecord) error {
			r.ap.SetExternalFieldsFilled(rec, true)
			r.ap.SetCorrelatedFieldsFilled(rec, r.ap.AreCorrelatedFieldsFilled(*rec))
			n++
			return nil
		})
		return strconv.Itoa(n)
	case "getrecs":
		k, _ := strconv.Atoi(o.toks[1])
		if k == 0 {
			return strconv.Itoa(len(r.ap.GetRecords(nil)))
		}
		fk := flowKeyOf(k)
		return strconv.Itoa(len(r.ap.GetRecords(&fk)))
	case "shr":
		r.sharedMu.Lock()
		defer r.sharedMu.Unlock()
		if r.sharedPos >= len(r.shared) {
			return "none"
		}
		s := r.shared[r.sharedPos]
		r.sharedPos++
		if err := r.ap.AggregateMsgByFlowKey(s.msg); err != nil {
			return "err"
		}
		return "ok"
	case "adv":
		d, _ := strconv.Atoi(o.toks[1])
		aggNow.Add(int64(d))
		return "ok"
	}
	return "bad-op"
}

func perturb(rng *rand.Rand) {
	switch rng.Intn(8) {
	case 0, 1, 2:
	case 3:
		runtime.Gosched()
	case 4:
		for i := 0; i < 3; i++ {
			runtime.Gosched()
		}
	case 5:
		time.Sleep(time.Duration(rng.Intn(40)) * time.Microsecond)
	case 6:
		n := rng.Intn(3000)
		x := 0
		for i := 0; i < n; i++ {
			x += i
		}
		_ = x
	case 7:
		time.Sleep(time.Duration(rng.Intn(300)) * time.Microsecond)
	}
}

// barrierSet: a set whose type query blocks the worker that handles it until released. W of them
// pushed after the real messages hold all W workers at once, hence every earlier message has been
// processed completely (a worker takes its next message only after finishing the previous one).
type barrierSet struct {
	entities.Set
	arrived *sync.WaitGroup
	release chan struct{}
}

func (b *barrierSet) GetSetType() entities.ContentType {
	b.arrived.Done()
	<-b.release
	return entities.Template
}

func (r *run) drainPool() {
	if r.workers == 0 {
		return
	}
	var arrived sync.WaitGroup
	arrived.Add(r.workers)
	release := make(chan struct{})
	for i := 0; i < r.workers; i++ {
		inner := entities.NewSet(true)
		inner.PrepareSet(entities.Template, 256)
		m := entities.NewMessage(true)
		m.AddSet(&barrierSet{Set: inner, arrived: &arrived, release: release})
		r.ch <- m
	}
	arrived.Wait()
	close(release)
}

func (r *run) runPar(s segment, seed int64) {
	r.expMu.Lock()
	r.phaseExp = map[int]int{}
	r.expMu.Unlock()
	r.shared = nil
	r.sharedPos = 0
	for _, th := range s.threads {
		if th.kind == "shared" {
			r.shared = th.ops
		}
	}
	// spin barrier: every thread announces itself and spins (yielding) until all have arrived, so that
	// the first operations really start together
	nthreads := 0
	for _, th := range s.threads {
		if th.kind != "shared" {
			nthreads++
		}
	}
	var arrivedN atomic.Int64
	barrier := func() {
		arrivedN.Add(1)
		for arrivedN.Load() < int64(nthreads) {
			runtime.Gosched()
		}
	}
	var wg sync.WaitGroup
	hasPool := false
	ti := 0
	for _, th := range s.threads {
		if th.kind == "shared" {
			continue
		}
		th := th
		idx := ti
		ti++
		wg.Add(1)
		rng := rand.New(rand.NewSource(seed*1009 + int64(idx)))
		if th.kind == "pool" {
			hasPool = true
			go func() {
				defer wg.Done()
				barrier()
				for i, o := range th.ops {
					if i > 0 {
						perturb(rng)
					}
					r.ch <- o.msg
				}
			}()
			continue
		}
		go func() {
			defer wg.Done()
			barrier()
			for i, o := range th.ops {
				if i > 0 || rng.Intn(4) == 0 {
					perturb(rng)
				}
				if r.small {
					id := r.nextOpID.Add(1)
					inv := r.ctr.Add(1)
					obs := r.exec(o)
					res := r.ctr.Add(1)
					r.evMu.Lock()
					r.events = append(r.events,
						event{inv, fmt.Sprintf("%d inv %d %d %s", id, idx, inv, strings.Join(o.toks, " "))},
						event{res, fmt.Sprintf("%d res %d %s", id, res, obs)})
					r.evMu.Unlock()
				} else {
					obs := r.exec(o)
					switch o.toks[0] {
					case "rec", "shr":
						if obs != "ok" {
							r.fail("ingest-" + obs)
						}
					case "expiry":
						// MinExpiryTime + (earliest deadline - now), MinExpiryTime once that is negative: never negative
						if ms, err := strconv.Atoi(obs); err != nil || ms < 0 {
							r.fail("expiry-negative " + obs)
						}
					}
				}
			}
		}()
	}
	wg.Wait()
	if hasPool {
		r.drainPool()
	}
}

func runCase(f []string) string {
	if len(f) < 7 {
		return "bad-op"
	}
	small := f[1] == "small"
	if !small && f[1] != "stress" {
		return "bad-op"
	}
	act, e1 := strconv.Atoi(f[2])
	inact, e2 := strconv.Atoi(f[3])
	workers, e3 := strconv.Atoi(f[4])
	seed, e4 := strconv.ParseInt(f[5], 10, 64)
	procs, e5 := strconv.Atoi(f[6])
	for _, e := range []error{e1, e2, e3, e4, e5} {
		if e != nil {
			return "bad-op"
		}
	}
	segs, err := parseSegments(f[7:])
	if err != nil {
		return "bad-op " + err.Error()
	}
	if procs > 0 {
		runtime.GOMAXPROCS(procs)
	}
	aggNow.Store(0)
	ch := make(chan *entities.Message)
	wn := workers
	if wn == 0 {
		wn = 1 // InitAggregationProcess wants a positive number; the pool is simply not started
	}
	ap, err := intermediate.InitAggregationProcess(intermediate.AggregationInput{
		MessageChan: ch, WorkerNum: wn, CorrelateFields: corrFields,
		AggregateElements: &intermediate.AggregationElements{
			NonStatsElements:                   []string{"flowEndSeconds", "flowEndReason", "tcpState"},
			StatsElements:                      statsElems,
			AggregatedSourceStatsElements:      withSuffix(statsElems, "FromSourceNode"),
			AggregatedDestinationStatsElements: withSuffix(statsElems, "FromDestinationNode"),
			AntreaFlowEndSecondsElements:       []string{"flowEndSecondsFromSourceNode", "flowEndSecondsFromDestinationNode"},
			ThroughputElements:                 []string{"throughput", "reverseThroughput"},
			SourceThroughputElements:           []string{"throughputFromSourceNode", "reverseThroughputFromSourceNode"},
			DestinationThroughputElements:      []string{"throughputFromDestinationNode", "reverseThroughputFromDestinationNode"},
		},
		ActiveExpiryTimeout: time.Duration(act) * time.Millisecond, InactiveExpiryTimeout: time.Duration(inact) * time.Millisecond,
	})
	if err != nil {
		return "err"
	}
	r := &run{ap: ap, small: small, workers: workers, ch: ch, phaseExp: map[int]int{}, cbYield: seed%3 != 0}
	started := make(chan struct{})
	if workers > 0 {
		go func() {
			ap.Start() // creates the workers, then blocks until Stop()
			close(started)
		}()
	}
	for _, s := range segs {
		if s.par {
			r.runPar(s, seed)
		} else {
			r.expMu.Lock()
			r.phaseExp = map[int]int{}
			r.expMu.Unlock()
			for _, o := range s.ops {
				obs := r.exec(o)
				r.expMu.Lock()
				r.phaseExp = map[int]int{}
				r.expMu.Unlock()
				if (o.toks[0] == "rec") && obs != "ok" {
					r.fail("prefix-ingest-" + obs)
				}
			}
		}
	}
	if workers > 0 {
		r.drainPool()
		ap.Stop()
		<-started
	}
	fin := r.final()
	if small {
		sort.Slice(r.events, func(i, j int) bool { return r.events[i].stamp < r.events[j].stamp })
		var evs []string
		for _, e := range r.events {
			evs = append(evs, e.text)
		}
		evs = append(evs, fin)
		out := "hist " + strings.Join(evs, " ; ")
		if r.failure != "" {
			out += " ; harness-fail " + r.failure
		}
		return out
	}
	verdict := "ok"
	if r.failure != "" {
		verdict = "fail:" + strings.ReplaceAll(r.failure, " ", "_")
	}
	return fmt.Sprintf("stress %s nexports=%d %s", verdict, r.nexports, fin)
}

// The process that is started by check.py is a SUPERVISOR: it forwards every case line to a worker
// process (this same binary, VERIF_LIN_CHILD=1, GORACE="halt_on_error=1 exitcode=66") and copies the
// worker's answer. If the worker dies while a case is running - the race detector's exit code 66, a
// Go runtime fatal error ("concurrent map writes"), a hang - the supervisor answers that case with
//
//	crash rc=<exit code> kind=<data-race|runtime-fatal|hang|exit> <report excerpt, newlines written as \n>
//
// and starts a fresh worker for the next case. So there is exactly one answer line per case whatever
// happens, and a data race is an observation like any other (also under `check.py replay`).
func main() {
	if os.Getenv("VERIF_LIN_CHILD") == "1" {
		workerMain()
		return
	}
	supervise()
}

type child struct {
	cmd    *exec.Cmd
	stdin  io.WriteCloser
	stdout *bufio.Reader
	stderr *bytes.Buffer
}

func startChild() (*child, error) {
	cmd := exec.Command(os.Args[0])
	gorace := os.Getenv("VERIF_LIN_GORACE")
	if gorace == "" {
		gorace = "halt_on_error=1 exitcode=66 atexit_sleep_ms=100"
	}
	env := []string{"VERIF_LIN_CHILD=1", "GORACE=" + gorace}
	for _, e := range os.Environ() {
		if !strings.HasPrefix(e, "GORACE=") && !strings.HasPrefix(e, "VERIF_LIN_CHILD=") {
			env = append(env, e)
		}
	}
	cmd.Env = env
	in, err := cmd.StdinPipe()
	if err != nil {
		return nil, err
	}
	outp, err := cmd.StdoutPipe()
	if err != nil {
		return nil, err
	}
	c := &child{cmd: cmd, stdin: in, stdout: bufio.NewReaderSize(outp, 1<<22), stderr: &bytes.Buffer{}}
	cmd.Stderr = c.stderr
	if err := cmd.Start(); err != nil {
		return nil, err
	}
	return c, nil
}

func excerpt(errText string, limit int) string {
	ls := strings.Split(errText, "\n")
	start := 0
	for i, l := range ls {
		if strings.Contains(l, "WARNING: DATA RACE") || strings.HasPrefix(l, "fatal error:") || strings.HasPrefix(l, "panic:") {
			start = i
			break
		}
	}
	ls = ls[start:]
	if len(ls) > limit {
		ls = ls[:limit]
	}
	return strings.Join(ls, "\\n")
}

func supervise() {
	in := bufio.NewReaderSize(os.Stdin, 1<<22)
	out := bufio.NewWriterSize(os.Stdout, 1<<16)
	defer out.Flush()
	var c *child
	lateCrash := false
	finish := func() {
		if c == nil {
			return
		}
		c.stdin.Close()
		if err := c.cmd.Wait(); err != nil {
			// a report after the last answer (no case to pin it on): make the whole run fail loudly
			fmt.Fprintf(os.Stderr, "harness-lin worker ended with %v after its last answer\n%s\n", err, c.stderr.String())
			lateCrash = true
		}
		c = nil
	}
	for {
		line, err := in.ReadString('\n')
		if len(line) > 0 {
			f := strings.Fields(line)
			res := "skip"
			if len(f) > 0 && !strings.HasPrefix(f[0], "#") {
				if c == nil {
					var e error
					if c, e = startChild(); e != nil {
						fmt.Fprintf(os.Stderr, "cannot start worker: %v\n", e)
						os.Exit(4)
					}
				}
				type ans struct {
					s   string
					err error
				}
				ch := make(chan ans, 1)
				cc := c
				go func() {
					if !strings.HasSuffix(line, "\n") {
						line += "\n"
					}
					if _, e := io.WriteString(cc.stdin, line); e != nil {
						ch <- ans{"", e}
						return
					}
					s, e := cc.stdout.ReadString('\n')
					ch <- ans{s, e}
				}()
				var a ans
				hung := false
				select {
				case a = <-ch:
				case <-time.After(150 * time.Second):
					hung = true
					c.cmd.Process.Kill()
					a = <-ch
				}
				if a.err == nil && strings.HasSuffix(a.s, "\n") && !hung {
					res = strings.TrimRight(a.s, "\r\n")
					if res == "hang" { // the worker gives up after this answer
						c.stdin.Close()
						c.cmd.Wait()
						c = nil
					}
				} else {
					c.stdin.Close()
					werr := c.cmd.Wait()
					rc := -1
					if ee, ok := werr.(*exec.ExitError); ok {
						rc = ee.ExitCode()
					} else if werr == nil {
						rc = 0
					}
					text := c.stderr.String()
					kind := "exit"
					switch {
					case hung:
						kind = "hang"
					case rc == 66 || strings.Contains(text, "WARNING: DATA RACE"):
						kind = "data-race"
					case strings.Contains(text, "fatal error:") || strings.Contains(text, "panic:"):
						kind = "runtime-fatal"
					}
					res = fmt.Sprintf("crash rc=%d kind=%s %s", rc, kind, excerpt(text, 70))
					c = nil
				}
			}
			out.WriteString(res)
			out.WriteByte('\n')
			out.Flush()
		}
		if err != nil {
			break
		}
	}
	finish()
	out.Flush()
	if lateCrash {
		os.Exit(66)
	}
}

func workerMain() {
	klogFlags := flag.NewFlagSet("klog", flag.ContinueOnError)
	klog.InitFlags(klogFlags)
	klogFlags.Set("logtostderr", "false")
	klogFlags.Set("alsologtostderr", "false")
	klogFlags.Set("stderrthreshold", "FATAL")
	klogFlags.Set("v", "0")
	klog.SetOutput(discard{})
	klog.LogToStderr(false)

	registry.LoadRegistry()
	intermediate.VerifSetClock(func() time.Time { return aggBase.Add(time.Duration(aggNow.Load()) * time.Millisecond) })
	in := bufio.NewReaderSize(os.Stdin, 1<<22)
	out := bufio.NewWriterSize(os.Stdout, 1<<16)
	defer out.Flush()
	for {
		line, err := in.ReadString('\n')
		if len(line) > 0 {
			f := strings.Fields(line)
			res := "skip"
			if len(f) > 0 && !strings.HasPrefix(f[0], "#") {
				if f[0] != "lin" {
					res = "bad-op"
				} else {
					done := make(chan string, 1)
					go func() {
						defer func() {
							if p := recover(); p != nil {
								done <- fmt.Sprintf("panic %v", p)
							}
						}()
						done <- runCase(f)
					}()
					select {
					case res = <-done:
					case <-time.After(120 * time.Second):
						res = "hang"
					}
				}
			}
			out.WriteString(res)
			out.WriteByte('\n')
			out.Flush() // one line per case, flushed: a later crash (race report, fatal error) loses nothing
			if res == "hang" {
				os.Exit(3)
			}
		}
		if err != nil {
			break
		}
	}
}

type discard struct{}

func (discard) Write(p []byte) (int, error) { return len(p), nil }
