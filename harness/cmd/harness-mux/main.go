// harness-mux (property C12): runs the REAL collector (collector.InitCollectingProcess + Start() on
// 127.0.0.1:0) under many concurrently connected raw clients and reports what the consumer of
// GetMsgChan() received, the connection count, the latency of Stop(), and what is left of the
// collector afterwards (goroutines, listening socket, race reports). Built with -race.
//
// Line protocol: one scenario per input line, run one after the other, one observation line each.
//
//	# ...                                                  -> skip
//	mux scenario <transport> <seed> <stopmid> <clients> [shared=<r>] [buf=<n>]
//	                                                        -> obs order=<d:s,d:s,...|-> bad=<n> nconn=<n> nconnstop=<n>
//	                                                              stopms=<n> afterstop=<n> g0=<n> g1=<n> grem=<n> rebind=<0|1>
//	                                                              ownsock=<0|1> race=<0|1> w=<n,n,...> pc=<codes> del=<n> overlap=<n>
//	                                                              nconnmax=<n> raceon=<0|1> to=<flags|-> [## free text]
//	                                                        | harness-error <what>
//
//	<transport> tcp | udp | tls
//	<stopmid>   - | <k>      Stop() is called while traffic flows, once k messages have been delivered
//	<clients>   comma-separated <n><b>; client i (0-based) uses observation domain i+1 and sends n complete
//	            messages whose IPFIX sequence number is 0..n-1 (0 = a template set, the others one data record
//	            carrying (domain, sequence number) again in its two fields), then
//	            b = c  closes
//	                a  writes the first half of one more message and closes (abrupt close mid-message; over UDP, where the
//	                   fragment is a datagram of its own: at most its first 16 bytes - never a decodable message)
//	                i  stays connected and silent until the collector has been stopped
//	                h  writes the first half of one more message and stays connected until the collector has been stopped
//	                s  (tls) connects over TCP, sends 3 bytes of a ClientHello and stalls until the collector has been
//	                   stopped; all other clients connect after it (elsewhere: like i)
//	            <n>w<ms> (e.g. 12w6000) a SLOW session: the client connects, sends the first max(1, n/2) of its n messages,
//	                   stays connected and idle for <ms> milliseconds (1..30000), then sends the rest and closes like c. The
//	                   collector arms no deadline on a connection: everything must be delivered (TCP/TLS: exactly), however
//	                   long the pause. The scenario lasts at least <ms>.
//	shared=<r>  (r >= 1) ALL clients export in observation domain 1 with template id 256 - they share ONE stored
//	            template in the collector - and every client sends the template set again as every r-th of its
//	            messages (numbers 0, r, 2r, ...: an ordinary message in the client's numbering), so that template
//	            (re-)definitions by one exporter run concurrently with data-record decoding by the others. The
//	            clients stay distinguishable: the IPFIX sequence-number field carries (client number i+1) << 16 |
//	            message number (the collector does not interpret it), the data record carries (i+1, number) in its
//	            two fields; deliveries are attributed by that client number, not by the header's domain, and are
//	            reported as (i+1):number exactly as in the other scenarios. n <= 65535.
//	buf=<n>     n in {0, 512, 1024, 65535}: CollectorInput.MaxBufferSize of the collector (default, and the only value
//	            accepted over udp: 65535). The option sizes the UDP receive buffer and nothing else: over TCP/TLS what must
//	            be delivered is the same whatever n is - also the 1 KB, 4.8 KB and 40 KB messages of the scenarios whose
//	            seed is a multiple of 4 (numRecords). (Over UDP a small buffer legitimately truncates datagrams.)
//	            The options may come in either order, each at most once.
//
// Observation:
//
//	order      (domain:sequence) of every message received on GetMsgChan(), in the order received
//	           (shared: (client number:message number), both taken from the sequence-number field)
//	bad        delivered messages whose payload does not match their header (shared: also a domain other than 1,
//	           a record that does not carry the client and message number of the header, a template set where a
//	           data set was sent or vice versa)
//	nconn      GetNumConnToCollector() after all closing clients have disconnected and everything they wrote has
//	           been delivered (TCP/TLS: polled up to 2 s for the number of clients that stay connected)
//	nconnstop  GetNumConnToCollector() right after Stop() returned
//	stopms     latency of Stop() (the consumer keeps draining); 10000+ = it did not return within 10 s
//	afterstop  messages received after Stop() had returned (decided before each receive: never over-counts)
//	g0, g1     runtime.NumGoroutine() before InitCollectingProcess / after Stop and after the harness's own
//	           goroutines ended (polled up to 2 s until back to g0)
//	grem       goroutines with a pkg/collector frame (other than the caller of Start) that are BLOCKED
//	           (IO wait, select, chan send, ...) in a stack dump taken by the goroutine that called Stop(), right after
//	           it returned - a goroutine that Stop() waited for can no longer block
//	rebind     the collector's address could be bound again by that same goroutine right after Stop() returned
//	ownsock    the re-bind failed and /proc shows that THIS process still owns a socket on the port
//	race       the race detector wrote a report during the scenario (GORACE log_path; the harness re-executes
//	           itself with GORACE="halt_on_error=0 log_path=..." when it is not set)
//	w          messages each client wrote completely; pc per client: e = delivered equals written, p = a strict
//	           prefix, s = an in-order duplicate-free sub-sequence, x = none of these
//	overlap    largest number of clients connected at the same time (from start/end stamps)
//	to         timeouts hit (deliver, clients, stop, dial, write): a scenario with a flag is re-run once by the caller
//
// Scheduling perturbation: every client and the consumer insert seeded random runtime.Gosched() calls and
// sleeps of up to 300 us; TCP/TLS clients split some messages into two writes.
package main

import (
	"bufio"
	"crypto/ecdsa"
	"crypto/elliptic"
	crand "crypto/rand"
	"crypto/tls"
	"crypto/x509"
	"crypto/x509/pkix"
	"encoding/binary"
	"encoding/pem"
	"flag"
	"fmt"
	"math/big"
	"math/rand"
	"net"
	"os"
	"path/filepath"
	"runtime"
	"sort"
	"strconv"
	"strings"
	"sync"
	"sync/atomic"
	"syscall"
	"time"

	"k8s.io/klog/v2"

	"github.com/vmware/go-ipfix/pkg/collector"
	"github.com/vmware/go-ipfix/pkg/entities"
	"github.com/vmware/go-ipfix/pkg/registry"
)

// ---- timeouts ---------------------------------------------------------------------------------

var (
	startWait   = 5 * time.Second
	deliverWait = 30 * time.Second
	clientsWait = 60 * time.Second
	nconnPoll   = 2 * time.Second
	stopHang    = 10 * time.Second
	leakPoll    = 2 * time.Second
	writeDL     = 10 * time.Second
)

// ---- certificates (as in harness-tls) -------------------------------------------------------

type keyPair struct{ certPEM, keyPEM []byte }

type ca struct {
	cert *x509.Certificate
	key  *ecdsa.PrivateKey
}

var serial int64

func nextSerial() *big.Int { return big.NewInt(atomic.AddInt64(&serial, 1) + 1000) }

func must(err error) {
	if err != nil {
		fmt.Fprintln(os.Stderr, "harness-mux:", err)
		os.Exit(2)
	}
}

func newCA(cn string) *ca {
	key, err := ecdsa.GenerateKey(elliptic.P256(), crand.Reader)
	must(err)
	now := time.Now()
	tpl := &x509.Certificate{
		SerialNumber:          nextSerial(),
		Subject:               pkix.Name{CommonName: cn, Organization: []string{"verif"}},
		NotBefore:             now.Add(-24 * time.Hour),
		NotAfter:              now.Add(30 * 24 * time.Hour),
		IsCA:                  true,
		BasicConstraintsValid: true,
		KeyUsage:              x509.KeyUsageCertSign | x509.KeyUsageDigitalSignature,
	}
	der, err := x509.CreateCertificate(crand.Reader, tpl, tpl, &key.PublicKey, key)
	must(err)
	cert, err := x509.ParseCertificate(der)
	must(err)
	return &ca{cert: cert, key: key}
}

func leaf(issuer *ca, cn string, dns []string, ips []net.IP) keyPair {
	key, err := ecdsa.GenerateKey(elliptic.P256(), crand.Reader)
	must(err)
	now := time.Now()
	tpl := &x509.Certificate{
		SerialNumber: nextSerial(),
		Subject:      pkix.Name{CommonName: cn, Organization: []string{"verif"}},
		NotBefore:    now.Add(-time.Hour),
		NotAfter:     now.Add(24 * time.Hour),
		KeyUsage:     x509.KeyUsageDigitalSignature,
		ExtKeyUsage:  []x509.ExtKeyUsage{x509.ExtKeyUsageServerAuth},
		DNSNames:     dns,
		IPAddresses:  ips,
	}
	der, err := x509.CreateCertificate(crand.Reader, tpl, issuer.cert, &key.PublicKey, issuer.key)
	must(err)
	kb, err := x509.MarshalPKCS8PrivateKey(key)
	must(err)
	return keyPair{
		certPEM: pem.EncodeToMemory(&pem.Block{Type: "CERTIFICATE", Bytes: der}),
		keyPEM:  pem.EncodeToMemory(&pem.Block{Type: "PRIVATE KEY", Bytes: kb}),
	}
}

var (
	serverCert keyPair
	clientTLS  *tls.Config
)

func mintAll() {
	root := newCA("verif mux CA")
	serverCert = leaf(root, "localhost", []string{"localhost"}, []net.IP{net.ParseIP("127.0.0.1")})
	pool := x509.NewCertPool()
	pool.AddCert(root.cert)
	clientTLS = &tls.Config{RootCAs: pool, ServerName: "localhost", MinVersion: tls.VersionTLS12}
}

// ---- IPFIX encoder ----------------------------------------------------------------------------

// a template message: template 256 = (sourceIPv4Address, destinationIPv4Address);
// a data message: one data record (a, b) of that template.
// seqField is what goes into the header's sequence-number field.
// nrec > 1 repeats the data record: message sizes up to 8*nrec+20 bytes (past the collector reader's 4096-byte buffer).
func buildMsg(domain, seqField uint32, template bool, a, b uint32, nrec int) []byte {
	if template {
		m := make([]byte, 32)
		binary.BigEndian.PutUint16(m[0:], 10)
		binary.BigEndian.PutUint16(m[2:], 32)
		binary.BigEndian.PutUint32(m[4:], uint32(time.Now().Unix()))
		binary.BigEndian.PutUint32(m[8:], seqField)
		binary.BigEndian.PutUint32(m[12:], domain)
		binary.BigEndian.PutUint16(m[16:], 2)
		binary.BigEndian.PutUint16(m[18:], 16)
		binary.BigEndian.PutUint16(m[20:], 256)
		binary.BigEndian.PutUint16(m[22:], 2)
		binary.BigEndian.PutUint16(m[24:], 8)
		binary.BigEndian.PutUint16(m[26:], 4)
		binary.BigEndian.PutUint16(m[28:], 12)
		binary.BigEndian.PutUint16(m[30:], 4)
		return m
	}
	if nrec < 1 {
		nrec = 1
	}
	size := 20 + 8*nrec
	m := make([]byte, size)
	binary.BigEndian.PutUint16(m[0:], 10)
	binary.BigEndian.PutUint16(m[2:], uint16(size))
	binary.BigEndian.PutUint32(m[4:], uint32(time.Now().Unix()))
	binary.BigEndian.PutUint32(m[8:], seqField)
	binary.BigEndian.PutUint32(m[12:], domain)
	binary.BigEndian.PutUint16(m[16:], 256)
	binary.BigEndian.PutUint16(m[18:], uint16(4+8*nrec))
	for j := 0; j < nrec; j++ {
		binary.BigEndian.PutUint32(m[20+8*j:], a)
		binary.BigEndian.PutUint32(m[24+8*j:], b)
	}
	return m
}

// numRecords is the number of (identical) records data message k of client i carries: 1 in three scenarios out of
// four; in the others (seed % 4 == 0) every client mixes in messages of 600 records (4820 bytes, larger than the
// reader's bufio buffer) and, over TCP/TLS, of 5000 records (40020 bytes); UDP datagrams stay below 1300 bytes.
func (sc *scenario) numRecords(i int, k uint32) int {
	if sc.seed%4 != 0 {
		return 1
	}
	udp := sc.transport == "udp"
	switch (uint32(i) + k) % 8 {
	case 2:
		if udp {
			return 150
		}
		return 600
	case 5:
		if udp {
			return 40
		}
		return 5000
	case 6:
		return 130
	}
	return 1
}

const sharedDomain = 1

// clientMsg is message number k of client i (0-based) of the scenario.
//
//	own domains: domain i+1, sequence field k, k = 0 is the template, the others carry (domain, k)
//	shared:      domain 1, sequence field (i+1)<<16 | k, every r-th message is the template, the others carry (i+1, k)
func (sc *scenario) clientMsg(i int, k uint32) []byte {
	if sc.shared > 0 {
		id := uint32(i + 1)
		return buildMsg(sharedDomain, id<<16|k, k%uint32(sc.shared) == 0, id, k, sc.numRecords(i, k))
	}
	d := uint32(i + 1)
	return buildMsg(d, k, k == 0, d, k, sc.numRecords(i, k))
}

// identify: which client's message, and which number (what `order` reports)
func (sc *scenario) identify(m *entities.Message) delivery {
	if sc.shared > 0 {
		return delivery{m.GetSequenceNum() >> 16, m.GetSequenceNum() & 0xffff}
	}
	return delivery{m.GetObsDomainID(), m.GetSequenceNum()}
}

// payloadOK: the decoded message carries what clientMsg put in
func (sc *scenario) payloadOK(m *entities.Message) bool {
	set := m.GetSet()
	if set == nil {
		return false
	}
	d := sc.identify(m)
	isTemplate := d.seq == 0
	if sc.shared > 0 {
		if m.GetObsDomainID() != sharedDomain {
			return false
		}
		isTemplate = d.seq%uint32(sc.shared) == 0
	}
	recs := set.GetRecords()
	if isTemplate {
		return set.GetSetType() == entities.Template && len(recs) == 1 && recs[0].GetTemplateID() == 256
	}
	if set.GetSetType() != entities.Data || d.domain == 0 || len(recs) != sc.numRecords(int(d.domain)-1, d.seq) {
		return false
	}
	ip4 := func(e entities.InfoElementWithValue) (uint32, bool) {
		ip := e.GetIPAddressValue().To4()
		if ip == nil {
			return 0, false
		}
		return binary.BigEndian.Uint32(ip), true
	}
	for _, rec := range recs {
		els := rec.GetOrderedElementList()
		if len(els) != 2 {
			return false
		}
		a, ok1 := ip4(els[0])
		b, ok2 := ip4(els[1])
		if !(ok1 && ok2 && a == d.domain && b == d.seq) {
			return false
		}
	}
	return true
}

// ---- scenario ------------------------------------------------------------------------------------

type clientSpec struct {
	n      int
	beh    byte
	idleMs int // beh 'w': pause between the first max(1, n/2) messages and the rest
}

func (c clientSpec) holds() bool { return c.beh == 'i' || c.beh == 'h' || c.beh == 's' }

type scenario struct {
	transport string
	seed      int64
	stopMid   int // -1 = none
	clients   []clientSpec
	shared    int // 0 = every client has its own observation domain; r > 0 = one domain, template re-sent every r-th message
	buf       int // CollectorInput.MaxBufferSize
}

const defaultBuf = 65535

func parseScenario(f []string) (scenario, bool) {
	var sc scenario
	sc.buf = defaultBuf
	if len(f) < 4 || len(f) > 6 {
		return sc, false
	}
	haveShared, haveBuf := false, false
	for _, o := range f[4:] {
		switch {
		case strings.HasPrefix(o, "shared=") && !haveShared:
			r, err := strconv.Atoi(strings.TrimPrefix(o, "shared="))
			if err != nil || r < 1 || r > 65535 {
				return sc, false
			}
			sc.shared, haveShared = r, true
		case strings.HasPrefix(o, "buf=") && !haveBuf:
			n, err := strconv.Atoi(strings.TrimPrefix(o, "buf="))
			if err != nil || !(n == 0 || n == 512 || n == 1024 || n == 65535) || (f[0] == "udp" && n != defaultBuf) {
				return sc, false
			}
			sc.buf, haveBuf = n, true
		default:
			return sc, false
		}
	}
	f = f[:4]
	if f[0] != "tcp" && f[0] != "udp" && f[0] != "tls" {
		return sc, false
	}
	sc.transport = f[0]
	seed, err := strconv.ParseInt(f[1], 10, 64)
	if err != nil || seed < 0 {
		return sc, false
	}
	sc.seed = seed
	sc.stopMid = -1
	if f[2] != "-" {
		k, err := strconv.Atoi(f[2])
		if err != nil || k < 0 {
			return sc, false
		}
		sc.stopMid = k
	}
	for _, t := range strings.Split(f[3], ",") {
		if len(t) < 2 {
			return sc, false
		}
		if w := strings.IndexByte(t, 'w'); w >= 0 { // <n>w<ms>
			n, err1 := strconv.Atoi(t[:w])
			ms, err2 := strconv.Atoi(t[w+1:])
			if err1 != nil || err2 != nil || n < 0 || n > 100000 || ms < 1 || ms > 30000 || (sc.shared > 0 && n > 65535) {
				return sc, false
			}
			sc.clients = append(sc.clients, clientSpec{n, 'w', ms})
			continue
		}
		n, err := strconv.Atoi(t[:len(t)-1])
		b := t[len(t)-1]
		if err != nil || n < 0 || n > 100000 || !strings.ContainsRune("caihs", rune(b)) {
			return sc, false
		}
		if sc.shared > 0 && n > 65535 {
			return sc, false
		}
		sc.clients = append(sc.clients, clientSpec{n, b, 0})
	}
	if len(sc.clients) == 0 || len(sc.clients) > 256 {
		return sc, false
	}
	return sc, true
}

type clientResult struct {
	written    int
	dialErr    bool
	writeErr   bool
	start, end time.Time
}

type delivery struct{ domain, seq uint32 } // domain = connection: the client's own domain, or its number in shared scenarios

type run struct {
	sc          scenario
	cp          *collector.CollectingProcess
	addr        string
	delivered   atomic.Int64
	log         []delivery // owned by the consumer until consumerDone
	bad         int
	afterStop   int
	stopRet     atomic.Bool
	stopRequest atomic.Bool
	lastDeliv   atomic.Int64 // unix nano of the last delivery
}

func perturb(rng *rand.Rand) {
	switch r := rng.Intn(100); {
	case r < 20:
		runtime.Gosched()
	case r < 25:
		time.Sleep(time.Duration(rng.Intn(300)) * time.Microsecond)
	}
}

func (r *run) consumer(stop <-chan struct{}, done chan<- struct{}) {
	defer close(done)
	rng := rand.New(rand.NewSource(r.sc.seed*7919 + 17))
	ch := r.cp.GetMsgChan()
	for {
		after := r.stopRet.Load() // decided BEFORE the receive: true only if Stop() had already returned
		select {
		case m := <-ch:
			if m == nil {
				continue
			}
			if after {
				r.afterStop++
			}
			r.log = append(r.log, r.sc.identify(m))
			if !r.sc.payloadOK(m) {
				r.bad++
			}
			r.lastDeliv.Store(time.Now().UnixNano())
			r.delivered.Add(1)
			if x := rng.Intn(100); x < 10 {
				runtime.Gosched()
			} else if x < 12 {
				time.Sleep(time.Duration(rng.Intn(200)) * time.Microsecond)
			}
		case <-stop:
			return
		}
	}
}

func (r *run) dial() (net.Conn, error) {
	d := &net.Dialer{Timeout: 5 * time.Second}
	switch r.sc.transport {
	case "tcp":
		return d.Dial("tcp", r.addr)
	case "tls":
		return tls.DialWithDialer(d, "tcp", r.addr, clientTLS)
	default:
		return d.Dial("udp", r.addr)
	}
}

func (r *run) client(i int, res *clientResult, release <-chan struct{}) {
	spec := r.sc.clients[i]
	rng := rand.New(rand.NewSource(r.sc.seed*1000003 + int64(i)))
	jitter := 2000
	if r.sc.transport == "udp" { // spread the first datagrams (the templates): a lost template makes the whole client undecodable
		jitter += 500 * len(r.sc.clients)
	}
	hasStall := false
	for _, c := range r.sc.clients {
		if c.beh == 's' {
			hasStall = true
		}
	}
	if spec.beh == 's' && r.sc.transport == "tls" {
		// a peer that connects and stalls in the middle of the TLS handshake: 3 bytes of a ClientHello
		// record header, then silence, socket kept open until the collector has been stopped
		c, err := (&net.Dialer{Timeout: 5 * time.Second}).Dial("tcp", r.addr)
		res.start = time.Now()
		defer func() { res.end = time.Now() }()
		if err != nil {
			res.dialErr = true
			<-release
			return
		}
		c.Write([]byte{0x16, 0x03, 0x01})
		<-release
		c.Close()
		return
	}
	if hasStall { // the stalled peer connects first; everybody else clearly after it
		time.Sleep(40 * time.Millisecond)
	}
	time.Sleep(time.Duration(rng.Intn(jitter)) * time.Microsecond)
	var conn net.Conn
	var err error
	for attempt := 0; attempt < 3; attempt++ {
		conn, err = r.dial()
		if err == nil || r.stopRequest.Load() {
			break
		}
		time.Sleep(20 * time.Millisecond)
	}
	res.start = time.Now()
	defer func() { res.end = time.Now() }()
	if err != nil {
		res.dialErr = true
		if spec.holds() {
			<-release
		}
		return
	}
	udp := r.sc.transport == "udp"
	pause := time.Duration(len(r.sc.clients)) * 400 * time.Microsecond
	write := func(b []byte) error {
		conn.SetWriteDeadline(time.Now().Add(writeDL))
		if !udp && len(b) > 2 && rng.Intn(4) == 0 { // two segments
			cut := 1 + rng.Intn(len(b)-1)
			if _, err := conn.Write(b[:cut]); err != nil {
				return err
			}
			perturb(rng)
			_, err := conn.Write(b[cut:])
			return err
		}
		_, err := conn.Write(b)
		return err
	}
	pauseAt := -1 // 'w': idle, connected, before message number pauseAt (after the last one if there is only one)
	if spec.beh == 'w' {
		pauseAt = spec.n / 2
		if pauseAt < 1 {
			pauseAt = 1
		}
	}
	idle := func() {
		t := time.NewTimer(time.Duration(spec.idleMs) * time.Millisecond)
		defer t.Stop()
		select {
		case <-t.C:
		case <-release: // the scenario is over (Stop() under traffic): do not hold it up
		}
	}
	for k := 0; k < spec.n; k++ {
		if k == pauseAt {
			idle()
		}
		if err := write(r.sc.clientMsg(i, uint32(k))); err != nil {
			res.writeErr = true
			break
		}
		res.written = k + 1
		perturb(rng)
		if udp && (k%4 == 3 || k == 0) { // small bursts: loopback buffers overflow easily
			time.Sleep(pause)
		}
	}
	if pauseAt >= spec.n && !res.writeErr {
		idle()
	}
	if (spec.beh == 'a' || spec.beh == 'h') && !res.writeErr {
		b := r.sc.clientMsg(i, uint32(spec.n))
		half := len(b) / 2
		if udp && half > 16 {
			// over UDP the fragment is a datagram of its own and nothing follows it: keep it shorter than message
			// header + set header (20 bytes), so that - as with the 28-byte messages - it can never be decoded. (The
			// collector does not compare the header's length field with the datagram: half of a 130-record message
			// would be delivered as a message with the records that fit, which is not what a/h are about.)
			half = 16
		}
		conn.SetWriteDeadline(time.Now().Add(writeDL))
		conn.Write(b[:half])
	}
	if spec.holds() {
		<-release
	}
	conn.Close()
}

// ---- what is left after Stop ----------------------------------------------------------------------

func allStacks() string {
	buf := make([]byte, 1<<20)
	for {
		n := runtime.Stack(buf, true)
		if n < len(buf) {
			return string(buf[:n])
		}
		buf = make([]byte, 2*len(buf))
	}
}

const collectorPkg = "github.com/vmware/go-ipfix/pkg/collector."

// collectorGoroutines returns the stack blocks of goroutines that run pkg/collector code, except the caller of Start()
func collectorGoroutines(dump string) (blocked, other []string) {
	for _, blk := range strings.Split(dump, "\n\n") {
		if !strings.Contains(blk, collectorPkg) || strings.Contains(blk, "(*CollectingProcess).Start(") {
			continue
		}
		// a frame of the package, not merely "created by"
		frame := false
		for _, l := range strings.Split(blk, "\n") {
			if strings.HasPrefix(l, collectorPkg) {
				frame = true
			}
		}
		if !frame {
			continue
		}
		head := blk
		if i := strings.IndexByte(blk, '\n'); i >= 0 {
			head = blk[:i]
		}
		state := ""
		if i := strings.IndexByte(head, '['); i >= 0 {
			state = strings.TrimSuffix(head[i+1:], "]:")
			if j := strings.IndexByte(state, ','); j >= 0 {
				state = state[:j]
			}
		}
		switch state {
		case "running", "runnable", "syscall", "":
			other = append(other, blk)
		default:
			blocked = append(blocked, blk)
		}
	}
	return
}

func oneLine(s string, max int) string {
	s = strings.ReplaceAll(s, "\n", " | ")
	s = strings.ReplaceAll(s, "\t", " ")
	s = strings.ReplaceAll(s, "##", "#")
	if len(s) > max {
		s = s[:max] + "..."
	}
	return s
}

func tryRebind(transport, addr string) error {
	if transport == "udp" {
		ua, err := net.ResolveUDPAddr("udp", addr)
		if err != nil {
			return err
		}
		c, err := net.ListenUDP("udp", ua)
		if err != nil {
			return err
		}
		c.Close()
		return nil
	}
	l, err := net.Listen("tcp", addr)
	if err != nil {
		return err
	}
	l.Close()
	return nil
}

// ownsSocketOnPort: /proc/self/net/{tcp,udp} has a socket (LISTEN for tcp) bound to the port whose inode is one of our fds
func ownsSocketOnPort(transport string, port int) bool {
	file, wantState := "/proc/self/net/tcp", "0A"
	if transport == "udp" {
		file, wantState = "/proc/self/net/udp", ""
	}
	data, err := os.ReadFile(file)
	if err != nil {
		return false
	}
	inodes := map[string]bool{}
	for _, l := range strings.Split(string(data), "\n")[1:] {
		f := strings.Fields(l)
		if len(f) < 10 {
			continue
		}
		la := strings.Split(f[1], ":")
		if len(la) != 2 {
			continue
		}
		p, err := strconv.ParseInt(la[1], 16, 32)
		if err != nil || int(p) != port {
			continue
		}
		if wantState != "" && f[3] != wantState {
			continue
		}
		inodes[f[9]] = true
	}
	if len(inodes) == 0 {
		return false
	}
	ents, err := os.ReadDir("/proc/self/fd")
	if err != nil {
		return false
	}
	for _, e := range ents {
		t, err := os.Readlink(filepath.Join("/proc/self/fd", e.Name()))
		if err == nil && strings.HasPrefix(t, "socket:[") && inodes[strings.TrimSuffix(strings.TrimPrefix(t, "socket:["), "]")] {
			return true
		}
	}
	return false
}

// ---- race log --------------------------------------------------------------------------------------

var raceLogPath string // "<log_path>.<pid>"
var raceLogOff int64

func raceLogInit() {
	for _, kv := range strings.Fields(os.Getenv("GORACE")) {
		if strings.HasPrefix(kv, "log_path=") {
			raceLogPath = strings.TrimPrefix(kv, "log_path=") + "." + strconv.Itoa(os.Getpid())
		}
	}
}

// newRaceReports returns what the race detector wrote since the last call
func newRaceReports() string {
	if raceLogPath == "" {
		return ""
	}
	data, err := os.ReadFile(raceLogPath)
	if err != nil || int64(len(data)) <= raceLogOff {
		return ""
	}
	s := string(data[raceLogOff:])
	raceLogOff = int64(len(data))
	return s
}

// reexecWithRaceLog: GORACE is read when the process starts, so set it and start again
func reexecWithRaceLog() {
	if !raceEnabled || strings.Contains(os.Getenv("GORACE"), "log_path=") || os.Getenv("VERIF_MUX_REEXEC") != "" {
		return
	}
	dir := os.Getenv("VERIF_MUX_DIR")
	if dir == "" {
		dir = "/verif/.work/C12"
		if st, err := os.Stat(dir); err != nil || !st.IsDir() {
			dir = os.TempDir()
		}
	}
	base := filepath.Join(dir, fmt.Sprintf("race-%d-%d", os.Getpid(), time.Now().UnixNano()))
	env := append(os.Environ(), "GORACE=halt_on_error=0 log_path="+base, "VERIF_MUX_REEXEC=1", "VERIF_MUX_RMLOG=1")
	exe, err := os.Executable()
	if err != nil {
		return
	}
	syscall.Exec(exe, os.Args, env) // same pid: the log is base.<pid>
}

// ---- one scenario -----------------------------------------------------------------------------------

func maxOverlap(res []clientResult) int {
	type ev struct {
		t time.Time
		d int
	}
	var evs []ev
	for _, r := range res {
		if r.dialErr || r.start.IsZero() || r.end.IsZero() {
			continue
		}
		evs = append(evs, ev{r.start, 1}, ev{r.end, -1})
	}
	sort.Slice(evs, func(i, j int) bool {
		if evs[i].t.Equal(evs[j].t) {
			return evs[i].d < evs[j].d
		}
		return evs[i].t.Before(evs[j].t)
	})
	cur, best := 0, 0
	for _, e := range evs {
		cur += e.d
		if cur > best {
			best = cur
		}
	}
	return best
}

func perConnCode(written int, got []uint32, udp bool) byte {
	inc := true
	for k := range got {
		if int(got[k]) >= written || (k > 0 && got[k] <= got[k-1]) {
			inc = false
		}
	}
	if !inc {
		return 'x'
	}
	contiguous := true
	for k := range got {
		if int(got[k]) != k {
			contiguous = false
		}
	}
	switch {
	case contiguous && len(got) == written:
		return 'e'
	case contiguous:
		return 'p'
	default:
		return 's'
	}
}

func runScenario(sc scenario) string {
	var flags []string
	var detail []string
	newRaceReports() // whatever came before is not this scenario's
	g0 := runtime.NumGoroutine()

	in := collector.CollectorInput{Address: "127.0.0.1:0", Protocol: "tcp", MaxBufferSize: uint16(sc.buf), TemplateTTL: 0}
	switch sc.transport {
	case "udp":
		in.Protocol = "udp"
	case "tls":
		in.IsEncrypted = true
		in.ServerCert, in.ServerKey = serverCert.certPEM, serverCert.keyPEM
	}
	cp, err := collector.InitCollectingProcess(in)
	if err != nil {
		return "harness-error init"
	}
	r := &run{sc: sc, cp: cp}
	startDone := make(chan struct{})
	go func() {
		defer close(startDone)
		cp.Start()
	}()
	deadline := time.Now().Add(startWait)
	for r.addr == "" {
		if a := cp.GetAddress(); a != nil {
			r.addr = a.String()
			break
		}
		if time.Now().After(deadline) {
			return "harness-error collector-did-not-start"
		}
		time.Sleep(time.Millisecond)
	}
	_, portStr, _ := net.SplitHostPort(r.addr)
	port, _ := strconv.Atoi(portStr)

	stopConsumer := make(chan struct{})
	consumerDone := make(chan struct{})
	go r.consumer(stopConsumer, consumerDone)

	res := make([]clientResult, len(sc.clients))
	release := make(chan struct{})
	var closers, all sync.WaitGroup
	holders := 0
	for i := range sc.clients {
		all.Add(1)
		if sc.clients[i].holds() {
			holders++
		} else {
			closers.Add(1)
		}
		go func(i int) {
			defer all.Done()
			if !sc.clients[i].holds() {
				defer closers.Done()
			}
			r.client(i, &res[i], release)
		}(i)
	}
	waitWG := func(wg *sync.WaitGroup, d time.Duration) bool {
		ch := make(chan struct{})
		go func() { wg.Wait(); close(ch) }()
		select {
		case <-ch:
			return true
		case <-time.After(d):
			return false
		}
	}
	quiesce := func(idle, max time.Duration) {
		end := time.Now().Add(max)
		for time.Now().Before(end) {
			last := r.lastDeliv.Load()
			if last == 0 {
				last = end.Add(-max).UnixNano()
			}
			if time.Since(time.Unix(0, last)) >= idle {
				return
			}
			time.Sleep(10 * time.Millisecond)
		}
	}

	nconn, nconnMax := int64(-1), int64(0)
	sample := func() int64 {
		v := cp.GetNumConnToCollector()
		if v > nconnMax {
			nconnMax = v
		}
		return v
	}
	if sc.stopMid >= 0 {
		// Stop while traffic flows: once stopMid messages have arrived (or, if they never do, when the clients are done)
		closersDone := make(chan struct{})
		go func() { closers.Wait(); close(closersDone) }()
		end := time.Now().Add(deliverWait)
	wait:
		for r.delivered.Load() < int64(sc.stopMid) && time.Now().Before(end) {
			select {
			case <-closersDone:
				quiesce(200*time.Millisecond, 3*time.Second)
				break wait
			case <-time.After(200 * time.Microsecond):
				sample()
			}
		}
		nconn = sample()
	} else {
		if !waitWG(&closers, clientsWait) {
			flags = append(flags, "clients")
		}
		if sc.transport == "udp" {
			quiesce(300*time.Millisecond, 10*time.Second)
			nconn = sample()
		} else {
			want := int64(0)
			for i := range res {
				// holders have written by the time the closers are done? not necessarily: wait for what the scenario says
				want += int64(sc.clients[i].n)
			}
			end := time.Now().Add(deliverWait)
			for r.delivered.Load() < want && time.Now().Before(end) {
				sample()
				time.Sleep(2 * time.Millisecond)
			}
			if r.delivered.Load() < want {
				flags = append(flags, "deliver")
			}
			// every closer has disconnected and all it wrote has been delivered: the count must come down to the holders
			end = time.Now().Add(nconnPoll)
			stable := 0
			for {
				nconn = sample()
				if nconn == int64(holders) {
					stable++
					if stable >= 3 {
						break
					}
				} else {
					stable = 0
				}
				if time.Now().After(end) {
					break
				}
				time.Sleep(10 * time.Millisecond)
			}
		}
	}

	// Stop(), with holders still connected; the goroutine that calls it looks at what is left the moment it returns
	type after struct {
		ms        int64
		rebindErr error
		dump      string
		nconnStop int64
	}
	afterCh := make(chan after, 1)
	r.stopRequest.Store(true)
	go func() {
		t0 := time.Now()
		cp.Stop()
		ms := time.Since(t0).Milliseconds()
		r.stopRet.Store(true)
		rbErr := tryRebind(sc.transport, r.addr)
		dump := allStacks()
		afterCh <- after{ms, rbErr, dump, cp.GetNumConnToCollector()}
	}()
	var a after
	hung := false
	select {
	case a = <-afterCh:
	case <-time.After(stopHang):
		hung = true
		blocked, other := collectorGoroutines(allStacks())
		a = after{ms: stopHang.Milliseconds() + 1, dump: "", nconnStop: -1}
		flags = append(flags, "stop")
		detail = append(detail, "Stop() did not return within 10 s; collector goroutines: "+oneLine(strings.Join(append(blocked, other...), " || "), 3000))
	}
	rebind, ownsock, grem := 1, 0, 0
	if hung {
		rebind = 0
		if ownsSocketOnPort(sc.transport, port) {
			ownsock = 1
		}
		blocked, _ := collectorGoroutines(allStacks())
		grem = len(blocked)
	} else {
		if a.rebindErr != nil {
			rebind = 0
			if ownsSocketOnPort(sc.transport, port) {
				ownsock = 1
			}
			detail = append(detail, "re-bind right after Stop(): "+oneLine(a.rebindErr.Error(), 200))
		}
		blocked, _ := collectorGoroutines(a.dump)
		grem = len(blocked)
		if grem > 0 {
			detail = append(detail, "collector goroutines still blocked when Stop() returned: "+oneLine(strings.Join(blocked, " || "), 2500))
		}
	}

	// keep draining a little: anything arriving now arrives after Stop() returned
	time.Sleep(50 * time.Millisecond)
	close(release)
	if !waitWG(&all, clientsWait) {
		flags = append(flags, "clients")
	}
	// (after a hang the process is tainted - a Stop() is still pending: the observation says so and the caller starts a fresh process)
	close(stopConsumer)
	select {
	case <-consumerDone:
	case <-time.After(5 * time.Second):
		return "harness-error consumer-stuck"
	}
	select {
	case <-startDone:
	case <-time.After(leakPoll):
	}
	g1 := runtime.NumGoroutine()
	end := time.Now().Add(leakPoll)
	for g1 > g0 && time.Now().Before(end) {
		time.Sleep(5 * time.Millisecond)
		g1 = runtime.NumGoroutine()
	}
	if g1 > g0 {
		b, o := collectorGoroutines(allStacks())
		detail = append(detail, fmt.Sprintf("goroutines %d -> %d; collector goroutines left: %s", g0, g1, oneLine(strings.Join(append(b, o...), " || "), 2500)))
	}
	race := 0
	if rep := newRaceReports(); strings.Contains(rep, "DATA RACE") {
		race = 1
		detail = append(detail, "race detector: "+oneLine(rep, 3000))
	}

	// render
	per := make([][]uint32, len(sc.clients))
	var ord strings.Builder
	for k, d := range r.log {
		if k > 0 {
			ord.WriteByte(',')
		}
		fmt.Fprintf(&ord, "%d:%d", d.domain, d.seq)
		if d.domain >= 1 && int(d.domain) <= len(per) {
			per[d.domain-1] = append(per[d.domain-1], d.seq)
		}
	}
	if len(r.log) == 0 {
		ord.WriteByte('-')
	}
	var w []string
	codes := make([]byte, len(sc.clients))
	for i := range sc.clients {
		w = append(w, strconv.Itoa(res[i].written))
		codes[i] = perConnCode(res[i].written, per[i], sc.transport == "udp")
		if res[i].dialErr && sc.stopMid < 0 { // after a Stop under traffic a refused connection is expected
			flags = append(flags, "dial")
		}
		if res[i].writeErr && sc.stopMid < 0 {
			flags = append(flags, "write")
		}
	}
	fl := "-"
	if len(flags) > 0 {
		sort.Strings(flags)
		fl = strings.Join(dedup(flags), "+")
	}
	raceon := 0
	if raceEnabled && raceLogPath != "" {
		raceon = 1
	}
	out := fmt.Sprintf("obs order=%s bad=%d nconn=%d nconnstop=%d stopms=%d afterstop=%d g0=%d g1=%d grem=%d rebind=%d ownsock=%d race=%d w=%s pc=%s del=%d overlap=%d nconnmax=%d raceon=%d to=%s",
		ord.String(), r.bad, max64(nconn, 0), max64(a.nconnStop, 0), a.ms, r.afterStop, g0, g1, grem, rebind, ownsock, race,
		strings.Join(w, ","), string(codes), len(r.log), maxOverlap(res), nconnMax, raceon, fl)
	if hung {
		out += " tainted=1"
	}
	if len(detail) > 0 {
		out += " ## " + strings.Join(detail, " ;; ")
	}
	return out
}

func max64(a, b int64) int64 {
	if a > b {
		return a
	}
	return b
}

func dedup(s []string) []string {
	var o []string
	for i, x := range s {
		if i == 0 || x != s[i-1] {
			o = append(o, x)
		}
	}
	return o
}

// ---- main --------------------------------------------------------------------------------------------

type discard struct{}

func (discard) Write(p []byte) (int, error) { return len(p), nil }

func main() {
	reexecWithRaceLog()
	raceLogInit()

	klogFlags := flag.NewFlagSet("klog", flag.ContinueOnError)
	klog.InitFlags(klogFlags)
	klogFlags.Set("logtostderr", "false")
	klogFlags.Set("alsologtostderr", "false")
	klogFlags.Set("stderrthreshold", "FATAL")
	klogFlags.Set("v", "0")
	klog.SetOutput(discard{})
	klog.LogToStderr(false)

	registry.LoadRegistry()
	mintAll()

	in := bufio.NewReaderSize(os.Stdin, 1<<20)
	out := bufio.NewWriterSize(os.Stdout, 1<<16)
	tainted := false
	for {
		line, err := in.ReadString('\n')
		if len(line) > 0 {
			f := strings.Fields(strings.TrimRight(line, "\r\n"))
			var res string
			switch {
			case len(f) == 0 || strings.HasPrefix(f[0], "#"):
				res = "skip"
			case tainted:
				res = "harness-error tainted-by-earlier-hang"
			case len(f) >= 2 && f[0] == "mux" && f[1] == "scenario":
				if sc, ok := parseScenario(f[2:]); ok {
					res = func() (s string) {
						defer func() {
							if p := recover(); p != nil {
								s = "harness-error panic " + oneLine(fmt.Sprint(p), 200)
							}
						}()
						return runScenario(sc)
					}()
					if strings.Contains(res, " tainted=1") || strings.HasPrefix(res, "harness-error") {
						tainted = true
					}
				} else {
					res = "bad-op"
				}
			default:
				res = "bad-op"
			}
			out.WriteString(res)
			out.WriteByte('\n')
			out.Flush()
		}
		if err != nil {
			break
		}
	}
	if os.Getenv("VERIF_MUX_RMLOG") != "" && raceLogPath != "" {
		os.Remove(raceLogPath)
	}
	os.Exit(0)
}
