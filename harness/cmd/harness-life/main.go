// harness-life (property C14): runs REAL exporting processes (exporter.InitExportingProcess, with their
// background goroutines) against listeners owned by the harness, under the race detector, and reports what
// the listener received (with arrival times), what every SendSet returned and when, when the peer closed,
// when the CloseConnToCollector calls started and had all returned, and what the runtime reported.
//
// Line protocol: ALL ops are read from stdin first, the scenarios are then run concurrently by a worker
// pool, and exactly one observation line per op is printed, in input order.
//
//	# ...                          -> skip
//	life udp <id> dom=<n> refresh=<s> slack=<ms> grace=<ms> closeat=<ms> closers=<k> reps=<r>
//	         [unrefreshable=<tid> early=<ms>] sends=<send>!<send>... tail=<count>~<every ms>~<desc>
//	         (unrefreshable / early are for the specification only: the harness does what the sends say)
//	life tcp <id> dom=<n> check=<ms> slack=<ms> grace=<ms> mode=<full|half|idle|cclose> peerat=<ms|->
//	         closeat=<ms> closers=<k> reps=<r> sends=<send>!... loop=<start>~<every>~<until>~<desc>|- tail=...
//	    <send> = <at ms>~<desc>     <desc> = <path 0|1|2>~<t|d>~<set id>~<tid@ie=value,...;...>
//
//	-> udp sends=<s>,... dgrams=<t>:<hex>,... close=<start>,<done>,<calls>,<returned> bg=<n> panic=<0|1> race=<0|1>
//	-> tcp sends=<s>,... chunks=<t>:<hex>,... peer=<t|-> readend=<t|-> close=... bg=<n> panic=<0|1> race=<0|1>
//	   <s> = <e<i>|l|t>:<t call>:<t return>:<ok|err|hung>:<bytes>
//	         hung = the SendSet call had not returned sendWatchdog (2 s) after it was made: the watchdog records it (with
//	         the time it gave up as <t return>), the application goroutine is abandoned (it makes no further call) and
//	         the session goes on to its end - the harness itself never waits for a call of the library without a bound.
//	-> harness-error <what> | bad-op
//
// Scenario times are ms, observed times are MICROSECONDS, both since InitExportingProcess returned. The application is ONE goroutine (scheduled sends,
// then the loop, then - once every Close call has returned - the tail sends); the Close calls come from
// <closers> other goroutines, <reps> calls each, started together at <closeat>.
//   udp: plain UDP listener; every datagram is recorded until 1.5 s after the Close calls returned.
//   tcp: plain TCP listener; mode full / idle: the harness closes the accepted connection at <peerat>;
//        slow: it never closes, advertises a small receive window and starts READING only at readat=<ms> (a collector that
//        is slow to read: the exporter's Write blocks meanwhile, across several connection probes);
//        half: it shuts down its sending side only (the exporter reads EOF) and keeps reading;
//        cclose: it never closes; it reads until the exporter's end of stream.
//   bg = background goroutines of THIS exporter (goroutines that inherited the pprof label set around
//        InitExportingProcess) still alive after polling for at most 2 s after the Close calls returned.
//   race = the race detector's log (GORACE=log_path=...) is not empty at the end of the batch (not
//        attributable to one scenario; `check.py replay` re-runs a scenario alone).
package main

import (
	"bufio"
	"bytes"
	"context"
	"encoding/hex"
	"errors"
	"flag"
	"fmt"
	"io"
	"math"
	"net"
	"os"
	"path/filepath"
	"runtime"
	"runtime/pprof"
	"strconv"
	"strings"
	"sync"
	"sync/atomic"
	"syscall"
	"time"

	"k8s.io/klog/v2"

	"github.com/vmware/go-ipfix/pkg/entities"
	"github.com/vmware/go-ipfix/pkg/exporter"
	"github.com/vmware/go-ipfix/pkg/registry"
)

// ---- tokens ------------------------------------------------------------------------------------------

func unhex(s string) ([]byte, error) {
	if s == "-" {
		return nil, nil
	}
	return hex.DecodeString(s)
}

func hexs(b []byte) string {
	if len(b) == 0 {
		return "-"
	}
	return hex.EncodeToString(b)
}

// IE token: ent:id:ty:len:hexname
func parseIE(tok string) (*entities.InfoElement, error) {
	p := strings.Split(tok, ":")
	if len(p) != 5 {
		return nil, fmt.Errorf("bad ie token")
	}
	ent, e1 := strconv.ParseUint(p[0], 10, 32)
	id, e2 := strconv.ParseUint(p[1], 10, 16)
	ty, e3 := strconv.ParseUint(p[2], 10, 8)
	ln, e4 := strconv.ParseUint(p[3], 10, 16)
	name, e5 := unhex(p[4])
	for _, e := range []error{e1, e2, e3, e4, e5} {
		if e != nil {
			return nil, e
		}
	}
	return entities.NewInfoElement(string(name), uint16(id), entities.IEDataType(ty), uint32(ent), uint16(ln)), nil
}

// value tokens: n<decimal> (bit pattern), t / f, x<hex> (x- empty)
// tmpl: the element goes into a TEMPLATE record. The library has no constructor for dateTimeMicroseconds /
// dateTimeNanoseconds elements (and DecodeAndCreateInfoElementWithValue refuses them), but a template record asks
// nothing of an element except IsValueEmpty(): an application describes such a field of the IANA registry with
// the constructor of the 8-byte carrier and the value 0. Data records with these types stay unsupported.
func mkElem(ie *entities.InfoElement, tok string, tmpl bool) (entities.InfoElementWithValue, error) {
	if tok == "" {
		return nil, fmt.Errorf("empty value")
	}
	kind, rest := tok[0], tok[1:]
	var n uint64
	var b []byte
	var err error
	switch kind {
	case 'n':
		n, err = strconv.ParseUint(rest, 10, 64)
	case 'x':
		b, err = unhex(rest)
	case 't', 'f':
	default:
		err = fmt.Errorf("bad value kind")
	}
	if err != nil {
		return nil, err
	}
	num := kind == 'n'
	byt := kind == 'x'
	bad := fmt.Errorf("value kind mismatch")
	switch ie.DataType {
	case entities.Unsigned8:
		if !num || n > math.MaxUint8 {
			return nil, bad
		}
		return entities.NewUnsigned8InfoElement(ie, uint8(n)), nil
	case entities.Unsigned16:
		if !num || n > math.MaxUint16 {
			return nil, bad
		}
		return entities.NewUnsigned16InfoElement(ie, uint16(n)), nil
	case entities.Unsigned32:
		if !num || n > math.MaxUint32 {
			return nil, bad
		}
		return entities.NewUnsigned32InfoElement(ie, uint32(n)), nil
	case entities.Unsigned64:
		if !num {
			return nil, bad
		}
		return entities.NewUnsigned64InfoElement(ie, n), nil
	case entities.Signed8:
		if !num || n > math.MaxUint8 {
			return nil, bad
		}
		return entities.NewSigned8InfoElement(ie, int8(uint8(n))), nil
	case entities.Signed16:
		if !num || n > math.MaxUint16 {
			return nil, bad
		}
		return entities.NewSigned16InfoElement(ie, int16(uint16(n))), nil
	case entities.Signed32:
		if !num || n > math.MaxUint32 {
			return nil, bad
		}
		return entities.NewSigned32InfoElement(ie, int32(uint32(n))), nil
	case entities.Signed64:
		if !num {
			return nil, bad
		}
		return entities.NewSigned64InfoElement(ie, int64(n)), nil
	case entities.Float32:
		if !num || n > math.MaxUint32 {
			return nil, bad
		}
		return entities.NewFloat32InfoElement(ie, math.Float32frombits(uint32(n))), nil
	case entities.Float64:
		if !num {
			return nil, bad
		}
		return entities.NewFloat64InfoElement(ie, math.Float64frombits(n)), nil
	case entities.Boolean:
		if kind != 't' && kind != 'f' {
			return nil, bad
		}
		return entities.NewBoolInfoElement(ie, kind == 't'), nil
	case entities.MacAddress:
		if !byt {
			return nil, bad
		}
		return entities.NewMacAddressInfoElement(ie, net.HardwareAddr(b)), nil
	case entities.String:
		if !byt {
			return nil, bad
		}
		return entities.NewStringInfoElement(ie, string(b)), nil
	case entities.DateTimeSeconds:
		if !num || n > math.MaxUint32 {
			return nil, bad
		}
		return entities.NewDateTimeSecondsInfoElement(ie, uint32(n)), nil
	case entities.DateTimeMilliseconds:
		if !num {
			return nil, bad
		}
		return entities.NewDateTimeMillisecondsInfoElement(ie, n), nil
	case entities.Ipv4Address, entities.Ipv6Address:
		if !byt {
			return nil, bad
		}
		return entities.NewIPAddressInfoElement(ie, net.IP(b)), nil
	case entities.OctetArray:
		if !byt {
			return nil, bad
		}
		return entities.NewOctetArrayInfoElement(ie, b), nil
	case entities.DateTimeMicroseconds, entities.DateTimeNanoseconds:
		if !tmpl || !num || n != 0 {
			return nil, bad
		}
		return entities.NewUnsigned64InfoElement(ie, 0), nil
	}
	return nil, fmt.Errorf("unsupported element type")
}

// elems token: ie=value,ie=value  ("-" = empty)
func parseElems(tok string, tmpl bool) ([]entities.InfoElementWithValue, error) {
	if tok == "-" {
		return []entities.InfoElementWithValue{}, nil
	}
	var out []entities.InfoElementWithValue
	for _, p := range strings.Split(tok, ",") {
		kv := strings.SplitN(p, "=", 2)
		if len(kv) != 2 {
			return nil, fmt.Errorf("bad elem")
		}
		ie, err := parseIE(kv[0])
		if err != nil {
			return nil, err
		}
		e, err := mkElem(ie, kv[1], tmpl)
		if err != nil {
			return nil, err
		}
		out = append(out, e)
	}
	return out, nil
}

// <path>~<t|d>~<setid>~<recs>
type desc struct {
	path  string
	ty    entities.ContentType
	setID uint16
	recs  string
}

func parseDesc(p []string) (desc, error) {
	if len(p) != 4 {
		return desc{}, fmt.Errorf("bad set descriptor")
	}
	d := desc{path: p[0], recs: p[3]}
	switch p[1] {
	case "t":
		d.ty = entities.Template
	case "d":
		d.ty = entities.Data
	default:
		return desc{}, fmt.Errorf("bad set type")
	}
	id, err := strconv.ParseUint(p[2], 10, 16)
	if err != nil {
		return desc{}, err
	}
	d.setID = uint16(id)
	if _, err := d.build(); err != nil { // validate once, up front
		return desc{}, err
	}
	return d, nil
}

// build makes a fresh set through the public builders (a set is not shared between sends)
func (d desc) build() (entities.Set, error) {
	set := entities.NewSet(false)
	if err := set.PrepareSet(d.ty, d.setID); err != nil {
		return nil, err
	}
	if d.recs == "-" {
		return set, nil
	}
	for _, r := range strings.Split(d.recs, ";") {
		p := strings.SplitN(r, "@", 2)
		if len(p) != 2 {
			return nil, fmt.Errorf("bad record")
		}
		tid, err := strconv.ParseUint(p[0], 10, 16)
		if err != nil {
			return nil, err
		}
		elems, err := parseElems(p[1], d.ty == entities.Template)
		if err != nil {
			return nil, err
		}
		switch d.path {
		case "0":
			err = set.AddRecord(elems, uint16(tid))
		case "1":
			err = set.AddRecordWithExtraElements(elems, 2, uint16(tid))
		case "2":
			err = set.AddRecordV2(elems, uint16(tid))
		default:
			err = fmt.Errorf("bad path")
		}
		if err != nil {
			return nil, err
		}
	}
	return set, nil
}

type timedSend struct {
	at int
	d  desc
}

type scenario struct {
	udp                            bool
	id                             string
	dom                            uint32
	refresh, check                 int
	mode                           string
	peerAt                         int // -1 = never
	readAt                         int // mode slow: the harness starts reading at this time (ms)
	closeAt, closers, reps         int
	sends                          []timedSend
	hasLoop                        bool
	loopStart, loopEvery, loopTill int
	loopDesc                       desc
	tailCount, tailEvery           int
	tailDesc                       desc
}

func kv(toks []string, key string) (string, bool) {
	for _, t := range toks {
		if strings.HasPrefix(t, key+"=") {
			return t[len(key)+1:], true
		}
	}
	return "", false
}

func kvInt(toks []string, key string) (int, bool) {
	s, ok := kv(toks, key)
	if !ok {
		return 0, false
	}
	n, err := strconv.Atoi(s)
	return n, err == nil && n >= 0
}

func parseScenario(f []string) (*scenario, error) {
	if len(f) < 2 {
		return nil, fmt.Errorf("short")
	}
	sc := &scenario{udp: f[0] == "udp", id: f[1], peerAt: -1}
	if f[0] != "udp" && f[0] != "tcp" {
		return nil, fmt.Errorf("protocol")
	}
	toks := f[2:]
	var ok bool
	dom, ok := kvInt(toks, "dom")
	if !ok {
		return nil, fmt.Errorf("dom")
	}
	sc.dom = uint32(dom)
	if sc.udp {
		if sc.refresh, ok = kvInt(toks, "refresh"); !ok || sc.refresh < 1 {
			return nil, fmt.Errorf("refresh")
		}
	} else {
		if sc.check, ok = kvInt(toks, "check"); !ok || sc.check < 1 {
			return nil, fmt.Errorf("check")
		}
		if sc.mode, ok = kv(toks, "mode"); !ok || (sc.mode != "full" && sc.mode != "half" && sc.mode != "idle" && sc.mode != "cclose" && sc.mode != "slow") {
			return nil, fmt.Errorf("mode")
		}
		if p, ok := kv(toks, "peerat"); ok && p != "-" {
			n, err := strconv.Atoi(p)
			if err != nil || n < 0 {
				return nil, fmt.Errorf("peerat")
			}
			sc.peerAt = n
		}
		if (sc.mode == "cclose" || sc.mode == "slow") != (sc.peerAt < 0) {
			return nil, fmt.Errorf("peerat/mode")
		}
		if sc.mode == "slow" {
			if sc.readAt, ok = kvInt(toks, "readat"); !ok || sc.readAt < 0 {
				return nil, fmt.Errorf("readat")
			}
		}
	}
	if sc.closeAt, ok = kvInt(toks, "closeat"); !ok {
		return nil, fmt.Errorf("closeat")
	}
	if sc.closers, ok = kvInt(toks, "closers"); !ok || sc.closers < 1 {
		return nil, fmt.Errorf("closers")
	}
	if sc.reps, ok = kvInt(toks, "reps"); !ok || sc.reps < 1 {
		return nil, fmt.Errorf("reps")
	}
	s, ok := kv(toks, "sends")
	if !ok {
		return nil, fmt.Errorf("sends")
	}
	if s != "-" {
		for _, x := range strings.Split(s, "!") {
			p := strings.Split(x, "~")
			if len(p) != 5 {
				return nil, fmt.Errorf("send token")
			}
			at, err := strconv.Atoi(p[0])
			if err != nil || at < 0 {
				return nil, fmt.Errorf("send time")
			}
			d, err := parseDesc(p[1:])
			if err != nil {
				return nil, err
			}
			sc.sends = append(sc.sends, timedSend{at, d})
		}
	}
	if l, ok := kv(toks, "loop"); ok && l != "-" {
		p := strings.Split(l, "~")
		if len(p) != 7 {
			return nil, fmt.Errorf("loop token")
		}
		var e1, e2, e3 error
		sc.loopStart, e1 = strconv.Atoi(p[0])
		sc.loopEvery, e2 = strconv.Atoi(p[1])
		sc.loopTill, e3 = strconv.Atoi(p[2])
		if e1 != nil || e2 != nil || e3 != nil || sc.loopEvery < 1 {
			return nil, fmt.Errorf("loop numbers")
		}
		d, err := parseDesc(p[3:])
		if err != nil {
			return nil, err
		}
		sc.loopDesc, sc.hasLoop = d, true
	}
	if l, ok := kv(toks, "tail"); ok && l != "-" {
		p := strings.Split(l, "~")
		if len(p) != 6 {
			return nil, fmt.Errorf("tail token")
		}
		var e1, e2 error
		sc.tailCount, e1 = strconv.Atoi(p[0])
		sc.tailEvery, e2 = strconv.Atoi(p[1])
		if e1 != nil || e2 != nil {
			return nil, fmt.Errorf("tail numbers")
		}
		d, err := parseDesc(p[2:])
		if err != nil {
			return nil, err
		}
		sc.tailDesc = d
	}
	return sc, nil
}

// ---- observation --------------------------------------------------------------------------------------

type sendObs struct {
	kind        string
	tCall, tRet int64
	ok          bool
	n           int
	hung        bool
}

// sendWatchdog: a SendSet call that has not returned after this long is recorded as hung
const sendWatchdog = 2 * time.Second

// callInfo: the SendSet call the application goroutine is in
type callInfo struct {
	kind string
	t    int64
}

type timed struct {
	at time.Time
	b  []byte
}

type run struct {
	sc        *scenario
	t0        time.Time
	mu        sync.Mutex
	sends     []sendObs
	recv      []timed
	panicked  atomic.Bool
	panicText atomic.Value
	// per-call watchdog: the application goroutine publishes the call it is in (atomically: the only
	// happens-before edge this adds goes from the application goroutine to the watchdog, which never touches
	// the exporter); `abandoned` (under mu) is set by the watchdog together with the hung record
	call      atomic.Pointer[callInfo]
	abandoned bool
	hungCh    chan struct{}
}

func newRun(sc *scenario) *run { return &run{sc: sc, hungCh: make(chan struct{})} }

func (r *run) us() int64 { return time.Since(r.t0).Microseconds() }

func (r *run) sleepUntil(at int) {
	if d := time.Until(r.t0.Add(time.Duration(at) * time.Millisecond)); d > 0 {
		time.Sleep(d)
	}
}

func (r *run) guard(where string) {
	if p := recover(); p != nil {
		r.panicked.Store(true)
		r.panicText.Store(fmt.Sprintf("%s: %v", where, p))
	}
}

func (r *run) send(ep *exporter.ExportingProcess, kind string, d desc) {
	set, err := d.build()
	if err != nil {
		t := r.us()
		r.mu.Lock()
		r.sends = append(r.sends, sendObs{kind, t, t, false, 0, false})
		r.mu.Unlock()
		return
	}
	tc := r.us()
	r.call.Store(&callInfo{kind, tc})
	n, err := ep.SendSet(set)
	tr := r.us()
	r.mu.Lock()
	r.call.Store(nil)
	gone := r.abandoned
	if !gone {
		r.sends = append(r.sends, sendObs{kind, tc, tr, err == nil, n, false})
	}
	r.mu.Unlock()
	if gone { // the watchdog gave this call up (and said so in the observation): the application makes no further call
		runtime.Goexit()
	}
}

// watchdog: until the application goroutine is done, look every 20 ms whether it has been inside one SendSet call
// for sendWatchdog; if so record that call as hung, abandon the application goroutine and tell the session
func (r *run) watchdog(appDone <-chan struct{}) {
	tk := time.NewTicker(20 * time.Millisecond)
	defer tk.Stop()
	for {
		select {
		case <-appDone:
			return
		case <-tk.C:
		}
		ci := r.call.Load()
		if ci == nil || r.us()-ci.t < sendWatchdog.Microseconds() {
			continue
		}
		r.mu.Lock()
		still := r.call.Load() == ci // the same call, not yet returned
		if still {
			r.abandoned = true
			r.sends = append(r.sends, sendObs{ci.kind, ci.t, r.us(), false, 0, true})
		}
		r.mu.Unlock()
		if still {
			close(r.hungCh)
			return
		}
	}
}

// waitApp: the application goroutine has finished, or one of its SendSet calls hangs (recorded); false = neither
// within 15 s (the goroutine is stuck outside SendSet)
func (r *run) waitApp(appDone <-chan struct{}) bool {
	select {
	case <-appDone:
	case <-r.hungCh:
	case <-time.After(15 * time.Second):
		return false
	}
	return true
}

// app is the application goroutine: scheduled sends, the loop, and - after every Close has returned - the tail
func (r *run) app(ep *exporter.ExportingProcess, closed <-chan struct{}, done chan<- struct{}) {
	defer close(done)
	defer r.guard("application goroutine")
	sc := r.sc
	for i, s := range sc.sends {
		if sc.hasLoop && s.at >= sc.loopStart {
			break
		}
		r.sleepUntil(s.at)
		r.send(ep, fmt.Sprintf("e%d", i), s.d)
	}
	if sc.hasLoop {
		for at := sc.loopStart; at <= sc.loopTill; at += sc.loopEvery {
			r.sleepUntil(at)
			r.send(ep, "l", sc.loopDesc)
		}
		for i, s := range sc.sends {
			if s.at >= sc.loopStart {
				r.sleepUntil(s.at)
				r.send(ep, fmt.Sprintf("e%d", i), s.d)
			}
		}
	}
	<-closed
	for k := 0; k < sc.tailCount; k++ {
		r.send(ep, "t", sc.tailDesc)
		time.Sleep(time.Duration(sc.tailEvery) * time.Millisecond)
	}
}

type closeObs struct {
	start, done     int64
	calls, returned int
}

// closeAll starts <closers> goroutines that call CloseConnToCollector <reps> times each, and waits for them
func (r *run) closeAll(ep *exporter.ExportingProcess) closeObs {
	sc := r.sc
	r.sleepUntil(sc.closeAt)
	co := closeObs{calls: sc.closers * sc.reps}
	var returned atomic.Int64
	var wg sync.WaitGroup
	gate := make(chan struct{})
	for c := 0; c < sc.closers; c++ {
		wg.Add(1)
		go func() {
			defer wg.Done()
			defer r.guard("CloseConnToCollector")
			<-gate
			for k := 0; k < sc.reps; k++ {
				ep.CloseConnToCollector()
				returned.Add(1)
			}
		}()
	}
	co.start = r.us()
	close(gate)
	all := make(chan struct{})
	go func() { wg.Wait(); close(all) }()
	select {
	case <-all:
	case <-time.After(5 * time.Second):
	}
	co.done = r.us()
	co.returned = int(returned.Load())
	return co
}

// bgCount: goroutines carrying the pprof label of this scenario
func bgCount(id string) int {
	var buf bytes.Buffer
	if err := pprof.Lookup("goroutine").WriteTo(&buf, 1); err != nil {
		return -1
	}
	needle := fmt.Sprintf("%q:%q", "verifscn", id)
	total := 0
	for _, blk := range strings.Split(buf.String(), "\n\n") {
		if !strings.Contains(blk, needle) {
			continue
		}
		first := strings.TrimSpace(strings.SplitN(blk, "\n", 2)[0])
		if n, err := strconv.Atoi(strings.SplitN(first, " ", 2)[0]); err == nil {
			total += n
		}
	}
	return total
}

func bgLeft(id string) int {
	deadline := time.Now().Add(2 * time.Second)
	for {
		n := bgCount(id)
		if n <= 0 || time.Now().After(deadline) {
			if n < 0 {
				return 0
			}
			return n
		}
		time.Sleep(20 * time.Millisecond)
	}
}

func initExporter(id string, in exporter.ExporterInput) (ep *exporter.ExportingProcess, err error) {
	pprof.Do(context.Background(), pprof.Labels("verifscn", id), func(context.Context) {
		ep, err = exporter.InitExportingProcess(in)
	})
	return
}

func (r *run) sendsToken() string {
	r.mu.Lock()
	defer r.mu.Unlock()
	if len(r.sends) == 0 {
		return "-"
	}
	var p []string
	for _, s := range r.sends {
		res := "err"
		if s.ok {
			res = "ok"
		} else if s.hung {
			res = "hung"
		}
		p = append(p, fmt.Sprintf("%s:%d:%d:%s:%d", s.kind, s.tCall, s.tRet, res, s.n))
	}
	return strings.Join(p, ",")
}

func (r *run) recvToken() string {
	r.mu.Lock()
	defer r.mu.Unlock()
	if len(r.recv) == 0 {
		return "-"
	}
	var p []string
	for _, x := range r.recv {
		ms := x.at.Sub(r.t0).Microseconds()
		if ms < 0 {
			ms = 0
		}
		p = append(p, fmt.Sprintf("%d:%s", ms, hex.EncodeToString(x.b)))
	}
	return strings.Join(p, ",")
}

func b2i(b bool) int {
	if b {
		return 1
	}
	return 0
}

// ---- UDP ----------------------------------------------------------------------------------------------

func runUDP(sc *scenario) string {
	pc, err := net.ListenUDP("udp", &net.UDPAddr{IP: net.ParseIP("127.0.0.1")})
	if err != nil {
		return "harness-error listen"
	}
	defer pc.Close()
	_ = pc.SetReadBuffer(4 << 20)
	r := newRun(sc)
	stop := make(chan struct{})
	readerDone := make(chan struct{})
	go func() {
		defer close(readerDone)
		buf := make([]byte, 65536)
		if sc.mode == "slow" { // a collector that is slow to read: nothing is taken off the socket before <readat>
			r.sleepUntil(sc.readAt)
		}
		for {
			pc.SetReadDeadline(time.Now().Add(50 * time.Millisecond))
			n, _, err := pc.ReadFromUDP(buf)
			now := time.Now()
			if err == nil {
				r.mu.Lock()
				r.recv = append(r.recv, timed{now, append([]byte(nil), buf[:n]...)})
				r.mu.Unlock()
				continue
			}
			select {
			case <-stop:
				return
			default:
			}
		}
	}()
	ep, err := initExporter(sc.id, exporter.ExporterInput{
		CollectorAddress:    pc.LocalAddr().String(),
		CollectorProtocol:   "udp",
		ObservationDomainID: sc.dom,
		TempRefTimeout:      uint32(sc.refresh),
	})
	r.t0 = time.Now()
	if err != nil {
		close(stop)
		<-readerDone
		return "harness-error init"
	}
	closed := make(chan struct{})
	appDone := make(chan struct{})
	go r.app(ep, closed, appDone)
	go r.watchdog(appDone)
	co := r.closeAll(ep)
	close(closed)
	left := bgLeft(sc.id)
	if !r.waitApp(appDone) {
		return "harness-error application-goroutine-stuck"
	}
	// no byte may be written after Close returned: keep listening
	if d := time.Until(r.t0.Add(time.Duration(co.done)*time.Microsecond + 1500*time.Millisecond)); d > 0 {
		time.Sleep(d)
	}
	close(stop)
	<-readerDone
	return fmt.Sprintf("udp sends=%s dgrams=%s close=%d,%d,%d,%d bg=%d panic=%d race=0",
		r.sendsToken(), r.recvToken(), co.start, co.done, co.calls, co.returned, left, b2i(r.panicked.Load()))
}

// ---- TCP ----------------------------------------------------------------------------------------------

// smallRcvBuf makes the accepted sockets advertise a small receive window (mode slow), so that a reader that does not
// read blocks the exporter's Write after little data.
func smallRcvBuf(network, address string, c syscall.RawConn) error {
	var e error
	if err := c.Control(func(fd uintptr) { e = syscall.SetsockoptInt(int(fd), syscall.SOL_SOCKET, syscall.SO_RCVBUF, 4096) }); err != nil {
		return err
	}
	return e
}

func runTCP(sc *scenario) string {
	lc := net.ListenConfig{}
	if sc.mode == "slow" {
		lc.Control = smallRcvBuf
	}
	ln, err := lc.Listen(context.Background(), "tcp", "127.0.0.1:0")
	if err != nil {
		return "harness-error listen"
	}
	defer ln.Close()
	accepted := make(chan net.Conn, 1)
	go func() {
		c, err := ln.Accept()
		if err != nil {
			accepted <- nil
			return
		}
		accepted <- c
	}()
	r := newRun(sc)
	ep, err := initExporter(sc.id, exporter.ExporterInput{
		CollectorAddress:    ln.Addr().String(),
		CollectorProtocol:   "tcp",
		ObservationDomainID: sc.dom,
		CheckConnInterval:   time.Duration(sc.check) * time.Millisecond,
	})
	r.t0 = time.Now()
	if err != nil {
		return "harness-error init"
	}
	var conn net.Conn
	select {
	case conn = <-accepted:
	case <-time.After(5 * time.Second):
	}
	if conn == nil {
		ep.CloseConnToCollector()
		return "harness-error accept"
	}
	defer conn.Close()
	var readEnd atomic.Int64
	readEnd.Store(-1)
	readerDone := make(chan struct{})
	go func() {
		defer close(readerDone)
		buf := make([]byte, 65536)
		if sc.mode == "slow" { // a collector that is slow to read: nothing is taken off the socket before <readat>
			r.sleepUntil(sc.readAt)
		}
		for {
			n, err := conn.Read(buf)
			now := time.Now()
			if n > 0 {
				r.mu.Lock()
				r.recv = append(r.recv, timed{now, append([]byte(nil), buf[:n]...)})
				r.mu.Unlock()
			}
			if err != nil {
				if errors.Is(err, io.EOF) { // the exporter closed its side
					readEnd.Store(now.Sub(r.t0).Microseconds())
				}
				return
			}
		}
	}()
	closed := make(chan struct{})
	appDone := make(chan struct{})
	go r.app(ep, closed, appDone)
	go r.watchdog(appDone)
	peer := int64(-1)
	peerDone := make(chan struct{})
	go func() {
		defer close(peerDone)
		if sc.peerAt < 0 {
			return
		}
		r.sleepUntil(sc.peerAt)
		peer = r.us()
		if sc.mode == "half" {
			conn.(*net.TCPConn).CloseWrite()
		} else {
			conn.Close()
		}
	}()
	co := r.closeAll(ep)
	close(closed)
	left := bgLeft(sc.id)
	<-peerDone
	if !r.waitApp(appDone) {
		return "harness-error application-goroutine-stuck"
	}
	select {
	case <-readerDone:
	case <-time.After(1500 * time.Millisecond):
		conn.Close()
		<-readerDone
	}
	tok := func(v int64) string {
		if v < 0 {
			return "-"
		}
		return strconv.FormatInt(v, 10)
	}
	return fmt.Sprintf("tcp sends=%s chunks=%s peer=%s readend=%s close=%d,%d,%d,%d bg=%d panic=%d race=0",
		r.sendsToken(), r.recvToken(), tok(peer), tok(readEnd.Load()), co.start, co.done, co.calls, co.returned, left, b2i(r.panicked.Load()))
}

func runLine(f []string) (out string) {
	defer func() {
		if p := recover(); p != nil {
			out = "harness-error panic-in-harness"
			if os.Getenv("VERIF_PANIC_TRACE") != "" {
				fmt.Fprintf(os.Stderr, "panic: %v\n", p)
			}
		}
	}()
	sc, err := parseScenario(f)
	if err != nil {
		if os.Getenv("VERIF_PANIC_TRACE") != "" {
			fmt.Fprintf(os.Stderr, "bad scenario: %v\n", err)
		}
		return "bad-op"
	}
	if sc.udp {
		return runUDP(sc)
	}
	return runTCP(sc)
}

// ---- main ---------------------------------------------------------------------------------------------

type discard struct{}

func (discard) Write(p []byte) (int, error) { return len(p), nil }

// raceLogNonEmpty: GORACE="... log_path=<file>" makes the detector write to <file>.<pid>
func raceLogNonEmpty() bool {
	for _, kv := range strings.Fields(os.Getenv("GORACE")) {
		if strings.HasPrefix(kv, "log_path=") {
			p := fmt.Sprintf("%s.%d", kv[len("log_path="):], os.Getpid())
			st, err := os.Stat(p)
			found := err == nil && st.Size() > 0
			if os.Getenv("VERIF_LIFE_SELFLOG") != "" { // our own log (see selfLog): show it, do not leave it behind
				if found {
					if b, err := os.ReadFile(p); err == nil {
						if len(b) > 6000 {
							b = b[:6000]
						}
						os.Stderr.Write(b)
					}
				}
				os.Remove(p)
			}
			return found
		}
	}
	return false
}

// selfLog: started without a race log (e.g. by `check.py replay`), the harness re-executes itself with
// GORACE="halt_on_error=0 exitcode=0 log_path=<.work/C14/race-self-PID>", so that a race shows up in the observation
func selfLog() {
	if strings.Contains(os.Getenv("GORACE"), "log_path=") {
		return
	}
	exe, err := os.Executable()
	if err != nil {
		return
	}
	dir := filepath.Join(filepath.Dir(exe), "..", ".work", "C14")
	if os.MkdirAll(dir, 0o755) != nil {
		return
	}
	os.Setenv("GORACE", strings.TrimSpace(os.Getenv("GORACE")+" halt_on_error=0 exitcode=0 log_path="+filepath.Join(dir, "race-self")))
	os.Setenv("VERIF_LIFE_SELFLOG", "1")
	_ = syscall.Exec(exe, os.Args, os.Environ())
}

func main() {
	selfLog()
	klogFlags := flag.NewFlagSet("klog", flag.ContinueOnError)
	klog.InitFlags(klogFlags)
	klogFlags.Set("logtostderr", "false")
	klogFlags.Set("alsologtostderr", "false")
	klogFlags.Set("stderrthreshold", "FATAL")
	klogFlags.Set("v", "0")
	klog.SetOutput(discard{})
	klog.LogToStderr(false)

	registry.LoadRegistry()

	var lines []string
	in := bufio.NewReaderSize(os.Stdin, 1<<22)
	for {
		line, err := in.ReadString('\n')
		if len(line) > 0 {
			lines = append(lines, strings.TrimRight(line, "\r\n"))
		}
		if err != nil {
			break
		}
	}
	workers := 32
	if w, err := strconv.Atoi(os.Getenv("VERIF_LIFE_WORKERS")); err == nil && w > 0 {
		workers = w
	}
	results := make([]string, len(lines))
	jobs := make(chan int)
	var wg sync.WaitGroup
	for w := 0; w < workers; w++ {
		wg.Add(1)
		go func() {
			defer wg.Done()
			for i := range jobs {
				f := strings.Fields(lines[i])
				switch {
				case len(f) == 0 || strings.HasPrefix(f[0], "#"):
					results[i] = "skip"
				case f[0] == "life":
					results[i] = runLine(f[1:])
				default:
					results[i] = "bad-op"
				}
			}
		}()
	}
	for i := range lines {
		jobs <- i
	}
	close(jobs)
	wg.Wait()
	race := raceLogNonEmpty()
	out := bufio.NewWriterSize(os.Stdout, 1<<20)
	for _, r := range results {
		if race && strings.HasSuffix(r, " race=0") {
			r = strings.TrimSuffix(r, "race=0") + "race=1"
		}
		out.WriteString(r)
		out.WriteByte('\n')
	}
	out.Flush()
}
