// harness-timers: drives the real UDP collecting process of go-ipfix (pkg/collector) with a
// harness-owned clock whose Now(), timer firing and callback progress are scheduled by the ops
// read from stdin (property C10). One canonical observation line per op on stdout; same line
// protocol as the Lean executable driver_timers (lean/Driver/MainTimers.lean).
//
// Built with   go build -tags verif -overlay overlay.json   so that harness/overlay/collector/
// verif_hooks.go (VerifClock, VerifTimer, VerifNewCollector, VerifDecodePacket, VerifTemplateKeys)
// is compiled into the package.
//
// How a schedule is realised on the real code, deterministically and without sleeps:
//   - AfterFunc / Stop / Reset only record (armed, deadline) in the harness clock; nothing fires on
//     its own;
//   - `tm fire i` unarms timer i (if armed and due) and starts its real callback f in a goroutine;
//     the first thing f does is cp.clock.Now(): the goroutine parks inside Now() and the op returns
//     once it is parked ("fired but callback pending");
//   - `tm cbnow c` fixes the value that Now() call returns (the clock at this moment); the goroutine
//     stays parked - between reading the clock and taking the collector's lock the callback does
//     nothing, so handing the value over later is indistinguishable from having handed it over now;
//   - `tm cbfin c` hands the recorded value over, the callback runs deleteTemplateWithConds to its
//     end, and the op waits for the goroutine to finish (quiescence) before it reports.
// At most one goroutine touches the collector at any time.
package main

import (
	"bufio"
	"encoding/binary"
	"encoding/hex"
	"flag"
	"fmt"
	"os"
	"strconv"
	"strings"
	"sync"
	"time"

	"github.com/vmware/go-ipfix/pkg/collector"
	"github.com/vmware/go-ipfix/pkg/registry"
	"k8s.io/klog/v2"
)

var waitBudget = 20 * time.Second

type hTimer struct {
	idx      int
	key      [2]uint32
	f        func()
	armed    bool
	deadline time.Duration
	clk      *hClock
}

func (t *hTimer) Stop() bool {
	t.clk.mu.Lock()
	defer t.clk.mu.Unlock()
	was := t.armed
	t.armed = false
	t.clk.stopCalls++
	return was
}

func (t *hTimer) Reset(d time.Duration) bool {
	t.clk.mu.Lock()
	defer t.clk.mu.Unlock()
	was := t.armed
	t.armed = true
	t.deadline = t.clk.now + d
	t.clk.resetCalls++
	return was
}

type hCb struct {
	idx      int
	timer    int
	key      [2]uint32
	parked   chan struct{}
	release  chan time.Time
	done     chan struct{}
	isParked bool
	read     bool
	readVal  time.Duration
	finished bool
}

type hClock struct {
	mu         sync.Mutex
	base       time.Time
	now        time.Duration
	timers     []*hTimer
	cbs        []*hCb
	starting   *hCb // callback goroutine that was started and has not called Now() yet
	curKey     [2]uint32
	afterCalls int
	resetCalls int
	stopCalls  int
}

func (c *hClock) Now() time.Time {
	c.mu.Lock()
	if cb := c.starting; cb != nil {
		c.starting = nil
		c.mu.Unlock()
		close(cb.parked)
		return <-cb.release
	}
	t := c.base.Add(c.now)
	c.mu.Unlock()
	return t
}

func (c *hClock) AfterFunc(d time.Duration, f func()) collector.VerifTimer {
	c.mu.Lock()
	defer c.mu.Unlock()
	t := &hTimer{idx: len(c.timers), key: c.curKey, f: f, armed: true, deadline: c.now + d, clk: c}
	c.timers = append(c.timers, t)
	c.afterCalls++
	return t
}

type session struct {
	cp  *collector.CollectingProcess
	clk *hClock
}

var cur *session

func secs(d time.Duration) string {
	if d%time.Second == 0 {
		return strconv.FormatInt(int64(d/time.Second), 10)
	}
	return "ns" + strconv.FormatInt(int64(d), 10)
}

func joinOr(l []string) string {
	if len(l) == 0 {
		return "-"
	}
	return strings.Join(l, ",")
}

func (s *session) snap() string {
	var ks, ar, pe []string
	for _, k := range s.cp.VerifTemplateKeys() { // sorted numerically by (domain, id)
		ks = append(ks, fmt.Sprintf("%d:%d", k[0], k[1]))
	}
	c := s.clk
	c.mu.Lock()
	defer c.mu.Unlock()
	for _, t := range c.timers {
		if t.armed {
			ar = append(ar, fmt.Sprintf("%d:%d:%d@%s", t.idx, t.key[0], t.key[1], secs(t.deadline)))
		}
	}
	for _, cb := range c.cbs {
		if !cb.finished {
			r := "-"
			if cb.read {
				r = secs(cb.readVal)
			}
			pe = append(pe, fmt.Sprintf("%d:%d:%d:%d:%s", cb.idx, cb.timer, cb.key[0], cb.key[1], r))
		}
	}
	return fmt.Sprintf("now=%s tpls=%s armed=%s pend=%s", secs(c.now), joinOr(ks), joinOr(ar), joinOr(pe))
}

// teardown lets every parked callback run to its end (on the collector that is being dropped) so
// that no goroutine is left behind, then closes the message channel (ends the drain goroutine).
func (s *session) teardown() {
	c := s.clk
	for _, cb := range c.cbs {
		if cb.finished {
			continue
		}
		v := c.now
		if cb.read {
			v = cb.readVal
		}
		if cb.isParked {
			cb.release <- c.base.Add(v)
		}
		select {
		case <-cb.done:
		case <-time.After(waitBudget):
		}
		cb.finished = true
	}
	s.cp.CloseMsgChan()
}

// ---- packets: the same bytes gen/ipfix.py builds (checked by gen/c10.py through `tm hex`) ----

func u16(n int) []byte { b := make([]byte, 2); binary.BigEndian.PutUint16(b, uint16(n)); return b }
func u32(n uint32) []byte { b := make([]byte, 4); binary.BigEndian.PutUint32(b, n); return b }

func message(dom uint32, setID int, body []byte) []byte {
	total := 16 + 4 + len(body)
	var b []byte
	b = append(b, u16(10)...)
	b = append(b, u16(total)...)
	b = append(b, u32(0)...)
	b = append(b, u32(0)...)
	b = append(b, u32(dom)...)
	b = append(b, u16(setID)...)
	b = append(b, u16(4+len(body))...)
	return append(b, body...)
}

// registry elements: tcpControlBits (IANA 6, unsigned16, 2 bytes), ingressInterface (IANA 10,
// unsigned32, 4 bytes); 29999 is not in the registry.
func packet(kind string, dom uint32, id int) []byte {
	switch kind {
	case "tpl":
		body := append(u16(id), u16(2)...)
		body = append(body, 0, 6, 0, 2, 0, 10, 0, 4)
		return message(dom, 2, body)
	case "bad":
		// strict mode: unknown element after a known one -> the field list fails after the id was read
		body := append(u16(id), u16(2)...)
		body = append(body, 0, 6, 0, 2)
		body = append(body, u16(29999)...)
		body = append(body, 0, 4)
		return message(dom, 2, body)
	case "data":
		return message(dom, id, []byte{0x11, 0x22, 0x33, 0x44, 0x55, 0x66})
	}
	return nil
}

func parseKey(a []string) (uint32, int, bool) {
	if len(a) != 2 {
		return 0, 0, false
	}
	d, err1 := strconv.ParseUint(a[0], 10, 32)
	i, err2 := strconv.ParseUint(a[1], 10, 16)
	return uint32(d), int(i), err1 == nil && err2 == nil
}

func runOp(fields []string) string {
	if len(fields) == 0 {
		return "bad-op"
	}
	op, a := fields[0], fields[1:]
	if op == "new" {
		if len(a) != 1 {
			return "bad-op"
		}
		ttl, err := strconv.ParseUint(a[0], 10, 32)
		if err != nil {
			return "bad-op"
		}
		if cur != nil {
			cur.teardown()
			cur = nil
		}
		clk := &hClock{base: time.Unix(1700000000, 0)}
		cp, err := collector.VerifNewCollector(collector.CollectorInput{Address: "127.0.0.1:0", Protocol: "udp",
			MaxBufferSize: 1024, TemplateTTL: uint32(ttl)}, clk)
		if err != nil {
			return "err-new"
		}
		cur = &session{cp: cp, clk: clk}
		return "ok " + cur.snap()
	}
	if op == "hex" {
		if len(a) != 3 {
			return "bad-op"
		}
		d, i, ok := parseKey(a[1:])
		if !ok {
			return "bad-op"
		}
		return hex.EncodeToString(packet(a[0], d, i))
	}
	if cur == nil {
		return "no-collector"
	}
	s, c := cur, cur.clk
	switch op {
	case "snap":
		return "snap " + s.snap()
	case "tpl", "bad", "data":
		d, i, ok := parseKey(a)
		if !ok {
			return "bad-op"
		}
		c.mu.Lock()
		c.curKey = [2]uint32{d, uint32(i)}
		a0, r0 := c.afterCalls, c.resetCalls
		c.mu.Unlock()
		_, err := s.cp.VerifDecodePacket(packet(op, d, i), "127.0.0.1:4739")
		c.mu.Lock()
		da, dr := c.afterCalls-a0, c.resetCalls-r0
		c.mu.Unlock()
		var res string
		switch op {
		case "tpl":
			switch {
			case err != nil:
				res = "tpl-rejected"
			case da == 1 && dr == 0:
				res = "new"
			case da == 0 && dr == 1:
				res = "refresh"
			case da == 0 && dr == 0:
				res = "none"
			default:
				res = fmt.Sprintf("timer-calls-%d-%d", da, dr)
			}
		case "bad":
			if err != nil {
				res = "err"
			} else {
				res = "bad-accepted"
			}
		case "data":
			if err == nil {
				res = "acc"
			} else {
				res = "rej"
			}
		}
		return res + " " + s.snap()
	case "adv":
		if len(a) != 1 {
			return "bad-op"
		}
		d, err := strconv.ParseUint(a[0], 10, 32)
		if err != nil {
			return "bad-op"
		}
		c.mu.Lock()
		c.now += time.Duration(d) * time.Second
		c.mu.Unlock()
		return "ok " + s.snap()
	case "fire":
		if len(a) != 1 {
			return "bad-op"
		}
		i, err := strconv.Atoi(a[0])
		if err != nil {
			return "bad-op"
		}
		c.mu.Lock()
		if i < 0 || i >= len(c.timers) || !c.timers[i].armed || c.timers[i].deadline > c.now {
			c.mu.Unlock()
			return "disabled " + s.snap()
		}
		t := c.timers[i]
		t.armed = false
		cb := &hCb{idx: len(c.cbs), timer: i, key: t.key, parked: make(chan struct{}), release: make(chan time.Time, 1), done: make(chan struct{})}
		c.cbs = append(c.cbs, cb)
		c.starting = cb
		c.mu.Unlock()
		go func() {
			defer close(cb.done)
			t.f()
		}()
		select {
		case <-cb.parked:
			cb.isParked = true
			return "fired " + s.snap()
		case <-cb.done:
			// the callback ran to its end without ever reading the clock
			c.mu.Lock()
			c.starting = nil
			c.mu.Unlock()
			cb.finished = true
			return "fired-and-finished-without-reading-clock " + s.snap()
		case <-time.After(waitBudget):
			return "hang"
		}
	case "cbnow":
		if len(a) != 1 {
			return "bad-op"
		}
		i, err := strconv.Atoi(a[0])
		if err != nil {
			return "bad-op"
		}
		if i < 0 || i >= len(c.cbs) || c.cbs[i].finished || !c.cbs[i].isParked || c.cbs[i].read {
			return "disabled " + s.snap()
		}
		c.mu.Lock()
		c.cbs[i].read = true
		c.cbs[i].readVal = c.now
		c.mu.Unlock()
		return "read:" + secs(c.cbs[i].readVal) + " " + s.snap()
	case "cbfin":
		if len(a) != 1 {
			return "bad-op"
		}
		i, err := strconv.Atoi(a[0])
		if err != nil {
			return "bad-op"
		}
		if i < 0 || i >= len(c.cbs) || c.cbs[i].finished || !c.cbs[i].read {
			return "disabled " + s.snap()
		}
		cb := c.cbs[i]
		before := len(s.cp.VerifTemplateKeys())
		cb.release <- c.base.Add(cb.readVal)
		select {
		case <-cb.done:
		case <-time.After(waitBudget):
			return "hang"
		}
		c.mu.Lock()
		cb.finished = true
		c.mu.Unlock()
		res := "done:keep"
		if len(s.cp.VerifTemplateKeys()) < before {
			res = "done:del"
		}
		return res + " " + s.snap()
	}
	return "bad-op"
}

func safeOp(line string) (out string) {
	fields := strings.Fields(line)
	if len(fields) == 0 {
		return "skip"
	}
	if strings.HasPrefix(fields[0], "#") {
		if cur != nil {
			cur.teardown()
			cur = nil
		}
		return "skip"
	}
	if fields[0] != "tm" {
		return "bad-op"
	}
	defer func() {
		if r := recover(); r != nil {
			out = "panic"
			if os.Getenv("VERIF_PANIC_TRACE") != "" {
				fmt.Fprintf(os.Stderr, "panic in %q: %v\n", line, r)
			}
		}
	}()
	return runOp(fields[1:])
}

type discard struct{}

func (discard) Write(p []byte) (int, error) { return len(p), nil }

func main() {
	klogFlags := flag.NewFlagSet("klog", flag.ContinueOnError)
	klog.InitFlags(klogFlags)
	klogFlags.Set("logtostderr", "false")
	klogFlags.Set("alsologtostderr", "false")
	klogFlags.Set("stderrthreshold", "FATAL")
	klogFlags.Set("v", "0")
	klog.SetOutput(discard{})
	klog.LogToStderr(false)

	registry.LoadRegistry()
	in := bufio.NewReaderSize(os.Stdin, 1<<20)
	out := bufio.NewWriterSize(os.Stdout, 1<<16)
	defer out.Flush()
	for {
		line, err := in.ReadString('\n')
		if len(line) > 0 {
			r := safeOp(strings.TrimRight(line, "\r\n"))
			out.WriteString(r)
			out.WriteByte('\n')
			if r == "hang" {
				out.Flush()
				os.Exit(3)
			}
		}
		if err != nil {
			break
		}
	}
}
