// harness-tls (property C18): runs every cell of the TLS / DTLS configuration matrix against the REAL
// code - collector.InitCollectingProcess + Start() on 127.0.0.1:0 and exporter.InitExportingProcess with
// a TLSClientConfig - with certificates minted at process start (two CAs, every server / client
// certificate kind), and reports whether the exporter's initialisation succeeded and whether the one
// template message sent afterwards was delivered.
//
// Line protocol: ALL ops are read from stdin first, the cells are then run concurrently by a worker pool,
// and exactly one observation line per op is printed, in input order.
//
//	# ...                                                                  -> skip
//	tls cell <transport> <servercert> <servername> <clientcert> <clientca> <peer>
//	                                                                       -> init-err
//	                                                                        | init-ok delivered [v=NN]
//	                                                                        | init-ok not-delivered [v=NN]
//	                                                                        | na | harness-error <what>
//
//	<transport>  tls | dtls
//	<servercert> trusted | otherca | selfsigned | expired | notyet | wrongsan | nosan
//	<servername> unset | dns (localhost) | ip (127.0.0.1) | baddns (wrong.example) | badip (10.1.1.1)
//	<clientcert> none | trusted | otherca | expired
//	<clientca>   set | unset            CACert of the collector (client CA)
//	<peer>       real                   exporter and collector are both the library
//	             srv11|srv12|srv13      the exporter's peer is a raw crypto/tls server, MaxVersion 1.1/1.2/1.3
//	             cli11|cli12|cli13      the collector's peer is a raw crypto/tls client, MaxVersion 1.1/1.2/1.3
//	             plainsrv               the exporter (with TLSClientConfig) dials a plaintext listener
//	             plaincli               an exporter WITHOUT TLSClientConfig sends to the encrypted collector
//	             rawplaincli            a plain socket writes an IPFIX template message to the encrypted collector
//	v=NN         version seen by a raw peer whose handshake completed
//
// "delivered" = the collector put a message on GetMsgChan (real / cli* / plaincli / rawplaincli), resp. the
// raw server or the plaintext listener received a complete IPFIX message (srv* / plainsrv).
//
//	tls resume <transport> <peer> <first> <second>                         -> <observation of A> ; <observation of B>
//	                                                                        | na | harness-error <what>
//
//	two exporters created ONE AFTER THE OTHER IN THIS PROCESS towards the SAME collector, which stays up for the
//	whole op (one listener: one set of session-ticket keys / one session store) and has the `trusted` server
//	certificate (issued by CA 1 for localhost / 127.0.0.1). Exporter A (observation domain 1, <first>) is
//	initialised, sends its template message, is given time to read what the collector sent back (TLS 1.3 session
//	tickets arrive after the handshake; CheckConnInterval = 5 ms) and is closed; then exporter B (observation
//	domain 2, <second>) is initialised and sends its template message. Each observation is that exporter's
//	own: did ITS InitExportingProcess succeed, was ITS message delivered.
//	<first>, <second>  <ca1|ca2>-<servername>: CAData = CA 1 (the issuer) or CA 2 only, ServerName as above
//	<transport> <peer> tls real (library collector) | tls srv12 | tls srv13 (raw crypto/tls server, that MaxVersion)
//	                   | dtls srv12 (raw pion/dtls server WITH a SessionStore; the library's DTLS collector accepts
//	                   a single connection and has no SessionStore, so it cannot take part)
//	The resume ops are run first, one at a time and before any cell: a session cache shared between exporters is
//	keyed by server name / host, so concurrent cells towards other collectors on 127.0.0.1 would evict the session
//	the op is about.
//
// Only positive evidence counts: "not-delivered" means nothing arrived within the negative timeout, or the
// session is known to be dead (the raw peer's handshake failed / its connection was torn down by the other
// side). A cell that ends `init-ok not-delivered` on a timeout is run a second time and a delivery in
// either run counts.
package main

import (
	"bufio"
	"context"
	"crypto/ecdsa"
	"crypto/elliptic"
	"crypto/rand"
	"crypto/tls"
	"crypto/x509"
	"crypto/x509/pkix"
	"encoding/binary"
	"encoding/pem"
	"errors"
	"flag"
	"fmt"
	"io"
	"math/big"
	"net"
	"os"
	"runtime"
	"strconv"
	"strings"
	"sync"
	"sync/atomic"
	"time"

	"github.com/pion/dtls/v2"
	"k8s.io/klog/v2"

	"github.com/vmware/go-ipfix/pkg/collector"
	"github.com/vmware/go-ipfix/pkg/entities"
	"github.com/vmware/go-ipfix/pkg/exporter"
	"github.com/vmware/go-ipfix/pkg/registry"
)

// ---- timeouts ---------------------------------------------------------------------------------

var (
	negTLS     = 3 * time.Second  // nothing delivered over TCP within this time = not delivered
	negDTLS    = 5 * time.Second  // same over UDP (pion retransmits after 1 s)
	initBudget = 45 * time.Second // pion's Dial gives up after 30 s
	startWait  = 5 * time.Second  // the collector must be listening by then
	stopWait   = 3 * time.Second
)

// ---- certificates -----------------------------------------------------------------------------

type keyPair struct {
	certPEM, keyPEM []byte
	tlsCert         tls.Certificate
}

type ca struct {
	cert   *x509.Certificate
	key    *ecdsa.PrivateKey
	pemCrt []byte
}

var serial int64

func nextSerial() *big.Int { return big.NewInt(atomic.AddInt64(&serial, 1) + 1000) }

func must(err error) {
	if err != nil {
		fmt.Fprintln(os.Stderr, "harness-tls:", err)
		os.Exit(2)
	}
}

func newCA(cn string) *ca {
	key, err := ecdsa.GenerateKey(elliptic.P256(), rand.Reader)
	must(err)
	now := time.Now()
	tpl := &x509.Certificate{
		SerialNumber:          nextSerial(),
		Subject:               pkix.Name{CommonName: cn, Organization: []string{"verif"}},
		NotBefore:             now.Add(-24 * time.Hour),
		NotAfter:              now.Add(30 * 24 * time.Hour),
		IsCA:                  true,
		BasicConstraintsValid: true,
		KeyUsage:              x509.KeyUsageCertSign | x509.KeyUsageDigitalSignature,
	}
	der, err := x509.CreateCertificate(rand.Reader, tpl, tpl, &key.PublicKey, key)
	must(err)
	cert, err := x509.ParseCertificate(der)
	must(err)
	return &ca{cert: cert, key: key, pemCrt: pem.EncodeToMemory(&pem.Block{Type: "CERTIFICATE", Bytes: der})}
}

// leaf mints a leaf certificate. issuer == nil: self-signed.
func leaf(issuer *ca, cn string, server bool, notBefore, notAfter time.Time, dns []string, ips []net.IP) keyPair {
	key, err := ecdsa.GenerateKey(elliptic.P256(), rand.Reader)
	must(err)
	eku := x509.ExtKeyUsageClientAuth
	if server {
		eku = x509.ExtKeyUsageServerAuth
	}
	tpl := &x509.Certificate{
		SerialNumber: nextSerial(),
		Subject:      pkix.Name{CommonName: cn, Organization: []string{"verif"}},
		NotBefore:    notBefore,
		NotAfter:     notAfter,
		KeyUsage:     x509.KeyUsageDigitalSignature,
		ExtKeyUsage:  []x509.ExtKeyUsage{eku},
		DNSNames:     dns,
		IPAddresses:  ips,
	}
	parent, signer := tpl, key
	if issuer != nil {
		parent, signer = issuer.cert, issuer.key
	}
	der, err := x509.CreateCertificate(rand.Reader, tpl, parent, &key.PublicKey, signer)
	must(err)
	kb, err := x509.MarshalPKCS8PrivateKey(key)
	must(err)
	kp := keyPair{
		certPEM: pem.EncodeToMemory(&pem.Block{Type: "CERTIFICATE", Bytes: der}),
		keyPEM:  pem.EncodeToMemory(&pem.Block{Type: "PRIVATE KEY", Bytes: kb}),
	}
	kp.tlsCert, err = tls.X509KeyPair(kp.certPEM, kp.keyPEM)
	must(err)
	return kp
}

var (
	trustedCA, otherCA *ca
	serverCerts        = map[string]keyPair{}
	clientCerts        = map[string]keyPair{}
	serverNames        = map[string]string{"unset": "", "dns": "localhost", "ip": "127.0.0.1", "baddns": "wrong.example", "badip": "10.1.1.1"}
)

func mintAll() {
	trustedCA, otherCA = newCA("verif trusted CA"), newCA("verif other CA")
	now := time.Now()
	from, to := now.Add(-time.Hour), now.Add(24*time.Hour)
	good := []string{"localhost"}
	goodIP := []net.IP{net.ParseIP("127.0.0.1")}
	// the Common Name is "localhost" everywhere: it must never stand in for a missing SAN
	serverCerts["trusted"] = leaf(trustedCA, "localhost", true, from, to, good, goodIP)
	serverCerts["otherca"] = leaf(otherCA, "localhost", true, from, to, good, goodIP)
	serverCerts["selfsigned"] = leaf(nil, "localhost", true, from, to, good, goodIP)
	serverCerts["expired"] = leaf(trustedCA, "localhost", true, now.Add(-48*time.Hour), now.Add(-24*time.Hour), good, goodIP)
	serverCerts["notyet"] = leaf(trustedCA, "localhost", true, now.Add(24*time.Hour), now.Add(48*time.Hour), good, goodIP)
	serverCerts["wrongsan"] = leaf(trustedCA, "localhost", true, from, to, []string{"other.example"}, []net.IP{net.ParseIP("10.9.9.9")})
	serverCerts["nosan"] = leaf(trustedCA, "localhost", true, from, to, nil, nil)
	clientCerts["trusted"] = leaf(trustedCA, "exporter", false, from, to, nil, nil)
	clientCerts["otherca"] = leaf(otherCA, "exporter", false, from, to, nil, nil)
	clientCerts["expired"] = leaf(trustedCA, "exporter", false, now.Add(-48*time.Hour), now.Add(-24*time.Hour), nil, nil)
}

func pool(c *ca) *x509.CertPool {
	p := x509.NewCertPool()
	p.AddCert(c.cert)
	return p
}

// ---- cells --------------------------------------------------------------------------------------

type cell struct {
	transport, serverCert, serverName, clientCert, clientCA, peer string
}

func inSet(s string, set ...string) bool {
	for _, x := range set {
		if s == x {
			return true
		}
	}
	return false
}

func parseCell(f []string) (cell, bool) {
	if len(f) != 6 {
		return cell{}, false
	}
	c := cell{f[0], f[1], f[2], f[3], f[4], f[5]}
	ok := inSet(c.transport, "tls", "dtls") &&
		inSet(c.serverCert, "trusted", "otherca", "selfsigned", "expired", "notyet", "wrongsan", "nosan") &&
		inSet(c.serverName, "unset", "dns", "ip", "baddns", "badip") &&
		inSet(c.clientCert, "none", "trusted", "otherca", "expired") &&
		inSet(c.clientCA, "set", "unset") &&
		inSet(c.peer, "real", "srv11", "srv12", "srv13", "cli11", "cli12", "cli13", "plainsrv", "plaincli", "rawplaincli")
	return c, ok
}

func (c cell) proto() string {
	if c.transport == "tls" {
		return "tcp"
	}
	return "udp"
}

func (c cell) neg() time.Duration {
	if c.transport == "tls" {
		return negTLS
	}
	return negDTLS
}

func peerMax(p string) uint16 {
	switch p[3:] {
	case "11":
		return tls.VersionTLS11
	case "12":
		return tls.VersionTLS12
	}
	return tls.VersionTLS13
}

func verTok(v uint16) string {
	switch v {
	case tls.VersionTLS10:
		return " v=10"
	case tls.VersionTLS11:
		return " v=11"
	case tls.VersionTLS12:
		return " v=12"
	case tls.VersionTLS13:
		return " v=13"
	}
	return ""
}

type obs struct {
	initOk, delivered bool
	version           uint16
	timedOut          bool // "not delivered" rests on a timeout only
	harnessErr        string
}

func (o obs) String() string {
	if o.harnessErr != "" {
		return "harness-error " + o.harnessErr
	}
	if !o.initOk {
		return "init-err"
	}
	if o.delivered {
		return "init-ok delivered" + verTok(o.version)
	}
	return "init-ok not-delivered" + verTok(o.version)
}

// ---- the library collector ------------------------------------------------------------------------

type runningCollector struct {
	cp        *collector.CollectingProcess
	addr      string
	delivered chan struct{} // closed on the first message
	once      sync.Once
	drainDone chan struct{}
	stopDrain chan struct{}
	mu        sync.Mutex
	domains   map[uint32]bool // observation domains a message was delivered from
}

func startCollector(c cell, encrypted bool) (*runningCollector, error) {
	in := collector.CollectorInput{
		Address:       "127.0.0.1:0",
		Protocol:      c.proto(),
		MaxBufferSize: 65535,
		TemplateTTL:   0,
		IsEncrypted:   encrypted,
	}
	if encrypted {
		sc := serverCerts[c.serverCert]
		in.ServerCert, in.ServerKey = sc.certPEM, sc.keyPEM
		if c.clientCA == "set" {
			in.CACert = trustedCA.pemCrt
		}
	}
	cp, err := collector.InitCollectingProcess(in)
	if err != nil {
		return nil, err
	}
	rc := &runningCollector{cp: cp, delivered: make(chan struct{}), drainDone: make(chan struct{}), stopDrain: make(chan struct{}),
		domains: map[uint32]bool{}}
	go func() { // the message channel is unbuffered: somebody has to read it
		defer close(rc.drainDone)
		for {
			select {
			case m := <-cp.GetMsgChan():
				if m != nil {
					rc.mu.Lock()
					rc.domains[m.GetObsDomainID()] = true
					rc.mu.Unlock()
					rc.once.Do(func() { close(rc.delivered) })
				}
			case <-rc.stopDrain:
				return
			}
		}
	}()
	go cp.Start()
	deadline := time.Now().Add(startWait)
	for time.Now().Before(deadline) {
		if a := cp.GetAddress(); a != nil {
			rc.addr = a.String()
			return rc, nil
		}
		time.Sleep(2 * time.Millisecond)
	}
	rc.stop()
	return nil, errors.New("collector-did-not-start")
}

func (rc *runningCollector) waitDelivered(d time.Duration) bool {
	select {
	case <-rc.delivered:
		return true
	case <-time.After(d):
		return false
	}
}

// waitDomain: a message from this observation domain was delivered within d
func (rc *runningCollector) waitDomain(dom uint32, d time.Duration) bool {
	deadline := time.Now().Add(d)
	for {
		rc.mu.Lock()
		ok := rc.domains[dom]
		rc.mu.Unlock()
		if ok {
			return true
		}
		if time.Now().After(deadline) {
			return false
		}
		time.Sleep(2 * time.Millisecond)
	}
}

// stop never blocks for long: a DTLS collector nobody connected to sits in Accept for ever.
func (rc *runningCollector) stop() {
	done := make(chan struct{})
	go func() {
		rc.cp.Stop()
		close(done)
	}()
	select {
	case <-done:
	case <-time.After(stopWait):
	}
	// keep draining a little so that a handler blocked on the channel can see the stop
	go func() {
		time.Sleep(stopWait)
		close(rc.stopDrain)
	}()
}

// ---- the library exporter --------------------------------------------------------------------------

func startExporter(c cell, addr string, secure bool) (*exporter.ExportingProcess, error) {
	in := exporter.ExporterInput{
		CollectorAddress:    addr,
		CollectorProtocol:   c.proto(),
		ObservationDomainID: 1,
	}
	if secure {
		cfg := &exporter.ExporterTLSClientConfig{ServerName: serverNames[c.serverName], CAData: trustedCA.pemCrt}
		if c.clientCert != "none" {
			cc := clientCerts[c.clientCert]
			cfg.CertData, cfg.KeyData = cc.certPEM, cc.keyPEM
		}
		in.TLSClientConfig = cfg
	}
	return initExporter(in)
}

func initExporter(in exporter.ExporterInput) (*exporter.ExportingProcess, error) {
	type res struct {
		ep  *exporter.ExportingProcess
		err error
	}
	ch := make(chan res, 1)
	go func() {
		ep, err := exporter.InitExportingProcess(in)
		ch <- res{ep, err}
	}()
	select {
	case r := <-ch:
		return r.ep, r.err
	case <-time.After(initBudget):
		go func() { // whenever it comes back, do not leak it
			if r := <-ch; r.ep != nil {
				r.ep.CloseConnToCollector()
			}
		}()
		return nil, errors.New("init-hang")
	}
}

func sendTemplate(ep *exporter.ExportingProcess) error {
	id := ep.NewTemplateID()
	set := entities.NewSet(false)
	if err := set.PrepareSet(entities.Template, id); err != nil {
		return err
	}
	var elems []entities.InfoElementWithValue
	for _, n := range []string{"sourceIPv4Address", "destinationIPv4Address"} {
		e, err := registry.GetInfoElement(n, registry.IANAEnterpriseID)
		if err != nil {
			return err
		}
		ie, err := entities.DecodeAndCreateInfoElementWithValue(e, nil)
		if err != nil {
			return err
		}
		elems = append(elems, ie)
	}
	if err := set.AddRecord(elems, id); err != nil {
		return err
	}
	_, err := ep.SendSet(set)
	return err
}

func closeExporter(ep *exporter.ExportingProcess) {
	done := make(chan struct{})
	go func() {
		ep.CloseConnToCollector()
		close(done)
	}()
	select {
	case <-done:
	case <-time.After(stopWait):
	}
}

// rawTemplate is a complete IPFIX message: header + one template set (id 256: sourceIPv4Address, destinationIPv4Address)
func rawTemplate() []byte {
	b := make([]byte, 32)
	binary.BigEndian.PutUint16(b[0:], 10)
	binary.BigEndian.PutUint16(b[2:], 32)
	binary.BigEndian.PutUint32(b[4:], uint32(time.Now().Unix()))
	binary.BigEndian.PutUint32(b[8:], 0)
	binary.BigEndian.PutUint32(b[12:], 1)
	binary.BigEndian.PutUint16(b[16:], 2)
	binary.BigEndian.PutUint16(b[18:], 16)
	binary.BigEndian.PutUint16(b[20:], 256)
	binary.BigEndian.PutUint16(b[22:], 2)
	binary.BigEndian.PutUint16(b[24:], 8)
	binary.BigEndian.PutUint16(b[26:], 4)
	binary.BigEndian.PutUint16(b[28:], 12)
	binary.BigEndian.PutUint16(b[30:], 4)
	return b
}

// looksLikeIPFIX: the bytes start with a complete IPFIX message (version 10, consistent length)
func looksLikeIPFIX(b []byte) bool {
	if len(b) < 16 || binary.BigEndian.Uint16(b[0:]) != 10 {
		return false
	}
	l := int(binary.BigEndian.Uint16(b[2:]))
	return l >= 16 && len(b) >= l
}

// ---- the kinds of cells ---------------------------------------------------------------------------

// real: exporter (library) <-> collector (library)
func runReal(c cell) obs {
	rc, err := startCollector(c, true)
	if err != nil {
		return obs{harnessErr: err.Error()}
	}
	defer rc.stop()
	ep, err := startExporter(c, rc.addr, true)
	if err != nil {
		if err.Error() == "init-hang" {
			return obs{harnessErr: "init-hang"}
		}
		// an exporter that gave up must not have got anything through either
		if rc.waitDelivered(50 * time.Millisecond) {
			return obs{harnessErr: "delivered-after-init-error"}
		}
		return obs{}
	}
	defer closeExporter(ep)
	_ = sendTemplate(ep) // a write error is one of the ways a rejected client finds out
	if rc.waitDelivered(c.neg()) {
		return obs{initOk: true, delivered: true}
	}
	return obs{initOk: true, timedOut: true}
}

// srvNN: exporter (library) -> raw crypto/tls server
func runRawServer(c cell) obs {
	cfg := &tls.Config{
		Certificates: []tls.Certificate{serverCerts[c.serverCert].tlsCert},
		MinVersion:   tls.VersionTLS10,
		MaxVersion:   peerMax(c.peer),
	}
	if c.clientCA == "set" {
		cfg.ClientAuth = tls.RequireAndVerifyClientCert
		cfg.ClientCAs = pool(trustedCA)
	}
	ln, err := tls.Listen("tcp", "127.0.0.1:0", cfg)
	if err != nil {
		return obs{harnessErr: "listen"}
	}
	defer ln.Close()
	type sres struct {
		handshake bool
		version   uint16
		delivered bool
	}
	sch := make(chan sres, 1)
	go func() {
		conn, err := ln.Accept()
		if err != nil {
			sch <- sres{}
			return
		}
		defer conn.Close()
		tc := conn.(*tls.Conn)
		tc.SetDeadline(time.Now().Add(initBudget))
		if err := tc.Handshake(); err != nil {
			sch <- sres{}
			return
		}
		r := sres{handshake: true, version: tc.ConnectionState().Version}
		tc.SetDeadline(time.Now().Add(negTLS))
		hdr := make([]byte, 16)
		if _, err := io.ReadFull(tc, hdr); err == nil && binary.BigEndian.Uint16(hdr) == 10 {
			l := int(binary.BigEndian.Uint16(hdr[2:]))
			if l >= 16 {
				rest := make([]byte, l-16)
				if _, err := io.ReadFull(tc, rest); err == nil {
					r.delivered = true
				}
			}
		}
		sch <- r
	}()
	ep, err := startExporter(c, ln.Addr().String(), true)
	o := obs{}
	if err == nil {
		o.initOk = true
		defer closeExporter(ep)
		_ = sendTemplate(ep)
	} else if err.Error() == "init-hang" {
		return obs{harnessErr: "init-hang"}
	} else {
		ln.Close() // if the exporter never connected, release Accept
	}
	select {
	case r := <-sch:
		o.delivered = r.delivered
		if r.handshake {
			o.version = r.version
		}
		if !o.initOk && r.delivered {
			return obs{harnessErr: "delivered-after-init-error"}
		}
	case <-time.After(initBudget):
		return obs{harnessErr: "raw-server-hang"}
	}
	return o
}

// cliNN: raw crypto/tls client -> collector (library)
func runRawClient(c cell) obs {
	rc, err := startCollector(c, true)
	if err != nil {
		return obs{harnessErr: err.Error()}
	}
	defer rc.stop()
	cfg := &tls.Config{
		RootCAs:    pool(trustedCA),
		ServerName: serverNames[c.serverName],
		MinVersion: tls.VersionTLS10,
		MaxVersion: peerMax(c.peer),
	}
	if c.clientCert != "none" {
		cfg.Certificates = []tls.Certificate{clientCerts[c.clientCert].tlsCert}
	}
	d := &net.Dialer{Timeout: initBudget}
	conn, err := tls.DialWithDialer(d, "tcp", rc.addr, cfg)
	if err != nil {
		if rc.waitDelivered(50 * time.Millisecond) {
			return obs{harnessErr: "delivered-after-init-error"}
		}
		return obs{}
	}
	defer conn.Close()
	o := obs{initOk: true, version: conn.ConnectionState().Version}
	_, _ = conn.Write(rawTemplate())
	// the collector never writes: a read that ends before the deadline with anything but a timeout means
	// the collector tore the session down (alert / close)
	dead := make(chan struct{})
	go func() {
		conn.SetReadDeadline(time.Now().Add(negTLS))
		buf := make([]byte, 1)
		_, err := conn.Read(buf)
		var ne net.Error
		if err != nil && !(errors.As(err, &ne) && ne.Timeout()) {
			close(dead)
		}
	}()
	select {
	case <-rc.delivered:
		o.delivered = true
	case <-dead:
		o.delivered = rc.waitDelivered(200 * time.Millisecond)
	case <-time.After(negTLS):
		o.timedOut = true
	}
	return o
}

// plainsrv: exporter (library, with TLSClientConfig) -> plaintext listener
func runPlainServer(c cell) obs {
	var addr string
	gotIPFIX := make(chan bool, 1)
	stop := make(chan struct{})
	defer close(stop)
	if c.proto() == "tcp" {
		ln, err := net.Listen("tcp", "127.0.0.1:0")
		if err != nil {
			return obs{harnessErr: "listen"}
		}
		defer ln.Close()
		addr = ln.Addr().String()
		go func() {
			conn, err := ln.Accept()
			if err != nil {
				gotIPFIX <- false
				return
			}
			// a plaintext collector reads what it is sent and, finding no IPFIX message, hangs up
			conn.SetReadDeadline(time.Now().Add(500 * time.Millisecond))
			buf := make([]byte, 4096)
			n, _ := io.ReadAtLeast(conn, buf, 16)
			gotIPFIX <- looksLikeIPFIX(buf[:n])
			conn.Close()
		}()
	} else {
		pc, err := net.ListenUDP("udp", &net.UDPAddr{IP: net.ParseIP("127.0.0.1")})
		if err != nil {
			return obs{harnessErr: "listen"}
		}
		defer pc.Close()
		addr = pc.LocalAddr().String()
		go func() { // never answers; looks at every datagram until the cell is over
			seen := false
			buf := make([]byte, 65535)
			for {
				pc.SetReadDeadline(time.Now().Add(100 * time.Millisecond))
				n, _, err := pc.ReadFromUDP(buf)
				if err == nil && looksLikeIPFIX(buf[:n]) {
					seen = true
				}
				select {
				case <-stop:
					gotIPFIX <- seen
					return
				default:
				}
			}
		}()
	}
	ep, err := startExporter(c, addr, true)
	o := obs{}
	if err == nil {
		o.initOk = true
		_ = sendTemplate(ep)
		time.Sleep(300 * time.Millisecond)
		closeExporter(ep)
	} else if err.Error() == "init-hang" {
		return obs{harnessErr: "init-hang"}
	}
	if c.proto() == "tcp" {
		select {
		case g := <-gotIPFIX:
			o.delivered = g
		case <-time.After(2 * time.Second):
		}
	} else {
		stop <- struct{}{}
		o.delivered = <-gotIPFIX
	}
	if !o.initOk && o.delivered {
		return obs{harnessErr: "plaintext-ipfix-sent-by-failed-init"}
	}
	return o
}

// plaincli: exporter (library, WITHOUT TLSClientConfig) -> encrypted collector (library)
func runPlainClient(c cell) obs {
	rc, err := startCollector(c, true)
	if err != nil {
		return obs{harnessErr: err.Error()}
	}
	defer rc.stop()
	ep, err := startExporter(c, rc.addr, false)
	if err != nil {
		return obs{}
	}
	defer closeExporter(ep)
	_ = sendTemplate(ep)
	if rc.waitDelivered(c.neg()) {
		return obs{initOk: true, delivered: true}
	}
	return obs{initOk: true, timedOut: true}
}

// rawplaincli: plain socket -> encrypted collector (library)
func runRawPlainClient(c cell) obs {
	rc, err := startCollector(c, true)
	if err != nil {
		return obs{harnessErr: err.Error()}
	}
	defer rc.stop()
	conn, err := net.DialTimeout(c.proto(), rc.addr, 5*time.Second)
	if err != nil {
		return obs{}
	}
	defer conn.Close()
	o := obs{initOk: true}
	_, _ = conn.Write(rawTemplate())
	dead := make(chan struct{})
	if c.proto() == "tcp" {
		go func() { // the collector answers a non-handshake with an alert and hangs up
			conn.SetReadDeadline(time.Now().Add(c.neg()))
			buf := make([]byte, 256)
			for {
				_, err := conn.Read(buf)
				if err != nil {
					var ne net.Error
					if !(errors.As(err, &ne) && ne.Timeout()) {
						close(dead)
					}
					return
				}
			}
		}()
	}
	select {
	case <-rc.delivered:
		o.delivered = true
	case <-dead:
		o.delivered = rc.waitDelivered(200 * time.Millisecond)
	case <-time.After(c.neg()):
		o.timedOut = true
	}
	return o
}

// ---- two exporters one after the other, one collector (session resumption) ---------------------------

type trust struct{ ca, serverName string }

func parseTrust(s string) (trust, bool) {
	i := strings.IndexByte(s, '-')
	if i < 0 {
		return trust{}, false
	}
	t := trust{s[:i], s[i+1:]}
	return t, inSet(t.ca, "ca1", "ca2") && inSet(t.serverName, "unset", "dns", "ip", "baddns", "badip")
}

type resumeOp struct {
	transport, peer string
	first, second   trust
}

func parseResume(f []string) (resumeOp, bool) {
	if len(f) != 4 {
		return resumeOp{}, false
	}
	a, ok1 := parseTrust(f[2])
	b, ok2 := parseTrust(f[3])
	r := resumeOp{f[0], f[1], a, b}
	ok := ok1 && ok2 && inSet(r.transport, "tls", "dtls") &&
		inSet(r.peer, "real", "srv11", "srv12", "srv13", "cli11", "cli12", "cli13", "plainsrv", "plaincli", "rawplaincli")
	return r, ok
}

func (r resumeOp) valid() bool {
	if r.transport == "tls" {
		return inSet(r.peer, "real", "srv12", "srv13")
	}
	return r.peer == "srv12"
}

// resumeServer is the one collector of a resume op. wait reports what became of the exporter that was just
// initialised (exporterOk = its InitExportingProcess succeeded) with observation domain dom.
type resumeServer struct {
	addr string
	wait func(dom uint32, exporterOk bool) (delivered bool, version uint16, herr string)
	stop func()
}

func libraryResumeServer(c cell) (*resumeServer, error) {
	rc, err := startCollector(c, true)
	if err != nil {
		return nil, err
	}
	return &resumeServer{
		addr: rc.addr,
		wait: func(dom uint32, exporterOk bool) (bool, uint16, string) {
			if exporterOk {
				return rc.waitDomain(dom, c.neg()), 0, ""
			}
			if rc.waitDomain(dom, 50*time.Millisecond) {
				return false, 0, "delivered-after-init-error"
			}
			return false, 0, ""
		},
		stop: rc.stop,
	}, nil
}

// what a raw server saw of one connection
type rawConnResult struct {
	handshake bool
	version   uint16
	delivered bool
	dom       uint32
}

// readIPFIX reads one complete IPFIX message and returns its observation domain
func readIPFIX(conn net.Conn, stream bool) (uint32, bool) {
	if stream {
		hdr := make([]byte, 16)
		if _, err := io.ReadFull(conn, hdr); err != nil || binary.BigEndian.Uint16(hdr) != 10 {
			return 0, false
		}
		l := int(binary.BigEndian.Uint16(hdr[2:]))
		if l < 16 {
			return 0, false
		}
		if _, err := io.ReadFull(conn, make([]byte, l-16)); err != nil {
			return 0, false
		}
		return binary.BigEndian.Uint32(hdr[12:]), true
	}
	buf := make([]byte, 65535)
	n, err := conn.Read(buf)
	if err != nil || !looksLikeIPFIX(buf[:n]) {
		return 0, false
	}
	return binary.BigEndian.Uint32(buf[12:]), true
}

// rawResumeWait: exactly one connection attempt reaches the raw server per exporter, and the exporters of an op
// are strictly sequential, so the next result belongs to the exporter that was just initialised
func rawResumeWait(results chan rawConnResult) func(uint32, bool) (bool, uint16, string) {
	return func(dom uint32, exporterOk bool) (bool, uint16, string) {
		select {
		case r := <-results:
			if r.delivered && r.dom != dom {
				return false, 0, "message-of-another-exporter"
			}
			if r.delivered && !exporterOk {
				return false, 0, "delivered-after-init-error"
			}
			v := uint16(0)
			if r.handshake {
				v = r.version
			}
			return r.delivered, v, ""
		case <-time.After(2*negDTLS + time.Second):
			if exporterOk {
				return false, 0, "raw-server-hang"
			}
			return false, 0, "" // the exporter gave up before the server saw a connection
		}
	}
}

// raw crypto/tls server that stays up and hands out session tickets (crypto/tls does unless told otherwise)
func rawTLSResumeServer(maxVersion uint16) (*resumeServer, error) {
	cfg := &tls.Config{
		Certificates: []tls.Certificate{serverCerts["trusted"].tlsCert},
		MinVersion:   tls.VersionTLS10,
		MaxVersion:   maxVersion,
	}
	ln, err := tls.Listen("tcp", "127.0.0.1:0", cfg)
	if err != nil {
		return nil, err
	}
	results := make(chan rawConnResult, 16)
	go func() {
		for {
			conn, err := ln.Accept()
			if err != nil {
				return
			}
			go func() {
				defer conn.Close()
				tc := conn.(*tls.Conn)
				tc.SetDeadline(time.Now().Add(initBudget))
				if err := tc.Handshake(); err != nil {
					results <- rawConnResult{}
					return
				}
				r := rawConnResult{handshake: true, version: tc.ConnectionState().Version}
				tc.SetDeadline(time.Now().Add(negTLS))
				r.dom, r.delivered = readIPFIX(tc, true)
				results <- r
				// stay connected until the exporter hangs up: it must get the chance to read the session tickets
				tc.SetDeadline(time.Now().Add(initBudget))
				io.Copy(io.Discard, tc)
			}()
		}
	}()
	return &resumeServer{addr: ln.Addr().String(), wait: rawResumeWait(results), stop: func() { ln.Close() }}, nil
}

// memStore is a pion SessionStore (the server keys it by session id)
type memStore struct {
	mu sync.Mutex
	m  map[string]dtls.Session
}

func (s *memStore) Set(key []byte, v dtls.Session) error {
	s.mu.Lock()
	defer s.mu.Unlock()
	s.m[string(key)] = v
	return nil
}

func (s *memStore) Get(key []byte) (dtls.Session, error) {
	s.mu.Lock()
	defer s.mu.Unlock()
	return s.m[string(key)], nil // the zero Session (ID == nil) is a miss
}

func (s *memStore) Del(key []byte) error {
	s.mu.Lock()
	defer s.mu.Unlock()
	delete(s.m, string(key))
	return nil
}

// raw pion/dtls server that stays up and offers session resumption (a session id in its ServerHello)
func rawDTLSResumeServer() (*resumeServer, error) {
	cfg := &dtls.Config{
		Certificates:         []tls.Certificate{serverCerts["trusted"].tlsCert},
		ExtendedMasterSecret: dtls.RequireExtendedMasterSecret,
		SessionStore:         &memStore{m: map[string]dtls.Session{}},
		ConnectContextMaker: func() (context.Context, func()) {
			return context.WithTimeout(context.Background(), 2*negDTLS)
		},
	}
	ln, err := dtls.Listen("udp", &net.UDPAddr{IP: net.ParseIP("127.0.0.1")}, cfg)
	if err != nil {
		return nil, err
	}
	results := make(chan rawConnResult, 16)
	var closed atomic.Bool
	go func() {
		for {
			conn, err := ln.Accept() // pion v2 runs the handshake inside Accept
			if closed.Load() {
				if conn != nil {
					conn.Close()
				}
				return
			}
			if err != nil {
				results <- rawConnResult{}
				continue
			}
			go func() {
				defer conn.Close()
				r := rawConnResult{handshake: true}
				conn.SetReadDeadline(time.Now().Add(negDTLS))
				r.dom, r.delivered = readIPFIX(conn, false)
				results <- r
				conn.SetReadDeadline(time.Now().Add(initBudget))
				buf := make([]byte, 2048)
				for {
					if _, err := conn.Read(buf); err != nil {
						return
					}
				}
			}()
		}
	}()
	return &resumeServer{addr: ln.Addr().String(), wait: rawResumeWait(results), stop: func() {
		closed.Store(true)
		done := make(chan struct{})
		go func() { ln.Close(); close(done) }()
		select {
		case <-done:
		case <-time.After(stopWait):
		}
	}}, nil
}

// one exporter of a resume op
func resumeExporter(r resumeOp, srv *resumeServer, t trust, dom uint32, linger time.Duration) obs {
	caData := trustedCA.pemCrt
	if t.ca == "ca2" {
		caData = otherCA.pemCrt
	}
	proto := "tcp"
	if r.transport == "dtls" {
		proto = "udp"
	}
	ep, err := initExporter(exporter.ExporterInput{
		CollectorAddress:    srv.addr,
		CollectorProtocol:   proto,
		ObservationDomainID: dom,
		TLSClientConfig:     &exporter.ExporterTLSClientConfig{ServerName: serverNames[t.serverName], CAData: caData},
		CheckConnInterval:   5 * time.Millisecond,
	})
	if err != nil && err.Error() == "init-hang" {
		return obs{harnessErr: "init-hang"}
	}
	o := obs{initOk: err == nil}
	if err == nil {
		_ = sendTemplate(ep)
	}
	delivered, version, herr := srv.wait(dom, err == nil)
	if herr != "" {
		o = obs{harnessErr: herr}
	} else {
		o.delivered, o.version = delivered, version
	}
	if err == nil {
		// the periodic connection check is the only reader of the connection: let it run a few dozen times
		time.Sleep(linger)
		closeExporter(ep)
	}
	return o
}

func runResumeOnce(r resumeOp) (obs, obs) {
	var srv *resumeServer
	var err error
	switch {
	case r.transport == "dtls":
		srv, err = rawDTLSResumeServer()
	case r.peer == "real":
		srv, err = libraryResumeServer(cell{transport: "tls", serverCert: "trusted", serverName: "unset", clientCert: "none", clientCA: "unset", peer: "real"})
	default:
		srv, err = rawTLSResumeServer(peerMax(r.peer))
	}
	if err != nil {
		return obs{harnessErr: err.Error()}, obs{}
	}
	defer srv.stop()
	a := resumeExporter(r, srv, r.first, 1, 300*time.Millisecond)
	if a.harnessErr != "" {
		return a, obs{}
	}
	b := resumeExporter(r, srv, r.second, 2, 0)
	return a, b
}

func runResume(r resumeOp) (out string) {
	defer func() {
		if rec := recover(); rec != nil {
			out = "panic"
			if os.Getenv("VERIF_PANIC_TRACE") != "" {
				fmt.Fprintf(os.Stderr, "panic in %+v: %v\n", r, rec)
			}
		}
	}()
	if !r.valid() {
		return "na"
	}
	a, b := runResumeOnce(r)
	retry := func(o obs) bool {
		return o.harnessErr == "collector-did-not-start" || (o.harnessErr == "" && o.initOk && !o.delivered)
	}
	if retry(a) || retry(b) {
		// only positive evidence counts: a second, fresh attempt before "not delivered" stands
		a2, b2 := runResumeOnce(r)
		if a2.harnessErr == "" && b2.harnessErr == "" {
			if retry(a) && !retry(a2) {
				a = a2
			}
			if retry(b) && !retry(b2) {
				b = b2
			}
		}
	}
	if a.harnessErr != "" {
		return a.String()
	}
	if b.harnessErr != "" {
		return b.String()
	}
	if r.transport == "dtls" {
		a.version, b.version = 0, 0
	}
	return a.String() + " ; " + b.String()
}

func runCellOnce(c cell) obs {
	switch {
	case c.peer == "real":
		return runReal(c)
	case strings.HasPrefix(c.peer, "srv"):
		return runRawServer(c)
	case strings.HasPrefix(c.peer, "cli"):
		return runRawClient(c)
	case c.peer == "plainsrv":
		return runPlainServer(c)
	case c.peer == "plaincli":
		return runPlainClient(c)
	default:
		return runRawPlainClient(c)
	}
}

func runCell(c cell) (out string) {
	defer func() {
		if r := recover(); r != nil {
			out = "panic"
			if os.Getenv("VERIF_PANIC_TRACE") != "" {
				fmt.Fprintf(os.Stderr, "panic in %+v: %v\n", c, r)
			}
		}
	}()
	if c.transport == "dtls" && (strings.HasPrefix(c.peer, "srv") || strings.HasPrefix(c.peer, "cli")) {
		return "na" // pion speaks DTLS 1.2 only; there is no second DTLS stack to be the raw peer
	}
	o := runCellOnce(c)
	if o.harnessErr == "" && o.initOk && !o.delivered && o.timedOut {
		// only positive evidence counts: a second, fresh attempt before "not delivered" stands
		if o2 := runCellOnce(c); o2.harnessErr == "" && o2.initOk && o2.delivered {
			o = o2
		}
	} else if o.harnessErr == "collector-did-not-start" {
		o = runCellOnce(c)
	}
	return o.String()
}

// ---- main --------------------------------------------------------------------------------------

type discard struct{}

func (discard) Write(p []byte) (int, error) { return len(p), nil }

func main() {
	klogFlags := flag.NewFlagSet("klog", flag.ContinueOnError)
	klog.InitFlags(klogFlags)
	klogFlags.Set("logtostderr", "false")
	klogFlags.Set("alsologtostderr", "false")
	klogFlags.Set("stderrthreshold", "FATAL")
	klogFlags.Set("v", "0")
	klog.SetOutput(discard{})
	klog.LogToStderr(false)

	registry.LoadRegistry()
	mintAll()

	var lines []string
	in := bufio.NewReaderSize(os.Stdin, 1<<20)
	for {
		line, err := in.ReadString('\n')
		if len(line) > 0 {
			lines = append(lines, strings.TrimRight(line, "\r\n"))
		}
		if err != nil {
			break
		}
	}
	workers := runtime.NumCPU()
	if workers > 16 {
		workers = 16
	}
	if w, err := strconv.Atoi(os.Getenv("VERIF_TLS_WORKERS")); err == nil && w > 0 {
		workers = w
	}
	results := make([]string, len(lines))
	// the resume ops first, one at a time, while nothing else touches a (possibly shared) session cache
	isResume := func(f []string) bool { return len(f) >= 2 && f[0] == "tls" && f[1] == "resume" }
	for i := range lines {
		if f := strings.Fields(lines[i]); isResume(f) {
			if r, ok := parseResume(f[2:]); ok {
				results[i] = runResume(r)
			} else {
				results[i] = "bad-op"
			}
		}
	}
	jobs := make(chan int)
	var wg sync.WaitGroup
	for w := 0; w < workers; w++ {
		wg.Add(1)
		go func() {
			defer wg.Done()
			for i := range jobs {
				f := strings.Fields(lines[i])
				switch {
				case len(f) == 0 || strings.HasPrefix(f[0], "#"):
					results[i] = "skip"
				case isResume(f):
					// run above, before the pool started
				case len(f) >= 2 && f[0] == "tls" && f[1] == "cell":
					if c, ok := parseCell(f[2:]); ok {
						results[i] = runCell(c)
					} else {
						results[i] = "bad-op"
					}
				default:
					results[i] = "bad-op"
				}
			}
		}()
	}
	// slow cells first would be nicer for the wall clock, but order of execution must not matter: keep input order
	for i := range lines {
		jobs <- i
	}
	close(jobs)
	wg.Wait()
	out := bufio.NewWriterSize(os.Stdout, 1<<16)
	for _, r := range results {
		out.WriteString(r)
		out.WriteByte('\n')
	}
	out.Flush()
	os.Exit(0) // do not wait for collectors stuck in a DTLS Accept
}
