// harness-framer (property C11): drives the REAL per-connection TCP reader of the collecting
// process (collector.handleTCPClient: bufio.Reader, getMessageLength, io.ReadFull, decodePacket)
// with exactly chosen segment boundaries.
//
// Every connection is a net.Pipe(). net.Pipe has no buffer: one Write on the client end is handed
// to the reader's Read calls as they come and returns when its last byte has been taken, so one
// `fr seg` = one segment, deterministically. The server end is wrapped so that RemoteAddr() is
// 127.0.0.1:<port> (decodePacket cuts the address at its last colon) and so that the harness can
// see when the reader goroutine is blocked in Read again. No sleeps: an op is finished when
//   - the Write has returned, and
//   - either handleTCPClient has returned (connection closed), or the reader has taken every
//     byte written so far and has entered a new Read (which must block: nothing is in flight).
//
// Messages are received from GetMsgChan() by the op itself (unbuffered channel: the reader cannot
// get past a delivery the harness has not seen). Between ops every reader is blocked in Read, so
// a delivery always belongs to the connection the current op writes to.
//
// Line protocol (one op per line on stdin, exactly one observation line per op on stdout):
//
//	# ...                           -> skip
//	fr new <strict|keep|drop>       -> ok           fresh collecting process, old connections torn down
//	fr open <conn>                  -> ok           new connection, reader started and waiting
//	fr seg <conn> <hex>             -> <msg> | <msg> ...   or  -      (rendering of engine dec)
//	fr state <conn>                 -> open | closed
//	fr eof <conn>                   -> closed       client end closed, reader has returned
package main

import (
	"bufio"
	"encoding/hex"
	"flag"
	"fmt"
	"math"
	"net"
	"os"
	"strconv"
	"strings"
	"sync"
	"time"

	"k8s.io/klog/v2"

	"github.com/vmware/go-ipfix/pkg/collector"
	"github.com/vmware/go-ipfix/pkg/entities"
	"github.com/vmware/go-ipfix/pkg/registry"
)

var opTimeout = 20 * time.Second

// ---- rendering (same as harness/cmd/harness: codec.go, eng_ie.go, eng_dec.go) -----------------

func unhex(s string) ([]byte, error) {
	if s == "-" {
		return []byte{}, nil
	}
	return hex.DecodeString(s)
}

func hexs(b []byte) string {
	if len(b) == 0 {
		return "-"
	}
	return hex.EncodeToString(b)
}

func ieToken(ie *entities.InfoElement) string {
	return fmt.Sprintf("%d:%d:%d:%d:%s", ie.EnterpriseId, ie.ElementId, ie.DataType, ie.Len, hexs([]byte(ie.Name)))
}

func iesToken(ies []*entities.InfoElement) string {
	if len(ies) == 0 {
		return "-"
	}
	var t []string
	for _, ie := range ies {
		t = append(t, ieToken(ie))
	}
	return strings.Join(t, ",")
}

func valueToken(e entities.InfoElementWithValue) string {
	switch e.GetDataType() {
	case entities.Unsigned8:
		return fmt.Sprintf("n%d", e.GetUnsigned8Value())
	case entities.Unsigned16:
		return fmt.Sprintf("n%d", e.GetUnsigned16Value())
	case entities.Unsigned32, entities.DateTimeSeconds:
		return fmt.Sprintf("n%d", e.GetUnsigned32Value())
	case entities.Unsigned64, entities.DateTimeMilliseconds:
		return fmt.Sprintf("n%d", e.GetUnsigned64Value())
	case entities.Signed8:
		return fmt.Sprintf("n%d", uint8(e.GetSigned8Value()))
	case entities.Signed16:
		return fmt.Sprintf("n%d", uint16(e.GetSigned16Value()))
	case entities.Signed32:
		return fmt.Sprintf("n%d", uint32(e.GetSigned32Value()))
	case entities.Signed64:
		return fmt.Sprintf("n%d", uint64(e.GetSigned64Value()))
	case entities.Float32:
		return fmt.Sprintf("n%d", math.Float32bits(e.GetFloat32Value()))
	case entities.Float64:
		return fmt.Sprintf("n%d", math.Float64bits(e.GetFloat64Value()))
	case entities.Boolean:
		if e.GetBooleanValue() {
			return "t"
		}
		return "f"
	case entities.MacAddress:
		return "x" + hexs(e.GetMacAddressValue())
	case entities.String:
		return "x" + hexs([]byte(e.GetStringValue()))
	case entities.Ipv4Address, entities.Ipv6Address:
		return "x" + hexs(e.GetIPAddressValue())
	case entities.OctetArray:
		return "x" + hexs(e.GetOctetArrayValue())
	}
	return "?"
}

func recordsToken(set entities.Set) string {
	var recs []string
	for _, r := range set.GetRecords() {
		var vals []string
		for _, e := range r.GetOrderedElementList() {
			vals = append(vals, valueToken(e))
		}
		if len(vals) == 0 {
			recs = append(recs, "-")
		} else {
			recs = append(recs, strings.Join(vals, ","))
		}
	}
	if len(recs) == 0 {
		return "-"
	}
	return strings.Join(recs, ";")
}

func msgToken(m *entities.Message) string {
	set := m.GetSet()
	hdr := fmt.Sprintf("ok %d %d %d %d", m.GetMessageLen(), m.GetExportTime(), m.GetSequenceNum(), m.GetObsDomainID())
	recs := set.GetRecords()
	if set.GetSetType() == entities.Template {
		if len(recs) != 1 {
			return fmt.Sprintf("%s tpl-with-%d-records", hdr, len(recs))
		}
		var ies []*entities.InfoElement
		for _, e := range recs[0].GetOrderedElementList() {
			ies = append(ies, e.GetInfoElement())
		}
		return fmt.Sprintf("%s tpl %d %s", hdr, recs[0].GetTemplateID(), iesToken(ies))
	}
	id := -1
	for _, r := range recs {
		if id == -1 {
			id = int(r.GetTemplateID())
		} else if id != int(r.GetTemplateID()) {
			return hdr + " data-mixed-ids"
		}
	}
	return fmt.Sprintf("%s data %s", hdr, recordsToken(set))
}

func modeOf(s string) (collector.DecodingMode, bool) {
	switch s {
	case "strict":
		return collector.DecodingModeStrict, true
	case "keep":
		return collector.DecodingModeLenientKeepUnknown, true
	case "drop":
		return collector.DecodingModeLenientDropUnknown, true
	}
	return "", false
}

// ---- the instrumented server end of a connection ------------------------------------------------

type tcpAddr struct{ s string }

func (a tcpAddr) Network() string { return "tcp" }
func (a tcpAddr) String() string  { return a.s }

type vconn struct {
	net.Conn
	remote net.Addr
	mu     sync.Mutex
	inRead bool // the reader goroutine is inside Read
	got    int  // bytes the reader has been given so far
	notify chan struct{}
	// A read deadline armed by the reader. The property quantifies over every segmentation of the stream,
	// delays of any length between two segments included, so a deadline the reader arms is taken to expire
	// whenever the reader has to WAIT for the next segment: the connection hands the reader one timeout per
	// stream position (after a short real wait, so that bytes of a Write in progress still get through) and
	// only then counts the reader as blocked. The reader of the unchanged tree arms none.
	armed    bool
	timeouts int // timeouts handed out since the last byte
}

func (c *vconn) arm(t time.Time) error {
	c.mu.Lock()
	c.armed = !t.IsZero()
	c.mu.Unlock()
	return nil
}

func (c *vconn) SetDeadline(t time.Time) error     { return c.arm(t) }
func (c *vconn) SetReadDeadline(t time.Time) error { return c.arm(t) }

func (c *vconn) RemoteAddr() net.Addr { return c.remote }

func (c *vconn) signal() {
	select {
	case c.notify <- struct{}{}:
	default:
	}
}

func (c *vconn) Read(p []byte) (int, error) {
	c.mu.Lock()
	c.inRead = true
	expire := c.armed && c.timeouts == 0
	c.mu.Unlock()
	if expire {
		c.Conn.SetReadDeadline(time.Now().Add(30 * time.Millisecond))
	} else {
		c.Conn.SetReadDeadline(time.Time{})
		c.signal()
	}
	n, err := c.Conn.Read(p)
	c.mu.Lock()
	c.inRead = false
	c.got += n
	if n > 0 {
		c.timeouts = 0
	} else if expire && err != nil {
		c.timeouts++
	}
	c.mu.Unlock()
	c.signal()
	return n, err
}

// waiting reports whether the reader has taken `written` bytes and is blocked in a new Read.
func (c *vconn) waiting(written int) bool {
	c.mu.Lock()
	defer c.mu.Unlock()
	return c.inRead && c.got == written && (!c.armed || c.timeouts > 0)
}

type connection struct {
	client       net.Conn
	srv          *vconn
	done         chan struct{} // closed when handleTCPClient has returned
	written      int
	clientClosed bool
}

func (c *connection) isDone() bool {
	select {
	case <-c.done:
		return true
	default:
		return false
	}
}

// ---- the collector's clock -----------------------------------------------------------------------

type frTimer struct {
	c     *frClock
	f     func()
	armed bool
}

func (t *frTimer) Stop() bool {
	t.c.mu.Lock()
	defer t.c.mu.Unlock()
	was := t.armed
	t.armed = false
	return was
}

func (t *frTimer) Reset(d time.Duration) bool {
	t.c.mu.Lock()
	defer t.c.mu.Unlock()
	was := t.armed
	t.armed = true
	return was
}

type frClock struct {
	mu     sync.Mutex
	now    time.Time
	timers []*frTimer
}

func (c *frClock) Now() time.Time {
	c.mu.Lock()
	defer c.mu.Unlock()
	if c.now.IsZero() {
		c.now = time.Unix(1700000000, 0)
	}
	return c.now
}

func (c *frClock) AfterFunc(d time.Duration, f func()) collector.VerifTimer {
	c.mu.Lock()
	defer c.mu.Unlock()
	t := &frTimer{c: c, f: f, armed: true}
	c.timers = append(c.timers, t)
	return t
}

// fireAll advances the clock by a day and runs the callback of every armed timer; returns how many ran
func (c *frClock) fireAll() int {
	c.mu.Lock()
	if c.now.IsZero() {
		c.now = time.Unix(1700000000, 0)
	}
	c.now = c.now.Add(24 * time.Hour)
	var run []*frTimer
	for _, t := range c.timers {
		if t.armed {
			t.armed = false
			run = append(run, t)
		}
	}
	c.mu.Unlock()
	for _, t := range run {
		t.f()
	}
	return len(run)
}

var fclock *frClock

// ---- engine ---------------------------------------------------------------------------------

var (
	cp    *collector.CollectingProcess
	msgCh <-chan *entities.Message
	conns = map[int]*connection{}
)

// settle waits until the op is finished (see the top of the file), receiving and rendering every
// message delivered meanwhile.
func settle(c *connection, writeDone chan error, needWrite bool) (delivered []string, ok bool) {
	timer := time.NewTimer(opTimeout)
	defer timer.Stop()
	wrote := !needWrite
	done := c.done
	isDone := false
	for {
		if wrote && (isDone || c.srv.waiting(c.written)) {
			return delivered, true
		}
		select {
		case m := <-msgCh:
			delivered = append(delivered, msgToken(m))
		case <-c.srv.notify:
		case err := <-writeDone:
			_ = err
			wrote = true
			writeDone = nil
		case <-done:
			isDone = true
			done = nil
		case <-timer.C:
			return delivered, false
		}
	}
}

// waitDone waits for handleTCPClient to return; returns the number of messages delivered meanwhile
// (there should be none) and false on timeout.
func waitDone(c *connection) (int, bool) {
	timer := time.NewTimer(opTimeout)
	defer timer.Stop()
	extra := 0
	for {
		select {
		case <-c.done:
			return extra, true
		case <-msgCh:
			extra++
		case <-timer.C:
			return extra, false
		}
	}
}

func teardown() {
	for id, c := range conns {
		if !c.clientClosed {
			c.client.Close()
			c.clientClosed = true
		}
		waitDone(c) // the reader returns on EOF
		delete(conns, id)
	}
}

func engFr(a []string) string {
	if len(a) == 0 {
		return "bad-op"
	}
	switch a[0] {
	case "new":
		if len(a) != 2 {
			return "bad-op"
		}
		mode, ok := modeOf(a[1])
		if !ok {
			return "bad-op"
		}
		teardown()
		// a TemplateTTL on a TCP collector is legal and must have no effect; the collector's clock is the harness's:
		// whatever gets scheduled on it fires at the next `fr tick`
		fclock = &frClock{}
		p, err := collector.VerifNewCollectorNoDrainClock(collector.CollectorInput{Protocol: "tcp", MaxBufferSize: 65535, DecodingMode: mode, TemplateTTL: 1}, fclock)
		if err != nil {
			return "bad-op"
		}
		cp = p
		msgCh = p.GetMsgChan()
		return "ok"
	case "tick":
		// time passes (more than any lifetime): every timer armed on the collector's clock fires, callbacks run here
		if len(a) != 1 || cp == nil {
			return "bad-op"
		}
		return fmt.Sprintf("ok %d", fclock.fireAll())
	case "open":
		if len(a) != 2 || cp == nil {
			return "bad-op"
		}
		id, err := strconv.Atoi(a[1])
		if err != nil || id < 0 || id > 50000 {
			return "bad-op"
		}
		if _, dup := conns[id]; dup {
			return "bad-op"
		}
		client, server := net.Pipe()
		srv := &vconn{Conn: server, remote: tcpAddr{fmt.Sprintf("127.0.0.1:%d", 10000+id)}, notify: make(chan struct{}, 1)}
		c := &connection{client: client, srv: srv, done: make(chan struct{})}
		conns[id] = c
		p := cp
		go func() {
			defer close(c.done)
			p.VerifHandleTCPClient(srv)
		}()
		if _, ok := settle(c, nil, false); !ok {
			return "hang"
		}
		return "ok"
	case "seg":
		if len(a) != 3 || cp == nil {
			return "bad-op"
		}
		id, err := strconv.Atoi(a[1])
		c, found := conns[id]
		b, err2 := unhex(a[2])
		if err != nil || err2 != nil || !found {
			return "bad-op"
		}
		if len(b) == 0 || c.clientClosed || c.isDone() {
			// nothing to write / nowhere to write to: bytes sent on a closed connection are lost
			return "-"
		}
		writeDone := make(chan error, 1)
		go func() {
			n, err := c.client.Write(b)
			c.srv.mu.Lock()
			c.written += n
			c.srv.mu.Unlock()
			writeDone <- err
		}()
		delivered, ok := settle(c, writeDone, true)
		if !ok {
			return "hang"
		}
		if len(delivered) == 0 {
			return "-"
		}
		return strings.Join(delivered, " | ")
	case "state":
		if len(a) != 2 {
			return "bad-op"
		}
		id, err := strconv.Atoi(a[1])
		c, found := conns[id]
		if err != nil || !found {
			return "bad-op"
		}
		if c.isDone() {
			return "closed"
		}
		return "open"
	case "eof":
		if len(a) != 2 {
			return "bad-op"
		}
		id, err := strconv.Atoi(a[1])
		c, found := conns[id]
		if err != nil || !found {
			return "bad-op"
		}
		if !c.clientClosed {
			c.client.Close()
			c.clientClosed = true
		}
		extra, ok := waitDone(c)
		if !ok {
			return "hang"
		}
		if extra > 0 {
			return fmt.Sprintf("closed after-%d-deliveries", extra)
		}
		return "closed"
	}
	return "bad-op"
}

func runOp(line string) string {
	fields := strings.Fields(line)
	if len(fields) == 0 || strings.HasPrefix(fields[0], "#") {
		return "skip"
	}
	if fields[0] != "fr" {
		return "bad-op"
	}
	return engFr(fields[1:])
}

type discard struct{}

func (discard) Write(p []byte) (int, error) { return len(p), nil }

func main() {
	klogFlags := flag.NewFlagSet("klog", flag.ContinueOnError)
	klog.InitFlags(klogFlags)
	klogFlags.Set("logtostderr", "false")
	klogFlags.Set("alsologtostderr", "false")
	klogFlags.Set("stderrthreshold", "FATAL")
	klogFlags.Set("v", "0")
	klog.SetOutput(discard{})
	klog.LogToStderr(false)

	registry.LoadRegistry()
	in := bufio.NewReaderSize(os.Stdin, 1<<20)
	out := bufio.NewWriterSize(os.Stdout, 1<<16)
	defer out.Flush()
	n := 0
	for {
		line, err := in.ReadString('\n')
		if len(line) > 0 {
			r := runOp(strings.TrimRight(line, "\r\n"))
			out.WriteString(r)
			out.WriteByte('\n')
			n++
			if r == "hang" {
				out.Flush()
				os.Exit(3)
			}
			if n%256 == 0 {
				out.Flush()
			}
		}
		if err != nil {
			break
		}
	}
}
