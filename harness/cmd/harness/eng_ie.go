package main

import (
	"fmt"
	"strings"

	"github.com/vmware/go-ipfix/pkg/collector"
	"github.com/vmware/go-ipfix/pkg/entities"
)

// engine "ie": the element codec (property C15)
//   ie enc <ie> <value>        -> ok <hex> <GetLength> | err <GetLength>
//   ie rt  <ie> <value> <tail> -> ok <hex> <len> <records> | encerr | decerr   (encode, then let the
//                                 collector's data-set decoder consume hex+tail with the one-element template)
//   ie dec <ie> <hex>          -> ok <records> | err     (collector decoder on arbitrary bytes)
func init() { engines["ie"] = engIE }

var ieCollector *collector.CollectingProcess

func ieCP() *collector.CollectingProcess {
	if ieCollector == nil {
		cp, err := collector.VerifNewCollector(collector.CollectorInput{Protocol: "tcp", MaxBufferSize: 65535, DecodingMode: collector.DecodingModeLenientKeepUnknown}, nil)
		if err != nil {
			panic(err)
		}
		ieCollector = cp
	}
	return ieCollector
}

// encodeOne encodes a single element exactly as a data record does, but keeps the error.
func encodeOne(e entities.InfoElementWithValue) ([]byte, int, error) {
	l := e.GetLength()
	if l < 0 || l > 1<<20 {
		return nil, l, fmt.Errorf("length out of range")
	}
	buf := make([]byte, l)
	err := entities.VerifEncodeElement(e, buf, 0)
	return buf, l, err
}

func recordsToken(set entities.Set) string {
	var recs []string
	for _, r := range set.GetRecords() {
		var vals []string
		for _, e := range r.GetOrderedElementList() {
			vals = append(vals, valueToken(e))
		}
		if len(vals) == 0 {
			recs = append(recs, ".")
		} else {
			recs = append(recs, strings.Join(vals, ","))
		}
	}
	if len(recs) == 0 {
		return "-"
	}
	return strings.Join(recs, ";")
}

func engIE(a []string) string {
	if len(a) < 3 {
		return "bad-op"
	}
	ie, err := parseIE(a[1])
	if err != nil {
		return "bad-op"
	}
	switch a[0] {
	case "enc":
		e, err := mkElem(ie, a[2])
		if err != nil {
			return "bad-op"
		}
		buf, l, err := encodeOne(e)
		if err != nil {
			return fmt.Sprintf("err %d", l)
		}
		// the same bytes must come out of the public record API
		set := entities.NewSet(false)
		set.PrepareSet(entities.Data, 256)
		if err := set.AddRecord([]entities.InfoElementWithValue{e}, 256); err != nil {
			return "adderr"
		}
		rec := set.GetRecords()[0]
		if rec.GetRecordLength() != l || hexs(rec.GetBuffer()) != hexs(buf) {
			return fmt.Sprintf("record-mismatch %s %d", hexs(rec.GetBuffer()), rec.GetRecordLength())
		}
		return fmt.Sprintf("ok %s %d", hexs(buf), l)
	case "rt":
		if len(a) < 4 {
			return "bad-op"
		}
		e, err := mkElem(ie, a[2])
		if err != nil {
			return "bad-op"
		}
		tail, err := unhex(a[3])
		if err != nil {
			return "bad-op"
		}
		buf, l, err := encodeOne(e)
		if err != nil {
			return "encerr"
		}
		cp := ieCP()
		cp.VerifSetTemplate(1, 256, []*entities.InfoElement{ie})
		set, err := cp.VerifDecodeDataSet(append(append([]byte{}, buf...), tail...), 1, 256)
		if err != nil {
			return "decerr"
		}
		return fmt.Sprintf("ok %s %d %s", hexs(buf), l, recordsToken(set))
	case "dec":
		b, err := unhex(a[2])
		if err != nil {
			return "bad-op"
		}
		cp := ieCP()
		cp.VerifSetTemplate(1, 256, []*entities.InfoElement{ie})
		set, err := cp.VerifDecodeDataSet(b, 1, 256)
		if err != nil {
			return "err"
		}
		return "ok " + recordsToken(set)
	}
	return "bad-op"
}
