package main

import (
	"fmt"
	"strconv"
	"strings"

	"github.com/vmware/go-ipfix/pkg/collector"
	"github.com/vmware/go-ipfix/pkg/entities"
)

// engine "ie": the element codec (property C15)
//
//	ie enc <ie> <value>        -> ok <hex> <GetLength> | err <GetLength>
//	ie rt  <ie> <value> <tail> -> ok <hex> <len> <records> | encerr | decerr   (encode, then let the
//	                              collector's data-set decoder consume hex+tail with the one-element template)
//	ie dec <ie> <hex>          -> ok <records> | err     (collector decoder on arbitrary bytes)
//	ie recbuf <elems>          -> buf <GetRecordLength> <hex of GetBuffer> | paths-differ ...
//	                              (<elems> = ie=value,ie=value as in `bld add`; an encoding data record
//	                              built from the elements, whatever their values: GetBuffer only logs
//	                              the error of an element and goes on. Built twice, by AddRecordV2 and
//	                              by AddRecord; the two must agree.)
//	ie mut <ie> <v1> <v2|reset> -> as `ie enc` for the element's FINAL value (made with v1, then SetXxxValue(v2) or ResetValue())
//	ie recbufx <elems> <k>     -> the same answer as `ie recbuf <elems>`: the record is built from the first k
//	                              elements, GetBuffer is called, the others are appended by AddInfoElement
//	                              Elements of a type without typed constructor (mkElem's default branch)
//	                              are carried by an octet-array / unsigned64 / boolean element; for a byte
//	                              value and declared length 65535 that carrier reports len(value)+1 -
//	                              no such element exists in the model, generators do not produce it.
func init() { engines["ie"] = engIE }

var ieCollector *collector.CollectingProcess

func ieCP() *collector.CollectingProcess {
	if ieCollector == nil {
		cp, err := collector.VerifNewCollector(collector.CollectorInput{Protocol: "tcp", MaxBufferSize: 65535, DecodingMode: collector.DecodingModeLenientKeepUnknown}, nil)
		if err != nil {
			panic(err)
		}
		ieCollector = cp
	}
	return ieCollector
}

// encodeOne encodes a single element exactly as a data record does, but keeps the error.
func encodeOne(e entities.InfoElementWithValue) ([]byte, int, error) {
	l := e.GetLength()
	if l < 0 || l > 1<<20 {
		return nil, l, fmt.Errorf("length out of range")
	}
	buf := make([]byte, l)
	err := entities.VerifEncodeElement(e, buf, 0)
	return buf, l, err
}

// scribble overwrites a packet buffer the decoder has been given, as a caller that reads the next packet into the same
// buffer does: decoded values (octet arrays, strings, addresses) must be copies, not views of the input
func scribble(b []byte) {
	for i := range b {
		b[i] = 0xA5
	}
}

func recordsToken(set entities.Set) string {
	var recs []string
	for _, r := range set.GetRecords() {
		var vals []string
		for _, e := range r.GetOrderedElementList() {
			vals = append(vals, valueToken(e))
		}
		if len(vals) == 0 {
			recs = append(recs, ".")
		} else {
			recs = append(recs, strings.Join(vals, ","))
		}
	}
	if len(recs) == 0 {
		return "-"
	}
	return strings.Join(recs, ";")
}

// recbuf builds the data record through the public API and returns what the exporter would copy out.
func recbuf(tok string) string {
	build := func(v2 bool) (int, []byte, error) {
		// a fresh element slice per record: AddRecordV2 keeps the slice it is given
		elems, err := parseElems(tok)
		if err != nil {
			return 0, nil, err
		}
		set := entities.NewSet(false)
		if err := set.PrepareSet(entities.Data, 256); err != nil {
			return 0, nil, err
		}
		if v2 {
			err = set.AddRecordV2(elems, 256)
		} else {
			err = set.AddRecord(elems, 256)
		}
		if err != nil {
			return 0, nil, err
		}
		rec := set.GetRecords()[0]
		l := rec.GetRecordLength()
		b := rec.GetBuffer()
		return l, b, nil
	}
	if _, err := parseElems(tok); err != nil {
		return "bad-op"
	}
	l2, b2, err := build(true)
	if err != nil {
		return "adderr"
	}
	l0, b0, err := build(false)
	if err != nil {
		return "adderr"
	}
	if l2 != l0 || hexs(b2) != hexs(b0) {
		return fmt.Sprintf("paths-differ %d %s %d %s", l2, hexs(b2), l0, hexs(b0))
	}
	return fmt.Sprintf("buf %d %s", l2, hexs(b2))
}

// recbufx: the record is built from the first k elements, its buffer is taken (as the exporter's sanity check or a
// user does), then the remaining elements are appended one at a time with AddInfoElement, the buffer taken again
// after each: what comes out at the end must be what a record built from all the elements in one go gives.
func recbufx(tok string, k int) string {
	all, err := parseElems(tok)
	if err != nil || k < 0 || k > len(all) {
		return "bad-op"
	}
	build := func(v2 bool) (int, []byte, error) {
		elems, _ := parseElems(tok)
		set := entities.NewSet(false)
		if err := set.PrepareSet(entities.Data, 256); err != nil {
			return 0, nil, err
		}
		if v2 {
			err = set.AddRecordV2(elems[:k:k], 256)
		} else {
			err = set.AddRecord(elems[:k], 256)
		}
		if err != nil {
			return 0, nil, err
		}
		rec := set.GetRecords()[0]
		rec.GetBuffer()
		for _, e := range elems[k:] {
			if err := rec.AddInfoElement(e); err != nil {
				return 0, nil, err
			}
			if b := rec.GetBuffer(); len(b) != rec.GetRecordLength() {
				return 0, nil, fmt.Errorf("buffer of %d bytes for a record of %d", len(b), rec.GetRecordLength())
			}
		}
		return rec.GetRecordLength(), rec.GetBuffer(), nil
	}
	l2, b2, err := build(true)
	if err != nil {
		return "adderr " + strings.ReplaceAll(err.Error(), " ", "_")
	}
	l0, b0, err := build(false)
	if err != nil {
		return "adderr " + strings.ReplaceAll(err.Error(), " ", "_")
	}
	if l2 != l0 || hexs(b2) != hexs(b0) {
		return fmt.Sprintf("paths-differ %d %s %d %s", l2, hexs(b2), l0, hexs(b0))
	}
	return fmt.Sprintf("buf %d %s", l2, hexs(b2))
}

// copyValue stores src's value into dst with dst's typed setter (both were made for the same information element)
func copyValue(dst, src entities.InfoElementWithValue) bool {
	switch dst.GetDataType() {
	case entities.OctetArray:
		dst.SetOctetArrayValue(src.GetOctetArrayValue())
	case entities.Unsigned8:
		dst.SetUnsigned8Value(src.GetUnsigned8Value())
	case entities.Unsigned16:
		dst.SetUnsigned16Value(src.GetUnsigned16Value())
	case entities.Unsigned32:
		dst.SetUnsigned32Value(src.GetUnsigned32Value())
	case entities.Unsigned64:
		dst.SetUnsigned64Value(src.GetUnsigned64Value())
	case entities.Signed8:
		dst.SetSigned8Value(src.GetSigned8Value())
	case entities.Signed16:
		dst.SetSigned16Value(src.GetSigned16Value())
	case entities.Signed32:
		dst.SetSigned32Value(src.GetSigned32Value())
	case entities.Signed64:
		dst.SetSigned64Value(src.GetSigned64Value())
	case entities.Float32:
		dst.SetFloat32Value(src.GetFloat32Value())
	case entities.Float64:
		dst.SetFloat64Value(src.GetFloat64Value())
	case entities.Boolean:
		dst.SetBooleanValue(src.GetBooleanValue())
	case entities.MacAddress:
		dst.SetMacAddressValue(src.GetMacAddressValue())
	case entities.String:
		dst.SetStringValue(src.GetStringValue())
	case entities.DateTimeSeconds:
		dst.SetUnsigned32Value(src.GetUnsigned32Value())
	case entities.DateTimeMilliseconds:
		dst.SetUnsigned64Value(src.GetUnsigned64Value())
	case entities.Ipv4Address, entities.Ipv6Address:
		dst.SetIPAddressValue(src.GetIPAddressValue())
	default:
		return false
	}
	return true
}

// mut: an element that lives on - made with <v1>, then given <v2> through its typed setter, or reset - is encoded; what
// goes out (bytes and reported length) must be what a fresh element with the final value gives
func mut(ie *entities.InfoElement, v1, v2 string) string {
	e, err := mkElem(ie, v1)
	if err != nil {
		return "bad-op"
	}
	e.GetLength() // a caller may ask before it changes the value
	// byte-valued elements: the caller keeps the slice it made the element with (several elements may start from one
	// shared "unset" slice); giving the element another value must not write into that slice
	var mine, before []byte
	switch ie.DataType {
	case entities.OctetArray:
		mine = e.GetOctetArrayValue()
	case entities.MacAddress:
		mine = e.GetMacAddressValue()
	case entities.Ipv4Address, entities.Ipv6Address:
		mine = e.GetIPAddressValue()
	}
	before = append([]byte(nil), mine...)
	if v2 == "reset" {
		e.ResetValue()
	} else {
		e2, err := mkElem(ie, v2)
		if err != nil || !copyValue(e, e2) {
			return "bad-op"
		}
	}
	if hexs(mine) != hexs(before) {
		return "caller-slice-changed " + hexs(mine)
	}
	buf, l, err := encodeOne(e)
	if err != nil {
		return fmt.Sprintf("err %d", l)
	}
	set := entities.NewSet(false)
	set.PrepareSet(entities.Data, 256)
	if err := set.AddRecord([]entities.InfoElementWithValue{e}, 256); err != nil {
		return "adderr"
	}
	rec := set.GetRecords()[0]
	if rec.GetRecordLength() != l || hexs(rec.GetBuffer()) != hexs(buf) {
		return fmt.Sprintf("record-mismatch %s %d", hexs(rec.GetBuffer()), rec.GetRecordLength())
	}
	return fmt.Sprintf("ok %s %d", hexs(buf), l)
}

func engIE(a []string) string {
	if len(a) == 4 && a[0] == "mut" {
		ie, err := parseIE(a[1])
		if err != nil {
			return "bad-op"
		}
		return mut(ie, a[2], a[3])
	}
	if len(a) == 2 && a[0] == "recbuf" {
		return recbuf(a[1])
	}
	if len(a) == 3 && a[0] == "recbufx" {
		k, err := strconv.Atoi(a[2])
		if err != nil {
			return "bad-op"
		}
		return recbufx(a[1], k)
	}
	if len(a) < 3 {
		return "bad-op"
	}
	ie, err := parseIE(a[1])
	if err != nil {
		return "bad-op"
	}
	switch a[0] {
	case "enc":
		e, err := mkElem(ie, a[2])
		if err != nil {
			return "bad-op"
		}
		buf, l, err := encodeOne(e)
		if err != nil {
			return fmt.Sprintf("err %d", l)
		}
		// the same bytes must come out of the public record API
		set := entities.NewSet(false)
		set.PrepareSet(entities.Data, 256)
		if err := set.AddRecord([]entities.InfoElementWithValue{e}, 256); err != nil {
			return "adderr"
		}
		rec := set.GetRecords()[0]
		if rec.GetRecordLength() != l || hexs(rec.GetBuffer()) != hexs(buf) {
			return fmt.Sprintf("record-mismatch %s %d", hexs(rec.GetBuffer()), rec.GetRecordLength())
		}
		return fmt.Sprintf("ok %s %d", hexs(buf), l)
	case "rt":
		if len(a) < 4 {
			return "bad-op"
		}
		e, err := mkElem(ie, a[2])
		if err != nil {
			return "bad-op"
		}
		tail, err := unhex(a[3])
		if err != nil {
			return "bad-op"
		}
		buf, l, err := encodeOne(e)
		if err != nil {
			return "encerr"
		}
		cp := ieCP()
		cp.VerifSetTemplate(1, 256, []*entities.InfoElement{ie})
		in := append(append([]byte{}, buf...), tail...)
		set, err := cp.VerifDecodeDataSet(in, 1, 256)
		scribble(in) // the caller reuses its packet buffer: what was decoded must not live in it
		if err != nil {
			return "decerr"
		}
		return fmt.Sprintf("ok %s %d %s", hexs(buf), l, recordsToken(set))
	case "dec":
		b, err := unhex(a[2])
		if err != nil {
			return "bad-op"
		}
		cp := ieCP()
		cp.VerifSetTemplate(1, 256, []*entities.InfoElement{ie})
		set, err := cp.VerifDecodeDataSet(b, 1, 256)
		scribble(b)
		if err != nil {
			return "err"
		}
		return "ok " + recordsToken(set)
	}
	return "bad-op"
}
