package main

import (
	"crypto/ecdsa"
	"crypto/elliptic"
	"crypto/rand"
	"crypto/x509"
	"crypto/x509/pkix"
	"encoding/pem"
	"math/big"
	"net"
	"sync"
	"time"
)

// Certificates are minted at run time (never the static, expired ones of the repository's tests).
type pki struct {
	caPEM, serverCertPEM, serverKeyPEM []byte
}

var (
	pkiOnce sync.Once
	thePKI  *pki
)

func getPKI() *pki {
	pkiOnce.Do(func() {
		caKey, _ := ecdsa.GenerateKey(elliptic.P256(), rand.Reader)
		caTpl := &x509.Certificate{
			SerialNumber: big.NewInt(1), Subject: pkix.Name{CommonName: "verif test CA"},
			NotBefore: time.Now().Add(-time.Hour), NotAfter: time.Now().Add(24 * time.Hour),
			IsCA: true, BasicConstraintsValid: true, KeyUsage: x509.KeyUsageCertSign | x509.KeyUsageDigitalSignature,
		}
		caDER, _ := x509.CreateCertificate(rand.Reader, caTpl, caTpl, &caKey.PublicKey, caKey)
		caCert, _ := x509.ParseCertificate(caDER)
		srvKey, _ := ecdsa.GenerateKey(elliptic.P256(), rand.Reader)
		srvTpl := &x509.Certificate{
			SerialNumber: big.NewInt(2), Subject: pkix.Name{CommonName: "verif collector"},
			NotBefore: time.Now().Add(-time.Hour), NotAfter: time.Now().Add(24 * time.Hour),
			KeyUsage: x509.KeyUsageDigitalSignature, ExtKeyUsage: []x509.ExtKeyUsage{x509.ExtKeyUsageServerAuth},
			DNSNames: []string{"localhost"}, IPAddresses: []net.IP{net.ParseIP("127.0.0.1"), net.ParseIP("::1")},
		}
		srvDER, _ := x509.CreateCertificate(rand.Reader, srvTpl, caCert, &srvKey.PublicKey, caKey)
		keyDER, _ := x509.MarshalECPrivateKey(srvKey)
		thePKI = &pki{
			caPEM:         pem.EncodeToMemory(&pem.Block{Type: "CERTIFICATE", Bytes: caDER}),
			serverCertPEM: pem.EncodeToMemory(&pem.Block{Type: "CERTIFICATE", Bytes: srvDER}),
			serverKeyPEM:  pem.EncodeToMemory(&pem.Block{Type: "EC PRIVATE KEY", Bytes: keyDER}),
		}
	})
	return thePKI
}
