package main

import (
	"encoding/hex"
	"fmt"
	"math"
	"net"
	"strconv"
	"strings"

	"github.com/vmware/go-ipfix/pkg/entities"
)

func unhex(s string) ([]byte, error) {
	if s == "-" {
		return nil, nil // nil, not empty: IsValueEmpty() of byte-slice elements tests for nil
	}
	return hex.DecodeString(s)
}

func hexs(b []byte) string {
	if len(b) == 0 {
		return "-"
	}
	return hex.EncodeToString(b)
}

// IE token: ent:id:ty:len:hexname
func parseIE(tok string) (*entities.InfoElement, error) {
	p := strings.Split(tok, ":")
	if len(p) != 5 {
		return nil, fmt.Errorf("bad ie token")
	}
	ent, e1 := strconv.ParseUint(p[0], 10, 32)
	id, e2 := strconv.ParseUint(p[1], 10, 16)
	ty, e3 := strconv.ParseUint(p[2], 10, 8)
	ln, e4 := strconv.ParseUint(p[3], 10, 16)
	name, e5 := unhex(p[4])
	for _, e := range []error{e1, e2, e3, e4, e5} {
		if e != nil {
			return nil, e
		}
	}
	return entities.NewInfoElement(string(name), uint16(id), entities.IEDataType(ty), uint32(ent), uint16(ln)), nil
}

func ieToken(ie *entities.InfoElement) string {
	return fmt.Sprintf("%d:%d:%d:%d:%s", ie.EnterpriseId, ie.ElementId, ie.DataType, ie.Len, hexs([]byte(ie.Name)))
}

func parseIEs(tok string) ([]*entities.InfoElement, error) {
	if tok == "-" {
		return nil, nil
	}
	var out []*entities.InfoElement
	for _, t := range strings.Split(tok, ",") {
		ie, err := parseIE(t)
		if err != nil {
			return nil, err
		}
		out = append(out, ie)
	}
	return out, nil
}

// value tokens: n<decimal> (bit pattern), t / f, x<hex> (x- empty)
func mkElem(ie *entities.InfoElement, tok string) (entities.InfoElementWithValue, error) {
	if tok == "" {
		return nil, fmt.Errorf("empty value")
	}
	kind, rest := tok[0], tok[1:]
	var n uint64
	var b []byte
	var err error
	switch kind {
	case 'n':
		n, err = strconv.ParseUint(rest, 10, 64)
	case 'x':
		b, err = unhex(rest)
	case 't', 'f':
	default:
		err = fmt.Errorf("bad value kind")
	}
	if err != nil {
		return nil, err
	}
	needNum := func() error {
		if kind != 'n' {
			return fmt.Errorf("value kind mismatch")
		}
		return nil
	}
	needBytes := func() error {
		if kind != 'x' {
			return fmt.Errorf("value kind mismatch")
		}
		return nil
	}
	switch ie.DataType {
	case entities.Unsigned8:
		if err := needNum(); err != nil || n > math.MaxUint8 {
			return nil, fmt.Errorf("bad u8")
		}
		return entities.NewUnsigned8InfoElement(ie, uint8(n)), nil
	case entities.Unsigned16:
		if err := needNum(); err != nil || n > math.MaxUint16 {
			return nil, fmt.Errorf("bad u16")
		}
		return entities.NewUnsigned16InfoElement(ie, uint16(n)), nil
	case entities.Unsigned32:
		if err := needNum(); err != nil || n > math.MaxUint32 {
			return nil, fmt.Errorf("bad u32")
		}
		return entities.NewUnsigned32InfoElement(ie, uint32(n)), nil
	case entities.Unsigned64:
		if err := needNum(); err != nil {
			return nil, err
		}
		return entities.NewUnsigned64InfoElement(ie, n), nil
	case entities.Signed8:
		if err := needNum(); err != nil || n > math.MaxUint8 {
			return nil, fmt.Errorf("bad s8")
		}
		return entities.NewSigned8InfoElement(ie, int8(uint8(n))), nil
	case entities.Signed16:
		if err := needNum(); err != nil || n > math.MaxUint16 {
			return nil, fmt.Errorf("bad s16")
		}
		return entities.NewSigned16InfoElement(ie, int16(uint16(n))), nil
	case entities.Signed32:
		if err := needNum(); err != nil || n > math.MaxUint32 {
			return nil, fmt.Errorf("bad s32")
		}
		return entities.NewSigned32InfoElement(ie, int32(uint32(n))), nil
	case entities.Signed64:
		if err := needNum(); err != nil {
			return nil, err
		}
		return entities.NewSigned64InfoElement(ie, int64(n)), nil
	case entities.Float32:
		if err := needNum(); err != nil || n > math.MaxUint32 {
			return nil, fmt.Errorf("bad f32")
		}
		return entities.NewFloat32InfoElement(ie, math.Float32frombits(uint32(n))), nil
	case entities.Float64:
		if err := needNum(); err != nil {
			return nil, err
		}
		return entities.NewFloat64InfoElement(ie, math.Float64frombits(n)), nil
	case entities.Boolean:
		if kind != 't' && kind != 'f' {
			return nil, fmt.Errorf("bad bool")
		}
		return entities.NewBoolInfoElement(ie, kind == 't'), nil
	case entities.MacAddress:
		if err := needBytes(); err != nil {
			return nil, err
		}
		return entities.NewMacAddressInfoElement(ie, net.HardwareAddr(b)), nil
	case entities.String:
		if err := needBytes(); err != nil {
			return nil, err
		}
		return entities.NewStringInfoElement(ie, string(b)), nil
	case entities.DateTimeSeconds:
		if err := needNum(); err != nil || n > math.MaxUint32 {
			return nil, fmt.Errorf("bad dtsec")
		}
		return entities.NewDateTimeSecondsInfoElement(ie, uint32(n)), nil
	case entities.DateTimeMilliseconds:
		if err := needNum(); err != nil {
			return nil, err
		}
		return entities.NewDateTimeMillisecondsInfoElement(ie, n), nil
	case entities.Ipv4Address, entities.Ipv6Address:
		if err := needBytes(); err != nil {
			return nil, err
		}
		return entities.NewIPAddressInfoElement(ie, net.IP(b)), nil
	case entities.OctetArray:
		if err := needBytes(); err != nil {
			return nil, err
		}
		return entities.NewOctetArrayInfoElement(ie, b), nil
	default:
		// unsupported types have no typed constructor; the codec rejects them before it looks
		// at the value, so the carrier does not matter
		switch kind {
		case 'x':
			return entities.NewOctetArrayInfoElement(ie, b), nil
		case 'n':
			return entities.NewUnsigned64InfoElement(ie, n), nil
		default:
			return entities.NewBoolInfoElement(ie, kind == 't'), nil
		}
	}
}

// valueToken renders the value of a decoded / built element canonically.
func valueToken(e entities.InfoElementWithValue) string {
	switch e.GetDataType() {
	case entities.Unsigned8:
		return fmt.Sprintf("n%d", e.GetUnsigned8Value())
	case entities.Unsigned16:
		return fmt.Sprintf("n%d", e.GetUnsigned16Value())
	case entities.Unsigned32, entities.DateTimeSeconds:
		return fmt.Sprintf("n%d", e.GetUnsigned32Value())
	case entities.Unsigned64, entities.DateTimeMilliseconds:
		return fmt.Sprintf("n%d", e.GetUnsigned64Value())
	case entities.Signed8:
		return fmt.Sprintf("n%d", uint8(e.GetSigned8Value()))
	case entities.Signed16:
		return fmt.Sprintf("n%d", uint16(e.GetSigned16Value()))
	case entities.Signed32:
		return fmt.Sprintf("n%d", uint32(e.GetSigned32Value()))
	case entities.Signed64:
		return fmt.Sprintf("n%d", uint64(e.GetSigned64Value()))
	case entities.Float32:
		return fmt.Sprintf("n%d", math.Float32bits(e.GetFloat32Value()))
	case entities.Float64:
		return fmt.Sprintf("n%d", math.Float64bits(e.GetFloat64Value()))
	case entities.Boolean:
		if e.GetBooleanValue() {
			return "t"
		}
		return "f"
	case entities.MacAddress:
		return "x" + hexs(e.GetMacAddressValue())
	case entities.String:
		return "x" + hexs([]byte(e.GetStringValue()))
	case entities.Ipv4Address, entities.Ipv6Address:
		return "x" + hexs(e.GetIPAddressValue())
	case entities.OctetArray:
		return "x" + hexs(e.GetOctetArrayValue())
	}
	return "?"
}
