package main

import (
	"fmt"
	"strings"

	"github.com/vmware/go-ipfix/pkg/collector"
	"github.com/vmware/go-ipfix/pkg/entities"
)

// engine "dec": the collector's packet decoder (properties C03, C04, C17)
//   dec new <strict|keep|drop>     -> ok
//   dec pkt <hex>                  -> ok <len> <time> <seq> <dom> tpl <id> <ies> | ok ... data <id> <records> | err | panic
//   dec keys                       -> keys <dom>:<id>,...
//   dec tpl <dom> <id>             -> tpl <ies> | none
func init() { engines["dec"] = engDec }

var decCP *collector.CollectingProcess

func modeOf(s string) (collector.DecodingMode, bool) {
	switch s {
	case "strict":
		return collector.DecodingModeStrict, true
	case "keep":
		return collector.DecodingModeLenientKeepUnknown, true
	case "drop":
		return collector.DecodingModeLenientDropUnknown, true
	case "default": // CollectorInput.DecodingMode left unset: documented to mean strict
		return "", true
	}
	return "", false
}

func iesToken(ies []*entities.InfoElement) string {
	if len(ies) == 0 {
		return "-"
	}
	var t []string
	for _, ie := range ies {
		t = append(t, ieToken(ie))
	}
	return strings.Join(t, ",")
}

func msgToken(m *entities.Message) string {
	set := m.GetSet()
	hdr := fmt.Sprintf("ok %d %d %d %d", m.GetMessageLen(), m.GetExportTime(), m.GetSequenceNum(), m.GetObsDomainID())
	recs := set.GetRecords()
	if set.GetSetType() == entities.Template {
		if len(recs) != 1 {
			return fmt.Sprintf("%s tpl-with-%d-records", hdr, len(recs))
		}
		var ies []*entities.InfoElement
		for _, e := range recs[0].GetOrderedElementList() {
			ies = append(ies, e.GetInfoElement())
		}
		return fmt.Sprintf("%s tpl %d %s", hdr, recs[0].GetTemplateID(), iesToken(ies))
	}
	id := -1
	for _, r := range recs {
		if id == -1 {
			id = int(r.GetTemplateID())
		} else if id != int(r.GetTemplateID()) {
			return hdr + " data-mixed-ids"
		}
	}
	return fmt.Sprintf("%s data %s", hdr, recordsToken(set))
}

func engDec(a []string) string {
	if len(a) == 0 {
		return "bad-op"
	}
	switch a[0] {
	case "new":
		// dec new <mode> [tcp|udp]: the transport the collector is configured for (default tcp). Over udp the
		// templates get a lifetime (30 min by default: no timer fires within a case); decoding is the same.
		proto := "tcp"
		if len(a) == 3 && (a[2] == "udp" || a[2] == "tcp") {
			proto = a[2]
		} else if len(a) != 2 {
			return "bad-op"
		}
		mode, ok := modeOf(a[1])
		if !ok {
			return "bad-op"
		}
		cp, err := collector.VerifNewCollector(collector.CollectorInput{Protocol: proto, MaxBufferSize: 65535, DecodingMode: mode}, nil)
		if err != nil {
			return "bad-op"
		}
		decCP = cp
		return "ok"
	case "pkt":
		if len(a) != 2 || decCP == nil {
			return "bad-op"
		}
		b, err := unhex(a[1])
		if err != nil {
			return "bad-op"
		}
		m, err := decCP.VerifDecodePacket(b, "127.0.0.1:4739")
		scribble(b) // the caller reuses its packet buffer before it looks at the message
		if err != nil {
			return "err"
		}
		tok := msgToken(m)
		// the consumer owns the message it was given: it may reorder / overwrite the element lists of the delivered
		// records (say, to render the fields sorted) - what the collector keeps for decoding must not live in them
		if set := m.GetSet(); set != nil {
			for _, r := range set.GetRecords() {
				els := r.GetOrderedElementList()
				for i, j := 0, len(els)-1; i < j; i, j = i+1, j-1 {
					els[i], els[j] = els[j], els[i]
				}
			}
		}
		return tok
	case "keys":
		if decCP == nil {
			return "bad-op"
		}
		var t []string
		for _, k := range decCP.VerifTemplateKeys() {
			t = append(t, fmt.Sprintf("%d:%d", k[0], k[1]))
		}
		if len(t) == 0 {
			return "keys -"
		}
		return "keys " + strings.Join(t, ",")
	case "tpl":
		if len(a) != 3 || decCP == nil {
			return "bad-op"
		}
		var dom, id uint64
		fmt.Sscan(a[1], &dom)
		fmt.Sscan(a[2], &id)
		ies, ok := decCP.VerifTemplate(uint32(dom), uint16(id))
		if !ok {
			return "none"
		}
		return "tpl " + iesToken(ies)
	}
	return "bad-op"
}

// engine "reg": registry dump, for the exhaustive cross-check of Generated.registryByID
//   reg dump <ent> <lo> <hi>  -> every id in [lo,hi) that GetInfoElementFromID finds: "<id>=<ie token>" joined by space, or "-"
func init() {
	engines["reg"] = func(a []string) string {
		if len(a) != 4 || a[0] != "dump" {
			return "bad-op"
		}
		var ent, lo, hi uint64
		fmt.Sscan(a[1], &ent)
		fmt.Sscan(a[2], &lo)
		fmt.Sscan(a[3], &hi)
		var out []string
		for id := lo; id < hi; id++ {
			ie, err := registryLookup(uint16(id), uint32(ent))
			if err == nil && ie != nil {
				out = append(out, fmt.Sprintf("%d=%s", id, ieToken(ie)))
			}
		}
		if len(out) == 0 {
			return "-"
		}
		return strings.Join(out, " ")
	}
}
