package main

import (
	"fmt"
	"math/rand"
	"net"
	"sort"
	"strconv"
	"strings"
	"time"

	"github.com/vmware/go-ipfix/pkg/collector"
	"github.com/vmware/go-ipfix/pkg/entities"
	"github.com/vmware/go-ipfix/pkg/exporter"
	"github.com/vmware/go-ipfix/pkg/intermediate"
	"github.com/vmware/go-ipfix/pkg/registry"
)

// engine "agg": the aggregation process under a virtual clock (properties C05, C06, C07)
//   agg new <activeMs> <inactiveMs> [cfg<n>] [http]
//       cfg<n>: the SAME configuration with its lists written in another order (n seeds the permutation): the two
//       entries of AntreaFlowEndSecondsElements swapped when n is odd (the fields are matched by "Source" /
//       "Destination" in the name), StatsElements / AggregatedSourceStatsElements / AggregatedDestinationStatsElements
//       under one common permutation (they are aligned by index), NonStatsElements shuffled. The order of these lists
//       carries no meaning, so the model ignores the token.
//       http: httpVals is one of the configured NonStatsElements; every record of such a session says what its
//       httpVals element holds (token h=<hex> behind the statistics, h=- = the empty string) and the dumps show the
//       stored value; in a session without `http` no record carries the element (an h= token is a bad-op there, as is
//       a record without one in an http session).
//   agg rec <key> <flowType> <corr> <start> <end> <reason> <tcpStateHex> <stats> [h=<hex>] [p<n>] [omit=<names>]   -> ok | err
//       (<key> = 1..6: the five-tuples of aggKeys; 7..4000: synthesized IPv4 five-tuples, see aggKey.
//       <corr> = the 12 correlate-field values in the order of corrFields; the token `~` at a position = the record
//       does NOT carry that element, as a record of an exporter whose template lacks the field. The value of the
//       IPv4 element destinationClusterIPv4 is the net.IP of the given bytes AS THEY ARE: 4 bytes, or 16 bytes - the
//       form net.IPv4zero / net.ParseIP("10.0.0.1") have, which is what in-process callers hand over; a record that
//       travels through `agg msg` is encoded, so the collector decodes the 4-byte form whatever was given.
//       omit=<name,...> (last token): the record's template lacks these elements; `err` = the aggregation refused it)
//   agg msg <rec_1> + <rec_2> + ... + <rec_k> [p<n>]                               -> ok | err
//       (<rec_i> = the arguments of `agg rec` without p<n> / omit=; keys of one address family.) The k records travel the
//       production path: a template set and ONE data set holding all of them are encoded by the library's exporter
//       code, decoded by a collecting process (decodePacket / decodeDataSet), and the decoded data message is what
//       AggregateMsgByFlowKey gets - so the aggregation appends its statistics elements to the element slices
//       the collector allocated. `agg rec` hands over one hand-built record instead. All records of a message share
//       the template, so they must lack the same correlate fields (`~` at the same positions), else bad-op.
//   agg adv <ms>
//   agg scan <failkeys|-> <reset 0|1>      -> cb <k>=<dump>;... <ok|fail>
//   agg dump                               -> <k>=<dump>;...
//   agg snap                               -> held <k,..> queue <k/active/inactive/ok>,... (heap order)
//   agg expiry                             -> <ms>
//   agg nflows
func init() { engines["agg"] = engAgg }

var (
	aggProc *intermediate.AggregationProcess
	aggNow  int64
	aggBase = time.Unix(1700000000, 0)
	// the collecting process of the session (created by the first `agg msg` after `agg new`) and the
	// sequence number of its exporter
	aggCP  *collector.CollectingProcess
	aggSeq uint32
)

// the extra capacity the collector reserves per record is a hint only; the aggregation adds far more elements
// than this, so both the append-in-place and the append-that-grows path are taken
const aggNumExtraElements = 2

var corrFields = []string{"sourcePodName", "sourcePodNamespace", "sourceNodeName", "destinationPodName", "destinationPodNamespace",
	"destinationNodeName", "destinationClusterIPv4", "destinationServicePort", "ingressNetworkPolicyRuleAction",
	"egressNetworkPolicyRuleAction", "ingressNetworkPolicyRulePriority", "destinationClusterIPv6"}
var statsElems = []string{"packetTotalCount", "packetDeltaCount", "octetTotalCount", "octetDeltaCount",
	"reversePacketTotalCount", "reversePacketDeltaCount", "reverseOctetTotalCount", "reverseOctetDeltaCount"}

func withSuffix(l []string, suf string) []string {
	var out []string
	for _, s := range l {
		out = append(out, s+suf)
	}
	return out
}

type fkey struct {
	src, dst             string
	proto                uint8
	sport, dport         uint16
	v6                   bool
}

var aggKeys = map[int]fkey{
	1: {"10.0.0.1", "10.0.0.2", 6, 1234, 5678, false},
	2: {"10.0.0.1", "10.0.0.2", 6, 1234, 5679, false},
	3: {"10.0.0.2", "10.0.0.1", 17, 1234, 5678, false},
	4: {"2001:db8::1", "2001:db8::2", 6, 1234, 5678, true},
	5: {"2001:db8::2", "2001:db8::1", 6, 1234, 5678, true},
	6: {"10.0.0.1", "10.0.0.2", 6, 1235, 5678, false},
}

// keys 7..aggMaxKey: synthesized IPv4 five-tuples (many flows in one session: an expiry scan with hundreds of due
// items), 10.(k/256).(k%256).1:(10000+k) -> 10.200.0.1:443 over TCP
const aggMaxKey = 4000

func aggKey(k int) (fkey, bool) {
	if f, ok := aggKeys[k]; ok {
		return f, true
	}
	if k >= 7 && k <= aggMaxKey {
		return fkey{fmt.Sprintf("10.%d.%d.1", k/256, k%256), "10.200.0.1", 6, uint16(10000 + k), 443, false}, true
	}
	return fkey{}, false
}

var aggKeyTokens map[fkey]int

func keyToken(k intermediate.FlowKey) int {
	if aggKeyTokens == nil {
		aggKeyTokens = map[fkey]int{}
		for t := 1; t <= aggMaxKey; t++ {
			f, _ := aggKey(t)
			f.v6 = false
			aggKeyTokens[f] = t
		}
	}
	if t, ok := aggKeyTokens[fkey{k.SourceAddress, k.DestinationAddress, k.Protocol, k.SourcePort, k.DestinationPort, false}]; ok {
		return t
	}
	return -1
}

func regIE(name string) *entities.InfoElement {
	for _, ent := range []uint32{registry.IANAEnterpriseID, registry.AntreaEnterpriseID, registry.IANAReversedEnterpriseID} {
		if ie, err := registry.GetInfoElement(name, ent); err == nil {
			return ie
		}
	}
	panic("no element " + name)
}

// the value token of a correlate field the record does not carry
const aggAbsent = "~"

// absentMask: which correlate fields the record with the correlate token `corr` lacks, as a string of 0 / 1
func absentMask(corr string) string {
	var b []byte
	for _, t := range strings.Split(corr, ",") {
		if t == aggAbsent {
			b = append(b, '1')
		} else {
			b = append(b, '0')
		}
	}
	return string(b)
}

// the session was created with `http`: httpVals is a configured non-stats element and every record carries it
var aggHTTP bool

// aggElems builds the elements of one record (the 8 arguments of `agg rec`, and h=<hex> in an http session); v6 = the
// key is an IPv6 5-tuple
var aggIP16 bool // see aggElems

func aggElems(a []string) (out []entities.InfoElementWithValue, v6 bool, err error) {
	var httpVals []byte
	if aggHTTP {
		if len(a) != 9 || !strings.HasPrefix(a[8], "h=") {
			return nil, false, fmt.Errorf("an http session's record says what its httpVals holds")
		}
		if httpVals, err = unhex(a[8][2:]); err != nil {
			return nil, false, err
		}
	} else if len(a) != 8 {
		return nil, false, fmt.Errorf("bad record")
	}
	k, err := strconv.Atoi(a[0])
	if err != nil {
		return nil, false, fmt.Errorf("bad key")
	}
	fk, ok := aggKey(k)
	if !ok {
		return nil, false, fmt.Errorf("bad key")
	}
	ft, e0 := strconv.ParseUint(a[1], 10, 8)
	corr := strings.Split(a[2], ",")
	if len(corr) != len(corrFields) {
		return nil, false, fmt.Errorf("bad corr")
	}
	start, e1 := strconv.ParseUint(a[3], 10, 32)
	end, e2 := strconv.ParseUint(a[4], 10, 32)
	reason, e3 := strconv.ParseUint(a[5], 10, 8)
	for _, e := range []error{e0, e1, e2, e3} {
		if e != nil {
			return nil, false, e
		}
	}
	var tcp []byte
	noTCP := a[6] == aggAbsent // the record's template has no tcpState (a configured non-stats element): outside the model
	if !noTCP {
		tcp, err = unhex(a[6])
		if err != nil {
			return nil, false, err
		}
	}
	stats := strings.Split(a[7], ",")
	if len(stats) != len(statsElems) {
		return nil, false, fmt.Errorf("bad stats")
	}
	var es []entities.InfoElementWithValue
	es = append(es, entities.NewUnsigned16InfoElement(regIE("sourceTransportPort"), fk.sport))
	es = append(es, entities.NewUnsigned16InfoElement(regIE("destinationTransportPort"), fk.dport))
	es = append(es, entities.NewUnsigned8InfoElement(regIE("protocolIdentifier"), fk.proto))
	if fk.v6 {
		es = append(es, entities.NewIPAddressInfoElement(regIE("sourceIPv6Address"), net.ParseIP(fk.src)))
		es = append(es, entities.NewIPAddressInfoElement(regIE("destinationIPv6Address"), net.ParseIP(fk.dst)))
	} else {
		// in-process callers hand IPv4 addresses over in either byte form (net.ParseIP gives 16 bytes, To4 4): the
		// flow is the same. `agg rec` with an odd p<n> uses the 16-byte form for the record's key addresses.
		src, dst := net.ParseIP(fk.src), net.ParseIP(fk.dst)
		if !aggIP16 {
			src, dst = src.To4(), dst.To4()
		}
		es = append(es, entities.NewIPAddressInfoElement(regIE("sourceIPv4Address"), src))
		es = append(es, entities.NewIPAddressInfoElement(regIE("destinationIPv4Address"), dst))
	}
	es = append(es, entities.NewUnsigned8InfoElement(regIE("flowType"), uint8(ft)))
	for i, name := range corrFields {
		if corr[i] == aggAbsent {
			continue // the record's template has no such field
		}
		ie := regIE(name)
		e, err := mkElem(ie, corr[i])
		if err != nil {
			return nil, false, err
		}
		es = append(es, e)
	}
	es = append(es, entities.NewDateTimeSecondsInfoElement(regIE("flowStartSeconds"), uint32(start)))
	es = append(es, entities.NewDateTimeSecondsInfoElement(regIE("flowEndSeconds"), uint32(end)))
	es = append(es, entities.NewUnsigned8InfoElement(regIE("flowEndReason"), uint8(reason)))
	if !noTCP {
		es = append(es, entities.NewStringInfoElement(regIE("tcpState"), string(tcp)))
	}
	if aggHTTP {
		es = append(es, entities.NewStringInfoElement(regIE("httpVals"), string(httpVals)))
	}
	for i, name := range statsElems {
		v, err := strconv.ParseUint(stats[i], 10, 64)
		if err != nil {
			return nil, false, err
		}
		es = append(es, entities.NewUnsigned64InfoElement(regIE(name), v))
	}
	return es, fk.v6, nil
}

func aggRecord(a []string) (entities.Record, error) {
	es, _, err := aggElems(a)
	if err != nil {
		return nil, err
	}
	set := entities.NewSet(true)
	set.PrepareSet(entities.Data, 256)
	if err := set.AddRecordV2(es, 256); err != nil {
		return nil, err
	}
	return set.GetRecords()[0], nil
}

func u64s(r entities.Record, names []string) string {
	var out []string
	for _, n := range names {
		e, _, ok := r.GetInfoElementWithValue(n)
		if !ok {
			out = append(out, "?")
		} else {
			out = append(out, strconv.FormatUint(e.GetUnsigned64Value(), 10))
		}
	}
	return strings.Join(out, ",")
}

func u32of(r entities.Record, n string) string {
	e, _, ok := r.GetInfoElementWithValue(n)
	if !ok {
		return "?"
	}
	return strconv.FormatUint(uint64(e.GetUnsigned32Value()), 10)
}

func aggDump(rec *intermediate.AggregationFlowRecord) string {
	r := rec.Record
	var corr []string
	for _, n := range corrFields {
		e, _, ok := r.GetInfoElementWithValue(n)
		if !ok {
			corr = append(corr, aggAbsent) // the stored record has no such field
		} else {
			corr = append(corr, valueToken(e))
		}
	}
	ft, _, _ := r.GetInfoElementWithValue("flowType")
	reason, _, _ := r.GetInfoElementWithValue("flowEndReason")
	tcp, _, _ := r.GetInfoElementWithValue("tcpState")
	tcpTok := aggAbsent
	if tcp != nil {
		tcpTok = hexs([]byte(tcp.GetStringValue()))
	}
	ready, retries, filled, _ := rec.VerifFlags()
	b := func(x bool) string {
		if x {
			return "1"
		}
		return "0"
	}
	u8tok := func(e entities.InfoElementWithValue) string {
		if e == nil {
			return aggAbsent
		}
		return strconv.Itoa(int(e.GetUnsigned8Value()))
	}
	httpTok := aggAbsent // the stored record has no httpVals element
	if h, _, ok := r.GetInfoElementWithValue("httpVals"); ok {
		httpTok = "x" + hexs([]byte(h.GetStringValue()))
	}
	return fmt.Sprintf("%s/%s/%s/%s/%s/%s/%s/%s/%s/%s/%s/%s/%s/%s/%s/%d/%s/%s", u8tok(ft), strings.Join(corr, ","),
		u32of(r, "flowStartSeconds"), u32of(r, "flowEndSeconds"), u8tok(reason), tcpTok,
		u64s(r, statsElems), u64s(r, withSuffix(statsElems, "FromSourceNode")), u64s(r, withSuffix(statsElems, "FromDestinationNode")),
		u32of(r, "flowEndSecondsFromSourceNode"), u32of(r, "flowEndSecondsFromDestinationNode"),
		u64s(r, []string{"throughput", "reverseThroughput"}), u64s(r, []string{"throughputFromSourceNode", "reverseThroughputFromSourceNode"}),
		u64s(r, []string{"throughputFromDestinationNode", "reverseThroughputFromDestinationNode"}), b(ready), retries, b(filled), httpTok)
}

// aggMsg: `agg msg <rec_1> + ... + <rec_k> [p<n>]`, see the head of the file
func aggMsg(a []string) string {
	perm := int64(-1)
	if n := len(a); n > 0 && strings.HasPrefix(a[n-1], "p") {
		v, err := strconv.ParseInt(a[n-1][1:], 10, 64)
		if err != nil || v < 0 {
			return "bad-op"
		}
		perm = v
		a = a[:n-1]
	}
	var recs [][]entities.InfoElementWithValue
	family := false
	mask := ""
	nargs := 8
	if aggHTTP {
		nargs = 9
	}
	for len(a) > 0 {
		if len(a) < nargs || (len(a) > nargs && a[nargs] != "+") || len(a) == nargs+1 {
			return "bad-op"
		}
		es, v6, err := aggElems(a[:nargs])
		if err != nil {
			return "bad-op"
		}
		if len(recs) > 0 && (v6 != family || absentMask(a[2]) != mask) {
			return "bad-op" // the records of a data set share one template
		}
		family = v6
		mask = absentMask(a[2])
		if perm >= 0 {
			// one element order for the whole message (the same seed gives every record the same permutation)
			rand.New(rand.NewSource(perm)).Shuffle(len(es), func(i, j int) { es[i], es[j] = es[j], es[i] })
		}
		recs = append(recs, es)
		if len(a) > nargs {
			a = a[nargs+1:]
		} else {
			a = nil
		}
	}
	if len(recs) == 0 {
		return "bad-op"
	}
	// exporter side: the template (sent anew before every message; the collector replaces the stored one) and
	// one data set with all the records
	const tid, dom = 256, 1
	tset := entities.NewSet(false)
	if err := tset.PrepareSet(entities.Template, tid); err != nil {
		return "bad-op"
	}
	var tes []entities.InfoElementWithValue
	for _, e := range recs[0] {
		te, err := entities.DecodeAndCreateInfoElementWithValue(e.GetInfoElement(), nil) // a template's elements carry no value
		if err != nil {
			return "bad-op"
		}
		tes = append(tes, te)
	}
	if err := tset.AddRecord(tes, tid); err != nil {
		return "bad-op"
	}
	tbytes, err := exporter.CreateIPFIXMsg(tset, dom, aggSeq, fixedTime)
	if err != nil {
		return "bad-op"
	}
	dset := entities.NewSet(false)
	if err := dset.PrepareSet(entities.Data, tid); err != nil {
		return "bad-op"
	}
	for _, es := range recs {
		if err := dset.AddRecord(es, tid); err != nil {
			return "bad-op"
		}
	}
	dbytes, err := exporter.CreateIPFIXMsg(dset, dom, aggSeq, fixedTime)
	if err != nil {
		return "bad-op"
	}
	aggSeq += uint32(len(recs))
	// collector side
	if aggCP == nil {
		cp, err := collector.VerifNewCollector(collector.CollectorInput{Protocol: "tcp", MaxBufferSize: 65535,
			NumExtraElements: aggNumExtraElements}, nil)
		if err != nil {
			return "bad-op"
		}
		aggCP = cp
	}
	if _, err := aggCP.VerifDecodePacket(tbytes, "127.0.0.1:4739"); err != nil {
		return "err"
	}
	msg, err := aggCP.VerifDecodePacket(dbytes, "127.0.0.1:4739")
	if err != nil {
		return "err"
	}
	if n := len(msg.GetSet().GetRecords()); n != len(recs) {
		return fmt.Sprintf("err decoded-%d-records", n)
	}
	if err := aggProc.AggregateMsgByFlowKey(msg); err != nil {
		return "err"
	}
	return "ok"
}

func engAgg(a []string) string {
	if len(a) == 0 {
		return "bad-op"
	}
	if a[0] == "new" {
		http := false
		if n := len(a); n >= 4 && a[n-1] == "http" {
			http = true
			a = a[:n-1]
		}
		cfg := int64(-1)
		if len(a) == 4 && strings.HasPrefix(a[3], "cfg") {
			n, err := strconv.ParseUint(a[3][3:], 10, 63)
			if err != nil {
				return "bad-op"
			}
			cfg = int64(n)
			a = a[:3]
		}
		if len(a) != 3 {
			return "bad-op"
		}
		act, e1 := strconv.Atoi(a[1])
		inact, e2 := strconv.Atoi(a[2])
		if e1 != nil || e2 != nil {
			return "bad-op"
		}
		nonStats := []string{"flowEndSeconds", "flowEndReason", "tcpState"}
		if http {
			nonStats = append(nonStats, "httpVals")
		}
		stats := append([]string{}, statsElems...)
		srcStats := withSuffix(statsElems, "FromSourceNode")
		dstStats := withSuffix(statsElems, "FromDestinationNode")
		endSecs := []string{"flowEndSecondsFromSourceNode", "flowEndSecondsFromDestinationNode"}
		if cfg >= 0 {
			// the same configuration, its lists in another order
			rng := rand.New(rand.NewSource(cfg))
			if cfg%2 == 1 {
				endSecs[0], endSecs[1] = endSecs[1], endSecs[0]
			}
			rng.Shuffle(len(stats), func(i, j int) {
				stats[i], stats[j] = stats[j], stats[i]
				srcStats[i], srcStats[j] = srcStats[j], srcStats[i]
				dstStats[i], dstStats[j] = dstStats[j], dstStats[i]
			})
			rng.Shuffle(len(nonStats), func(i, j int) { nonStats[i], nonStats[j] = nonStats[j], nonStats[i] })
		}
		aggNow = 0
		intermediate.VerifSetClock(func() time.Time { return aggBase.Add(time.Duration(aggNow) * time.Millisecond) })
		ch := make(chan *entities.Message)
		ap, err := intermediate.InitAggregationProcess(intermediate.AggregationInput{
			MessageChan: ch, WorkerNum: 1, CorrelateFields: corrFields,
			AggregateElements: &intermediate.AggregationElements{
				NonStatsElements:                   nonStats,
				StatsElements:                      stats,
				AggregatedSourceStatsElements:      srcStats,
				AggregatedDestinationStatsElements: dstStats,
				AntreaFlowEndSecondsElements:       endSecs,
				ThroughputElements:                 []string{"throughput", "reverseThroughput"},
				SourceThroughputElements:           []string{"throughputFromSourceNode", "reverseThroughputFromSourceNode"},
				DestinationThroughputElements:      []string{"throughputFromDestinationNode", "reverseThroughputFromDestinationNode"},
			},
			ActiveExpiryTimeout: time.Duration(act) * time.Millisecond, InactiveExpiryTimeout: time.Duration(inact) * time.Millisecond,
		})
		if err != nil {
			return "err"
		}
		aggProc = ap
		aggHTTP = http
		if aggCP != nil {
			aggCP.CloseMsgChan() // ends the goroutine which drains the messages of the previous session's collector
			aggCP = nil
		}
		aggSeq = 0
		return "ok"
	}
	if a[0] == "key" {
		return aggKeyOp(a[1:])
	}
	if aggProc == nil {
		return "bad-op"
	}
	switch a[0] {
	case "rec":
		// optional trailing p<n>: the record lists its elements in another order (exporters need not agree on
		// the order of the fields of their templates; the aggregation must find fields by name)
		// optional last token omit=<name,name,...>: the record's template lacks these elements (any element the engine
		// adds: key, flow type, times, end reason, tcpState, counters, correlate fields). Outside the model of the
		// record's VALUES - used by crash-only sessions (whatever the aggregation answers, it must answer) and by the
		// scheduling check: a record the aggregation refuses (`err`) leaves the schedule alone.
		nargs := 9
		if aggHTTP {
			nargs = 10
		}
		var omit map[string]bool
		if n := len(a); n >= nargs+1 && strings.HasPrefix(a[n-1], "omit=") {
			omit = map[string]bool{}
			for _, nm := range strings.Split(a[n-1][5:], ",") {
				omit[nm] = true
			}
			a = a[:n-1]
		}
		perm := int64(-1)
		if len(a) == nargs+1 && strings.HasPrefix(a[nargs], "p") {
			n, err := strconv.ParseInt(a[nargs][1:], 10, 64)
			if err != nil {
				return "bad-op"
			}
			perm = n
			a = a[:nargs]
		}
		if len(a) != nargs {
			return "bad-op"
		}
		aggIP16 = perm >= 0 && perm%2 == 1
		rec, err := aggRecord(a[1:])
		aggIP16 = false
		if err == nil && perm >= 0 {
			es := append([]entities.InfoElementWithValue{}, rec.GetOrderedElementList()...)
			rand.New(rand.NewSource(perm)).Shuffle(len(es), func(i, j int) { es[i], es[j] = es[j], es[i] })
			s2 := entities.NewSet(true)
			s2.PrepareSet(entities.Data, 256)
			if e2 := s2.AddRecordV2(es, 256); e2 != nil {
				return "bad-op"
			}
			rec = s2.GetRecords()[0]
		}
		if err != nil {
			return "bad-op"
		}
		if omit != nil {
			var es []entities.InfoElementWithValue
			for _, e := range rec.GetOrderedElementList() {
				if !omit[e.GetName()] {
					es = append(es, e)
				}
			}
			s2 := entities.NewSet(true)
			s2.PrepareSet(entities.Data, 256)
			if e2 := s2.AddRecordV2(es, 256); e2 != nil {
				return "bad-op"
			}
			rec = s2.GetRecords()[0]
		}
		set := entities.NewSet(true)
		set.PrepareSet(entities.Data, 256)
		msg := entities.NewMessage(true)
		// hand the record over inside a data set, as a collector would
		if err := set.AddRecordV2(rec.GetOrderedElementList(), 256); err != nil {
			return "bad-op"
		}
		msg.AddSet(set)
		if err := aggProc.AggregateMsgByFlowKey(msg); err != nil {
			return "err"
		}
		return "ok"
	case "msg":
		return aggMsg(a[1:])
	case "adv":
		d, err := strconv.Atoi(a[1])
		if err != nil || d < 0 {
			return "bad-op"
		}
		aggNow += int64(d)
		return "ok"
	case "scan":
		if len(a) != 3 {
			return "bad-op"
		}
		fail := map[int]bool{}
		if a[1] != "-" {
			for _, t := range strings.Split(a[1], ",") {
				k, _ := strconv.Atoi(t)
				fail[k] = true
			}
		}
		reset := a[2] == "1"
		var cbs []string
		err := aggProc.ForAllExpiredFlowRecordsDo(func(key intermediate.FlowKey, rec *intermediate.AggregationFlowRecord) error {
			k := keyToken(key)
			cbs = append(cbs, fmt.Sprintf("%d=%s", k, aggDump(rec)))
			if fail[k] {
				return fmt.Errorf("callback failure requested")
			}
			if reset {
				if err := aggProc.ResetStatAndThroughputElementsInRecord(rec.Record); err != nil {
					return err
				}
			}
			return nil
		})
		res := "ok"
		if err != nil {
			res = "fail"
		}
		if len(cbs) == 0 {
			return "cb - " + res
		}
		return "cb " + strings.Join(cbs, ";") + " " + res
	case "dump":
		type kv struct {
			k int
			d string
		}
		var all []kv
		aggProc.ForAllRecordsDo(func(key intermediate.FlowKey, rec *intermediate.AggregationFlowRecord) error {
			all = append(all, kv{keyToken(key), aggDump(rec)})
			return nil
		})
		sort.Slice(all, func(i, j int) bool { return all[i].k < all[j].k })
		var out []string
		for _, x := range all {
			out = append(out, fmt.Sprintf("%d=%s", x.k, x.d))
		}
		if len(out) == 0 {
			return "-"
		}
		return strings.Join(out, ";")
	case "snap":
		keys, items := aggProc.VerifSnapshot()
		var ks, is []string
		for _, k := range keys {
			ks = append(ks, strconv.Itoa(keyToken(k)))
		}
		sort.Slice(ks, func(i, j int) bool { a, _ := strconv.Atoi(ks[i]); b, _ := strconv.Atoi(ks[j]); return a < b })
		for _, it := range items {
			ok := "ok"
			if it.Index != it.Pos || !it.PointsAtHeld {
				ok = "bad"
			}
			rd := 0
			if it.Ready {
				rd = 1
			}
			is = append(is, fmt.Sprintf("%d/%d/%d/%s/%d/%d", keyToken(it.Key), it.Active.Sub(aggBase).Milliseconds(), it.Inactive.Sub(aggBase).Milliseconds(), ok, rd, it.Retries))
		}
		h, q := "-", "-"
		if len(ks) > 0 {
			h = strings.Join(ks, ",")
		}
		if len(is) > 0 {
			q = strings.Join(is, ",")
		}
		return fmt.Sprintf("held %s queue %s nflows %d", h, q, aggProc.GetNumFlows())
	case "expiry":
		return fmt.Sprintf("%d", aggProc.GetExpiryFromExpirePriorityQueue().Milliseconds())
	}
	return "bad-op"
}

// ipTextToken: the class of address values a FlowKey text stands for (Model/FlowKey.lean, IPText): nil, bad:<hex>,
// 4:<4 bytes>, 6:<16 bytes>; a text that is none of these is shown as it is (text:<hex>) and agrees with no model value
func ipTextToken(s string) string {
	if s == "<nil>" {
		return "nil"
	}
	if strings.HasPrefix(s, "?") {
		return "bad:" + s[1:]
	}
	ip := net.ParseIP(s)
	if ip == nil {
		return "text:" + hexs([]byte(s))
	}
	if p4 := ip.To4(); p4 != nil {
		return "4:" + hexs(p4)
	}
	return "6:" + hexs(ip)
}

// aggKeyOp: `agg key <sport> <dport> <proto> <src4> <dst4> <src6> <dst6> [p<n>]` - the flow key of a record that carries
// exactly the elements given (`~` = the record has no such element; numbers decimal; addresses x<hex>, any length: an
// in-process caller hands a net.IP over as it is), the elements in the order of a permutation seed. Answers
// `ok <src> <dst> <proto> <sport> <dport> <both IPv4: 0|1>` or `err`.
func aggKeyOp(a []string) string {
	perm := int64(-1)
	if n := len(a); n == 8 && strings.HasPrefix(a[7], "p") {
		v, err := strconv.ParseUint(a[7][1:], 10, 63)
		if err != nil {
			return "bad-op"
		}
		perm = int64(v)
		a = a[:7]
	}
	if len(a) != 7 {
		return "bad-op"
	}
	var es []entities.InfoElementWithValue
	names := []string{"sourceTransportPort", "destinationTransportPort", "protocolIdentifier", "sourceIPv4Address",
		"destinationIPv4Address", "sourceIPv6Address", "destinationIPv6Address"}
	for i, t := range a {
		if t == aggAbsent {
			continue
		}
		switch {
		case i < 2:
			v, err := strconv.ParseUint(t, 10, 16)
			if err != nil {
				return "bad-op"
			}
			es = append(es, entities.NewUnsigned16InfoElement(regIE(names[i]), uint16(v)))
		case i == 2:
			v, err := strconv.ParseUint(t, 10, 8)
			if err != nil {
				return "bad-op"
			}
			es = append(es, entities.NewUnsigned8InfoElement(regIE(names[i]), uint8(v)))
		default:
			if !strings.HasPrefix(t, "x") {
				return "bad-op"
			}
			b, err := unhex(t[1:])
			if err != nil {
				return "bad-op"
			}
			es = append(es, entities.NewIPAddressInfoElement(regIE(names[i]), net.IP(b)))
		}
	}
	// a few elements the key does not read, so that the names are looked up among others
	es = append(es, entities.NewUnsigned8InfoElement(regIE("flowType"), 1))
	es = append(es, entities.NewUnsigned64InfoElement(regIE("packetTotalCount"), 7))
	if perm >= 0 {
		rand.New(rand.NewSource(perm)).Shuffle(len(es), func(i, j int) { es[i], es[j] = es[j], es[i] })
	}
	set := entities.NewSet(true)
	set.PrepareSet(entities.Data, 256)
	if err := set.AddRecordV2(es, 256); err != nil {
		return "builderr"
	}
	k, v4, err := intermediate.VerifFlowKey(set.GetRecords()[0])
	if err != nil || k == nil {
		return "err"
	}
	b := "0"
	if v4 {
		b = "1"
	}
	return fmt.Sprintf("ok %s %s %d %d %d %s", ipTextToken(k.SourceAddress), ipTextToken(k.DestinationAddress), k.Protocol, k.SourcePort, k.DestinationPort, b)
}
