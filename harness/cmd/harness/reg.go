package main

import (
	"github.com/vmware/go-ipfix/pkg/entities"
	"github.com/vmware/go-ipfix/pkg/registry"
)

func registryLookup(id uint16, ent uint32) (*entities.InfoElement, error) {
	return registry.GetInfoElementFromID(id, ent)
}
