package main

import (
	"fmt"
	"net"
	"os"
	"sort"
	"strconv"
	"strings"
	"sync"
	"syscall"
	"time"

	"github.com/vmware/go-ipfix/pkg/entities"
	"github.com/vmware/go-ipfix/pkg/exporter"
)

// engine "bld": set / record builders (property C16), public API only
//   bld new | bld prep <t|d|u|o> <id> | bld add <0|1|2> <extra> <tid> <elems> | bld upd | bld reset | bld obs
// engine "exp": the exporting process on an in-memory connection (C02, C08, C09)
//   exp new <dom> | exp seq <n> | exp send <path> <t|d|u> <setid> <tid@elems;...> | exp tids | exp getseq
//   exp new <dom> json          the process is created in JSON mode (ExporterInput.SendJSONRecord): a send answers
//                               `okj <writes>` / `err -` (error, nothing written) / `errj <writes>`; the JSON text stays out
//   exp failnext <err|errfull|refused|short<k>>   the NEXT Write on the connection returns (0, error) / (0, ECONNREFUSED as a
//                               connected UDP socket reports it) / (k, nil) having taken only k bytes; the send (or refresh)
//                               during which that happened answers with a trailing ` injected`
func init() {
	engines["bld"] = engBld
	engines["exp"] = engExp
}

var bldSet entities.Set

func setTypeOf(s string) (entities.ContentType, bool) {
	switch s {
	case "t":
		return entities.Template, true
	case "d":
		return entities.Data, true
	case "u":
		return entities.Undefined, true
	case "o":
		return entities.ContentType(7), true
	}
	return 0, false
}

func setTypeTok(t entities.ContentType) string {
	switch t {
	case entities.Template:
		return "t"
	case entities.Data:
		return "d"
	case entities.Undefined:
		return "u"
	}
	return "o"
}

// elems token: ie=value,ie=value  ("-" = empty)
func parseElems(tok string) ([]entities.InfoElementWithValue, error) {
	if tok == "-" {
		return []entities.InfoElementWithValue{}, nil
	}
	var out []entities.InfoElementWithValue
	for _, p := range strings.Split(tok, ",") {
		kv := strings.SplitN(p, "=", 2)
		if len(kv) != 2 {
			return nil, fmt.Errorf("bad elem")
		}
		ie, err := parseIE(kv[0])
		if err != nil {
			return nil, err
		}
		e, err := mkElem(ie, kv[1])
		if err != nil {
			return nil, err
		}
		out = append(out, e)
	}
	return out, nil
}

func addByPath(set entities.Set, path string, extra int, tid uint16, elems []entities.InfoElementWithValue) error {
	// AddRecord and AddRecordWithExtraElements COPY the caller's slice ("the slice can be reused by the caller"); only
	// AddRecordV2 adopts it. The harness behaves like a caller that reuses its slice: once the copying calls have
	// returned, every entry of the slice is overwritten with the first one.
	reuse := func(err error) error {
		for i := range elems {
			elems[i] = elems[0]
		}
		return err
	}
	switch path {
	case "0":
		return reuse(set.AddRecord(elems, tid))
	case "1":
		return reuse(set.AddRecordWithExtraElements(elems, extra, tid))
	case "2":
		return set.AddRecordV2(elems, tid)
	}
	return fmt.Errorf("bad path")
}

var fixedTime = time.Unix(0, 0)

// the last nanosecond of a second late in the 32-bit range: the export time is the SECOND of sending (time.Unix()),
// whatever the sub-second part is
var lateInSecond = time.Unix(4102444799, 999999999)

func setObs(set entities.Set) string {
	var recs []string
	sum := 0
	for _, r := range set.GetRecords() {
		b := r.GetBuffer()
		recs = append(recs, fmt.Sprintf("%d:%d:%d:%s", r.GetTemplateID(), r.GetFieldCount(), r.GetRecordLength(), hexs(b)))
		sum += r.GetRecordLength()
	}
	rs := "-"
	if len(recs) > 0 {
		rs = strings.Join(recs, ";")
	}
	msg := "err"
	if b, err := exporter.CreateIPFIXMsg(set, 7, 9, fixedTime); err == nil {
		msg = hexs(b)
	}
	if b, err := exporter.CreateIPFIXMsg(set, 7, 9, lateInSecond); err == nil && len(b) >= 8 {
		// the export-time field of the same message built at xx:xx:59.999999999 must read that second, not the next
		if et := uint32(b[4])<<24 | uint32(b[5])<<16 | uint32(b[6])<<8 | uint32(b[7]); et != 4102444799 {
			msg = fmt.Sprintf("export-time-%d-for-second-4102444799", et)
		}
	}
	return fmt.Sprintf("%s %d %s %d %s %s", setTypeTok(set.GetSetType()), set.GetSetLength(), hexs(set.GetHeaderBuffer()), set.GetNumberOfRecords(), rs, msg)
}

var (
	bldKept    []entities.Record
	bldKeptTok string
)

// recsTok renders a list of records taken out of a set (nil entries included)
func recsTok(rs []entities.Record) string {
	var out []string
	for _, r := range rs {
		if r == nil {
			out = append(out, "nil")
			continue
		}
		out = append(out, fmt.Sprintf("%d:%d:%d:%s", r.GetTemplateID(), r.GetFieldCount(), r.GetRecordLength(), hexs(r.GetBuffer())))
	}
	return strings.Join(out, ";")
}

func engBld(a []string) string {
	if len(a) == 0 {
		return "bad-op"
	}
	if a[0] == "new" {
		bldSet = entities.NewSet(false)
		bldKept, bldKeptTok = nil, ""
		return "ok"
	}
	if bldSet == nil {
		return "bad-op"
	}
	switch a[0] {
	case "prep":
		if len(a) != 3 {
			return "bad-op"
		}
		t, ok := setTypeOf(a[1])
		id, err := strconv.ParseUint(a[2], 10, 16)
		if !ok || err != nil {
			return "bad-op"
		}
		if err := bldSet.PrepareSet(t, uint16(id)); err != nil {
			return "err"
		}
		return "ok"
	case "add":
		if len(a) != 5 {
			return "bad-op"
		}
		extra, e1 := strconv.Atoi(a[2])
		tid, e2 := strconv.ParseUint(a[3], 10, 16)
		elems, e3 := parseElems(a[4])
		if e1 != nil || e2 != nil || e3 != nil {
			return "bad-op"
		}
		if err := addByPath(bldSet, a[1], extra, uint16(tid), elems); err != nil {
			return "err"
		}
		return "ok"
	case "make":
		// entities.MakeTemplateSet / MakeDataSet (convenience constructors: new set, one record, copying add path)
		if len(a) != 4 {
			return "bad-op"
		}
		t, ok := setTypeOf(a[1])
		tid, e2 := strconv.ParseUint(a[2], 10, 16)
		elems, e3 := parseElems(a[3])
		if !ok || e2 != nil || e3 != nil || (t != entities.Template && t != entities.Data) {
			return "bad-op"
		}
		var made entities.Set
		var err error
		if t == entities.Template {
			ies := make([]*entities.InfoElement, len(elems))
			for i, e := range elems {
				ies[i] = e.GetInfoElement()
			}
			made, err = entities.MakeTemplateSet(uint16(tid), ies)
		} else {
			made, err = entities.MakeDataSet(uint16(tid), elems)
			for i := range elems { // the caller reuses its slice (MakeDataSet copies)
				elems[i] = elems[0]
			}
		}
		if err != nil {
			return "err"
		}
		bldSet = made
		return "ok"
	case "upd":
		bldSet.UpdateLenInHeader()
		return "ok"
	case "reset":
		// what a caller took out of the set before the reset (the list of records of the message it built) must
		// be left alone by the reset and by whatever the set is used for afterwards, as it is with a new set
		bldKept = bldSet.GetRecords()
		bldKeptTok = recsTok(bldKept)
		bldSet.ResetSet()
		return "ok"
	case "obs":
		o := setObs(bldSet)
		if bldKept != nil && recsTok(bldKept) != bldKeptTok {
			o += " retained-records-changed"
		}
		return o
	}
	return "bad-op"
}

// memConn records everything written to it. failKind != "": the next Write gets that outcome instead.
type memConn struct {
	mu       sync.Mutex
	writes   [][]byte
	closed   bool
	failKind string // "", "err", "refused", "short"
	shortK   int
	injected bool // the pending outcome was given to a Write since the last takeInjected
	calls    int  // Write calls that returned a nil error since the last take
}

func (c *memConn) Read(b []byte) (int, error) { select {} }
func (c *memConn) Write(b []byte) (int, error) {
	c.mu.Lock()
	defer c.mu.Unlock()
	if c.closed {
		return 0, fmt.Errorf("closed")
	}
	if c.failKind != "" {
		kind := c.failKind
		c.failKind = ""
		c.injected = true
		switch kind {
		case "err":
			return 0, fmt.Errorf("injected write error")
		case "errfull":
			// what pion/dtls' Conn.Write returns when the datagram could not be written: the full length AND an error
			return len(b), fmt.Errorf("injected write error (count = len)")
		case "refused":
			// what a connected UDP socket returns for a Write after an ICMP port unreachable came back
			return 0, &net.OpError{Op: "write", Net: "udp", Source: c.LocalAddr(), Addr: c.RemoteAddr(),
				Err: os.NewSyscallError("write", syscall.ECONNREFUSED)}
		default: // short: k bytes are taken (at most the whole slice), no error
			k := c.shortK
			if k > len(b) {
				k = len(b)
			}
			if k > 0 {
				c.writes = append(c.writes, append([]byte{}, b[:k]...))
			}
			c.calls++
			return k, nil
		}
	}
	c.writes = append(c.writes, append([]byte{}, b...))
	c.calls++
	return len(b), nil
}
func (c *memConn) failNext(kind string, k int) {
	c.mu.Lock()
	c.failKind, c.shortK = kind, k
	c.mu.Unlock()
}
func (c *memConn) takeInjected() bool {
	c.mu.Lock()
	defer c.mu.Unlock()
	i := c.injected
	c.injected = false
	return i
}
func (c *memConn) takeCalls() int {
	c.mu.Lock()
	defer c.mu.Unlock()
	n := c.calls
	c.calls = 0
	return n
}
func (c *memConn) Close() error                       { c.mu.Lock(); c.closed = true; c.mu.Unlock(); return nil }
func (c *memConn) LocalAddr() net.Addr                { return &net.TCPAddr{IP: net.IPv4(127, 0, 0, 1), Port: 1} }
func (c *memConn) RemoteAddr() net.Addr               { return &net.TCPAddr{IP: net.IPv4(127, 0, 0, 1), Port: 2} }
func (c *memConn) SetDeadline(t time.Time) error      { return nil }
func (c *memConn) SetReadDeadline(t time.Time) error  { return nil }
func (c *memConn) SetWriteDeadline(t time.Time) error { return nil }
func (c *memConn) take() [][]byte {
	c.mu.Lock()
	defer c.mu.Unlock()
	w := c.writes
	c.writes = nil
	return w
}

var expProc *exporter.ExportingProcess
var expConn *memConn
var expReused entities.Set
var expJSON bool

// writesToken renders the messages written during one call; the export time (bytes 4..8) of
// every message of at least 16 bytes is checked against the wall-clock window and zeroed.
func writesToken(ws [][]byte, t0, t1 int64) (string, bool) {
	if len(ws) == 0 {
		return "-", true
	}
	timeOK := true
	var parts []string
	for _, w := range ws {
		w = append([]byte{}, w...)
		if len(w) >= 16 {
			et := int64(uint32(w[4])<<24 | uint32(w[5])<<16 | uint32(w[6])<<8 | uint32(w[7]))
			if et < t0 || et > t1 {
				timeOK = false
			}
			w[4], w[5], w[6], w[7] = 0, 0, 0, 0
		} else {
			// the head of a message cut by a short write (exp failnext short<k>): what is there of the export time is zeroed
			for i := 4; i < 8 && i < len(w); i++ {
				w[i] = 0
			}
		}
		parts = append(parts, hexs(w))
	}
	return strings.Join(parts, "+"), timeOK
}

// nonZeroElem: an element of the given kind with a value that is not its type's empty value
func nonZeroElem(ie *entities.InfoElement) (entities.InfoElementWithValue, bool) {
	tok := "n1"
	switch ie.DataType {
	case entities.Boolean:
		tok = "t"
	case entities.String:
		tok = "x76"
	case entities.MacAddress:
		tok = "x010101010101"
	case entities.Ipv4Address:
		tok = "x01010101"
	case entities.Ipv6Address:
		tok = "x01010101010101010101010101010101"
	case entities.OctetArray:
		n := int(ie.Len)
		if ie.Len == entities.VariableLength || n == 0 || n > 64 {
			n = 1
		}
		tok = "x" + strings.Repeat("01", n)
	}
	e, err := mkElem(ie, tok)
	return e, err == nil
}

func engExp(a []string) string {
	if len(a) == 0 {
		return "bad-op"
	}
	if a[0] == "new" {
		if len(a) != 2 && !(len(a) == 3 && a[2] == "json") {
			return "bad-op"
		}
		dom, err := strconv.ParseUint(a[1], 10, 32)
		if err != nil {
			return "bad-op"
		}
		expConn = &memConn{}
		expReused = nil
		expJSON = len(a) == 3
		if expJSON {
			expProc = exporter.VerifNewExporterJSON(expConn, uint32(dom))
		} else {
			expProc = exporter.VerifNewExporter(expConn, uint32(dom))
		}
		return "ok"
	}
	if expProc == nil {
		return "bad-op"
	}
	injTok := func() string {
		if expConn.takeInjected() {
			return " injected"
		}
		return ""
	}
	switch a[0] {
	case "failnext":
		if len(a) != 2 {
			return "bad-op"
		}
		switch {
		case a[1] == "err" || a[1] == "refused" || a[1] == "errfull":
			expConn.failNext(a[1], 0)
		case strings.HasPrefix(a[1], "short"):
			k, err := strconv.Atoi(a[1][5:])
			if err != nil || k < 0 {
				return "bad-op"
			}
			expConn.failNext("short", k)
		default:
			return "bad-op"
		}
		return "ok"
	case "seq":
		n, err := strconv.ParseUint(a[1], 10, 32)
		if err != nil {
			return "bad-op"
		}
		expProc.VerifSetSeq(uint32(n))
		return "ok"
	case "getseq":
		return fmt.Sprintf("seq %d", expProc.VerifSeq())
	case "tids":
		ids := expProc.VerifTemplateIDs()
		sort.Slice(ids, func(i, j int) bool { return ids[i] < ids[j] })
		var t []string
		for _, id := range ids {
			t = append(t, strconv.Itoa(int(id)))
		}
		if len(t) == 0 {
			return "tids -"
		}
		return "tids " + strings.Join(t, ",")
	case "refresh":
		// one pass of the UDP template refresher (sendRefreshedTemplates), called synchronously; the
		// messages come out in Go map order and are reported sorted by their template id
		t0 := time.Now().Unix()
		err := expProc.VerifSendRefreshedTemplates()
		t1 := time.Now().Unix()
		ws := expConn.take()
		tidOf := func(w []byte) int {
			if len(w) >= 22 {
				return int(w[20])<<8 | int(w[21])
			}
			return -1
		}
		sort.SliceStable(ws, func(i, j int) bool { return tidOf(ws[i]) < tidOf(ws[j]) })
		w, timeOK := writesToken(ws, t0, t1)
		tk := "timeok"
		if !timeOK {
			tk = "timebad"
		}
		expConn.takeCalls()
		if err != nil {
			return fmt.Sprintf("err %s%s", w, injTok())
		}
		return fmt.Sprintf("ok %d %s %s%s", len(ws), w, tk, injTok())
	case "send":
		if len(a) != 5 {
			return "bad-op"
		}
		st, ok := setTypeOf(a[2])
		setid, err := strconv.ParseUint(a[3], 10, 16)
		if !ok || err != nil {
			return "bad-op"
		}
		// path "0r" / "1r" / "2r": the application recycles ONE set (ResetSet, PrepareSet, adds), as
		// long-running exporters do; otherwise a fresh set per call
		path := a[1]
		var set entities.Set
		if strings.HasSuffix(path, "r") {
			path = strings.TrimSuffix(path, "r")
			if expReused == nil {
				expReused = entities.NewSet(false)
			}
			expReused.ResetSet()
			set = expReused
		} else {
			set = entities.NewSet(false)
		}
		prepErr := set.PrepareSet(st, uint16(setid))
		if st == entities.Undefined {
			set.ResetSet() // a set whose type is Undefined (NewSet alone leaves the zero value, Template)
		}
		if a[4] != "-" {
			for _, rt := range strings.Split(a[4], ";") {
				p := strings.SplitN(rt, "@", 2)
				if len(p) != 2 {
					return "bad-op"
				}
				tid, err := strconv.ParseUint(p[0], 10, 16)
				if err != nil {
					return "bad-op"
				}
				elems, err := parseElems(p[1])
				if err != nil {
					return "bad-op"
				}
				if prepErr == nil {
					if err := addByPath(set, path, 2, uint16(tid), elems); err != nil {
						return "builderr"
					}
				}
			}
		}
		t0 := time.Now().Unix()
		n, err := expProc.SendSet(set)
		t1 := time.Now().Unix()
		if err == nil && set.GetSetType() == entities.Template {
			// the application owns the elements it built the template from and may go on using them - here: it gives
			// every one of them a value, as an exporter does that fills the same element objects for its data records.
			// What the exporting process keeps of a template (for the data-record checks, for the UDP refresh) must not
			// depend on them.
			for _, r := range set.GetRecords() {
				for _, e := range r.GetOrderedElementList() {
					if nz, ok := nonZeroElem(e.GetInfoElement()); ok {
						copyValue(e, nz)
					}
				}
			}
		}
		if expJSON {
			// JSON mode: only the number of (successful) Write calls is reported, the text is not
			expConn.take()
			calls := expConn.takeCalls()
			switch {
			case err == nil:
				return fmt.Sprintf("okj %d%s", calls, injTok())
			case calls == 0:
				return "err -" + injTok()
			}
			return fmt.Sprintf("errj %d%s", calls, injTok())
		}
		expConn.takeCalls()
		w, timeOK := writesToken(expConn.take(), t0, t1)
		tk := "timeok"
		if !timeOK {
			tk = "timebad"
		}
		if err != nil {
			return fmt.Sprintf("err %s%s", w, injTok())
		}
		return fmt.Sprintf("ok %d %s %s%s", n, w, tk, injTok())
	}
	return "bad-op"
}
