package main

import (
	"fmt"
	"net"
	"strconv"
	"strings"
	"time"

	"github.com/vmware/go-ipfix/pkg/collector"
	"github.com/vmware/go-ipfix/pkg/entities"
	"github.com/vmware/go-ipfix/pkg/exporter"
)

// engine "e2e": a real exporting process connected to a real collecting process (property C01)
//   e2e open <tcp|udp|tls|dtls> <4|6> <strict|keep|drop> <dom>  -> ok | unsupported | err <why>
//   e2e send <path> <t|d> <setid> <tid@elems;...>               -> sent <n> <delivered message | none> <timeok|timebad> | err
//   e2e burst <path> <tid> <recs_1> <recs_2> ... <recs_k>      -> burst <n_1>,...,<n_k> <delivered message> | <delivered message> | ... (or `none`)
//        k data sets for template <tid>, handed to SendSet back-to-back while the application does NOT read GetMsgChan();
//        only then are the deliveries collected (until k arrived or 3 s passed since the last arrival), in arrival order
//   e2e close                                                  -> ok
func init() { engines["e2e"] = engE2E }

type e2eSession struct {
	cp   *collector.CollectingProcess
	ep   *exporter.ExportingProcess
	msgs chan *entities.Message
	done chan struct{}
	// a burst stops the goroutine which reads GetMsgChan() for the time of its sends (an application which is
	// busy elsewhere): it hands over a channel and the reader waits until that channel is closed
	pause chan chan struct{}
	// the application's recycled set (paths "0r" / "1r" / "2r": ResetSet + PrepareSet per send)
	reused entities.Set
	// every message delivered in this session with its rendering at delivery time: a consumer may keep
	// a message while later ones arrive, and it must stay what was delivered
	kept     []*entities.Message
	keptToks []string
}

var e2e *e2eSession

func e2eClose() {
	if e2e == nil {
		return
	}
	s := e2e
	e2e = nil
	if s.ep != nil {
		s.ep.CloseConnToCollector()
	}
	stopped := make(chan struct{})
	go func() { s.cp.Stop(); close(stopped) }()
	select {
	case <-stopped:
	case <-time.After(3 * time.Second):
	}
	close(s.done)
}

func engE2E(a []string) string {
	if len(a) == 0 {
		return "bad-op"
	}
	switch a[0] {
	case "open":
		if len(a) != 5 {
			return "bad-op"
		}
		e2eClose()
		transport, fam := a[1], a[2]
		mode, ok := modeOf(a[3])
		dom, err := strconv.ParseUint(a[4], 10, 32)
		if !ok || err != nil {
			return "bad-op"
		}
		host := "127.0.0.1"
		if fam == "6" {
			host = "[::1]"
			l, err := net.Listen("tcp", "[::1]:0")
			if err != nil {
				return "unsupported"
			}
			l.Close()
		}
		proto := "tcp"
		if transport == "udp" || transport == "dtls" {
			proto = "udp"
		}
		enc := transport == "tls" || transport == "dtls"
		in := collector.CollectorInput{Address: host + ":0", Protocol: proto, MaxBufferSize: 65535, IsIPv6: fam == "6",
			IsEncrypted: enc, DecodingMode: mode}
		if enc {
			p := getPKI()
			in.ServerCert, in.ServerKey = p.serverCertPEM, p.serverKeyPEM
		}
		cp, err := collector.InitCollectingProcess(in)
		if err != nil {
			return "err init-collector"
		}
		go cp.Start()
		var addr net.Addr
		for i := 0; i < 400 && addr == nil; i++ {
			addr = cp.GetAddress()
			if addr == nil {
				time.Sleep(5 * time.Millisecond)
			}
		}
		if addr == nil {
			return "err collector-address"
		}
		s := &e2eSession{cp: cp, msgs: make(chan *entities.Message, 64), done: make(chan struct{}), pause: make(chan chan struct{})}
		go func() {
			ch := cp.GetMsgChan()
			for {
				select {
				case m := <-ch:
					s.msgs <- m
				case resume := <-s.pause:
					select {
					case <-resume:
					case <-s.done:
						return
					}
				case <-s.done:
					return
				}
			}
		}()
		ein := exporter.ExporterInput{CollectorAddress: addr.String(), CollectorProtocol: proto, ObservationDomainID: uint32(dom),
			TempRefTimeout: 0, IsIPv6: fam == "6"}
		if enc {
			ein.TLSClientConfig = &exporter.ExporterTLSClientConfig{CAData: getPKI().caPEM, ServerName: "localhost"}
		}
		ep, err := exporter.InitExportingProcess(ein)
		if err != nil {
			e2e = s
			e2eClose()
			return "err init-exporter"
		}
		s.ep = ep
		e2e = s
		return "ok"
	case "close":
		res := "ok"
		if e2e != nil {
			for i, m := range e2e.kept {
				if msgToken(m) != e2e.keptToks[i] {
					res = fmt.Sprintf("mutated %d/%d", i+1, len(e2e.kept))
					break
				}
			}
		}
		e2eClose()
		return res
	case "send":
		if len(a) != 5 || e2e == nil {
			return "bad-op"
		}
		st, ok := setTypeOf(a[2])
		setid, err := strconv.ParseUint(a[3], 10, 16)
		if !ok || err != nil {
			return "bad-op"
		}
		path := a[1]
		var set entities.Set
		if strings.HasSuffix(path, "r") {
			path = strings.TrimSuffix(path, "r")
			if e2e.reused == nil {
				e2e.reused = entities.NewSet(false)
			}
			e2e.reused.ResetSet()
			set = e2e.reused
		} else {
			set = entities.NewSet(false)
		}
		if err := set.PrepareSet(st, uint16(setid)); err != nil {
			return "bad-op"
		}
		for _, rt := range strings.Split(a[4], ";") {
			p := strings.SplitN(rt, "@", 2)
			if len(p) != 2 {
				return "bad-op"
			}
			tid, err := strconv.ParseUint(p[0], 10, 16)
			if err != nil {
				return "bad-op"
			}
			elems, err := parseElems(p[1])
			if err != nil {
				return "bad-op"
			}
			if err := addByPath(set, path, 0, uint16(tid), elems); err != nil {
				return "builderr"
			}
		}
		// drain anything stale
		for len(e2e.msgs) > 0 {
			<-e2e.msgs
		}
		t0 := time.Now().Unix()
		n, err := e2e.ep.SendSet(set)
		t1 := time.Now().Unix()
		if err != nil {
			return "err"
		}
		select {
		case m := <-e2e.msgs:
			return fmt.Sprintf("sent %d %s", n, e2e.render(m, t0, t1))
		case <-time.After(3 * time.Second):
			return fmt.Sprintf("sent %d none", n)
		}
	case "burst":
		// e2e burst <path> <tid> <recs_1> ... <recs_k>
		if len(a) < 4 || e2e == nil {
			return "bad-op"
		}
		path := a[1]
		reuse := strings.HasSuffix(path, "r")
		path = strings.TrimSuffix(path, "r")
		setid, err := strconv.ParseUint(a[2], 10, 16)
		if err != nil {
			return "bad-op"
		}
		type rec struct {
			tid   uint16
			elems []entities.InfoElementWithValue
		}
		var descs [][]rec
		for _, rs := range a[3:] {
			var d []rec
			for _, rt := range strings.Split(rs, ";") {
				p := strings.SplitN(rt, "@", 2)
				if len(p) != 2 {
					return "bad-op"
				}
				tid, err := strconv.ParseUint(p[0], 10, 16)
				if err != nil {
					return "bad-op"
				}
				elems, err := parseElems(p[1])
				if err != nil {
					return "bad-op"
				}
				d = append(d, rec{uint16(tid), elems})
			}
			descs = append(descs, d)
		}
		build := func(set entities.Set, d []rec) bool {
			if err := set.PrepareSet(entities.Data, uint16(setid)); err != nil {
				return false
			}
			for _, r := range d {
				if err := addByPath(set, path, 0, r.tid, r.elems); err != nil {
					return false
				}
			}
			return true
		}
		// without the recycled set all k sets exist before the first SendSet; with it (paths "0r"/"1r"/"2r") the
		// one set is reset and filled again right after the SendSet which took its previous content returned
		sets := make([]entities.Set, len(descs))
		if reuse {
			if e2e.reused == nil {
				e2e.reused = entities.NewSet(false)
			}
		} else {
			for i, d := range descs {
				sets[i] = entities.NewSet(false)
				if !build(sets[i], d) {
					return "builderr"
				}
			}
		}
		for len(e2e.msgs) > 0 {
			<-e2e.msgs
		}
		// from here on nobody reads GetMsgChan() until the last SendSet has returned
		resume := make(chan struct{})
		e2e.pause <- resume
		ns := make([]string, len(descs))
		t0 := time.Now().Unix()
		for i, d := range descs {
			set := sets[i]
			if reuse {
				e2e.reused.ResetSet()
				set = e2e.reused
				if !build(set, d) {
					close(resume)
					return "builderr"
				}
			}
			n, err := e2e.ep.SendSet(set)
			if err != nil {
				ns[i] = "err"
			} else {
				ns[i] = strconv.Itoa(n)
			}
		}
		t1 := time.Now().Unix()
		close(resume)
		// the application takes what arrives and looks at it only when nothing more is to come
		var got []*entities.Message
	collect:
		for len(got) < len(descs) {
			select {
			case m := <-e2e.msgs:
				got = append(got, m)
			case <-time.After(3 * time.Second):
				break collect
			}
		}
		if len(got) == len(descs) {
			// anything beyond the k messages which were sent
			select {
			case m := <-e2e.msgs:
				got = append(got, m)
			case <-time.After(50 * time.Millisecond):
			}
		}
		var out []string
		for _, m := range got {
			out = append(out, e2e.render(m, t0, t1))
		}
		if len(out) == 0 {
			out = []string{"none"}
		}
		return fmt.Sprintf("burst %s %s", strings.Join(ns, ","), strings.Join(out, " | "))
	}
	return "bad-op"
}

// render is what a delivery looks like to the application: the message (export time judged against the
// interval of the send(s) and then blanked), the exporter's address; the message is kept until `close`
func (s *e2eSession) render(m *entities.Message, t0, t1 int64) string {
	tk := "timeok"
	if int64(m.GetExportTime()) < t0 || int64(m.GetExportTime()) > t1 {
		tk = "timebad"
	}
	m.SetExportTime(0)
	addrOK := "addrok"
	if ip := net.ParseIP(m.GetExportAddress()); ip == nil || !ip.IsLoopback() {
		addrOK = "addrbad:" + m.GetExportAddress()
	}
	tok := msgToken(m)
	s.kept = append(s.kept, m)
	s.keptToks = append(s.keptToks, tok)
	return fmt.Sprintf("%s %s %s", strings.TrimPrefix(tok, "ok "), tk, addrOK)
}
