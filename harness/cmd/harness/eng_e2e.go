package main

import (
	"fmt"
	"net"
	"strconv"
	"strings"
	"time"

	"github.com/vmware/go-ipfix/pkg/collector"
	"github.com/vmware/go-ipfix/pkg/entities"
	"github.com/vmware/go-ipfix/pkg/exporter"
)

// engine "e2e": a real exporting process connected to a real collecting process (property C01)
//   e2e open <tcp|udp|tls|dtls> <4|6> <strict|keep|drop> <dom>  -> ok | unsupported | err <why>
//   e2e send <path> <t|d> <setid> <tid@elems;...>               -> sent <n> <delivered message | none> <timeok|timebad> | err
//   e2e close                                                  -> ok
func init() { engines["e2e"] = engE2E }

type e2eSession struct {
	cp   *collector.CollectingProcess
	ep   *exporter.ExportingProcess
	msgs chan *entities.Message
	done chan struct{}
	// the application's recycled set (paths "0r" / "1r" / "2r": ResetSet + PrepareSet per send)
	reused entities.Set
	// every message delivered in this session with its rendering at delivery time: a consumer may keep
	// a message while later ones arrive, and it must stay what was delivered
	kept     []*entities.Message
	keptToks []string
}

var e2e *e2eSession

func e2eClose() {
	if e2e == nil {
		return
	}
	s := e2e
	e2e = nil
	if s.ep != nil {
		s.ep.CloseConnToCollector()
	}
	stopped := make(chan struct{})
	go func() { s.cp.Stop(); close(stopped) }()
	select {
	case <-stopped:
	case <-time.After(3 * time.Second):
	}
	close(s.done)
}

func engE2E(a []string) string {
	if len(a) == 0 {
		return "bad-op"
	}
	switch a[0] {
	case "open":
		if len(a) != 5 {
			return "bad-op"
		}
		e2eClose()
		transport, fam := a[1], a[2]
		mode, ok := modeOf(a[3])
		dom, err := strconv.ParseUint(a[4], 10, 32)
		if !ok || err != nil {
			return "bad-op"
		}
		host := "127.0.0.1"
		if fam == "6" {
			host = "[::1]"
			l, err := net.Listen("tcp", "[::1]:0")
			if err != nil {
				return "unsupported"
			}
			l.Close()
		}
		proto := "tcp"
		if transport == "udp" || transport == "dtls" {
			proto = "udp"
		}
		enc := transport == "tls" || transport == "dtls"
		in := collector.CollectorInput{Address: host + ":0", Protocol: proto, MaxBufferSize: 65535, IsIPv6: fam == "6",
			IsEncrypted: enc, DecodingMode: mode}
		if enc {
			p := getPKI()
			in.ServerCert, in.ServerKey = p.serverCertPEM, p.serverKeyPEM
		}
		cp, err := collector.InitCollectingProcess(in)
		if err != nil {
			return "err init-collector"
		}
		go cp.Start()
		var addr net.Addr
		for i := 0; i < 400 && addr == nil; i++ {
			addr = cp.GetAddress()
			if addr == nil {
				time.Sleep(5 * time.Millisecond)
			}
		}
		if addr == nil {
			return "err collector-address"
		}
		s := &e2eSession{cp: cp, msgs: make(chan *entities.Message, 64), done: make(chan struct{})}
		go func() {
			ch := cp.GetMsgChan()
			for {
				select {
				case m := <-ch:
					s.msgs <- m
				case <-s.done:
					return
				}
			}
		}()
		ein := exporter.ExporterInput{CollectorAddress: addr.String(), CollectorProtocol: proto, ObservationDomainID: uint32(dom),
			TempRefTimeout: 0, IsIPv6: fam == "6"}
		if enc {
			ein.TLSClientConfig = &exporter.ExporterTLSClientConfig{CAData: getPKI().caPEM, ServerName: "localhost"}
		}
		ep, err := exporter.InitExportingProcess(ein)
		if err != nil {
			e2e = s
			e2eClose()
			return "err init-exporter"
		}
		s.ep = ep
		e2e = s
		return "ok"
	case "close":
		res := "ok"
		if e2e != nil {
			for i, m := range e2e.kept {
				if msgToken(m) != e2e.keptToks[i] {
					res = fmt.Sprintf("mutated %d/%d", i+1, len(e2e.kept))
					break
				}
			}
		}
		e2eClose()
		return res
	case "send":
		if len(a) != 5 || e2e == nil {
			return "bad-op"
		}
		st, ok := setTypeOf(a[2])
		setid, err := strconv.ParseUint(a[3], 10, 16)
		if !ok || err != nil {
			return "bad-op"
		}
		path := a[1]
		var set entities.Set
		if strings.HasSuffix(path, "r") {
			path = strings.TrimSuffix(path, "r")
			if e2e.reused == nil {
				e2e.reused = entities.NewSet(false)
			}
			e2e.reused.ResetSet()
			set = e2e.reused
		} else {
			set = entities.NewSet(false)
		}
		if err := set.PrepareSet(st, uint16(setid)); err != nil {
			return "bad-op"
		}
		for _, rt := range strings.Split(a[4], ";") {
			p := strings.SplitN(rt, "@", 2)
			if len(p) != 2 {
				return "bad-op"
			}
			tid, err := strconv.ParseUint(p[0], 10, 16)
			if err != nil {
				return "bad-op"
			}
			elems, err := parseElems(p[1])
			if err != nil {
				return "bad-op"
			}
			if err := addByPath(set, path, 0, uint16(tid), elems); err != nil {
				return "builderr"
			}
		}
		// drain anything stale
		for len(e2e.msgs) > 0 {
			<-e2e.msgs
		}
		t0 := time.Now().Unix()
		n, err := e2e.ep.SendSet(set)
		t1 := time.Now().Unix()
		if err != nil {
			return "err"
		}
		select {
		case m := <-e2e.msgs:
			tk := "timeok"
			if int64(m.GetExportTime()) < t0 || int64(m.GetExportTime()) > t1 {
				tk = "timebad"
			}
			m.SetExportTime(0)
			addrOK := "addrok"
			if ip := net.ParseIP(m.GetExportAddress()); ip == nil || !ip.IsLoopback() {
				addrOK = "addrbad:" + m.GetExportAddress()
			}
			tok := msgToken(m)
			e2e.kept = append(e2e.kept, m)
			e2e.keptToks = append(e2e.keptToks, tok)
			return fmt.Sprintf("sent %d %s %s %s", n, strings.TrimPrefix(tok, "ok "), tk, addrOK)
		case <-time.After(3 * time.Second):
			return fmt.Sprintf("sent %d none", n)
		}
	}
	return "bad-op"
}
