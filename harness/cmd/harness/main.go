// harness: runs the real go-ipfix code in-process on an ops file (one op per line on stdin) and
// prints exactly one canonical observation line per op on stdout. Built with
//   go build -tags verif -overlay overlay.json
// so that the verif_hooks.go files of /verif/harness/overlay are compiled into the packages.
package main

import (
	"bufio"
	"flag"
	"fmt"
	"os"
	"strings"
	"time"

	"github.com/vmware/go-ipfix/pkg/registry"
	"k8s.io/klog/v2"
)

type engine func(args []string) string

var engines = map[string]engine{}

var opTimeout = 20 * time.Second

func runOp(line string) (out string) {
	fields := strings.Fields(line)
	if len(fields) == 0 || strings.HasPrefix(fields[0], "#") {
		return "skip"
	}
	e, ok := engines[fields[0]]
	if !ok {
		return "bad-op"
	}
	type res struct{ s string }
	ch := make(chan res, 1)
	go func() {
		defer func() {
			if r := recover(); r != nil {
				ch <- res{"panic"}
				if os.Getenv("VERIF_PANIC_TRACE") != "" {
					fmt.Fprintf(os.Stderr, "panic in %q: %v\n", line, r)
				}
			}
		}()
		ch <- res{e(fields[1:])}
	}()
	select {
	case r := <-ch:
		return r.s
	case <-time.After(opTimeout):
		return "hang"
	}
}

func main() {
	klogFlags := flag.NewFlagSet("klog", flag.ContinueOnError)
	klog.InitFlags(klogFlags)
	klogFlags.Set("logtostderr", "false")
	klogFlags.Set("alsologtostderr", "false")
	klogFlags.Set("stderrthreshold", "FATAL")
	klogFlags.Set("v", "0")
	klog.SetOutput(discard{})
	klog.LogToStderr(false)

	registry.LoadRegistry()
	in := bufio.NewReaderSize(os.Stdin, 1<<20)
	out := bufio.NewWriterSize(os.Stdout, 1<<16)
	defer out.Flush()
	n := 0
	for {
		line, err := in.ReadString('\n')
		if len(line) > 0 {
			r := runOp(strings.TrimRight(line, "\r\n"))
			out.WriteString(r)
			out.WriteByte('\n')
			n++
			if r == "hang" {
				out.Flush()
				os.Exit(3)
			}
			if n%256 == 0 {
				out.Flush()
			}
		}
		if err != nil {
			break
		}
	}
}

type discard struct{}

func (discard) Write(p []byte) (int, error) { return len(p), nil }
