// harness-kafka (property C19): pushes streams of IPFIX messages through the REAL Kafka producer
// (producer.KafkaProducer.PublishIPFIXMessages -> convertor -> proto.Marshal -> SendFlowMessage)
// with a recording sarama.AsyncProducer in place of a broker connection, then feeds every
// published payload to the REAL consumer path (consumer.KafkaConsumer.DecodeAndPrintMsg).
//
// Line protocol (one op per line on stdin, exactly one observation line per op on stdout):
//
//	# ...                                      -> skip
//	schema <1|2>                               -> ok <GoField:number:kind,...>   (descriptor dump, by number)
//	kafka <1|2> <succ 0|1> <topichex> <msg>*   -> ok <n> <payload>*  |  panic  |  hang
//
//	<msg>     = <D|T>/<exportTime>/<seqNum>/<obsDomain>/<addrhex>/<ies>/<records>
//	<ies>     = - | ietoken(,ietoken)*            ietoken = ent:id:ty:len:hexname
//	<records> = - | rec(;rec)*                    rec = "=" (no elements) | value(,value)*
//	<payload> = <topichex>:<payloadhex>:<A|R|P>:<fields>
//	            A/R/P = the consumer accepted / rejected / panicked on the payload
//	<fields>  = - | num=n<dec>|num=x<hex> (,..)*  the fields the consumer's proto message holds
//	            afterwards, by field number; "u=<hex>" last if it kept unknown fields
//
// All messages of one op go through ONE channel and ONE PublishIPFIXMessages call, in order.
package main

import (
	"bufio"
	"encoding/hex"
	"flag"
	"fmt"
	"math"
	"net"
	"os"
	"sort"
	"strconv"
	"strings"
	"sync"
	"time"

	"github.com/IBM/sarama"
	"google.golang.org/protobuf/proto"
	"google.golang.org/protobuf/reflect/protoreflect"
	"k8s.io/klog/v2"

	"github.com/vmware/go-ipfix/pkg/entities"
	"github.com/vmware/go-ipfix/pkg/kafka/consumer"
	"github.com/vmware/go-ipfix/pkg/kafka/producer"
	"github.com/vmware/go-ipfix/pkg/kafka/producer/convertor"
	convtest "github.com/vmware/go-ipfix/pkg/kafka/producer/convertor/test"
	"github.com/vmware/go-ipfix/pkg/kafka/producer/protobuf"
)

var opTimeout = 30 * time.Second

// ---- recording sarama.AsyncProducer --------------------------------------------------

type recProducer struct {
	input     chan *sarama.ProducerMessage
	successes chan *sarama.ProducerMessage
	errors    chan *sarama.ProducerError
	mu        sync.Mutex
	got       []*sarama.ProducerMessage
	done      chan struct{}
}

func newRecProducer(echoSuccess bool) *recProducer {
	p := &recProducer{
		input:     make(chan *sarama.ProducerMessage),
		successes: make(chan *sarama.ProducerMessage),
		errors:    make(chan *sarama.ProducerError, 4096),
		done:      make(chan struct{}),
	}
	go func() {
		defer close(p.done)
		n := 0
		for m := range p.input {
			p.mu.Lock()
			p.got = append(p.got, m)
			p.mu.Unlock()
			// the "broker" fails every third message AFTER it was handed over: sarama reports that on Errors(). What
			// the library published is what it put on Input(); an error report that nobody has read yet must not make
			// it skip or reorder later records. (Nothing reads this channel in the unchanged library when the producer
			// is injected; the channel is buffered so that the report simply stays pending.)
			if n%3 == 1 {
				select {
				case p.errors <- &sarama.ProducerError{Msg: m, Err: sarama.ErrOutOfBrokers}:
				default:
				}
			}
			n++
			if echoSuccess {
				p.successes <- m
			}
		}
	}()
	return p
}

func (p *recProducer) AsyncClose()                               { close(p.input) }
func (p *recProducer) Close() error                              { close(p.input); <-p.done; return nil }
func (p *recProducer) Input() chan<- *sarama.ProducerMessage     { return p.input }
func (p *recProducer) Successes() <-chan *sarama.ProducerMessage { return p.successes }
func (p *recProducer) Errors() <-chan *sarama.ProducerError      { return p.errors }
func (p *recProducer) IsTransactional() bool                     { return false }
func (p *recProducer) TxnStatus() sarama.ProducerTxnStatusFlag   { return 0 }
func (p *recProducer) BeginTxn() error                           { return nil }
func (p *recProducer) CommitTxn() error                          { return nil }
func (p *recProducer) AbortTxn() error                           { return nil }
func (p *recProducer) AddOffsetsToTxn(map[string][]*sarama.PartitionOffsetMetadata, string) error {
	return nil
}
func (p *recProducer) AddMessageToTxn(*sarama.ConsumerMessage, string, *string) error { return nil }

// ---- tokens ----------------------------------------------------------------------------

func unhex(s string) ([]byte, error) {
	if s == "-" {
		return []byte{}, nil
	}
	return hex.DecodeString(s)
}

func hexs(b []byte) string {
	if len(b) == 0 {
		return "-"
	}
	return hex.EncodeToString(b)
}

func parseIE(tok string) (*entities.InfoElement, error) {
	p := strings.Split(tok, ":")
	if len(p) != 5 {
		return nil, fmt.Errorf("bad ie token")
	}
	ent, e1 := strconv.ParseUint(p[0], 10, 32)
	id, e2 := strconv.ParseUint(p[1], 10, 16)
	ty, e3 := strconv.ParseUint(p[2], 10, 8)
	ln, e4 := strconv.ParseUint(p[3], 10, 16)
	name, e5 := unhex(p[4])
	for _, e := range []error{e1, e2, e3, e4, e5} {
		if e != nil {
			return nil, e
		}
	}
	return entities.NewInfoElement(string(name), uint16(id), entities.IEDataType(ty), uint32(ent), uint16(ln)), nil
}

// mkElem builds the typed element the public constructors give for the element's data type.
func mkElem(ie *entities.InfoElement, tok string) (entities.InfoElementWithValue, error) {
	if tok == "" {
		return nil, fmt.Errorf("empty value")
	}
	kind, rest := tok[0], tok[1:]
	var n uint64
	var b []byte
	var err error
	switch kind {
	case 'n':
		n, err = strconv.ParseUint(rest, 10, 64)
	case 'x':
		b, err = unhex(rest)
	case 't', 'f':
	default:
		err = fmt.Errorf("bad value kind")
	}
	if err != nil {
		return nil, err
	}
	num := func(max uint64) error {
		if kind != 'n' || n > max {
			return fmt.Errorf("value does not fit the element type")
		}
		return nil
	}
	byt := func() error {
		if kind != 'x' {
			return fmt.Errorf("value does not fit the element type")
		}
		return nil
	}
	switch ie.DataType {
	case entities.Unsigned8:
		return entities.NewUnsigned8InfoElement(ie, uint8(n)), num(math.MaxUint8)
	case entities.Unsigned16:
		return entities.NewUnsigned16InfoElement(ie, uint16(n)), num(math.MaxUint16)
	case entities.Unsigned32:
		return entities.NewUnsigned32InfoElement(ie, uint32(n)), num(math.MaxUint32)
	case entities.Unsigned64:
		return entities.NewUnsigned64InfoElement(ie, n), num(math.MaxUint64)
	case entities.Signed8:
		return entities.NewSigned8InfoElement(ie, int8(uint8(n))), num(math.MaxUint8)
	case entities.Signed16:
		return entities.NewSigned16InfoElement(ie, int16(uint16(n))), num(math.MaxUint16)
	case entities.Signed32:
		return entities.NewSigned32InfoElement(ie, int32(uint32(n))), num(math.MaxUint32)
	case entities.Signed64:
		return entities.NewSigned64InfoElement(ie, int64(n)), num(math.MaxUint64)
	case entities.Float32:
		return entities.NewFloat32InfoElement(ie, math.Float32frombits(uint32(n))), num(math.MaxUint32)
	case entities.Float64:
		return entities.NewFloat64InfoElement(ie, math.Float64frombits(n)), num(math.MaxUint64)
	case entities.Boolean:
		if kind != 't' && kind != 'f' {
			return nil, fmt.Errorf("bad bool")
		}
		return entities.NewBoolInfoElement(ie, kind == 't'), nil
	case entities.MacAddress:
		return entities.NewMacAddressInfoElement(ie, net.HardwareAddr(b)), byt()
	case entities.String:
		return entities.NewStringInfoElement(ie, string(b)), byt()
	case entities.DateTimeSeconds:
		return entities.NewDateTimeSecondsInfoElement(ie, uint32(n)), num(math.MaxUint32)
	case entities.DateTimeMilliseconds:
		return entities.NewDateTimeMillisecondsInfoElement(ie, n), num(math.MaxUint64)
	case entities.Ipv4Address, entities.Ipv6Address:
		return entities.NewIPAddressInfoElement(ie, net.IP(b)), byt()
	case entities.OctetArray:
		return entities.NewOctetArrayInfoElement(ie, b), byt()
	}
	return nil, fmt.Errorf("no typed constructor for data type %d", ie.DataType)
}

func parseMsg(tok string) (*entities.Message, error) {
	p := strings.Split(tok, "/")
	if len(p) != 7 {
		return nil, fmt.Errorf("bad message token")
	}
	var st entities.ContentType
	switch p[0] {
	case "D":
		st = entities.Data
	case "T":
		st = entities.Template
	default:
		return nil, fmt.Errorf("bad set type")
	}
	et, e1 := strconv.ParseUint(p[1], 10, 32)
	sq, e2 := strconv.ParseUint(p[2], 10, 32)
	od, e3 := strconv.ParseUint(p[3], 10, 32)
	addr, e4 := unhex(p[4])
	for _, e := range []error{e1, e2, e3, e4} {
		if e != nil {
			return nil, e
		}
	}
	var ies []*entities.InfoElement
	if p[5] != "-" {
		for _, t := range strings.Split(p[5], ",") {
			ie, err := parseIE(t)
			if err != nil {
				return nil, err
			}
			ies = append(ies, ie)
		}
	}
	msg := entities.NewMessage(true)
	msg.SetVersion(10)
	msg.SetExportTime(uint32(et))
	msg.SetSequenceNum(uint32(sq))
	msg.SetObsDomainID(uint32(od))
	msg.SetExportAddress(string(addr))
	set := entities.NewSet(true)
	if err := set.PrepareSet(st, 256); err != nil {
		return nil, err
	}
	if p[6] != "-" {
		for _, r := range strings.Split(p[6], ";") {
			var vals []string
			if r != "=" {
				vals = strings.Split(r, ",")
			}
			if len(vals) != len(ies) {
				return nil, fmt.Errorf("record does not match the element list")
			}
			elems := make([]entities.InfoElementWithValue, len(ies))
			for i := range ies {
				e, err := mkElem(ies[i], vals[i])
				if err != nil {
					return nil, err
				}
				elems[i] = e
			}
			if err := set.AddRecordV2(elems, 256); err != nil {
				return nil, err
			}
		}
	}
	msg.AddSet(set)
	return msg, nil
}

// ---- schemas ---------------------------------------------------------------------------

func schema(which string) (convertor.IPFIXToKafkaConvertor, proto.Message, bool) {
	switch which {
	case "1":
		return convtest.NewFlowType1Convertor(), &protobuf.FlowType1{}, true
	case "2":
		return convtest.NewFlowType2Convertor(), &protobuf.FlowType2{}, true
	}
	return nil, nil, false
}

func kindCode(fd protoreflect.FieldDescriptor) string {
	if fd.Cardinality() == protoreflect.Repeated || fd.ContainingOneof() != nil || fd.HasPresence() {
		return "?"
	}
	switch fd.Kind() {
	case protoreflect.Uint32Kind:
		return "0"
	case protoreflect.Uint64Kind:
		return "1"
	case protoreflect.StringKind:
		return "2"
	}
	return "?"
}

func opSchema(a []string) string {
	if len(a) != 1 {
		return "bad-op"
	}
	_, m, ok := schema(a[0])
	if !ok {
		return "bad-op"
	}
	fds := m.ProtoReflect().Descriptor().Fields()
	type ent struct {
		num int
		s   string
	}
	var es []ent
	for i := 0; i < fds.Len(); i++ {
		fd := fds.Get(i)
		es = append(es, ent{int(fd.Number()), fmt.Sprintf("%s:%d:%s", fd.Name(), fd.Number(), kindCode(fd))})
	}
	sort.Slice(es, func(i, j int) bool { return es[i].num < es[j].num })
	ss := make([]string, len(es))
	for i := range es {
		ss[i] = es[i].s
	}
	return "ok " + strings.Join(ss, ",")
}

// canonical rendering of what a proto message holds
func fieldsToken(m proto.Message) string {
	type ent struct {
		num int
		s   string
	}
	var es []ent
	r := m.ProtoReflect()
	r.Range(func(fd protoreflect.FieldDescriptor, v protoreflect.Value) bool {
		var s string
		switch fd.Kind() {
		case protoreflect.Uint32Kind, protoreflect.Uint64Kind:
			s = fmt.Sprintf("%d=n%d", fd.Number(), v.Uint())
		case protoreflect.StringKind:
			s = fmt.Sprintf("%d=x%s", fd.Number(), hexs([]byte(v.String())))
		default:
			s = fmt.Sprintf("%d=?", fd.Number())
		}
		es = append(es, ent{int(fd.Number()), s})
		return true
	})
	sort.Slice(es, func(i, j int) bool { return es[i].num < es[j].num })
	var ss []string
	for i := range es {
		ss = append(ss, es[i].s)
	}
	if u := r.GetUnknown(); len(u) > 0 {
		ss = append(ss, "u="+hex.EncodeToString(u))
	}
	if len(ss) == 0 {
		return "-"
	}
	return strings.Join(ss, ",")
}

// ---- the op ----------------------------------------------------------------------------

func consume(kc *consumer.KafkaConsumer, schemaMsg proto.Message, topic string, payload []byte) (verdict string, fields string) {
	defer func() {
		if r := recover(); r != nil {
			verdict, fields = "P", "-"
		}
	}()
	err := kc.DecodeAndPrintMsg(&sarama.ConsumerMessage{Topic: topic, Value: payload})
	if err != nil {
		return "R", "-"
	}
	return "A", fieldsToken(schemaMsg)
}

func opKafka(a []string) string {
	if len(a) < 3 {
		return "bad-op"
	}
	conv, schemaMsg, ok := schema(a[0])
	topic, err := unhex(a[2])
	if !ok || err != nil || (a[1] != "0" && a[1] != "1") {
		return "bad-op"
	}
	msgs := make([]*entities.Message, 0, len(a)-3)
	for _, t := range a[3:] {
		m, err := parseMsg(t)
		if err != nil {
			return "bad-op"
		}
		msgs = append(msgs, m)
	}
	kp, err := producer.NewKafkaProducer(producer.ProducerInput{
		KafkaBrokers:         []string{"127.0.0.1:1"},
		KafkaVersion:         sarama.DefaultVersion,
		KafkaTopic:           string(topic),
		KafkaLogSuccesses:    a[1] == "1",
		ProtoSchemaConvertor: conv,
	})
	if err != nil {
		return "new-producer-error"
	}
	rec := newRecProducer(a[1] == "1")
	kp.SetSaramaProducer(rec)

	msgCh := make(chan *entities.Message)
	res := make(chan string, 1)
	go func() {
		defer func() {
			if r := recover(); r != nil {
				if os.Getenv("VERIF_PANIC_TRACE") != "" {
					fmt.Fprintf(os.Stderr, "panic: %v\n", r)
				}
				res <- "panic"
			}
		}()
		kp.PublishIPFIXMessages(msgCh)
		res <- "ok"
	}()
	feed := make(chan struct{})
	go func() {
		defer func() { recover(); close(feed) }()
		for _, m := range msgs {
			select {
			case msgCh <- m:
			case <-time.After(opTimeout):
				return
			}
		}
		close(msgCh)
	}()
	var status string
	select {
	case status = <-res:
	case <-time.After(opTimeout):
		return "hang"
	}
	if status != "ok" {
		return status
	}
	<-feed
	rec.Close()

	kc := consumer.NewKafkaConsumer(consumer.ConsumerInput{
		KafkaTopic:        string(topic),
		KafkaProtoSchema:  schemaMsg,
		MsgDelimitWithLen: true,
	})
	var sb strings.Builder
	fmt.Fprintf(&sb, "ok %d", len(rec.got))
	for _, pm := range rec.got {
		var payload []byte
		if pm.Value != nil {
			payload, err = pm.Value.Encode()
			if err != nil {
				return "encoder-error"
			}
		}
		v, f := consume(kc, schemaMsg, pm.Topic, payload)
		fmt.Fprintf(&sb, " %s:%s:%s:%s", hexs([]byte(pm.Topic)), hexs(payload), v, f)
	}
	return sb.String()
}

func runOp(line string) string {
	fields := strings.Fields(line)
	if len(fields) == 0 || strings.HasPrefix(fields[0], "#") {
		return "skip"
	}
	switch fields[0] {
	case "kafka":
		return opKafka(fields[1:])
	case "schema":
		return opSchema(fields[1:])
	}
	return "bad-op"
}

type discard struct{}

func (discard) Write(p []byte) (int, error) { return len(p), nil }

func main() {
	klogFlags := flag.NewFlagSet("klog", flag.ContinueOnError)
	klog.InitFlags(klogFlags)
	klogFlags.Set("logtostderr", "false")
	klogFlags.Set("alsologtostderr", "false")
	klogFlags.Set("stderrthreshold", "FATAL")
	klogFlags.Set("v", "0")
	klog.SetOutput(discard{})
	klog.LogToStderr(false)

	in := bufio.NewReaderSize(os.Stdin, 1<<20)
	out := bufio.NewWriterSize(os.Stdout, 1<<16)
	defer out.Flush()
	n := 0
	for {
		line, err := in.ReadString('\n')
		if len(line) > 0 {
			r := runOp(strings.TrimRight(line, "\r\n"))
			out.WriteString(r)
			out.WriteByte('\n')
			n++
			if r == "hang" {
				out.Flush()
				os.Exit(3)
			}
			if n%64 == 0 {
				out.Flush()
			}
		}
		if err != nil {
			break
		}
	}
}
