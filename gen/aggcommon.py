"""Record construction for the aggregation engine `agg`."""
from gen import common as G


def hx(s):
    return "x" + (s.encode().hex() if s else "-")


# positions in the correlate token (the order of the configuration, corrFields in eng_agg.go)
SRC_POD, SRC_NS, SRC_NODE, DST_POD, DST_NS, DST_NODE, CLUSTER4, SVC_PORT, INGRESS, EGRESS, PRIO, CLUSTER6 = range(12)
N_CORR = 12
POD_POSITIONS = (SRC_POD, DST_POD)
NON_POD_POSITIONS = tuple(i for i in range(N_CORR) if i not in POD_POSITIONS)
ABSENT = "~"


def corr(src_pod="", dst_pod="", ingress=0, egress=0, extra=None, node=None, absent=None):
    """correlate-field tokens in configuration order; absent = positions of the fields the record does NOT carry
    (token `~`: the exporter's template has no such element)"""
    e = dict(src_ns="", src_node="", dst_ns="", dst_node="", cluster="00000000", svc_port=0, prio=0, cluster6="00" * 16)
    if extra:
        e.update(extra)
    toks = [hx(src_pod), hx(e["src_ns"]), hx(e["src_node"]), hx(dst_pod), hx(e["dst_ns"]), hx(e["dst_node"]),
            "x" + e["cluster"], "n%d" % e["svc_port"], "n%d" % ingress, "n%d" % egress, "n%d" % e["prio"], "x" + e["cluster6"]]
    for i in absent or ():
        toks[i] = ABSENT
    return ",".join(toks)


def drop_field(op, pos):
    """the `agg rec` op with the correlate field at position pos removed from the record"""
    f = op.split(" ")
    c = f[4].split(",")
    c[pos] = ABSENT
    f[4] = ",".join(c)
    return " ".join(f)


def absent_mask(op):
    """which correlate fields the record of an `agg rec` op lacks"""
    return tuple(t == ABSENT for t in op.split(" ")[4].split(","))


def rec_op(key, flow_type, corr_tok, start, end, stats, reason=2, tcp="ESTABLISHED", http=None):
    """http = what the record's httpVals element holds (sessions created with `agg new ... http` only: there every
    record carries the element)"""
    return "agg rec %d %d %s %d %d %d %s %s" % (key, flow_type, corr_tok, start, end, reason, tcp.encode().hex() or "-",
                                                ",".join(str(x) for x in stats)) + \
        ("" if http is None else " h=" + (http.encode().hex() or "-"))


# the 16-byte (IPv4-mapped) form of an IPv4 address, as hex: what net.IPv4zero / net.ParseIP("10.96.0.1") are
V4_PREFIX = "00" * 10 + "ffff"


def ip16(hex4):
    return V4_PREFIX + hex4


# the statistics elements and the other configured elements a record's template may lack (`omit=<names>`): the
# aggregation refuses a record for a held flow that lacks one of them
STATS_NAMES = ["packetTotalCount", "packetDeltaCount", "octetTotalCount", "octetDeltaCount", "reversePacketTotalCount",
               "reversePacketDeltaCount", "reverseOctetTotalCount", "reverseOctetDeltaCount"]
REFUSED_WITHOUT = STATS_NAMES + ["tcpState", "flowEndReason", "flowEndSeconds"]


def omit(op, names):
    """the `agg rec` op, its record built from a template that lacks the named elements"""
    assert op.startswith("agg rec ")
    return op + " omit=" + ",".join(names)


def with_cfg(cases):
    """every second history creates its aggregation process from the SAME configuration written in another order
    (`agg new <a> <i> cfg<n>`, see eng_agg.go): the order of the configuration lists carries no meaning, the model
    ignores the token. Draws no random numbers. n odd = the two per-node end-time elements swapped."""
    for i, c in enumerate(cases):
        if i % 2 == 1 and c.ops and c.ops[0].startswith("agg new ") and " cfg" not in c.ops[0]:
            f = c.ops[0].split(" ")
            f.insert(4, "cfg%d" % (i // 2))
            c.ops[0] = " ".join(f)
    return cases


def msg_op(rec_ops, perm=None):
    """`agg msg`: the records of the given `agg rec` ops (without p<n>; keys of one address family) in ONE data set
    that travels exporter encoding -> collector decoding -> aggregation; perm = element order of the whole message"""
    assert rec_ops and all(o.startswith("agg rec ") and len(o.split()) in (10, 11) for o in rec_ops)
    assert all(o.split()[10].startswith("h=") for o in rec_ops if len(o.split()) == 11)
    assert len({absent_mask(o) for o in rec_ops}) == 1, "the records of one data set share a template"
    return "agg msg " + " + ".join(o[len("agg rec "):] for o in rec_ops) + (" p%d" % perm if perm is not None else "")


def is_v6(key):
    return key in (4, 5)


def n_records(op):
    """number of records an op hands to the aggregation"""
    if op.startswith("agg rec "):
        return 1
    if op.startswith("agg msg "):
        return op.split().count("+") + 1
    return 0


def intra(key, start, end, stats, **kw):
    """a flow that needs no correlation: both pods known (intra-node)"""
    return rec_op(key, 1, corr("podA", "podB"), start, end, stats, **kw)


def inter_src(key, start, end, stats, ingress=0, egress=0, extra=None, absent=None, **kw):
    return rec_op(key, 2, corr("podA", "", ingress, egress, extra, absent=absent), start, end, stats, **kw)


def inter_dst(key, start, end, stats, ingress=0, egress=0, extra=None, absent=None, **kw):
    return rec_op(key, 2, corr("", "podB", ingress, egress, extra, absent=absent), start, end, stats, **kw)


def sprinkle_absent(rec_ops, keep=(), one_in=20):
    """about one record in `one_in` lacks one of the non-pod correlate fields (the exporter's template has no such
    element). The choice is a function of the op text alone - it draws no random numbers, so the histories a seed
    generates are the ones it generated before. rec_ops = the `agg rec` ops of ONE data set (a single op for a record
    handed over alone): they share a template, so all of them lose the same field. keep = positions never dropped."""
    import zlib
    h = zlib.crc32(rec_ops[0].encode())
    if h % one_in != 0:
        return rec_ops
    cand = [i for i in NON_POD_POSITIONS if i not in keep]
    pos = cand[(h // one_in) % len(cand)]
    return [drop_field(o, pos) for o in rec_ops]
