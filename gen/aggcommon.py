"""Record construction for the aggregation engine `agg`."""
from gen import common as G


def hx(s):
    return "x" + (s.encode().hex() if s else "-")


def corr(src_pod="", dst_pod="", ingress=0, egress=0, extra=None, node=None):
    """correlate-field tokens in configuration order"""
    e = dict(src_ns="", src_node="", dst_ns="", dst_node="", cluster="00000000", svc_port=0, prio=0, cluster6="00" * 16)
    if extra:
        e.update(extra)
    return ",".join([hx(src_pod), hx(e["src_ns"]), hx(e["src_node"]), hx(dst_pod), hx(e["dst_ns"]), hx(e["dst_node"]),
                     "x" + e["cluster"], "n%d" % e["svc_port"], "n%d" % ingress, "n%d" % egress, "n%d" % e["prio"], "x" + e["cluster6"]])


def rec_op(key, flow_type, corr_tok, start, end, stats, reason=2, tcp="ESTABLISHED"):
    return "agg rec %d %d %s %d %d %d %s %s" % (key, flow_type, corr_tok, start, end, reason, tcp.encode().hex() or "-",
                                                ",".join(str(x) for x in stats))


def msg_op(rec_ops, perm=None):
    """`agg msg`: the records of the given `agg rec` ops (without p<n>; keys of one address family) in ONE data set
    that travels exporter encoding -> collector decoding -> aggregation; perm = element order of the whole message"""
    assert rec_ops and all(o.startswith("agg rec ") and len(o.split()) == 10 for o in rec_ops)
    return "agg msg " + " + ".join(o[len("agg rec "):] for o in rec_ops) + (" p%d" % perm if perm is not None else "")


def is_v6(key):
    return key in (4, 5)


def n_records(op):
    """number of records an op hands to the aggregation"""
    if op.startswith("agg rec "):
        return 1
    if op.startswith("agg msg "):
        return op.split().count("+") + 1
    return 0


def intra(key, start, end, stats, **kw):
    """a flow that needs no correlation: both pods known (intra-node)"""
    return rec_op(key, 1, corr("podA", "podB"), start, end, stats, **kw)


def inter_src(key, start, end, stats, ingress=0, egress=0, extra=None, **kw):
    return rec_op(key, 2, corr("podA", "", ingress, egress, extra), start, end, stats, **kw)


def inter_dst(key, start, end, stats, ingress=0, egress=0, extra=None, **kw):
    return rec_op(key, 2, corr("", "podB", ingress, egress, extra), start, end, stats, **kw)
