"""Record construction for the aggregation engine `agg`."""
from gen import common as G


def hx(s):
    return "x" + (s.encode().hex() if s else "-")


# positions in the correlate token (the order of the configuration, corrFields in eng_agg.go)
SRC_POD, SRC_NS, SRC_NODE, DST_POD, DST_NS, DST_NODE, CLUSTER4, SVC_PORT, INGRESS, EGRESS, PRIO, CLUSTER6 = range(12)
N_CORR = 12
POD_POSITIONS = (SRC_POD, DST_POD)
NON_POD_POSITIONS = tuple(i for i in range(N_CORR) if i not in POD_POSITIONS)
ABSENT = "~"


def corr(src_pod="", dst_pod="", ingress=0, egress=0, extra=None, node=None, absent=None):
    """correlate-field tokens in configuration order; absent = positions of the fields the record does NOT carry
    (token `~`: the exporter's template has no such element)"""
    e = dict(src_ns="", src_node="", dst_ns="", dst_node="", cluster="00000000", svc_port=0, prio=0, cluster6="00" * 16)
    if extra:
        e.update(extra)
    toks = [hx(src_pod), hx(e["src_ns"]), hx(e["src_node"]), hx(dst_pod), hx(e["dst_ns"]), hx(e["dst_node"]),
            "x" + e["cluster"], "n%d" % e["svc_port"], "n%d" % ingress, "n%d" % egress, "n%d" % e["prio"], "x" + e["cluster6"]]
    for i in absent or ():
        toks[i] = ABSENT
    return ",".join(toks)


def drop_field(op, pos):
    """the `agg rec` op with the correlate field at position pos removed from the record"""
    f = op.split(" ")
    c = f[4].split(",")
    c[pos] = ABSENT
    f[4] = ",".join(c)
    return " ".join(f)


def absent_mask(op):
    """which correlate fields the record of an `agg rec` op lacks"""
    return tuple(t == ABSENT for t in op.split(" ")[4].split(","))


def rec_op(key, flow_type, corr_tok, start, end, stats, reason=2, tcp="ESTABLISHED"):
    return "agg rec %d %d %s %d %d %d %s %s" % (key, flow_type, corr_tok, start, end, reason, tcp.encode().hex() or "-",
                                                ",".join(str(x) for x in stats))


def msg_op(rec_ops, perm=None):
    """`agg msg`: the records of the given `agg rec` ops (without p<n>; keys of one address family) in ONE data set
    that travels exporter encoding -> collector decoding -> aggregation; perm = element order of the whole message"""
    assert rec_ops and all(o.startswith("agg rec ") and len(o.split()) == 10 for o in rec_ops)
    assert len({absent_mask(o) for o in rec_ops}) == 1, "the records of one data set share a template"
    return "agg msg " + " + ".join(o[len("agg rec "):] for o in rec_ops) + (" p%d" % perm if perm is not None else "")


def is_v6(key):
    return key in (4, 5)


def n_records(op):
    """number of records an op hands to the aggregation"""
    if op.startswith("agg rec "):
        return 1
    if op.startswith("agg msg "):
        return op.split().count("+") + 1
    return 0


def intra(key, start, end, stats, **kw):
    """a flow that needs no correlation: both pods known (intra-node)"""
    return rec_op(key, 1, corr("podA", "podB"), start, end, stats, **kw)


def inter_src(key, start, end, stats, ingress=0, egress=0, extra=None, absent=None, **kw):
    return rec_op(key, 2, corr("podA", "", ingress, egress, extra, absent=absent), start, end, stats, **kw)


def inter_dst(key, start, end, stats, ingress=0, egress=0, extra=None, absent=None, **kw):
    return rec_op(key, 2, corr("", "podB", ingress, egress, extra, absent=absent), start, end, stats, **kw)


def sprinkle_absent(rec_ops, keep=(), one_in=20):
    """about one record in `one_in` lacks one of the non-pod correlate fields (the exporter's template has no such
    element). The choice is a function of the op text alone - it draws no random numbers, so the histories a seed
    generates are the ones it generated before. rec_ops = the `agg rec` ops of ONE data set (a single op for a record
    handed over alone): they share a template, so all of them lose the same field. keep = positions never dropped."""
    import zlib
    h = zlib.crc32(rec_ops[0].encode())
    if h % one_in != 0:
        return rec_ops
    cand = [i for i in NON_POD_POSITIONS if i not in keep]
    pos = cand[(h // one_in) % len(cand)]
    return [drop_field(o, pos) for o in rec_ops]
