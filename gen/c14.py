"""C14 - exporter background activity and lifecycle: lock-discipline fact regeneration (F4, exporter part), harness
builder, scenario generator and runner. PARTIAL: protocol logic proved in Lean (Props/C14.lean); timing, goroutine
termination and data-race freedom are observed on the real code under the race detector."""
import glob
import json
import os
import random
import shutil
import subprocess
import threading

import check
from check import Case
from gen import common as G
from gen import expcommon as X

ROOT = check.ROOT
LOCKS_LEAN = os.path.join(check.LEAN, "IpfixModel", "Generated", "LocksExporter.lean")


class SPEC:
    driver_target = "driver_life"
    compare_model = False      # observations carry timestamps: `check.py replay` judges by the chk verdicts only
    rule = ("op `life udp|tcp <id> ...`: one session of a REAL exporting process (exporter.InitExportingProcess with its background "
            "goroutine) against a listener owned by the harness, built with -race. One application goroutine sends 1-3 templates and "
            "then data sets at seeded random phases (UDP: ~3 s with TempRefTimeout = 1 s, some sends placed within 5 ms of a refresh "
            "tick, the Close within a few ms of the third tick in some sessions; TCP: CheckConnInterval = 50 ms, then a SendSet every "
            "10 ms across the moment the harness closes / half-closes the accepted connection, or a pause across it); then "
            "CloseConnToCollector from 1-4 goroutines at once, 1-3 calls each; then further sends. One UDP session in five is "
            "'unrefreshable': the application also sends, before the first tick, one template with a dateTimeMicroseconds / "
            "dateTimeNanoseconds element of the registry (sending it works; entities.MakeTemplateSet cannot rebuild it), and keeps sending "
            "data sets of its other templates across the first tick: the first refresh must close the process without writing - sends "
            "before the tick succeed, sends after tick + slack fail and write nothing, no refresh ever arrives (Spec.C14.udpUnrefreshable; "
            "'cannot be rebuilt' is derived by the Spec from the element types with the model's makeTemplateSet, the op's marker "
            "must agree). TCP 'slow' sessions (2 quick / 24 thorough): the collector advertises a small receive window and reads nothing "
            "before readat=<350..500 ms> while the application sends a 20-60 KB data set every millisecond - one of its Writes blocks "
            "for hundreds of milliseconds, across several connection probes; every send must succeed and the stream (several MB) must "
            "split into exactly the messages sent. Every SendSet call is under a 2 s watchdog: a call that does not return is recorded as `hung` (verdict "
            "send-never-returned) and the session still ends. Observation: every datagram / stream "
            "chunk with arrival time, every SendSet result with call and return time, peer-close and Close times, background goroutines "
            "left (pprof labels), recovered panics, race-detector log. Spec.C14.udpVerdict / tcpVerdict (Lean, independent RFC 7011 "
            "parser) is evaluated on the implementation's observation of every session; the Lean event model's canonical run of the "
            "same scenario is echoed and its success count compared. Non-trivial = at least 2 goroutines overlapping in time: always "
            "(application goroutine + refresher / connection checker, plus the Close goroutines); distinct by hash of the op.")
    assumptions = [
        "PARTIAL: the theorems are about the event model (every interleaving of whole-message writes); that the Go runtime delivers "
        "ticks on time, that goroutines terminate and that there is no data race are OBSERVED per run (race detector, real sockets, "
        "pprof goroutine labels), not proved",
        "net.Conn.Write on an open socket writes the whole slice; a Write on a connection closed by this process fails and writes nothing; "
        "io.EOF is read only after the peer closed (Model/Lifecycle.lean header)",
        "one refresh per interval is judged with one interval of slack for the ticker's phase (+ 400 ms scheduling jitter): a template first "
        "sent at t0 must be re-sent in (t0+(k-1)P, t0+(k+1)P+slack] for every k whose window ends before Close is called",
        "'noticed within the check interval' is judged on sends CALLED at least check interval + 200 ms after the peer closed (before that a "
        "write may still succeed into the kernel buffer), and - where the peer only shut down its sending side - on the arrival of the "
        "exporter's own end of stream within the same bound",
        "'no byte afterwards' = no datagram / chunk stamped later than 200 ms (150 ms TCP) after the last Close call returned, listening for 1.5 s",
        "the application calls SendSet from one goroutine; Close may come from any number of goroutines",
        "unrefreshable sessions: the k-th refresh tick fires between k*P - 50 ms and (with its work) k*P + 400 ms after InitExportingProcess "
        "returned; sends in between may succeed or fail; a SendSet call is 'never returning' when it has not returned after 2 s",
        "UDP on the loopback interface neither loses nor reorders datagrams (4 MiB receive buffer, dedicated reader goroutine)",
        "lockset: syntactic lock regions (Lock() ... Unlock() by source position, deferred Unlock = to the end of the function); the "
        "configuration field jsonBufferLen is assigned by InitExportingProcess after its `go` statements and is statically reachable from "
        "the refresher (theorem lockset_exporter_all_fields_partial): benign - the refresher sends template sets only, the JSON path is "
        "taken for data sets only - and outside the six state fields the property names",
    ]
    trusted = ["tools/lockfacts-exporter (go/ast translator: field accesses of ExportingProcess with their guard, call edges, goroutine roots "
               "-> Generated/LocksExporter.lean; cross-checked at run time by the race detector on the same code)",
               "harness/cmd/harness-life (listeners, clocks, goroutine accounting with pprof labels, race-detector log)",
               "the Go race detector (halt_on_error=0, log_path)"]


# ----------------------------------------------------------------------------------------
# F4 (exporter): regenerate Generated/LocksExporter.lean at import time (check.py imports this module
# before it builds the proofs).

def regen_lockfacts():
    src = os.path.join(ROOT, "tools", "lockfacts-exporter")
    out = os.path.join(check.BIN, "lockfacts-exporter")
    os.makedirs(check.BIN, exist_ok=True)
    with check.Lock("lockfacts-exporter"):
        if check.newer_than(src, out):
            r = check.run(["go", "build", "-o", out, "."], cwd=src, env=check.GOENV)
            if r.returncode != 0:
                return "lockfacts-exporter does not build: " + r.stderr[-400:]
        r = check.run([out, check.REPO, os.path.dirname(LOCKS_LEAN)])    # honours VERIF_MUTANT_OVERLAY itself; write-if-changed
        if r.returncode != 0:
            if os.path.exists(LOCKS_LEAN):     # the theorem must not be checked against stale facts
                os.remove(LOCKS_LEAN)
            return "lockfacts-exporter cannot translate the current tree: " + r.stderr.strip()[-400:]
    return ""


FACTS_ERROR = regen_lockfacts()


def build_harness():
    with check.Lock("harness"):
        hd = os.path.join(ROOT, "harness")
        shutil.copyfile(os.path.join(check.REPO, "go.sum"), os.path.join(hd, "go.sum"))
        ov = check.write_overlay()         # includes VERIF_MUTANT_OVERLAY
        out = os.path.join(check.BIN, "harness-life")
        r = check.run(["go", "build", "-race", "-tags", "verif", "-overlay", ov, "-o", out, "./cmd/harness-life"],
                      cwd=hd, env=check.GOENV, timeout=1800)
        if FACTS_ERROR:
            return False, FACTS_ERROR, out
        return r.returncode == 0, r.stderr, out


# ----------------------------------------------------------------------------------------
# scenarios

TIDS = [256, 257, 258, 300, 4000, 65535]
UDP_SLACK, UDP_GRACE = 400, 200
UDP_EARLY = 50            # unrefreshable sessions: a tick may fire this much before k * refresh (ms)
TCP_CHECK, TCP_SLACK, TCP_GRACE = 50, 200, 150


def simple_ies(rng, sup):
    """1-5 registry elements of types with small encodings (keeps every message far below any MTU question)"""
    pool = [ie for ie in sup if ie.ty in (0, 1, 2, 3, 4, 11, 12, 13, 14, 18, 19) and (ie.ty != 0 or ie.len == 65535)]   # incl. variable-length octet arrays
    return [rng.choice(pool) for _ in range(rng.choice([1, 2, 3, 5]))]


def tpl_desc(rng, group):
    """one template set carrying one record per (tid, ies) of the group"""
    recs = ";".join("%d@%s" % (tid, X.elems(rng, ies, False)) for tid, ies in group)
    return "%s~t~%d~%s" % (rng.choice("012"), group[0][0], recs)


def data_desc(rng, tid, ies, nrec):
    """a data set with nrec records for template tid; the descriptor is the tail of an `exp send` op (gen/expcommon.py)"""
    recs = ";".join("%d@%s" % (tid, X.elems(rng, ies, True, 40)) for _ in range(nrec))
    return "%s~d~%d~%s" % (rng.choice("012"), tid, recs)


def templates(rng, sup):
    n = rng.choice([1, 2, 2, 3, 3, 3])
    tids = rng.sample(TIDS, n)
    tpls = [(tid, simple_ies(rng, sup)) for tid in tids]
    groups = [[t] for t in tpls]
    if n >= 2 and rng.random() < 0.3:       # two templates in one template set
        groups = [[tpls[0], tpls[1]]] + [[t] for t in tpls[2:]]
    return tpls, groups


def udp_scenario(rng, sup, k):
    tpls, groups = templates(rng, sup)
    refresh = 1
    r = rng.random()
    if r < 0.3:
        close_at = 3000 + rng.randint(-4, 4)        # the Close races the third refresh
    else:
        close_at = rng.randint(2900, 3600)
    sends = []
    t = rng.randint(0, 30)
    for g in groups:
        sends.append((t, tpl_desc(rng, g)))
        t += rng.randint(1, 120)
    last_tpl = sends[-1][0]
    times = set()
    for tick in (1000, 2000, 3000):                  # application sends racing the refresher
        for _ in range(rng.randint(1, 3)):
            x = tick + rng.randint(-5, 5)
            if last_tpl < x < close_at - 25:
                times.add(x)
    for _ in range(rng.randint(4, 14)):
        times.add(rng.randint(last_tpl + 1, close_at - 25))
    for x in sorted(times):
        tid, ies = rng.choice(tpls)
        sends.append((x, data_desc(rng, tid, ies, rng.choice([1, 1, 2, 3]))))
    tid, ies = rng.choice(tpls)
    tail = "3~5~" + data_desc(rng, tid, ies, 1)
    if rng.random() < 0.5:
        closers, reps = 1, 2
    else:
        closers, reps = rng.randint(2, 4), rng.randint(1, 3)
    return ("life udp u%d dom=%d refresh=%d slack=%d grace=%d closeat=%d closers=%d reps=%d sends=%s tail=%s" % (
        k, rng.choice([0, 1, 7, 0xffffffff, rng.getrandbits(32)]), refresh, UDP_SLACK, UDP_GRACE, close_at, closers, reps,
        "!".join("%d~%s" % s for s in sends), tail), "udp:%dtpl:%dclosers" % (len(tpls), closers))


def unrefreshable_ies(rng, sup):
    """0-4 ordinary elements and, somewhere among them, ONE registry element of a type the library cannot make a zero value of
    (dateTimeMicroseconds = 16, dateTimeNanoseconds = 17: flowStartMicroseconds, flowEndNanoseconds, ...): a template with it can
    be SENT (template records carry no values) but not rebuilt by entities.MakeTemplateSet"""
    bt = G.by_type()
    bad = rng.choice(bt[rng.choice([16, 17])])
    pool = [ie for ie in sup if ie.ty in (0, 1, 2, 3, 4, 11, 12, 13, 14, 18, 19) and (ie.ty != 0 or ie.len == 65535)]   # incl. variable-length octet arrays
    ies = [rng.choice(pool) for _ in range(rng.choice([0, 1, 2, 4]))]
    ies.insert(rng.randint(0, len(ies)), bad)
    return ies


def udp_unrefreshable_scenario(rng, sup, k):
    """D17 (repaired in b1c9ab2): besides its ordinary templates the application sends - before the first refresh tick - a
    template the refresher cannot rebuild, and goes on sending data sets of the OTHER templates before, around and after the
    tick. Expected (Model/Lifecycle.lean refreshTick, Props/C14 unbuildable_refresh_closes): the first tick closes the process
    without writing; every SendSet returns - with an error once the process is closed."""
    tpls, groups = templates(rng, sup)
    bad_tid = rng.choice([t for t in TIDS if t not in [x[0] for x in tpls]])
    bad = (bad_tid, unrefreshable_ies(rng, sup))
    if rng.random() < 0.3:                           # in one template set with an ordinary template
        i = rng.randrange(len(groups))
        groups[i] = groups[i] + [bad] if rng.random() < 0.5 else [bad] + groups[i]
    else:
        groups.insert(rng.randint(0, len(groups)), [bad])
    refresh = 1
    close_at = 3000 + rng.randint(-4, 4) if rng.random() < 0.3 else rng.randint(2900, 3600)
    sends = []
    t = rng.randint(0, 30)
    for g in groups:
        sends.append((t, tpl_desc(rng, g)))
        t += rng.randint(1, 120)                     # the last template goes out before 30 + 4 * 120 = 510 ms
    last_tpl = sends[-1][0]
    times = set()
    for tick in (1000, 2000, 3000):                  # sends racing the (failing) refresh and the ticks that no longer come
        for _ in range(rng.randint(1, 3)):
            x = tick + rng.randint(-5, 5)
            if last_tpl < x < close_at - 25:
                times.add(x)
    for _ in range(rng.randint(1, 3)):               # certainly before the tick
        times.add(rng.randint(last_tpl + 1, 1000 - UDP_EARLY - 30))
    for _ in range(rng.randint(2, 4)):               # certainly after it: these must all return, with an error
        times.add(rng.randint(1000 + UDP_SLACK + 20, close_at - 25))
    for _ in range(rng.randint(2, 8)):
        times.add(rng.randint(last_tpl + 1, close_at - 25))
    for x in sorted(times):
        tid, ies = rng.choice(tpls)
        sends.append((x, data_desc(rng, tid, ies, rng.choice([1, 1, 2, 3]))))
    tid, ies = rng.choice(tpls)
    tail = "3~5~" + data_desc(rng, tid, ies, 1)
    if rng.random() < 0.5:
        closers, reps = 1, 2
    else:
        closers, reps = rng.randint(2, 4), rng.randint(1, 3)
    return ("life udp x%d dom=%d refresh=%d slack=%d grace=%d closeat=%d closers=%d reps=%d unrefreshable=%d early=%d sends=%s tail=%s" % (
        k, rng.choice([0, 1, 7, 0xffffffff, rng.getrandbits(32)]), refresh, UDP_SLACK, UDP_GRACE, close_at, closers, reps,
        bad_tid, UDP_EARLY, "!".join("%d~%s" % s for s in sends), tail),
        "udp-unrefreshable:%dtpl+1:%dclosers" % (len(tpls), closers))


def tcp_scenario(rng, sup, k, mode):
    tpls, groups = templates(rng, sup)
    sends = []
    t = rng.randint(0, 10)
    for g in groups:
        sends.append((t, tpl_desc(rng, g)))
        t += rng.randint(1, 15)
    last_tpl = sends[-1][0]
    tid, ies = rng.choice(tpls)
    loop_d = data_desc(rng, tid, ies, rng.choice([1, 2]))
    tail = "3~5~" + data_desc(rng, tid, ies, 1)
    detect = TCP_CHECK + TCP_SLACK
    if mode in ("full", "half"):
        peer_at = rng.randint(last_tpl + 80, 600)
        for x in sorted({rng.randint(last_tpl + 1, peer_at - 40) for _ in range(rng.randint(2, 8))}):
            tid2, ies2 = rng.choice(tpls)
            sends.append((x, data_desc(rng, tid2, ies2, rng.choice([1, 2, 3]))))
        loop_start = max(sends[-1][0] + 5, peer_at - rng.randint(20, 35))
        loop_until = peer_at + detect + 150
        close_at = loop_until + 40
        loop = "%d~10~%d~%s" % (loop_start, loop_until, loop_d)
        closers, reps = 1, 2
    elif mode == "idle":
        peer_at = rng.randint(last_tpl + 120, 600)
        for x in sorted({rng.randint(last_tpl + 1, peer_at - 60) for _ in range(rng.randint(2, 8))}):
            tid2, ies2 = rng.choice(tpls)
            sends.append((x, data_desc(rng, tid2, ies2, rng.choice([1, 2, 3]))))
        loop_start = peer_at + detect + rng.randint(5, 60)      # the very first send after the pause must fail
        loop_until = loop_start + 100
        close_at = loop_until + 40
        loop = "%d~10~%d~%s" % (loop_start, loop_until, loop_d)
        closers, reps = 1, 2
    else:                                   # cclose: concurrent Close calls while the application is sending
        peer_at = None
        close_at = rng.randint(last_tpl + 150, 500)
        loop_start = last_tpl + 5
        loop_until = close_at + 120
        loop = "%d~%d~%d~%s" % (loop_start, rng.choice([1, 2, 5]), loop_until, loop_d)
        closers, reps = rng.randint(2, 4), rng.randint(2, 3)
    return ("life tcp t%d dom=%d check=%d slack=%d grace=%d mode=%s peerat=%s closeat=%d closers=%d reps=%d sends=%s loop=%s tail=%s" % (
        k, rng.choice([0, 1, 7, 0xffffffff, rng.getrandbits(32)]), TCP_CHECK, TCP_SLACK, TCP_GRACE, mode,
        "-" if peer_at is None else str(peer_at), close_at, closers, reps, "!".join("%d~%s" % s for s in sends), loop, tail),
        "tcp:" + mode)


def tcp_slow_scenario(rng, sup, k):
    """a collector that is slow to read: small receive window, nothing read before <readat>. The application sends a large
    data set every millisecond, so one of its Writes blocks within a few milliseconds and stays blocked across several
    connection probes (every TCP_CHECK ms) until the collector reads. Everything must arrive, whole and in order, and no
    send may fail: the probe has no business with the application's writes."""
    bt = G.by_type()
    tid = rng.choice(TIDS)
    var = rng.choice([ie for ie in bt[13] if ie.len == 65535][:8])
    small = rng.choice(bt[1])
    ies = [small, var]
    sends = [(rng.randint(0, 10), tpl_desc(rng, [(tid, ies)]))]
    payload = G.rand_bytes(rng, rng.choice([20000, 40000, 60000]))
    big = "%s~d~%d~%d@%s=n%d,%s=x%s" % (rng.choice("012"), tid, tid, small.tok(), rng.getrandbits(8), var.tok(), G.hexs(payload))
    read_at = rng.randint(350, 500)
    loop = "%d~1~%d~%s" % (sends[-1][0] + 10, read_at - 30, big)
    close_at = read_at + 900
    tail = "3~5~" + data_desc(rng, tid, ies, 1)
    return ("life tcp s%d dom=%d check=%d slack=%d grace=%d mode=slow peerat=- readat=%d closeat=%d closers=1 reps=2 sends=%s loop=%s tail=%s" % (
        k, rng.choice([0, 1, 7, rng.getrandbits(32)]), TCP_CHECK, TCP_SLACK, TCP_GRACE, read_at, close_at,
        "!".join("%d~%s" % s for s in sends), loop, tail), "tcp:slow")


def gen_cases(tier, seed):
    rng = random.Random(seed * 1000003 + 14)
    sup = G.registry_supported()
    n = 600 if tier == "thorough" else 12
    cases = []
    for k in range(n):
        op, label = udp_scenario(rng, sup, k)
        cases.append(Case([op], label, True, True))
    modes = ["full", "half", "idle", "full", "half", "idle", "cclose", "full", "half", "idle", "cclose", "full"]
    for k in range(n):
        op, label = tcp_scenario(rng, sup, k, modes[k % len(modes)])
        cases.append(Case([op], label, True, True))
    # a collector that is slow to read (own generator: the sessions above stay what they were for a given seed)
    rng_s = random.Random(seed * 1000003 + 1418)
    for k in range(2 if tier != "thorough" else 24):
        op, label = tcp_slow_scenario(rng_s, sup, k)
        cases.append(Case([op], label, True, True))
    # unrefreshable UDP sessions: one for every four ordinary ones (quick: 3 + 12), from a generator of their own, so
    # that the ordinary sessions of a seed are what they were before these were added
    rng_x = random.Random(seed * 1000003 + 1417)
    for k in range(max(3, n // 4)):
        op, label = udp_unrefreshable_scenario(rng_x, sup, k)
        cases.append(Case([op], label, True, True))
    return cases


# ----------------------------------------------------------------------------------------
# running the harness: one process for the whole batch (its worker pool runs the sessions concurrently);
# if that process dies (a panic in a library goroutine cannot be recovered), every session is re-run in a
# process of its own so that the crash is attributed.

def run_harness(binary, lines, workdir, tag, workers, timeout):
    log = os.path.join(workdir, "race-%s" % tag)
    for f in glob.glob(log + ".*"):
        os.remove(f)
    env = dict(os.environ, GORACE="halt_on_error=0 exitcode=0 log_path=%s" % log, VERIF_LIFE_WORKERS=str(workers))
    try:
        r = subprocess.run([binary], input="\n".join(lines) + "\n", stdout=subprocess.PIPE, stderr=subprocess.PIPE, text=True,
                           timeout=timeout, env=env)
        out, err, rc = r.stdout.splitlines(), r.stderr, r.returncode
    except subprocess.TimeoutExpired as e:
        out, err, rc = [], "timeout", -9
    race = ""
    for f in sorted(glob.glob(log + ".*")):
        race += open(f, errors="replace").read()
        os.remove(f)
    return out, err, rc, race


def crash_reason(err):
    for l in err.splitlines():
        if l.startswith(("panic:", "fatal error:")):
            return l.strip()
    return (err.strip().splitlines() or ["no output"])[0][:200]


def run_all(binary, lines, workdir, tier):
    workers = 48 if tier == "thorough" else 32
    out, err, rc, race = run_harness(binary, lines, workdir, "batch", workers, 1800)
    notes = []
    if rc == 0 and len(out) == len(lines):
        return out, race, notes
    notes.append("the batch process ended abnormally (exit %s: %s); every session re-run in a process of its own" % (rc, crash_reason(err)))
    res = [None] * len(lines)
    races = [race]
    sem = threading.Semaphore(12)

    def one(i):
        with sem:
            o, e, c, rc_race = run_harness(binary, [lines[i]], workdir, "one%d" % i, 1, 120)
            races.append(rc_race)
            if c == 0 and len(o) == 1:
                res[i] = o[0]
            else:
                res[i] = "crash " + crash_reason(e).replace("|", "/")
    ths = [threading.Thread(target=one, args=(i,)) for i in range(len(lines))]
    for t in ths:
        t.start()
    for t in ths:
        t.join()
    return res, "".join(races), notes


def race_excerpt(race):
    ls = [l for l in race.splitlines() if l.strip()]
    keep = []
    for l in ls:
        if "WARNING: DATA RACE" in l or l.lstrip().startswith(("Write at", "Read at", "Previous write", "Previous read", "Atomic", "Previous atomic")) \
                or "/pkg/exporter/" in l or "harness-life" in l:
            keep.append(l.strip())
        if len(keep) >= 14:
            break
    return " | ".join(keep)[:1500]


def summarize(obs):
    """short form of an observation line for samples / replays"""
    f = obs.split(" ")
    out = []
    for t in f:
        if t.startswith(("dgrams=", "chunks=")):
            k, v = t.split("=", 1)
            n = 0 if v == "-" else v.count(",") + 1
            out.append("%s=<%d, %d bytes hex>" % (k, n, len(v) // 2))
        elif t.startswith("sends="):
            v = t[6:]
            items = [] if v == "-" else v.split(",")
            hung = [x for x in items if ":hung:" in x]
            out.append("sends=<%d calls, %d ok%s>" % (len(items), sum(1 for x in items if ":ok:" in x),
                                                      "".join(", NEVER RETURNED: " + x for x in hung)))
        else:
            out.append(t)
    return " ".join(out)


def unref_bounds(line, o):
    """(scheduled sends that succeeded, lower bound, upper bound) of an unrefreshable UDP session.
    Lower bound: sends that had RETURNED before tick - early (as Spec.C14.udpUnrefreshable judges them): the time stamp
    of a call says when the application decided to call, not when the library ran - on a loaded machine the goroutine
    can lose the processor in between, past the tick. Upper bound: sends called before tick + slack."""
    opkv = dict(t.split("=", 1) for t in line.split(" ")[3:] if "=" in t)
    tick = int(opkv["refresh"]) * 1000
    ok_kv = dict(t.split("=", 1) for t in o.split(" ")[1:] if "=" in t)
    es = [x.split(":") for x in ok_kv.get("sends", "-").split(",") if x.startswith("e")]
    ok_e = sum(1 for x in es if x[3] == "ok")
    lo = sum(1 for x in es if int(x[2]) < (tick - int(opkv["early"])) * 1000)
    hi = sum(1 for x in es if int(x[1]) < (tick + int(opkv["slack"])) * 1000)
    return ok_e, lo, hi


def run(ctx):
    cases = gen_cases(ctx.tier, ctx.seed)
    lines = [c.ops[0] for c in cases]
    dist = G.Counter()
    seen = set()
    failures, disagreements = [], []
    model = check.exec_cases(ctx.driver, cases, shards=1)
    impl, race, notes = run_all(ctx.harness, lines, ctx.workdir, ctx.tier)
    excerpt = race_excerpt(race) if race.strip() else ""
    if race.strip():
        # the batch's own flag is set by the harness; sessions re-run alone may have lost it
        impl = [o[:-len("race=0")] + "race=1" if o.endswith(" race=0") else o for o in impl]
    chk_lines = ["chk %s | %s" % (l, o) for l, o in zip(lines, impl)]
    verdicts = ctx.check_pred(chk_lines, shards=min(8, ctx.cores))
    # Verdicts that rest on a time bound (a refresh inside its window, a peer close noticed within the check interval,
    # silence after Close, goroutines gone, no UDP loss) are judged on a loaded machine: such a session is run a second
    # time, alone, and the second observation stands (only positive evidence counts). Verdicts that are evidence in
    # themselves (malformed bytes, a send that never returned, a race report, a panic ...) are never retried.
    TIMED = {"template-not-refreshed", "peer-close-not-noticed", "peer-close-noticed-late", "send-succeeded-after-peer-close",
             "datagram-after-close", "bytes-after-close", "app-message-missing", "close-did-not-return", "background-goroutine-left",
             "send-failed-while-open", "send-succeeded-after-failed-refresh"}
    retried = [i for i, v in enumerate(verdicts) if (v or "").startswith("fails ") and (v.split(" ") + [""])[1] in TIMED]
    # the count bounds of the unrefreshable sessions (below) rest on the same clock: a session outside them is run again alone too
    for i, (l, o) in enumerate(zip(lines, impl)):
        if "unrefreshable=" in l and o.startswith("udp ") and i not in retried:
            b = unref_bounds(l, o)
            if not b[1] <= b[0] <= b[2]:
                retried.append(i)
    for i in retried[:6]:
        o2, e2, rc2, race2 = run_harness(ctx.harness, [lines[i]], ctx.workdir, "retry%d" % i, 1, 180)
        if rc2 == 0 and len(o2) == 1:
            v2 = ctx.check_pred(["chk %s | %s" % (lines[i], o2[0])], shards=1)[0]
            notes.append("session %d re-run alone after the time-bound verdict `%s`: second verdict `%s`" % (i, verdicts[i], v2))
            impl[i], verdicts[i] = o2[0], v2
            if race2.strip():
                race += race2
    samples = []
    for ci, (c, o, m, v) in enumerate(zip(cases, impl, model, verdicts)):
        v = v or "missing"
        m0 = (m[0] or "missing")
        dist.add(c.label)
        dist.add("proto:" + c.ops[0].split(" ")[1])
        dist.add("predicate:" + " ".join(v.split(" ")[:2]))
        seen.add(G.case_hash(c.ops))
        proto = c.ops[0].split(" ")[1]
        # model echo vs implementation: number of scheduled sends that succeeded (UDP: all of them precede the close)
        mk = dict(t.split("=", 1) for t in m0.split(" ")[2:] if "=" in t)
        opkv = dict(t.split("=", 1) for t in c.ops[0].split(" ")[3:] if "=" in t)
        unref = opkv.get("unrefreshable")
        if not m0.startswith("expect ") or mk.get("closed") != "true" or mk.get("stop-closes") != "1" or mk.get("spec") != "true":
            disagreements.append({"case": ci, "ops": c.ops, "impl": summarize(o), "model": m0, "label": c.label,
                                  "what": "the Lean model's canonical run does not end closed once with a well-formed wire"})
        elif mk.get("unbuildable") != (unref or "-"):
            disagreements.append({"case": ci, "ops": c.ops, "impl": summarize(o), "model": m0, "label": c.label,
                                  "what": "the op says unrefreshable=%s, the Lean model cannot rebuild: %s" % (unref or "-", mk.get("unbuildable"))})
        elif unref is not None:
            # the model's canonical run: the first tick (refresh * 1000 ms) closes the process without a refresh; exactly the
            # sends scheduled before it succeed. Implementation: a send that RETURNED before tick - early succeeded, one called
            # after tick + slack did not (in between either; the Spec judges the same on every call, with its reason)
            tick = int(opkv["refresh"]) * 1000
            sched = [int(x.split("~", 1)[0]) for x in opkv["sends"].split("!")]
            before = sum(1 for x in sched if x < tick)
            if mk.get("app-ok") != str(before) or mk.get("refresh") != "0":
                disagreements.append({"case": ci, "ops": c.ops, "impl": summarize(o), "model": m0, "label": c.label,
                                      "what": "the Lean model's canonical run of an unrefreshable session: app-ok=%s refresh=%s, expected the %d "
                                              "sends scheduled before the first tick and no refresh" % (mk.get("app-ok"), mk.get("refresh"), before)})
            elif o.startswith("udp "):
                ok_e, lo, hi = unref_bounds(c.ops[0], o)
                if not lo <= ok_e <= hi:
                    disagreements.append({"case": ci, "ops": c.ops, "impl": summarize(o), "model": m0, "label": c.label,
                                          "what": "scheduled sends that succeeded: implementation %d, expected between %d (returned before the first "
                                                  "tick) and %d (called before tick + slack); model %s" % (ok_e, lo, hi, mk.get("app-ok"))})
        elif proto == "udp" and o.startswith("udp "):
            ok_kv = dict(t.split("=", 1) for t in o.split(" ")[1:] if "=" in t)
            sends = ok_kv.get("sends", "-")
            close_start = int(ok_kv.get("close", "0,0,0,0").split(",")[0])
            ok_e = sum(1 for x in sends.split(",") if x.startswith("e") and ":ok:" in x)
            # a scheduled send the loaded machine delayed until after the Close began may fail: not the model's schedule
            late_e = sum(1 for x in sends.split(",") if x.startswith("e") and ":err:" in x and int(x.split(":")[2]) >= close_start)
            if str(ok_e + late_e) != mk.get("app-ok"):
                disagreements.append({"case": ci, "ops": c.ops, "impl": summarize(o), "model": m0, "label": c.label,
                                      "what": "scheduled sends that succeeded: implementation %d (+%d delayed past the close), model %s" % (
                                          ok_e, late_e, mk.get("app-ok"))})
        if v == "holds":
            continue
        why = v.replace("fails ", "", 1)
        kind = why.split(" ")[0]
        note = "Spec.C14.%sVerdict on the implementation's observation: %s" % (proto, v)
        if kind == "data-race":
            note += " || race detector: " + excerpt
        if o.startswith("crash"):
            note += " || " + o
        if kind == "send-never-returned":
            hung = [x for x in o.split("sends=")[-1].split(" ")[0].split(",") if ":hung:" in x]
            note += (" || SendSet call(s) <kind>:<t call us>:<t given up us>:hung:0 = %s: the call had not returned 2 s after it was made "
                     "(the application goroutine is blocked inside the library); calls before it: %s" % (
                         ",".join(hung), ",".join(o.split("sends=")[-1].split(" ")[0].split(",")[-6:-1])))
        failures.append({"signature": "C14:%s:%s" % (proto, kind), "ops": c.ops, "impl": [summarize(o)], "model": [m0], "label": c.label,
                         "predicate": {"name": "Ipfix.C14.%sVerdict" % proto, "value": v}, "note": note})
    fail_cases = {tuple(f["ops"]) for f in failures}
    for d in disagreements:
        d["explained_by_predicate_failure"] = tuple(d["ops"]) in fail_cases
    for k in (0, len(cases) // 2 - 1, len(cases) // 2, len(cases) - 1):
        samples.append({"ops": [cases[k].ops[0][:400]], "impl": [summarize(impl[k])], "model": model[k], "label": cases[k].label})
    nd = sum((0 if o.split("dgrams=")[-1].split(" ")[0] == "-" else o.split("dgrams=")[-1].split(" ")[0].count(",") + 1)
             for o in impl if o.startswith("udp "))
    ns = sum((0 if o.split("sends=")[-1].split(" ")[0] == "-" else o.split("sends=")[-1].split(" ")[0].count(",") + 1)
             for o in impl if o.startswith(("udp ", "tcp ")))
    notes += ["PARTIAL: event-level protocol logic proved (%d theorems); timing, goroutine termination and data-race freedom observed: "
              "%d sessions on real sockets under -race (%d of them with a template the refresher cannot rebuild), %d datagrams and %d "
              "SendSet calls judged, each call under a 2 s watchdog" % (
                  len(check.theorem_names("C14")), len(cases), sum(1 for c in cases if "unrefreshable=" in c.ops[0]), nd, ns),
              "race detector log: " + ("EMPTY" if not race.strip() else excerpt),
              "Generated/LocksExporter.lean regenerated by tools/lockfacts-exporter at import of gen/c14.py" +
              (" FAILED: " + FACTS_ERROR if FACTS_ERROR else ""),
              "D17 (repaired in /repo b1c9ab2): sendRefreshedTemplates returned with templateMutex held when MakeTemplateSet failed - "
              "reachable with a template that has a dateTimeMicroseconds / dateTimeNanoseconds element (no typed constructor is needed: a "
              "template record takes any element whose value is empty); the unrefreshable sessions cover it: on the pre-fix file the "
              "first SendSet after the first tick never returns (verdict send-never-returned)"]
    if os.environ.get("VERIF_MUTANT_OVERLAY"):
        notes.append("VERIF_MUTANT_OVERLAY in effect: " + ",".join(sorted(json.loads(os.environ["VERIF_MUTANT_OVERLAY"]))))
    uniq, seen_f = [], set()
    for f in failures:                       # at most 3 sessions per signature
        n = sum(1 for s in seen_f if s[0] == f["signature"])
        if n < 3:
            seen_f.add((f["signature"], tuple(f["ops"])))
            uniq.append(f)
    return {"evaluations": len(cases), "distinct_nontrivial": len(seen), "samples": samples, "distribution": dict(dist),
            "disagreements": disagreements[:50], "predicate_failures": uniq, "out_of_domain_disagreements": 0,
            "exhaustive": False, "notes": notes}
