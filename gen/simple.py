"""Generic runner: implementation vs model on cases of ops, plus optional `chk` pass."""
import re
from check import Case, exec_cases
from gen import common as G


def run_simple(ctx, cases, prop, chk_filter=None, signature=None, relation=None, stateful_chk=False, verdict_filter=None, chk_variant=None):
    """chk_filter(op) -> bool: which ops get a `chk <op> | <impl obs>` line.
    signature(case, op_index, verdict, agrees) -> str."""
    # minimised past failures (corpus/<prop>/*.ops, one case per file) always run first
    import os
    cdir = os.path.join(os.path.dirname(os.path.dirname(os.path.abspath(__file__))), "corpus", prop)
    if os.path.isdir(cdir):
        corpus = []
        for f in sorted(os.listdir(cdir)):
            if f.endswith(".ops"):
                ops = [l.rstrip("\n") for l in open(os.path.join(cdir, f)) if l.strip() and not l.startswith("#")]
                if ops:
                    corpus.append(Case(ops, "corpus:" + f[:-4], True, True))
        cases = corpus + list(cases)
    impl, model = ctx.both(cases)
    shards = ctx.cores if ctx.tier == "thorough" else min(8, ctx.cores)
    verdicts = None
    if chk_filter is not None:
        chk_cases = []
        for ci, c in enumerate(cases):
            chk_cases.append(Case([("chk %s | %s" % (chk_variant(op) if chk_variant else op, impl[ci][oi])) if (stateful_chk or chk_filter(op)) else "# skip"
                                   for oi, op in enumerate(c.ops)]))
        verdicts = exec_cases(ctx.driver, chk_cases, shards=shards)
    dist = G.Counter()
    seen = set()
    disagreements, failures = [], []
    ood = 0
    for ci, c in enumerate(cases):
        dist.add(c.label)
        if c.nontrivial:
            seen.add(G.case_hash(c.ops))
        agrees = True
        first_bad = None
        for oi, op in enumerate(c.ops):
            i, m = impl[ci][oi], model[ci][oi]
            dist.add("impl:" + re.split(r"[ =/;,]", (i or "missing"))[0][:24])
            ok = (i == m) if relation is None else relation(op, i, m)
            if not ok and agrees:
                agrees = False
                first_bad = oi
        bad_pred = None
        if verdicts is not None:
            for oi, op in enumerate(c.ops):
                v = verdicts[ci][oi]
                if impl[ci][oi] in ("panic", "hang", "missing"):
                    v = "fails crash"      # no property allows the implementation to crash or hang
                if verdict_filter is not None:
                    v = verdict_filter(v)
                if v not in ("holds", "na", "skip") and bad_pred is None:
                    bad_pred = (oi, v)
        if not agrees:
            if not c.in_domain:
                ood += 1
            else:
                oi = first_bad
                disagreements.append({"case": ci, "op_index": oi, "ops": list(c.ops[:oi + 1]), "impl": impl[ci][oi][:600],
                                      "model": model[ci][oi][:600], "label": c.label,
                                      # (explained = the property predicate fails on the implementation AT OR BEFORE the first
                                      #  op on which the two sides differ; a failure later in the case explains nothing)
                                      "explained_by_predicate_failure": bad_pred is not None and bad_pred[0] <= oi})
        if bad_pred is not None and c.judge:
            oi, v = bad_pred
            sig = signature(c, oi, v, agrees) if signature else "%s:%s:%s" % (prop, c.label, " ".join(v.split(" ")[:2]))
            failures.append({"signature": sig, "ops": list(c.ops[:oi + 1]), "impl": impl[ci][oi][:600], "model": model[ci][oi][:600],
                             "predicate": {"name": "Spec.%s" % prop, "value": v[:300]}})
    # minimise the first failing case of each signature (ddmin over the op list; the first op, which
    # creates the session, is kept); a candidate counts if the Spec predicate still fails on it
    from check import run_ops, ddmin
    shrunk = set()
    for f in failures:
        if f["signature"] in shrunk or len(shrunk) >= 6 or len(f["ops"]) <= 2 or len(f["ops"]) > 400:
            continue
        shrunk.add(f["signature"])
        cls = " ".join(f["predicate"]["value"].split(" ")[:3])

        def still_fails(ops, cls=cls):
            io, _ = run_ops(ctx.harness, ops, timeout=120)
            if len(io) < len(ops):
                io = io + ["missing"] * (len(ops) - len(io))
            if any(x in ("panic", "hang", "missing") for x in io):
                return cls.startswith("fails crash")
            lines = ["chk %s | %s" % (chk_variant(o) if chk_variant else o, x) for o, x in zip(ops, io)]
            vo, _ = run_ops(ctx.driver, lines, timeout=120)
            vo = [verdict_filter(v) if verdict_filter else v for v in vo]
            return any(" ".join(v.split(" ")[:3]) == cls for v in vo)
        try:
            head, body = f["ops"][:1], f["ops"][1:]
            small = ddmin(body, lambda b: still_fails(head + b))
            if len(small) < len(body) and still_fails(head + small):
                f["ops_before_shrinking"] = len(f["ops"])
                f["ops"] = head + small
                io, _ = run_ops(ctx.harness, f["ops"], timeout=120)
                mo, _ = run_ops(ctx.driver, f["ops"], timeout=120)
                f["impl"] = (io[-1] if io else "")[:600]
                f["model"] = (mo[-1] if mo else "")[:600]
        except Exception as e:   # shrinking is best effort
            f["shrink_error"] = str(e)[:200]
    idx = [0, len(cases) // 3, len(cases) // 2, len(cases) - 1] if cases else []
    samples = [{"label": cases[i].label, "ops": [o[:200] for o in cases[i].ops[:6]], "impl": [o[:200] for o in impl[i][:6]]} for i in idx]
    bysig = {}
    for f in failures:
        bysig.setdefault(f["signature"], f)
    ordered = list(bysig.values()) + [f for f in failures if bysig[f["signature"]] is not f]
    return {"evaluations": len(cases), "distinct_nontrivial": len(seen), "samples": samples, "distribution": dict(dist),
            # (those that no predicate failure of their own case explains come first: the cap must never hide them)
            "disagreements": sorted(disagreements, key=lambda d: bool(d.get("explained_by_predicate_failure")))[:50],
            "predicate_failures": ordered[:60], "out_of_domain_disagreements": ood,
            "exhaustive": False, "notes": []}
