"""Generic runner: implementation vs model on cases of ops, plus optional `chk` pass."""
from check import Case, exec_cases
from gen import common as G


def run_simple(ctx, cases, prop, chk_filter=None, signature=None, relation=None, stateful_chk=False, verdict_filter=None, chk_variant=None):
    """chk_filter(op) -> bool: which ops get a `chk <op> | <impl obs>` line.
    signature(case, op_index, verdict, agrees) -> str."""
    impl, model = ctx.both(cases)
    shards = ctx.cores if ctx.tier == "thorough" else min(8, ctx.cores)
    verdicts = None
    if chk_filter is not None:
        chk_cases = []
        for ci, c in enumerate(cases):
            chk_cases.append(Case([("chk %s | %s" % (chk_variant(op) if chk_variant else op, impl[ci][oi])) if (stateful_chk or chk_filter(op)) else "# skip"
                                   for oi, op in enumerate(c.ops)]))
        verdicts = exec_cases(ctx.driver, chk_cases, shards=shards)
    dist = G.Counter()
    seen = set()
    disagreements, failures = [], []
    ood = 0
    for ci, c in enumerate(cases):
        dist.add(c.label)
        if c.nontrivial:
            seen.add(G.case_hash(c.ops))
        agrees = True
        first_bad = None
        for oi, op in enumerate(c.ops):
            i, m = impl[ci][oi], model[ci][oi]
            dist.add("impl:" + (i or "missing").split(" ")[0])
            ok = (i == m) if relation is None else relation(op, i, m)
            if not ok and agrees:
                agrees = False
                first_bad = oi
        bad_pred = None
        if verdicts is not None:
            for oi, op in enumerate(c.ops):
                v = verdicts[ci][oi]
                if impl[ci][oi] in ("panic", "hang", "missing"):
                    v = "fails crash"      # no property allows the implementation to crash or hang
                if verdict_filter is not None:
                    v = verdict_filter(v)
                if v not in ("holds", "na", "skip") and bad_pred is None:
                    bad_pred = (oi, v)
        if not agrees:
            if not c.in_domain:
                ood += 1
            else:
                oi = first_bad
                disagreements.append({"case": ci, "op_index": oi, "ops": list(c.ops[:oi + 1]), "impl": impl[ci][oi][:600],
                                      "model": model[ci][oi][:600], "label": c.label,
                                      "explained_by_predicate_failure": bad_pred is not None})
        if bad_pred is not None and c.in_domain:
            oi, v = bad_pred
            sig = signature(c, oi, v, agrees) if signature else "%s:%s:%s" % (prop, c.label, " ".join(v.split(" ")[:2]))
            failures.append({"signature": sig, "ops": list(c.ops[:oi + 1]), "impl": impl[ci][oi][:600], "model": model[ci][oi][:600],
                             "predicate": {"name": "Spec.%s" % prop, "value": v[:300]}})
    idx = [0, len(cases) // 3, len(cases) // 2, len(cases) - 1] if cases else []
    samples = [{"label": cases[i].label, "ops": [o[:200] for o in cases[i].ops[:6]], "impl": [o[:200] for o in impl[i][:6]]} for i in idx]
    bysig = {}
    for f in failures:
        bysig.setdefault(f["signature"], f)
    ordered = list(bysig.values()) + [f for f in failures if bysig[f["signature"]] is not f]
    return {"evaluations": len(cases), "distinct_nontrivial": len(seen), "samples": samples, "distribution": dict(dist),
            "disagreements": disagreements[:50], "predicate_failures": ordered[:60], "out_of_domain_disagreements": ood,
            "exhaustive": False, "notes": []}
