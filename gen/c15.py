"""C15 - information-element value codec: correspondence generator and runner."""
import random

from check import Case
from gen import common as G


class SPEC:
    rule = ("engine ie: `enc` (element -> bytes + reported length, through the in-package encoder and the public record API) and "
            "`rt` (encode, then the collector's data-set decoder consumes the bytes with the one-element template). "
            "Exhaustive for 8/16-bit types and booleans; boundary + random bit patterns for 32/64-bit, floats (NaN payloads, "
            "signed zeros, denormals); strings/octet arrays of every length 0..300 and 65230..65535 (thorough: more); fixed "
            "octet arrays 1..64. Every value is a case (non-trivial = well-typed value of a supported type); distinct by hash of the op. "
            "`recbuf` (a whole data record through AddRecordV2 and AddRecord -> reported length + GetBuffer) against the EXACT model "
            "Ipfix.recordBuf: records of 1..6 registry elements, well-typed; one or several ill-typed values (wrong address family, MAC of "
            "0/3/7/8/12 bytes, fixed octet array of the wrong length) at every position, followed or not by other elements (a long MAC "
            "value spills into its successors); user-made elements whose declared length is 0 / below / equal to / above the type's width "
            "(up to 255, 65534, 65535), strings with a fixed declared length, octet arrays fixed and variable, unsupported types. "
            "`recbufx <elems> <k>`: the same records GROWN after their buffer was taken once (built from the first k elements, GetBuffer, "
            "the rest appended one by one with AddInfoElement, GetBuffer after each) - same length and bytes as built in one go. "
            "`ie mut <ie> <v1> <v2|reset>`: an element made with v1, asked for its length, then given v2 through its typed setter or "
            "reset, encodes (bytes and reported length) as a fresh element with the final value - every supported type, "
            "variable-length values crossing the 254/255 boundary in both directions. The decoder's input buffer is overwritten "
            "before the decoded values are looked at (values must be copies of the packet, not views of it).")
    assumptions = ["values are passed as bit patterns; Go's float32/float64 carry them unchanged (no arithmetic on the path)"]
    trusted = []


def representative(ty):
    bt = G.by_type()
    if ty in bt:
        return bt[ty][0]
    return None


def gen_cases(rng, tier):
    cases = []
    bt = G.by_type()
    add = lambda ops, label, nt=True, dom=True: cases.append(Case(ops, label, nt, dom))
    # exhaustive small types
    for ty in (1, 5):
        ie = bt[ty][0] if ty in bt else G.IE(0, 4, ty, 1, "x")
        for v in range(256):
            add(["ie rt %s n%d -" % (ie.tok(), v)], "exh8")
    for ty in (2, 6):
        ie = bt[ty][0] if ty in bt else G.IE(55555, 6, ty, 2, "userS16")
        step = 1 if tier == "thorough" else 1
        for v in range(0, 65536, step):
            add(["ie rt %s n%d -" % (ie.tok(), v)], "exh16")
    ieb = bt[11][0]
    for v in "tf":
        add(["ie rt %s %s -" % (ieb.tok(), v)], "bool")
        add(["ie enc %s %s" % (ieb.tok(), v)], "bool")
    # wide numeric types: boundaries + random; user-registered elements for types the registry lacks
    nwide = 3000 if tier == "quick" else 200000
    for ty in (3, 4, 7, 8, 9, 10, 14, 15):
        ies = bt.get(ty) or [G.IE(55555, 100 + ty, ty, G.WIDTH[ty], "user%d" % ty)]
        for v in G.num_boundaries(G.WIDTH[ty]) + (G.F32_SPECIAL if ty == 9 else []) + (G.F64_SPECIAL if ty == 10 else []):
            add(["ie rt %s n%d -" % (ies[0].tok(), v)], "wide-boundary")
        for _ in range(nwide):
            ie = rng.choice(ies)
            add(["ie rt %s n%d -" % (ie.tok(), G.rand_num(rng, ty))], "wide-random")
    # variable-length strings / octet arrays: every length in the boundary windows
    ies_s, ies_o = bt[13], [ie for ie in bt[0] if ie.len == 65535]
    lens = list(range(0, 301)) + list(range(65230, 65536))
    if tier == "thorough":
        lens += [rng.randint(301, 65229) for _ in range(3000)]
    for n in lens:
        for ie in (rng.choice(ies_s), rng.choice(ies_o)):
            add(["ie rt %s x%s -" % (ie.tok(), G.hexs(G.rand_bytes(rng, n)))], "varlen")
    for n in (65536, 65537, 70000):   # encoder must refuse (outside the round-trip domain, inside C15's length statement)
        add(["ie enc %s x%s" % (ies_s[0].tok(), G.hexs(G.rand_bytes(rng, n)))], "varlen-too-long", False)
        add(["ie enc %s x%s" % (ies_o[0].tok(), G.hexs(G.rand_bytes(rng, n)))], "varlen-too-long", False)
    # fixed-length octet arrays (user-registered / unknown elements kept by the collector)
    for n in list(range(1, 65)) + [254, 255, 256, 257, 300, 1000, 65534]:    # 255.. : the value-size boundary must not leak into fixed lengths
        ie = G.IE(55555, 300 + n % 1000, 0, n, "fixedOctets%d" % n)
        add(["ie rt %s x%s -" % (ie.tok(), G.hexs(G.rand_bytes(rng, n)))], "octets-fixed")
    # addresses
    nadr = 2000 if tier == "quick" else 100000
    for _ in range(nadr):
        for ty in (12, 18, 19):
            ie = rng.choice(bt[ty])
            add(["ie rt %s %s -" % (ie.tok(), G.well_typed_value(rng, ie))], "addr")
    # a tail after the element (the decoder must leave it for the next record)
    for _ in range(2000 if tier == "quick" else 50000):
        ie = rng.choice(G.registry_supported())
        v = G.well_typed_value(rng, ie, big_ok=False)
        v2 = G.well_typed_value(rng, ie, big_ok=False)
        add(["ie rt %s %s -" % (ie.tok(), v)], "registry-random")
        add(["ie enc %s %s" % (ie.tok(), v2)], "registry-enc")
    # unsupported types: error on both sides
    for ie in G.registry():
        if ie.ty in G.UNSUPPORTED:
            add(["ie enc %s n0" % ie.tok()], "unsupported", False)
            add(["ie dec %s 0000000000000000" % ie.tok()], "unsupported", False)
    gen_recbuf(random.Random(rng.getrandbits(64)), tier, add)
    gen_mut(random.Random(rng.getrandbits(64)), tier, add)
    return cases


def gen_mut(rng, tier, add):
    """`ie mut`: elements that live on - made with one value, given another through the typed setter or reset - must encode
    (bytes AND reported length) like a fresh element with the final value; variable-length values cross the 254/255 boundary
    in both directions"""
    bt = G.by_type()
    n = 40 if tier == "quick" else 1500
    for ty in G.SUPPORTED:
        ies = bt.get(ty) or [G.IE(55555, 100 + ty, ty, G.WIDTH.get(ty, {0: 65535, 13: 65535, 12: 6, 18: 4, 19: 16, 11: 1}.get(ty, 1)), "user%d" % ty)]
        for _ in range(n):
            ie = rng.choice(ies)
            if ty in (0, 13) and ie.len == 65535:
                l1, l2 = rng.choice([0, 1, 12, 254, 255, 256, 300]), rng.choice([0, 1, 12, 254, 255, 256, 300])
                v1, v2 = "x" + G.hexs(G.rand_bytes(rng, l1)), "x" + G.hexs(G.rand_bytes(rng, l2))
            else:
                v1, v2 = G.well_typed_value(rng, ie, big_ok=False, maxlen=300), G.well_typed_value(rng, ie, big_ok=False, maxlen=300)
            # a reset MAC / address / fixed-length octet array is an ill-typed value (no bytes): outside C15 (C09, D5)
            can_reset = ty not in (12, 18, 19) and not (ty == 0 and ie.len < 65535)
            add(["ie mut %s %s %s" % (ie.tok(), v1, "reset" if can_reset and rng.random() < 0.3 else v2)], "mut")


# ---- `ie recbuf`: whole records against the exact model of GetBuffer (Ipfix.recordBuf) ----

NEED_WIDTH = dict(G.WIDTH)
NEED_WIDTH.update({11: 1, 12: 6, 18: 4, 19: 16})


def odd_lengths(w):
    """declared lengths around the width of a type: 0, shorter, equal, longer, far longer"""
    return sorted(set(x for x in (0, 1, w - 1, w, w + 1, w + 3, 2 * w, 255, 256, 65534, 65535) if x >= 0))


def user_ie(ty, ln, k=0):
    return G.IE(55555, 1000 + 40 * (ty % 100) + k % 40, ty, ln, "user%dx%d" % (ty, ln))


def bad_values(rng, ie):
    """every kind of value the element's typed constructor takes but the element cannot carry"""
    ty = ie.ty
    hx = lambda n: "x" + G.hexs(G.rand_bytes(rng, n))
    if ty == 12:
        return [hx(n) for n in (0, 3, 5, 7, 8, 12)]
    if ty == 18:
        return [hx(n) for n in (0, 3, 5, 15, 17)] + ["x" + G.hexs(b"\x20" + G.rand_bytes(rng, 15))]
    if ty == 19:
        return [hx(n) for n in (0, 3, 6, 15, 17, 32)]
    if ty == 0 and ie.len < 65535:
        return [hx(n) for n in sorted(set(x for x in (0, 1, ie.len - 1, ie.len + 1, 2 * ie.len) if x >= 0 and x != ie.len))]
    return []


def any_value(rng, ie):
    """a value token mkElem accepts for the element: well-typed, or (one in three, where there is one) ill-typed"""
    bad = bad_values(rng, ie)
    if bad and rng.random() < 0.34:
        return rng.choice(bad)
    return G.well_typed_value(rng, ie, big_ok=False, maxlen=300)


def gen_recbuf(rng, tier, add):
    reg = G.registry_supported()
    bt = G.by_type()
    scale = 1 if tier == "quick" else 20
    small = lambda ie: G.well_typed_value(rng, ie, big_ok=False, maxlen=300)
    rec = lambda pairs: "ie recbuf " + (",".join("%s=%s" % (ie.tok(), v) for ie, v in pairs) or "-")
    fixed_octets = [G.IE(55555, 300 + n, 0, n, "fixedOctets%d" % n) for n in (1, 2, 8, 16, 33)]
    add([rec([])], "recbuf-empty", False)
    # (1) well-typed records of 1..6 registry elements
    for n in range(1, 7):
        for _ in range(250 * scale):
            ies = [rng.choice(reg) for _ in range(n)]
            add([rec([(ie, small(ie)) for ie in ies])], "recbuf-well-typed")
    for _ in range(20 * scale):   # long values: 65535-byte strings / octet arrays next to other elements
        ies = [rng.choice(reg) for _ in range(rng.randint(1, 4))]
        add([rec([(ie, G.well_typed_value(rng, ie, big_ok=True, maxlen=70000)) for ie in ies])], "recbuf-well-typed-long")
    # (2) one ill-typed value at every position of a record of 1..6 elements (last position = not followed)
    carriers = [bt[12][0], bt[18][0], bt[19][0], rng.choice(bt[12]), rng.choice(bt[18]), rng.choice(bt[19])] + fixed_octets
    for n in range(1, 7):
        for pos in range(n):
            for bad_ie in carriers:
                for bv in bad_values(rng, bad_ie):
                    for _ in range(2 * scale):
                        ies = [rng.choice(reg) for _ in range(n)]
                        pairs = [(ie, small(ie)) for ie in ies]
                        pairs[pos] = (bad_ie, bv)
                        add([rec(pairs)], "recbuf-one-ill-typed")
    # ... and what the spilled bytes of a long MAC value meet: every supported type right behind it
    mac = bt[12][0]
    for ty in G.SUPPORTED:
        for nxt in ([rng.choice(bt[ty])] if ty in bt else []) + [user_ie(ty, NEED_WIDTH.get(ty, 3) + 2)]:
            for mlen in (7, 8, 12, 30):
                for tail in (0, 1):
                    pairs = [(mac, "x" + G.hexs(G.rand_bytes(rng, mlen))), (nxt, any_value(rng, nxt))]
                    pairs += [(ie, small(ie)) for ie in (rng.choice(reg) for _ in range(tail))]
                    add([rec(pairs)], "recbuf-mac-spill")
    # several ill-typed values in one record (a spill over an element that then fails keeps the spilled bytes)
    illable = [ie for ie in reg if ie.ty in (12, 18, 19)] + fixed_octets
    for _ in range(1500 * scale):
        n = rng.randint(2, 6)
        ies = [rng.choice(illable) if rng.random() < 0.6 else rng.choice(reg) for _ in range(n)]
        add([rec([(ie, any_value(rng, ie)) for ie in ies])], "recbuf-many-ill-typed")
    # (3) user-made elements with odd declared lengths: alone, first, last, in the middle
    k = 0
    for ty in sorted(NEED_WIDTH):
        for ln in odd_lengths(NEED_WIDTH[ty]):
            ie = user_ie(ty, ln, k)
            k += 1
            vals = [small(ie), small(ie)] + bad_values(rng, ie)
            for v in vals:
                add([rec([(ie, v)])], "recbuf-odd-length-alone")
                if ln >= 65534 and rng.random() < 0.5:
                    continue
                a, b = rng.choice(reg), rng.choice(reg)
                add([rec([(ie, v), (b, small(b))])], "recbuf-odd-length-first")
                add([rec([(a, small(a)), (ie, v)])], "recbuf-odd-length-last")
                add([rec([(a, small(a)), (ie, v), (b, small(b))])], "recbuf-odd-length-middle")
    small_odd = [user_ie(ty, ln) for ty in sorted(NEED_WIDTH) for ln in odd_lengths(NEED_WIDTH[ty]) if ln <= 256]
    for _ in range(1500 * scale):   # records made of odd elements only, and mixed with registry elements
        n = rng.randint(1, 6)
        ies = [rng.choice(small_odd) if rng.random() < 0.7 else rng.choice(reg) for _ in range(n)]
        add([rec([(ie, any_value(rng, ie)) for ie in ies])], "recbuf-odd-length-mixed")
    # strings with a fixed declared length (the declared length is ignored)
    for ln in (0, 1, 2, 5, 254, 255, 256, 65534):
        for vl in (0, 1, ln % 300, 254, 255, 256):
            ie = user_ie(13, ln)
            a = rng.choice(reg)
            add([rec([(ie, "x" + G.hexs(G.rand_bytes(rng, vl)))])], "recbuf-string-fixed-length")
            add([rec([(a, small(a)), (ie, "x" + G.hexs(G.rand_bytes(rng, vl))), (a, small(a))])], "recbuf-string-fixed-length")
    # octet arrays: fixed 1/8/16 with every value length around them, variable with lengths 0,254,255,256
    for ln in (0, 1, 8, 16, 255, 65534):
        ie = user_ie(0, ln)
        for vl in sorted(set((0, 1, 7, 8, 9, 15, 16, 17, 254, 255, 256, ln % 1000))):
            a = rng.choice(reg)
            add([rec([(ie, "x" + G.hexs(G.rand_bytes(rng, vl)))])], "recbuf-octets-fixed")
            add([rec([(a, small(a)), (ie, "x" + G.hexs(G.rand_bytes(rng, vl))), (a, small(a))])], "recbuf-octets-fixed")
    for ie in [user_ie(0, 65535)] + [x for x in bt[0] if x.len == 65535][:2]:
        for vl in (0, 1, 253, 254, 255, 256, 257, 1000, 65535, 65536, 70000):
            a = rng.choice(reg)
            add([rec([(ie, "x" + G.hexs(G.rand_bytes(rng, vl)))])], "recbuf-octets-variable")
            add([rec([(a, small(a)), (ie, "x" + G.hexs(G.rand_bytes(rng, vl))), (a, small(a))])], "recbuf-octets-variable")
    for vl in (65536, 70000):   # a string the encoder refuses: its (reported) bytes stay zero
        ie, a = bt[13][0], rng.choice(reg)
        add([rec([(a, small(a)), (ie, "x" + G.hexs(G.rand_bytes(rng, vl))), (a, small(a))])], "recbuf-string-too-long")
    # unsupported types: an error whatever the value, the declared length still counts
    # (number / boolean carriers only, see the note on `ie recbuf` in eng_ie.go)
    for ty in G.UNSUPPORTED + [23, 100, 254]:
        for ln in (0, 1, 7, 8, 9, 65535):
            ie = user_ie(ty, ln)
            a = rng.choice(reg)
            for v in ("n0", "n%d" % rng.getrandbits(64), "t"):
                add([rec([(a, small(a)), (ie, v), (a, small(a))])], "recbuf-unsupported", False)
    # a record that GROWS after its buffer was taken: built from the first k elements, GetBuffer, the rest appended with
    # AddInfoElement (`ie recbufx <elems> <k>`): same length, same bytes as the record built in one go
    for _ in range(1200 * scale):
        n = rng.randint(1, 6)
        r = rng.random()
        if r < 0.6:
            ies = [rng.choice(reg) for _ in range(n)]
            pairs = [(ie, small(ie)) for ie in ies]
        elif r < 0.8:
            ies = [rng.choice(illable) if rng.random() < 0.5 else rng.choice(reg) for _ in range(n)]
            pairs = [(ie, any_value(rng, ie)) for ie in ies]
        else:
            ies = [rng.choice(small_odd) if rng.random() < 0.6 else rng.choice(reg) for _ in range(n)]
            pairs = [(ie, any_value(rng, ie)) for ie in ies]
        add(["%s %d" % (rec(pairs).replace("ie recbuf ", "ie recbufx ", 1), rng.randint(0, n))], "recbuf-grown")
    add(["ie recbufx - 0"], "recbuf-grown", False)
    add(["ie recbufx - 1"], "recbuf-bad-token", False)
    # tokens the harness' typed constructors refuse: bad-op on both sides
    for tok in ("0:4:1:1:78=n256", "0:4:1:1:78=x01", "0:4:11:1:78=n1", "0:56:12:6:78=n5", "0:4:1:1:78", "0:4:1:1:78=",
                "0:70000:1:1:78=n1", "0:4:1:70000:78=n1"):
        add(["ie recbuf " + tok], "recbuf-bad-token", False)


def run(ctx):
    rng = random.Random(ctx.seed * 1000003 + 15)
    cases = gen_cases(rng, ctx.tier)
    impl, model = ctx.both(cases)
    dist = G.Counter()
    seen = set()
    disagreements, chk_lines, chk_idx = [], [], []
    for ci, c in enumerate(cases):
        dist.add(c.label)
        if c.nontrivial:
            seen.add(G.case_hash(c.ops))
        for oi, op in enumerate(c.ops):
            i, m = impl[ci][oi], model[ci][oi]
            dist.add("outcome:" + (i or "missing").split(" ")[0])
            if i != m:
                disagreements.append({"case": ci, "ops": c.ops, "impl": i[:400], "model": m[:400], "label": c.label})
            if op.startswith("ie rt ") or op.startswith("ie mut ") or (op.startswith("ie recbuf") and c.label != "recbuf-bad-token"):
                chk_lines.append("chk %s | %s" % (op, i))
                chk_idx.append((ci, oi))
    verdicts = ctx.check_pred(chk_lines)
    failures = []
    for (ci, oi), v, line in zip(chk_idx, verdicts, chk_lines):
        if v != "holds":
            c = cases[ci]
            failures.append({"signature": "C15:%s:%s" % (c.label, v), "ops": c.ops, "impl": impl[ci][oi][:400],
                             "model": model[ci][oi][:400], "predicate": {"name": "Ipfix.C15.holdsRecBuf" if c.ops[oi].startswith("ie recbuf") else ("final value encodes as a fresh element (Ipfix.encodeElem / elemLength)" if c.ops[oi].startswith("ie mut") else "Ipfix.C15.holdsRT"), "value": v}})
    fail_cases = {tuple(f["ops"]) for f in failures}
    for d in disagreements:
        d["explained_by_predicate_failure"] = tuple(d["ops"]) in fail_cases
    samples = [{"ops": cases[i].ops, "impl": impl[i], "label": cases[i].label} for i in (0, len(cases) // 3, len(cases) // 2, len(cases) - 1)]
    for s in samples:
        s["ops"] = [o[:200] for o in s["ops"]]
        s["impl"] = [o[:200] for o in s["impl"]]
    return {"evaluations": len(cases), "distinct_nontrivial": len(seen), "samples": samples, "distribution": dict(dist),
            "disagreements": disagreements[:50], "predicate_failures": failures[:50], "exhaustive": False,
            "notes": ["8/16-bit integer types and booleans enumerated exhaustively (2*256 + 2*65536 + 2 values)"]}
