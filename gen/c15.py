"""C15 - information-element value codec: correspondence generator and runner."""
import random

from check import Case
from gen import common as G


class SPEC:
    rule = ("engine ie: `enc` (element -> bytes + reported length, through the in-package encoder and the public record API) and "
            "`rt` (encode, then the collector's data-set decoder consumes the bytes with the one-element template). "
            "Exhaustive for 8/16-bit types and booleans; boundary + random bit patterns for 32/64-bit, floats (NaN payloads, "
            "signed zeros, denormals); strings/octet arrays of every length 0..300 and 65230..65535 (thorough: more); fixed "
            "octet arrays 1..64. Every value is a case (non-trivial = well-typed value of a supported type); distinct by hash of the op.")
    assumptions = ["values are passed as bit patterns; Go's float32/float64 carry them unchanged (no arithmetic on the path)"]
    trusted = []


def representative(ty):
    bt = G.by_type()
    if ty in bt:
        return bt[ty][0]
    return None


def gen_cases(rng, tier):
    cases = []
    bt = G.by_type()
    add = lambda ops, label, nt=True, dom=True: cases.append(Case(ops, label, nt, dom))
    # exhaustive small types
    for ty in (1, 5):
        ie = bt[ty][0] if ty in bt else G.IE(0, 4, ty, 1, "x")
        for v in range(256):
            add(["ie rt %s n%d -" % (ie.tok(), v)], "exh8")
    for ty in (2, 6):
        ie = bt[ty][0] if ty in bt else G.IE(55555, 6, ty, 2, "userS16")
        step = 1 if tier == "thorough" else 1
        for v in range(0, 65536, step):
            add(["ie rt %s n%d -" % (ie.tok(), v)], "exh16")
    ieb = bt[11][0]
    for v in "tf":
        add(["ie rt %s %s -" % (ieb.tok(), v)], "bool")
        add(["ie enc %s %s" % (ieb.tok(), v)], "bool")
    # wide numeric types: boundaries + random; user-registered elements for types the registry lacks
    nwide = 3000 if tier == "quick" else 200000
    for ty in (3, 4, 7, 8, 9, 10, 14, 15):
        ies = bt.get(ty) or [G.IE(55555, 100 + ty, ty, G.WIDTH[ty], "user%d" % ty)]
        for v in G.num_boundaries(G.WIDTH[ty]) + (G.F32_SPECIAL if ty == 9 else []) + (G.F64_SPECIAL if ty == 10 else []):
            add(["ie rt %s n%d -" % (ies[0].tok(), v)], "wide-boundary")
        for _ in range(nwide):
            ie = rng.choice(ies)
            add(["ie rt %s n%d -" % (ie.tok(), G.rand_num(rng, ty))], "wide-random")
    # variable-length strings / octet arrays: every length in the boundary windows
    ies_s, ies_o = bt[13], [ie for ie in bt[0] if ie.len == 65535]
    lens = list(range(0, 301)) + list(range(65230, 65536))
    if tier == "thorough":
        lens += [rng.randint(301, 65229) for _ in range(3000)]
    for n in lens:
        for ie in (rng.choice(ies_s), rng.choice(ies_o)):
            add(["ie rt %s x%s -" % (ie.tok(), G.hexs(G.rand_bytes(rng, n)))], "varlen")
    for n in (65536, 65537, 70000):   # encoder must refuse (outside the round-trip domain, inside C15's length statement)
        add(["ie enc %s x%s" % (ies_s[0].tok(), G.hexs(G.rand_bytes(rng, n)))], "varlen-too-long", False)
        add(["ie enc %s x%s" % (ies_o[0].tok(), G.hexs(G.rand_bytes(rng, n)))], "varlen-too-long", False)
    # fixed-length octet arrays (user-registered / unknown elements kept by the collector)
    for n in range(1, 65):
        ie = G.IE(55555, 300 + n, 0, n, "fixedOctets%d" % n)
        add(["ie rt %s x%s -" % (ie.tok(), G.hexs(G.rand_bytes(rng, n)))], "octets-fixed")
    # addresses
    nadr = 2000 if tier == "quick" else 100000
    for _ in range(nadr):
        for ty in (12, 18, 19):
            ie = rng.choice(bt[ty])
            add(["ie rt %s %s -" % (ie.tok(), G.well_typed_value(rng, ie))], "addr")
    # a tail after the element (the decoder must leave it for the next record)
    for _ in range(2000 if tier == "quick" else 50000):
        ie = rng.choice(G.registry_supported())
        v = G.well_typed_value(rng, ie, big_ok=False)
        v2 = G.well_typed_value(rng, ie, big_ok=False)
        add(["ie rt %s %s -" % (ie.tok(), v)], "registry-random")
        add(["ie enc %s %s" % (ie.tok(), v2)], "registry-enc")
    # unsupported types: error on both sides
    for ie in G.registry():
        if ie.ty in G.UNSUPPORTED:
            add(["ie enc %s n0" % ie.tok()], "unsupported", False)
            add(["ie dec %s 0000000000000000" % ie.tok()], "unsupported", False)
    return cases


def run(ctx):
    rng = random.Random(ctx.seed * 1000003 + 15)
    cases = gen_cases(rng, ctx.tier)
    impl, model = ctx.both(cases)
    dist = G.Counter()
    seen = set()
    disagreements, chk_lines, chk_idx = [], [], []
    for ci, c in enumerate(cases):
        dist.add(c.label)
        if c.nontrivial:
            seen.add(G.case_hash(c.ops))
        for oi, op in enumerate(c.ops):
            i, m = impl[ci][oi], model[ci][oi]
            dist.add("outcome:" + (i or "missing").split(" ")[0])
            if i != m:
                disagreements.append({"case": ci, "ops": c.ops, "impl": i[:400], "model": m[:400], "label": c.label})
            if op.startswith("ie rt "):
                chk_lines.append("chk %s | %s" % (op, i))
                chk_idx.append((ci, oi))
    verdicts = ctx.check_pred(chk_lines)
    failures = []
    for (ci, oi), v, line in zip(chk_idx, verdicts, chk_lines):
        if v != "holds":
            c = cases[ci]
            failures.append({"signature": "C15:%s:%s" % (c.label, v), "ops": c.ops, "impl": impl[ci][oi][:400],
                             "model": model[ci][oi][:400], "predicate": {"name": "Ipfix.C15.holdsRT", "value": v}})
    fail_cases = {tuple(f["ops"]) for f in failures}
    for d in disagreements:
        d["explained_by_predicate_failure"] = tuple(d["ops"]) in fail_cases
    samples = [{"ops": cases[i].ops, "impl": impl[i], "label": cases[i].label} for i in (0, len(cases) // 3, len(cases) // 2, len(cases) - 1)]
    for s in samples:
        s["ops"] = [o[:200] for o in s["ops"]]
        s["impl"] = [o[:200] for o in s["impl"]]
    return {"evaluations": len(cases), "distinct_nontrivial": len(seen), "samples": samples, "distribution": dict(dist),
            "disagreements": disagreements[:50], "predicate_failures": failures[:50], "exhaustive": False,
            "notes": ["8/16-bit integer types and booleans enumerated exhaustively (2*256 + 2*65536 + 2 values)"]}
