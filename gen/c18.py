"""C18 - encrypted transports authenticate the peer: fact regeneration (F5), harness builder, the matrix and its runner."""
import json
import os
import shutil

import check
from check import Case
from gen import common as G

ROOT = check.ROOT
TLS_LEAN = os.path.join(check.LEAN, "IpfixModel", "Generated", "TLS.lean")


class SPEC:
    driver_target = "driver_tls"
    rule = ("op `tls cell <transport> <servercert> <servername> <clientcert> <clientca> <peer>`: one cell of the matrix, run on the REAL "
            "code: collector.InitCollectingProcess + Start() on 127.0.0.1:0 (IsEncrypted, ServerCert/ServerKey of the cell's kind, CACert "
            "iff the client CA is set) and exporter.InitExportingProcess with TLSClientConfig (CAData = the trusted CA, ServerName and "
            "client certificate of the cell), all certificates minted at harness start with crypto/x509 (two CAs; server certificates "
            "trusted / other CA / self-signed / expired / not yet valid / wrong SAN / no SAN; client certificates trusted / other CA / "
            "expired). Observation: did InitExportingProcess succeed, was the template message sent afterwards delivered on GetMsgChan, "
            "and the protocol version where a raw peer sees it. <peer> = real (library on both sides) | srv11/12/13 (exporter against a raw "
            "crypto/tls server with that MaxVersion) | cli11/12/13 (collector dialled by a raw crypto/tls client with that MaxVersion) | "
            "plainsrv (exporter with security settings against a plaintext listener) | plaincli (exporter WITHOUT security settings "
            "against the encrypted collector) | rawplaincli (plain socket writing an IPFIX message to the encrypted collector). The "
            "implementation's observation must EQUAL the Lean model's outcome (Ipfix.TLS.session, configurations read off the regenerated "
            "Generated/TLS.lean, including the DTLS exporter's VerifyPeerCertificate name check) and Spec.C18.holdsOn is evaluated on the "
            "implementation's observation of every cell. No cell is expected to fail. The cells of the former finding D11 (dtls x ServerName "
            "{unset, 127.0.0.1, 10.1.1.1} x a certificate of the trusted CA not valid for the expected name/address; repaired by 90a2eb6) are "
            "additionally ANCHORED: they must be refused (init-err), and dtls x trusted certificate x ServerName {unset, localhost, 127.0.0.1} "
            "must be accepted and deliver, whatever the model says. Every cell is non-trivial; distinct by hash of the op. "
            "op `tls resume <transport> <peer> <first> <second>`: every cell above starts a FRESH collector, so no session is ever resumed "
            "there; this op keeps ONE collector (server certificate issued by CA 1 for localhost / 127.0.0.1) up and creates two exporters "
            "IN THE SAME PROCESS one after the other: exporter A (trust settings <first> = <ca1|ca2>-<servername>: CAData = that CA only, "
            "that ServerName) is initialised, sends its template message, is left connected for 300 ms with CheckConnInterval = 5 ms (so that "
            "TLS 1.3 session tickets are read) and is closed; then exporter B (<second>) is initialised and sends its message. Observation = "
            "`<A's outcome> ; <B's outcome>` (messages told apart by observation domain). tls: <peer> = real (library collector, TLS 1.3) | "
            "srv12 | srv13 (raw crypto/tls server with that MaxVersion; session tickets as crypto/tls hands them out by default); dtls: <peer> = "
            "srv12, a raw pion/dtls server WITH a SessionStore (pion/dtls v2.2.12 resumes only when both ends configure a SessionStore; the "
            "library's DTLS collector sets none and accepts a single connection, so it cannot be the collector of this op). The model predicts "
            "each exporter's outcome from the EXISTING decision function applied to that exporter's own configuration (Ipfix.TLS.resume; "
            "Props.C18.resume_independent: B's outcome does not depend on A), the observation must EQUAL it, and Spec.C18.holdsOnResume fails "
            "when an exporter completes a session its own CA / ServerName do not allow (e.g. B, configured with CA 2 only, resuming the session "
            "A established). Controls (both exporters configured with CA 1 and a matching name) are ANCHORED to `init-ok delivered` twice. The "
            "harness runs the resume ops first, one at a time, before the worker pool starts (a shared session cache would be keyed by host / "
            "server name, and concurrent cells towards 127.0.0.1 would evict the session under test). Client certificates are not varied here.")
    assumptions = [
        "crypto/tls, crypto/x509 and pion/dtls v2 enforce the configuration they are given, with the semantics written down in "
        "Model/TLSDecision.lean (assumed; observed over the whole matrix on every run, not proved); in particular pion calls "
        "Config.VerifyPeerCertificate after its own verification and fails the handshake on its error, and x509.Certificate.VerifyHostname "
        "matches an IP literal against the IP SANs and any other name against the DNS SANs",
        "the exporter's VerifyPeerCertificate hook is recognised by its source text (Model/TLSDecision.nameCheckBody) and by the assignments "
        "that reach the variables it captures; a hook the model does not recognise counts as no hook (the behaviour before 90a2eb6)",
        "'security settings present' is read as ExporterInput.TLSClientConfig != nil resp. CollectorInput.IsEncrypted = true "
        "(a collector given certificates but IsEncrypted = false is not considered to have security settings)",
        "'a collector configured with a client CA' exists over TLS/TCP only: the DTLS listener sets ClientCAs to its own certificate "
        "and no ClientAuth, whatever CACert is, and the exporter documents DTLS client authentication as unsupported - modelled "
        "as the code is (tie_dtls_server), not demanded by the property",
        "the expected name/address of the collector is ExporterTLSClientConfig.ServerName when set and otherwise the host of the dialled "
        "address (127.0.0.1); wildcard and Common-Name matching are outside the matrix (every certificate has CN=localhost, so a stack "
        "that fell back to the CN would be caught in the no-SAN cells)",
        "CollectingProcess.Start dispatching on the protocol to startTCPServer/startUDPServer is not part of the extracted facts",
        "a negative ('not delivered') is the absence of a delivery within 3 s (TCP) / 5 s (UDP) in two independent attempts, or a session "
        "the raw peer saw torn down",
    ]
    trusted = ["tools/tlsfacts (go/ast translator: tls.Config / dtls.Config literals with path conditions, Dial/Listen calls, func literals "
               "assigned to security fields with the assignments reaching their captured variables (go/parser object resolution) -> "
               "Generated/TLS.lean; cross-checked at run time by the matrix itself: the model defined from the facts must predict every cell)",
               "harness/cmd/harness-tls (certificate minting, raw crypto/tls peers, plaintext peers, timeouts)"]


# ----------------------------------------------------------------------------------------
# F5: regenerate Generated/TLS.lean. check.py imports this module before it builds the proofs,
# so the regeneration happens at import time (check.regen_facts() only knows tools/gofacts).

def regen_tlsfacts():
    src = os.path.join(ROOT, "tools", "tlsfacts")
    out = os.path.join(check.BIN, "tlsfacts")
    os.makedirs(check.BIN, exist_ok=True)
    with check.Lock("tlsfacts"):
        if check.newer_than(src, out):
            r = check.run(["go", "build", "-o", out, "."], cwd=src, env=check.GOENV)
            if r.returncode != 0:
                return "tlsfacts does not build: " + r.stderr[-400:]
        r = check.run([out, check.REPO, os.path.dirname(TLS_LEAN)])   # honours VERIF_MUTANT_OVERLAY itself
        if r.returncode != 0:
            # the model must not be CHECKED against stale facts: the check is broken from here on (check.py reads FACTS_ERROR:
            # no obligation counts as discharged, the verdict is a violation). For the SEARCH for a concrete failing cell of the
            # matrix alone, the facts of the pinned tree (tools/tlsfacts/reference/TLS.lean, committed) stand in.
            ref = os.path.join(src, "reference", "TLS.lean")
            if os.path.exists(ref):
                shutil.copyfile(ref, TLS_LEAN)
            elif os.path.exists(TLS_LEAN):
                os.remove(TLS_LEAN)
            return ("tlsfacts cannot translate the current tree (the search for a failing input below ran with the reference facts "
                    "of the pinned tree): " + r.stderr.strip()[-400:])
    return ""


FACTS_ERROR = regen_tlsfacts()


def build_harness():
    with check.Lock("harness"):
        hd = os.path.join(ROOT, "harness")
        shutil.copyfile(os.path.join(check.REPO, "go.sum"), os.path.join(hd, "go.sum"))
        ov = check.write_overlay()         # includes VERIF_MUTANT_OVERLAY; the verif hook files are not needed (no -tags verif)
        out = os.path.join(check.BIN, "harness-tls")
        r = check.run(["go", "build", "-overlay", ov, "-o", out, "./cmd/harness-tls"], cwd=hd, env=check.GOENV, timeout=1800)
        return r.returncode == 0, r.stderr, out


# ----------------------------------------------------------------------------------------
# the matrix

SERVER_CERTS = ["trusted", "otherca", "selfsigned", "expired", "notyet", "wrongsan", "nosan"]
SERVER_NAMES = ["unset", "dns", "ip", "baddns", "badip"]
CLIENT_CERTS = ["none", "trusted", "otherca", "expired"]
CLIENT_CAS = ["set", "unset"]
VERSIONS = ["11", "12", "13"]


def op(t, sc, sn, cc, ca, p):
    return "tls cell %s %s %s %s %s %s" % (t, sc, sn, cc, ca, p)


RESUME_PEERS = [("tls", "real"), ("tls", "srv12"), ("tls", "srv13"), ("dtls", "srv12")]
GOOD_NAMES = ["unset", "dns", "ip"]


def resume_op(t, p, first, second):
    return "tls resume %s %s %s %s" % (t, p, first, second)


def gen_resume(thorough):
    """(op, label): sequences of two exporters of one process towards one collector"""
    out = []
    for t, p in RESUME_PEERS:
        label = "%s-resume-%s" % (t, p)
        if not thorough:
            # control, the other CA under the same session-cache key (host resp. server name), and the other CA after a refused first exporter
            pairs = [("ca1-unset", "ca1-unset"), ("ca1-unset", "ca2-unset"), ("ca1-dns", "ca2-dns"), ("ca2-unset", "ca2-unset")]
            if p != "real":
                pairs += [("ca1-unset", "ca2-ip"), ("ca1-dns", "ca1-baddns")]
        else:
            firsts = ["ca1-" + n for n in GOOD_NAMES] + ["ca2-unset"]
            seconds = ["%s-%s" % (ca, n) for ca in ("ca1", "ca2") for n in SERVER_NAMES]
            pairs = [(a, b) for a in firsts for b in seconds]
        out.extend((resume_op(t, p, a, b), label) for a, b in pairs)
    return out


def gen_cases(tier):
    cases = []
    add = lambda o, label: cases.append(Case([o], label, True, True))
    thorough = tier == "thorough"
    for o, label in gen_resume(thorough):
        add(o, label)
    # plaintext peers first: the DTLS exporter against a silent plaintext listener gives up only after pion's 30 s
    # connect timeout, so these cells are started first and overlap with everything else
    for sn in (SERVER_NAMES if thorough else ["unset", "dns"]):
        for cc in (["none", "trusted"] if thorough else ["none"]):
            add(op("dtls", "trusted", sn, cc, "unset", "plainsrv"), "dtls-plainsrv")
    for sn in (SERVER_NAMES if thorough else ["unset", "dns"]):
        for cc in (CLIENT_CERTS if thorough else ["none", "trusted"]):
            add(op("tls", "trusted", sn, cc, "unset", "plainsrv"), "tls-plainsrv")
    for t in ("tls", "dtls"):
        for p in ("plaincli", "rawplaincli"):
            for ca in CLIENT_CAS:
                for sc in (SERVER_CERTS if thorough else ["trusted"]):
                    add(op(t, sc, "unset", "none", ca, p), "%s-%s" % (t, p))
    # TLS, library on both sides: the whole matrix
    for sc in SERVER_CERTS:
        for sn in SERVER_NAMES:
            for cc in CLIENT_CERTS:
                for ca in CLIENT_CAS:
                    add(op("tls", sc, sn, cc, ca, "real"), "tls-real")
    # DTLS, library on both sides: the whole sub-matrix (client certificate and client CA are ignored by the code; all values run)
    for sc in SERVER_CERTS:
        for sn in SERVER_NAMES:
            for cc in CLIENT_CERTS:
                for ca in CLIENT_CAS:
                    add(op("dtls", sc, sn, cc, ca, "real"), "dtls-real")
    # exporter against a raw crypto/tls server of each MaxVersion: the whole matrix again
    for v in VERSIONS:
        for sc in SERVER_CERTS:
            for sn in SERVER_NAMES:
                for cc in CLIENT_CERTS:
                    for ca in CLIENT_CAS:
                        add(op("tls", sc, sn, cc, ca, "srv" + v), "tls-srv" + v)
    # collector dialled by a raw crypto/tls client of each MaxVersion. PRUNED: server certificate kind and ServerName only
    # exercise the raw client's own verification here (not the library), so they are fixed to the trusted certificate and the
    # three matching names; client certificate x client CA x version run in full.
    for v in VERSIONS:
        for sn in ["unset", "dns", "ip"]:
            for cc in CLIENT_CERTS:
                for ca in CLIENT_CAS:
                    add(op("tls", "trusted", sn, cc, ca, "cli" + v), "tls-cli" + v)
    return cases


PRUNING_NOTE = ("pruned: (1) raw-client columns (cli11/12/13) run with the trusted server certificate and the three matching ServerName values "
                "only - the other server-certificate kinds / names would exercise the raw client's verification, not the library; "
                "(2) DTLS has no peer-max-version columns - pion/dtls v2 speaks DTLS 1.2 only and there is no second DTLS stack in the "
                "module cache to act as raw peer; (3) plaintext-peer cells vary only the dimensions the plaintext peer can see "
                "(quick: a subset, thorough: all). ServerName has 5 values instead of 3 (unset, matching DNS name, matching IP, "
                "mismatching DNS name, mismatching IP) because TLS and pion treat IP literals differently.")


# Former finding D11 (repaired in /repo by 90a2eb6): the DTLS exporter performed no name / address check for an empty or IP ServerName.
# These cells are part of the dtls-real sub-matrix; their expected observation is pinned here independently of the Lean model.
FORMER_D11 = [(sn, sc) for sn in ("unset", "ip") for sc in ("wrongsan", "nosan")] + [("badip", sc) for sc in ("trusted", "wrongsan", "nosan")]
DTLS_MUST_ACCEPT = [(sn, "trusted") for sn in ("unset", "ip", "dns")]     # the name check must not refuse everybody


def anchor(o):
    """expected observation of an anchored cell, or None"""
    f = o.split(" ")
    if len(f) != 8 or f[2] != "dtls" or f[7] != "real":
        return None
    if (f[4], f[3]) in FORMER_D11:
        return "init-err"
    if (f[4], f[3]) in DTLS_MUST_ACCEPT:
        return "init-ok delivered"
    return None


def is_resume(o):
    return o.startswith("tls resume ")


def resume_anchor(o):
    """controls of the resume ops: both exporters are configured with the issuing CA and a name the certificate is valid for"""
    f = o.split(" ")
    if not is_resume(o) or len(f) != 6:
        return None
    (ca_a, sn_a), (ca_b, sn_b) = f[4].split("-"), f[5].split("-")
    if ca_a == ca_b == "ca1" and sn_a in GOOD_NAMES and sn_b in GOOD_NAMES:
        one = "init-ok delivered" + (" v=" + f[3][3:] if f[2] == "tls" and f[3].startswith("srv") else "")
        return one + " ; " + one
    return None


def well_formed_one(o):
    return o == "init-err" or o.startswith("init-ok delivered") or o.startswith("init-ok not-delivered")


def well_formed(o):
    if " ; " in o:
        return all(well_formed_one(x) for x in o.split(" ; "))
    return well_formed_one(o) or o == "na"


def run(ctx):
    cases = gen_cases(ctx.tier)
    reps = 3 if ctx.tier == "thorough" else 1
    env = dict(os.environ)
    dist = G.Counter()
    seen = set()
    disagreements, failures, anchor_failures = [], [], []
    samples = []
    evaluations = 0
    complete = True
    model = check.exec_cases(ctx.driver, cases, shards=1)
    for rep in range(reps):
        impl = check.exec_cases(ctx.harness, cases, shards=1, timeout=2400, env=env)
        chk_lines, chk_idx = [], []
        for ci, c in enumerate(cases):
            evaluations += 1
            i, m = impl[ci][0] or "missing", model[ci][0] or "missing"
            if rep == 0:
                dist.add(c.label)
                seen.add(G.case_hash(c.ops))
            if is_resume(c.ops[0]) and " ; " in i:
                dist.add("outcome:resume-second:" + " ".join(i.split(" ; ")[1].split(" ")[:2]))
            else:
                dist.add("outcome:" + " ".join(i.split(" ")[:2]))
            if i != m:
                disagreements.append({"case": ci, "rep": rep, "ops": c.ops, "impl": i, "model": m, "label": c.label})
            want = resume_anchor(c.ops[0])
            if want is not None:
                dist.add("anchor:resume-control-accepted" + (":ok" if i == want else ":FAILED"))
                if i != want and well_formed(i):
                    anchor_failures.append({"signature": "C18:%s-resume:anchor:control-refused" % c.ops[0].split(" ")[2], "ops": c.ops, "impl": i,
                                            "model": m, "label": c.label, "rep": rep,
                                            "predicate": {"name": "gen.c18.resume_anchor", "value": "expected " + want},
                                            "note": "control of the resume ops (both exporters trust the issuing CA): expected '%s', the "
                                                    "implementation shows '%s'" % (want, i)})
            want = anchor(c.ops[0])
            if want is not None:
                dist.add("anchor:" + ("former-D11-refused" if want == "init-err" else "dtls-valid-name-accepted") + (":ok" if i == want else ":FAILED"))
                if i != want and well_formed(i) and not (want == "init-err" and i.startswith("init-ok")):
                    # an anchored cell that is wrongly ACCEPTED is reported by the predicate below (name-mismatch); this is the other
                    # direction (a valid collector refused) or a session that came about without delivering
                    anchor_failures.append({"signature": "C18:dtls:anchor:" + want.replace(" ", "-"), "ops": c.ops, "impl": i, "model": m,
                                            "label": c.label, "rep": rep, "predicate": {"name": "gen.c18.anchor", "value": "expected " + want},
                                            "note": "anchored cell of the DTLS name check: expected '%s', the implementation shows '%s'" % (want, i)})
            if well_formed(i):
                chk_lines.append("chk %s | %s" % (c.ops[0], i))
                chk_idx.append(ci)
            else:
                complete = False
        verdicts = ctx.check_pred(chk_lines, shards=1)
        for ci, v in zip(chk_idx, verdicts):
            v = v or "missing"
            dist.add("predicate:" + v)
            if v in ("holds", "na"):
                continue
            c = cases[ci]
            why = v.replace("fails ", "").replace(" ", "-")
            t = c.ops[0].split(" ")[2]
            resume = is_resume(c.ops[0])
            sig = "C18:%s%s:%s" % (t, "-resume" if resume else "", why)
            pred = "Ipfix.C18.holdsOnResume" if resume else "Ipfix.C18.holdsOn"
            failures.append({"signature": sig, "ops": c.ops, "impl": impl[ci][0], "model": model[ci][0], "label": c.label, "rep": rep,
                             "predicate": {"name": pred, "value": v},
                             "note": "Spec.C18.%s on the implementation's observation of the %s: %s" % (
                                 pred.split(".")[-1], "two exporters" if resume else "cell", v)})
        if rep == 0:
            picks = [0, len(cases) // 5, len(cases) // 3, len(cases) // 2, len(cases) - 1]
            samples = [{"ops": cases[k].ops, "impl": impl[k], "model": model[k], "label": cases[k].label} for k in picks]
    failures.extend(anchor_failures)
    fail_cases = {tuple(f["ops"]) for f in failures}
    for d in disagreements:
        d["explained_by_predicate_failure"] = tuple(d["ops"]) in fail_cases
    # one failure per distinct (signature, cell)
    uniq, seen_f = [], set()
    for f in failures:
        k = (f["signature"], tuple(f["ops"]))
        if k not in seen_f:
            seen_f.add(k)
            uniq.append(f)
    uniq.sort(key=lambda f: f["signature"])
    per_sig, kept = {}, []
    for f in uniq:                       # every kind of failure stays visible: at most 60 cells per signature
        per_sig[f["signature"]] = per_sig.get(f["signature"], 0) + 1
        if per_sig[f["signature"]] <= 60:
            kept.append(f)
    uniq = kept
    facts = check.run_ops(ctx.driver, ["tls facts"])[0]
    notes = ["matrix: %d cells and resume sequences (%s), %d repetition(s); each compared with the model's outcome and checked against "
             "Spec.C18.holdsOn / holdsOnResume" % (
        len(cases), ", ".join("%s %d" % (k, v) for k, v in sorted(dist.items()) if not k.startswith(("outcome:", "predicate:", "anchor:"))), reps),
        PRUNING_NOTE,
        "configurations the model read off Generated/TLS.lean: " + (facts[0] if facts else "missing"),
        "Generated/TLS.lean regenerated by tools/tlsfacts at import of gen/c18.py" + (" FAILED: " + FACTS_ERROR if FACTS_ERROR else ""),
        "the collector's DTLS listener does not authenticate exporters (ClientCAs = its own certificate, no ClientAuth) whether or not "
        "CACert is given; C18 demands client authentication only for a collector configured with a client CA over TLS"]
    n_d11 = sum(1 for c in cases if anchor(c.ops[0]) == "init-err")
    n_acc = sum(1 for c in cases if anchor(c.ops[0]) == "init-ok delivered")
    notes.append("former finding D11 (repaired by 90a2eb6): %d cells (dtls x ServerName unset/127.0.0.1 x wrong SAN/no SAN, ServerName 10.1.1.1 x "
                 "trusted/wrong SAN/no SAN) anchored to init-err, %d cells (dtls x trusted x ServerName unset/localhost/127.0.0.1) anchored to "
                 "init-ok delivered; failed anchors: %d" % (n_d11, n_acc, sum(v for k, v in dist.items()
                                                                if k.startswith("anchor:") and not k.startswith("anchor:resume") and k.endswith(":FAILED"))))
    n_res = sum(1 for c in cases if is_resume(c.ops[0]))
    n_res_other = sum(1 for c in cases if is_resume(c.ops[0]) and c.ops[0].split(" ")[4].startswith("ca1-") and c.ops[0].split(" ")[5].startswith("ca2-"))
    notes.append("resume sequences (two exporters of one process, one collector): %d, of which %d have a first exporter configured with the "
                 "issuing CA and a second one configured with the other CA only (the second must be refused: no session of the first may be "
                 "resumed), %d controls anchored to 'init-ok delivered' twice; failed control anchors: %d" % (
                     n_res, n_res_other, sum(1 for c in cases if resume_anchor(c.ops[0]) is not None),
                     sum(v for k, v in dist.items() if k.startswith("anchor:resume") and k.endswith(":FAILED"))))
    if n_res_other < 8:
        uniq.append({"signature": "C18:resume:missing-sequences", "ops": [], "note": "only %d resume sequences with the other CA second" % n_res_other})
    if n_d11 != 56 or n_acc != 24:
        failures_note = "anchor cells missing from the matrix: %d/56 former-D11, %d/24 must-accept" % (n_d11, n_acc)
        notes.append(failures_note)
        uniq.append({"signature": "C18:dtls:anchor:missing-cells", "ops": [], "note": failures_note})
    if os.environ.get("VERIF_MUTANT_OVERLAY"):
        notes.append("VERIF_MUTANT_OVERLAY in effect: " + ",".join(sorted(json.loads(os.environ["VERIF_MUTANT_OVERLAY"]))))
    return {"evaluations": evaluations, "distinct_nontrivial": len(seen), "samples": samples, "distribution": dict(dist),
            "disagreements": disagreements[:50], "predicate_failures": uniq[:300], "out_of_domain_disagreements": 0,
            "exhaustive": complete, "notes": notes}
