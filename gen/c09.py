"""C09 - exporter never emits an invalid, oversized or silently altered message."""
import random

from check import Case
from gen import common as G
from gen import expcommon as X
from gen.simple import run_simple


class SPEC:
    rule = ("engine exp on an in-memory net.Conn (so 'nothing was written' is exact): sessions mixing valid sends with exactly one kind of "
            "invalid send - unknown template id, wrong field count, Undefined set type, sets sized so the message is 65519..65540 bytes, "
            "an oversize template (20000 fields) followed by data for it, set id different from the records' template id, ill-typed values "
            "(IPv6/odd-length address in an IPv4 element, odd-length address in an IPv6 element, MAC that is not 6 bytes, fixed-length "
            "octet array of the wrong length) - followed by further valid sends, all of which are parsed by the independent decoder. "
            "Write outcomes (`exp failnext err|errfull|refused|short<k>`: the next Write on the connection returns an error (with count 0, or with the full count as pion/dtls does) / ECONNREFUSED as a "
            "connected UDP socket reports it / k bytes and no error): (i) before the send of a NEW template, followed by data for that "
            "template - which must be refused: a template counts as sent only if its SendSet reported success -, by a re-send of the "
            "template that succeeds and by data that is then accepted, sometimes with a refused send (outcome stays pending), `exp tids` "
            "or a refresh pass in between; (ii) before data sends and re-sent templates (error, at most the k bytes written, later sends "
            "well-formed; short70000 = the whole message goes out, success). The sequence numbers after a failed data send are C08's "
            "business (verdicts `fails c08:sequence` are filtered). JSON mode (`exp new <dom> json`, SendJSONRecord): the mixed sessions "
            "with one invalid kind of unknown template id / wrong field count / set id different from the records' template id / Undefined "
            "set type; a send is observed as `okj <writes>` / `err -` / `errj <writes>` (the JSON text is not modelled or judged): a set "
            "C09 wants refused must write nothing, exactly as in IPFIX mode (Spec.Exp.refusalReason); elements without a JSON case "
            "(octetArray) and non-finite floats are modelled as an error after the writes of the records before. "
            "Non-trivial = at least one rejected and one accepted send; distinct by hash.")
    assumptions = ["JSON mode: the rendered JSON text is neither modelled nor judged - only the decisions of SendSet (error or not, number of Writes, "
                   "templates recorded); a failing Write of the in-memory connection writes nothing (WriteOutcome.fail)"]
    trusted = []


def signature(case, oi, verdict, agrees):
    v = verdict.split(" ")
    cls = v[1] if len(v) > 1 else v[0]
    return "C09:%s:%s" % (cls, case.label)


def run(ctx):
    rng = random.Random(ctx.seed * 1000003 + 9)
    sup = G.registry_supported()
    cases = []
    n = 1000 if ctx.tier == "quick" else 40000
    for _ in range(n):
        cases.append(X.mixed_session(rng, sup))
    # every message size around the limit once; the oversize template (expensive) a few times
    s = X.var_ie()
    for total in range(65519, 65541):
        payload = total - 16 - 4 - 3
        ops = ["exp new 1", X.send_template(rng, 500, [s]),
               "exp send %s d 500 500@%s=x%s" % (rng.choice("012"), s.tok(), G.hexs(G.rand_bytes(rng, payload))),
               X.send_data(rng, 500, [s], 1, maxlen=20)]
        cases.append(Case(ops, "oversize", True, True))
    # the limit does not depend on what was sent before: LEGAL messages of growing size (past 32 KB, up to the limit itself -
    # whatever a process reuses between sends has grown by then), then oversize ones of every kind of excess, then a small one
    rng5 = random.Random(ctx.seed * 1000003 + 909)
    for _ in range(40 if ctx.tier == "quick" else 1500):
        ops = ["exp new 1", X.send_template(rng5, 500, [s])]
        sizes = sorted(rng5.sample(range(20000, 65536), rng5.randint(1, 4))) + ([65535] if rng5.random() < 0.5 else [])
        if rng5.random() < 0.5:
            sizes = [rng5.randint(32768, 40000), rng5.randint(50000, 65535)] + sizes[-1:]
        over = [rng5.choice([65536, 65537, 65539, 65540, 65535 + 16, 65558]) for _ in range(rng5.randint(1, 3))]   # (one value of at most 65535 bytes)
        for total in sizes + over:
            ops.append("exp send %s d 500 500@%s=x%s" % (rng5.choice(["0", "1", "2", "0r", "2r"]), s.tok(), G.hexs(G.rand_bytes(rng5, total - 16 - 4 - 3))))
            if rng5.random() < 0.3:
                ops.append(X.send_data(rng5, 500, [s], 1, maxlen=20))
        ops.append(X.send_data(rng5, 500, [s], 2, maxlen=20))
        cases.append(Case(ops, "oversize-after-growth", True, True))
    for _ in range(3 if ctx.tier == "quick" else 40):
        cases.append(X.mixed_session(rng, sup, "oversize-template"))
    # Write outcomes: a template whose Write failed was never sent; failing data Writes
    for _ in range(350 if ctx.tier == "quick" else 6000):
        cases.append(X.failnext_template_session(rng, sup))
    for _ in range(250 if ctx.tier == "quick" else 4000):
        cases.append(X.failnext_data_session(rng, sup))
    # JSON mode: the refusals are the same
    for k in range(500 if ctx.tier == "quick" else 8000):
        cases.append(X.mixed_session(rng, sup, X.INVALID_JSON[k % len(X.INVALID_JSON)], json=True))
    res = run_simple(ctx, cases, "C09", chk_filter=lambda op: True, stateful_chk=True, signature=signature,
                     verdict_filter=lambda v: "holds" if v.startswith("fails c08:sequence") else v)
    res["evaluations"] = sum(1 for c in cases for o in c.ops if o.startswith("exp send"))
    return res
