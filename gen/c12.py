"""C12 - collector under many clients: fact regeneration (F4 for CollectingProcess), harness builder, scenario
generator and runner.

PARTIAL. The queueing logic (one sequential reader per connection, one rendezvous channel) is proved in Lean
for every schedule (Props/C12); goroutine / socket leaks, the latency of Stop() and data races are runtime
facts the model cannot exhibit: they are OBSERVED on the real collector by harness-mux (race detector,
goroutine stacks, re-bind of the port) and judged by Ipfix.C12.holdsOn.
"""
import concurrent.futures
import glob
import json
import os
import random
import shutil
import subprocess

import check
from gen import common as G

ROOT = check.ROOT
LOCKS_LEAN = os.path.join(check.LEAN, "IpfixModel", "Generated", "LocksCollector.lean")


class SPEC:
    driver_target = "driver_mux"
    # the driver's `mux scenario` line is the EXPECTATION (what must hold), not a prediction of the schedule-dependent
    # observation: impl and model lines are never textually equal; the verdict is the `chk` line (see check.replay)
    replay_compare_model = False
    rule = ("op `mux scenario <transport> <seed> <stopmid> <clients> [shared=<r>] [buf=<n>]`: one scenario on the REAL collector "
            "(collector.InitCollectingProcess + Start() on 127.0.0.1:0, transport tcp | udp | tls with a certificate minted at "
            "harness start), binary built with -race and run with GORACE=halt_on_error=0 log_path=..., ONE PROCESS PER "
            "SCENARIO. C raw clients (net.Dial / tls.Dial, own IPFIX encoder) run concurrently; client i uses observation "
            "domain i+1 and numbers its messages 0..n-1 in the IPFIX sequence-number field (0 = template set, the others "
            "one data record carrying domain and number again - in the scenarios whose seed is a multiple of 4, one in three, some data "
            "messages repeat that record 130, 600 or 5000 times: 4.8 KB and 40 KB messages over TCP/TLS, past the reader's 4096-byte "
            "buffer; at most 1220 bytes over UDP), then closes (c), writes half a message and closes (a), stays "
            "connected (i) or writes half a message and stays connected (h). A client `<n>w<ms>` is a SLOW session: it sends the first "
            "max(1, n/2) of its n messages, stays connected and idle for <ms> milliseconds (6000 / 11000: one TLS scenario each in the "
            "quick tier, a dozen over TCP and TLS in the thorough tier; these scenarios are started first and run beside the others), "
            "then sends the rest and closes - the collector arms no deadline on a connection (Props/C12 tie_collector_arms_no_deadline), "
            "so everything must be delivered exactly as for a closing client, which is how the Lean driver reads the token. "
            "`buf=<n>` (0 | 512 | 1024 | 65535; default and over UDP always 65535) is the collector's CollectorInput.MaxBufferSize: it sizes "
            "the UDP receive buffer and nothing else, so over TCP/TLS the expectation does not depend on it (the Lean driver accepts and "
            "ignores the token); every tcp/tls scenario draws it at random, and 3 (quick) / 12 (thorough) `bigmsg` scenarios combine 512 or "
            "1024 with a seed that is a multiple of 4, i.e. with messages of 1 KB, 4.8 KB and 40 KB. With `shared=<r>` ALL clients export in observation "
            "domain 1 with template id 256 - one stored template in the collector - and every client sends the template set "
            "again as every r-th of its messages (an ordinary numbered message of its connection), so that template "
            "(re-)definitions by one exporter run concurrently with data decoding by the others under the race detector; the "
            "clients stay distinguishable by the client number in the sequence-number field ((i+1)<<16 | number) and in the "
            "first field of the data record, by which the harness attributes the deliveries (reported as (i+1, number) like "
            "everywhere else; what is demanded is the same). A consumer drains GetMsgChan() for the whole "
            "scenario and records (domain, number) of everything it receives. <stopmid> = k: Stop() is called once k messages "
            "have arrived, with the clients still writing; otherwise Stop() is called at the end with the i/h clients still "
            "connected. Seeded random runtime.Gosched() / sleeps <= 300 us in every client and in the consumer, some TCP "
            "messages split into two writes, UDP in bursts of 4. Observation: the global delivery order, payload mismatches, "
            "GetNumConnToCollector() after the closing clients are gone (polled <= 2 s) and after Stop, Stop() latency "
            "(bound 2 s), deliveries after Stop returned, runtime.NumGoroutine() before Init / after Stop (polled <= 2 s), "
            "pkg/collector goroutines still blocked in a stack dump taken by the goroutine that called Stop() when it "
            "returned, re-bind of the port by that same goroutine (+ /proc check that this process still owns the socket), "
            "race reports. Ipfix.C12.holdsOn (driver_mux, `chk`) is evaluated on every observation: per-connection FIFO "
            "(exact over TCP/TLS, prefix when stopped under traffic, duplicate-free in-order sub-sequence over UDP - UDP loss "
            "is NOT a failure), nothing invented, the delivery order is a trace of the Lean model (replay), plus the runtime "
            "clauses. A scenario whose observation carries a timeout flag is run a second time in a fresh process and the "
            "second observation stands; only positive evidence counts. Non-trivial = at least 2 clients whose connection "
            "intervals overlap (start/end stamps taken by the harness); distinct by hash of the op.")
    assumptions = [
        "PARTIAL: proved = the queueing protocol of Model/Mux.lean for all schedules + the extracted lock discipline; "
        "observed, not proved = absence of goroutine / socket leaks, Stop() latency, absence of data races at run time",
        "the consumer keeps draining GetMsgChan() until after Stop() has returned (the property's proviso); CloseMsgChan is the consumer's business and is never called",
        "Stop() is called only after Start() has begun serving (the address is published and, in stop-under-traffic scenarios, at least "
        "one message has been delivered): Stop() racing with the very beginning of Start() (before cp.wg.Add in startTCPServer/startUDPServer) is outside the quantifier",
        "Start() is called once (the unlocked reads of netAddress in startTCPServer/startUDPServer are by the goroutine that wrote it)",
        "TCP as a reliable byte stream: a client that closes with FIN after writing loses nothing; an 'abrupt close' is half a message followed by FIN (not RST)",
        "UDP as lossy, non-duplicating datagrams; 'accepted' over UDP cannot be observed from outside, so the check is sub-sequence + no duplicate against what was SENT",
        "DTLS is not part of C12's transports (tcp, udp, tls)",
        "Stop() latency bound 2000 ms, leak / connection-count polls 2 s, on a machine that may run other checks concurrently",
    ]
    trusted = [
        "tools/lockfacts-collector (go/ast translator: accesses to templatesMap / clients / netAddress / numOfRecordsReceived with lock state, "
        "call sites, goroutine roots -> Generated/LocksCollector.lean; lock regions are tracked syntactically: Lock/RLock ... Unlock, defer Unlock, "
        "func(){lock; defer unlock; ...}() closures, callers' locks as a fixpoint)",
        "harness/cmd/harness-mux (raw clients, IPFIX encoder, consumer, stack-dump classification, /proc socket check, race-log reading) and the Go race detector",
        "modelled, not verified: goroutine scheduling as any interleaving of the atomic steps of Model/Mux.lean; an unbuffered channel send as a rendezvous; sync.RWMutex critical sections atomic; sync.WaitGroup.Wait returns after every Done",
    ]


# ----------------------------------------------------------------------------------------
# F4 (collector part): regenerate Generated/LocksCollector.lean at import time (check.py imports this module
# before it builds the proofs; check.regen_facts() only knows tools/gofacts).

def regen_lockfacts():
    src = os.path.join(ROOT, "tools", "lockfacts-collector")
    out = os.path.join(check.BIN, "lockfacts-collector")
    os.makedirs(check.BIN, exist_ok=True)
    with check.Lock("lockfacts-collector"):
        if check.newer_than(src, out):
            r = check.run(["go", "build", "-o", out, "."], cwd=src, env=check.GOENV)
            if r.returncode != 0:
                return "lockfacts-collector does not build: " + r.stderr[-400:]
        r = check.run([out, check.REPO, os.path.dirname(LOCKS_LEAN)])   # honours VERIF_MUTANT_OVERLAY itself; write-if-changed
        if r.returncode != 0:
            if os.path.exists(LOCKS_LEAN):     # the theorems must not be checked against stale facts
                os.remove(LOCKS_LEAN)
            return "lockfacts-collector cannot translate the current tree: " + r.stderr.strip()[-400:]
    return ""


FACTS_ERROR = regen_lockfacts()


def build_harness():
    with check.Lock("harness"):
        hd = os.path.join(ROOT, "harness")
        shutil.copyfile(os.path.join(check.REPO, "go.sum"), os.path.join(hd, "go.sum"))
        ov = check.write_overlay()         # includes VERIF_MUTANT_OVERLAY
        out = os.path.join(check.BIN, "harness-mux")
        r = check.run(["go", "build", "-race", "-tags", "verif", "-overlay", ov, "-o", out, "./cmd/harness-mux"],
                      cwd=hd, env=check.GOENV, timeout=1800)
        return r.returncode == 0, r.stderr, out


# ----------------------------------------------------------------------------------------
# scenarios

TRANSPORTS = ["tcp", "udp", "tls"]


def sseed(rng):
    """scenario seed; a multiple of 4 (one scenario in three) makes the clients mix in messages of 600 and 5000 records
    (4.8 KB and 40 KB - larger than the reader's 4096-byte buffer; UDP: <= 1220 bytes), see harness-mux numRecords"""
    v = rng.randrange(1, 1 << 28) * 4
    return v if rng.random() < 1 / 3 else v + rng.randint(1, 3)


def op(t, seed, stopmid, clients, shared=0):
    """clients: (n, behaviour) with behaviour c | a | i | h | s | w<ms>"""
    return "mux scenario %s %d %s %s%s" % (t, seed, "-" if stopmid is None else str(stopmid), ",".join("%d%s" % c for c in clients),
                                         " shared=%d" % shared if shared else "")


BUFS = [0, 512, 1024, 65535]          # CollectorInput.MaxBufferSize values (harness-mux `buf=<n>`)
SMALL_BUFS = [512, 1024]              # smaller than the 1060 / 4820 / 40020-byte messages of the seeds that are multiples of 4


def with_buf(opline, buf):
    return "%s buf=%d" % (opline, buf)


def gen_slow(rng, t, ms):
    """a session that stays idle for ms milliseconds between two of its messages (client `<n>w<ms>`), among ordinary
    clients that come and go meanwhile (one of them may stay connected): nothing may be cut, everything is delivered"""
    nclients = rng.randint(3, 6)
    clients = [(rng.randint(1, 20), "c") for _ in range(nclients)]
    clients[rng.randrange(nclients)] = (rng.randint(2, 16), "w%d" % ms)
    if rng.random() < 0.3:
        j = rng.randrange(nclients)
        if not clients[j][1].startswith("w"):
            clients[j] = (clients[j][0], rng.choice("ih"))
    return op(t, sseed(rng), None, clients)


def gen_bigmsg(rng, t):
    """large messages (seed a multiple of 4: 1 KB, 4.8 KB, 40 KB, every client sends at least 8 messages and so at
    least one of each size) to a tcp/tls collector created with a SMALL MaxBufferSize - an option of the UDP path"""
    clients = [(rng.randint(8, 24), "c") for _ in range(rng.randint(2, 5))]
    return with_buf(op(t, rng.randrange(1, 1 << 28) * 4, None, clients), rng.choice(SMALL_BUFS))


def gen_shared(rng, t, nclients, lo, hi, kind):
    """several exporters in ONE observation domain with ONE template id, each re-sending the template every r-th
    message while the others send data: every client is busy (lo..hi messages), so that template definitions and
    data decoding overlap. kind: shared (all close) | shared-mixed (some abrupt closes / holders)"""
    clients = [[rng.randint(lo, hi), "c"] for _ in range(nclients)]
    if kind == "shared-mixed":
        for i in rng.sample(range(nclients), max(1, nclients // 4)):
            clients[i][1] = rng.choice("aih")
    return op(t, sseed(rng), None, [tuple(c) for c in clients], shared=rng.randint(2, 4))


def gen_scenario(rng, t, nclients, maxmsgs, kind):
    """kind: plain | abrupt | stop | hold | mixed"""
    clients = []
    for _ in range(nclients):
        r = rng.random()
        if r < 0.08:
            n = 0
        elif r < 0.2:
            n = 1
        elif r < 0.6:
            n = rng.randint(2, max(2, maxmsgs // 3))
        else:
            n = rng.randint(max(2, maxmsgs // 3), maxmsgs)
        clients.append([n, "c"])
    pick = lambda k: rng.sample(range(nclients), min(nclients, k))
    if kind in ("abrupt", "mixed"):
        for i in pick(max(1, nclients // 3)):
            clients[i][1] = "a"
    if kind in ("hold", "mixed", "stop"):
        for i in pick(max(1, nclients // 4)):
            clients[i][1] = rng.choice("ih")
    stopmid = None
    if kind == "stop":
        total = sum(c[0] for c in clients)
        if total < 4:                          # there must be traffic to stop under
            clients[0][0] = max(clients[0][0], 8)
            total = sum(c[0] for c in clients)
        stopmid = rng.randint(1, max(1, total // 2))
    return op(t, sseed(rng), stopmid, [tuple(c) for c in clients])


def gen_ops(rng, tier):
    ops = []
    if tier == "thorough":
        per, maxc, maxm = 200, 64, 200
    else:
        per, maxc, maxm = 10, 16, 50
    for t in TRANSPORTS:
        if tier == "thorough":
            counts = [1, 2, 3, 64, 64, 48, 32] + [rng.choice([rng.randint(2, 8), rng.randint(2, 24), rng.randint(2, 64)]) for _ in range(per - 7)]
            kinds = (["plain"] * 70 + ["abrupt"] * 35 + ["stop"] * 45 + ["hold"] * 25 + ["mixed"] * 25)
        else:
            counts = [1, 2, 3, 4, 6, 8, 10, 12, 16, 16]
            # over the three transports: 5 x abrupt/mixed, 5 x stop (see the zip below)
            kinds = {"tcp": ["plain", "abrupt", "stop", "hold", "plain", "stop", "mixed", "plain", "abrupt", "plain"],
                     "udp": ["plain", "plain", "stop", "hold", "abrupt", "plain", "plain", "plain", "plain", "plain"],
                     "tls": ["plain", "plain", "stop", "hold", "plain", "stop", "mixed", "plain", "plain", "plain"]}[t]
        counts = counts[:per]
        rng.shuffle(counts)
        kinds = kinds[:per]
        if tier == "thorough":
            rng.shuffle(kinds)
        for c, k in zip(counts, kinds):
            m = maxm if c <= 32 or tier != "thorough" else rng.choice([maxm, maxm // 4])
            ops.append((gen_scenario(rng, t, c, m, k), k))
    # a peer that stalls in the middle of the TLS handshake must neither block the exporters that
    # connect after it nor Stop()
    for _ in range(2 if tier != "thorough" else 20):
        n = rng.randint(2, 6)
        cl = [(0, "s")] + [(rng.randint(1, 20), "c") for _ in range(n)]
        ops.append((op("tls", sseed(rng), None, cl), "stalled-handshake"))
    # Stop() with nothing received yet: the application's only synchronisation with Start() is GetAddress() != nil
    ops.append((op("udp", sseed(rng), None, [(0, "c")]), "start-stop"))
    # exporters that share an observation domain and a template id and keep re-sending the template (generated last:
    # the scenarios above are the same as before for a given seed)
    for t in TRANSPORTS:
        if tier == "thorough":
            for j in range(12):
                k = "shared" if j % 4 else "shared-mixed"
                ops.append((gen_shared(rng, t, rng.randint(3, 12), 30, 80, k), k))
        else:
            for _ in range(2):
                ops.append((gen_shared(rng, t, rng.randint(4, 8), 30, 60, "shared"), "shared"))
    # (from here on: generated after everything above, which stays the same for a given seed)
    # MaxBufferSize is an option of the UDP path: every tcp/tls scenario above gets one of its values at random ...
    ops = [(with_buf(o, rng.choice(BUFS)), k) if o.split(" ")[2] != "udp" else (o, k) for o, k in ops]
    # ... and some scenarios are sure to combine a small one with large messages
    for j in range(12 if tier == "thorough" else 3):
        ops.append((gen_bigmsg(rng, ("tcp", "tls")[j % 2]), "bigmsg"))
    # slow sessions: idle for 6 s / 11 s between two messages (longer than any handshake- or read-timeout one might arm)
    if tier == "thorough":
        slow = [(t, ms) for t in ("tls", "tcp") for ms in (6000, 11000)] * 3
    else:
        slow = [("tls", 6000), ("tls", 11000)]
    for t, ms in slow:
        ops.append((with_buf(gen_slow(rng, t, ms), rng.choice(BUFS)), "slow"))
    return ops


# ----------------------------------------------------------------------------------------
# running

def run_one(harness, opline, workdir, idx, attempt, timeout=240):
    logbase = os.path.join(workdir, "race", "s%d_%d" % (idx, attempt))
    env = dict(os.environ, GORACE="halt_on_error=0 log_path=" + logbase, VERIF_MUX_DIR=workdir)
    try:
        r = subprocess.run([harness], input=opline + "\n", stdout=subprocess.PIPE, stderr=subprocess.PIPE, text=True,
                           timeout=timeout, env=env)
        out = (r.stdout.splitlines() or ["missing"])[0]
    except subprocess.TimeoutExpired:
        out = "hang"
    for f in glob.glob(logbase + ".*"):
        try:
            os.remove(f)
        except OSError:
            pass
    return out


def split_detail(obs):
    if " ## " in obs:
        a, b = obs.split(" ## ", 1)
        return a, b
    return obs, ""


def kv(obs, key):
    for tok in obs.split(" "):
        if tok.startswith(key + "="):
            return tok[len(key) + 1:]
    return None


def needs_retry(obs):
    if not obs.startswith("obs "):
        return True
    return kv(obs, "to") not in ("-", None)


START_STOP_SIG = "C12:race:stop-vs-start-wg-add"


def is_start_stop_race(detail):
    """the one race report is Stop()'s cp.wg.Wait() against the first cp.wg.Add(1) of startTCPServer / startUDPServer
    (Start publishes the address before it registers its server goroutine): finding D15, a signature of its own so that
    it cannot mask any other race"""
    return (detail.count("WARNING: DATA RACE") == 1 and "(*CollectingProcess).Stop()" in detail
            and ("(*CollectingProcess).startUDPServer()" in detail or "(*CollectingProcess).startTCPServer()" in detail)
            and "handleTCPClient" not in detail and "handleUDPMessage" not in detail and "createUDPClient" not in detail)


def bucket(n, edges):
    for e in edges:
        if n <= e:
            return "<=%d" % e
    return ">%d" % edges[-1]


def run(ctx):
    rng = random.Random(ctx.seed * 1000003 + 12)
    gen = gen_ops(rng, ctx.tier)
    ops = [g[0] for g in gen]
    kinds = [g[1] for g in gen]
    os.makedirs(os.path.join(ctx.workdir, "race"), exist_ok=True)
    workers = min(ctx.cores, 12) if ctx.tier == "thorough" else min(8, ctx.cores)
    # the slow-session scenarios sleep for most of their 6 / 11 s: they are started first, on workers of their own
    nslow = sum(1 for k in kinds if k == "slow")
    order = sorted(range(len(ops)), key=lambda i: (kinds[i] != "slow", i))
    dist = G.Counter()
    notes = []

    def job(i):
        o = run_one(ctx.harness, ops[i], ctx.workdir, i, 0)
        retried = False
        if needs_retry(o):
            retried = True
            o2 = run_one(ctx.harness, ops[i], ctx.workdir, i, 1)
            first = o
            o = o2
            return o, retried, first
        return o, retried, None

    results = [None] * len(ops)
    with concurrent.futures.ThreadPoolExecutor(max_workers=workers + nslow) as ex:
        for i, res in zip(order, ex.map(job, order)):
            results[i] = res
    shutil.rmtree(os.path.join(ctx.workdir, "race"), ignore_errors=True)

    model = check.run_ops(ctx.driver, ops)[0]
    facts = check.run_ops(ctx.driver, ["mux facts"])[0]

    chk_lines, chk_idx = [], []
    disagreements, failures, samples = [], [], []
    seen = set()
    max_stop = 0
    for i, (o, retried, first) in enumerate(results):
        t = ops[i].split(" ")[2]
        nclients = len(ops[i].split(" ")[5].split(","))
        dist.add("transport:" + t)
        dist.add("kind:" + kinds[i])
        dist.add("clients:" + bucket(nclients, [1, 2, 4, 8, 16, 32, 64]))
        buf = next((tok[4:] for tok in ops[i].split(" ")[6:] if tok.startswith("buf=")), None)
        if buf is not None:
            dist.add("buf:" + buf)
            if int(buf) in SMALL_BUFS and int(ops[i].split(" ")[3]) % 4 == 0:
                dist.add("small-buf+large-messages")
        if retried:
            dist.add("retried")
            dist.add("retry-because:" + (kv(first, "to") or first.split(" ")[0])[:40])
        m = model[i] if i < len(model) else "missing"
        if not m.startswith("expect ") or not (m.endswith("/holds") or m.endswith("model=skipped")):
            disagreements.append({"case": i, "ops": [ops[i]], "impl": o[:300], "model": m,
                                  "why": "the Lean model under the fair schedule does not satisfy its own specification"})
        if not o.startswith("obs "):
            dist.add("outcome:no-observation")
            disagreements.append({"case": i, "ops": [ops[i]], "impl": o[:300], "model": m,
                                  "why": "no observation from the harness in two attempts"})
            continue
        core, detail = split_detail(o)
        if kv(core, "raceon") != "1":
            disagreements.append({"case": i, "ops": [ops[i]], "impl": core[-200:], "model": m, "why": "race detector not active in the harness"})
        overlap = int(kv(core, "overlap") or 0)
        if nclients >= 2 and overlap >= 2:
            seen.add(G.case_hash([ops[i]]))
        dist.add("overlap:" + bucket(overlap, [1, 2, 4, 8, 16, 32, 64]))
        max_stop = max(max_stop, int(kv(core, "stopms") or 0))
        if t == "udp" and kinds[i] != "stop":
            sent = sum(int(c[:-1]) for c in ops[i].split(" ")[5].split(","))
            got = int(kv(core, "del") or 0)
            dist.add("udp-delivered:" + ("all" if got >= sent else ">=90%" if got * 10 >= sent * 9 else ">=50%" if got * 2 >= sent else "<50%"))
        chk_lines.append("chk %s | %s" % (ops[i], core))
        chk_idx.append(i)
    verdicts = ctx.check_pred(chk_lines, shards=min(8, ctx.cores))
    for i, v in zip(chk_idx, verdicts):
        v = v or "missing"
        dist.add("predicate:" + v)
        o = results[i][0]
        core, detail = split_detail(o)
        t = ops[i].split(" ")[2]
        short = " ".join(tok if not tok.startswith("order=") or len(tok) < 400 else tok[:400] + "..." for tok in core.split(" "))
        if len(samples) < 5 and i % max(1, len(ops) // 5) == 0:
            samples.append({"ops": [ops[i]], "impl": [short], "model": [model[i] if i < len(model) else ""], "spec": v, "kind": kinds[i]})
        if v == "holds":
            pc = kv(core, "pc") or ""
            if "x" in pc:
                disagreements.append({"case": i, "ops": [ops[i]], "impl": short, "model": model[i],
                                      "why": "the harness's own per-connection check objects (pc=%s) where Ipfix.C12.holdsOn holds" % pc})
            continue
        why = v.replace("fails ", "").replace(" ", "-")
        sig = "C12:%s:%s" % (t, why)
        if why == "race" and is_start_stop_race(detail):
            sig = START_STOP_SIG
        failures.append({"signature": sig, "ops": [ops[i]], "impl": [core], "model": [model[i] if i < len(model) else ""],
                         "kind": kinds[i], "predicate": {"name": "Ipfix.C12.holdsOn", "value": v},
                         "note": ("Ipfix.C12.holdsOn on the real collector's observation: %s. %s%s" % (
                             v, ("harness detail: " + detail[:3500]) if detail else "",
                             " (scenario was re-run after a timeout flag; this is the second observation)" if results[i][1] else ""))})
    # one failure per signature first (every kind stays visible), at most 20 per signature
    per_sig, kept = {}, []
    for f in sorted(failures, key=lambda f: f["signature"]):
        per_sig[f["signature"]] = per_sig.get(f["signature"], 0) + 1
        if per_sig[f["signature"]] <= 20:
            kept.append(f)
    fail_ops = {f["ops"][0] for f in failures}
    for d in disagreements:
        d["explained_by_predicate_failure"] = d["ops"][0] in fail_ops
    notes.append("PARTIAL: per-connection FIFO / exactly-once / conn-count / stop theorems are proved of Model/Mux.lean for all schedules; "
                 "leaks, Stop() latency and races are observed on the real collector (race detector, goroutine stacks, re-bind), not proved")
    notes.append("%d scenarios, one harness process each, %d in parallel (+ %d slow-session scenarios beside them); largest Stop() latency observed %d ms (bound 2000)" % (len(ops), workers, nslow, max_stop))
    notes.append("lock facts the theorems speak about (driver `mux facts`): " + (facts[0] if facts else "missing"))
    notes.append("unlocked accesses on the current tree are the klog reads of cp.netAddress right after updateAddress in "
                 "startTCPServer / startUDPServer (see `unguarded=` above): reads by the goroutine that wrote the field (Start), "
                 "covered by lock_discipline_collector's owner-read clause and excluded from lock_discipline_collector_partial")
    notes.append("Generated/LocksCollector.lean regenerated by tools/lockfacts-collector at import of gen/c12.py" + (" FAILED: " + FACTS_ERROR if FACTS_ERROR else ""))
    notes.append("failing scenarios are not shrunk: the failures are schedule-dependent, a smaller scenario is a different experiment")
    if os.environ.get("VERIF_MUTANT_OVERLAY"):
        notes.append("VERIF_MUTANT_OVERLAY in effect: " + ",".join(sorted(json.loads(os.environ["VERIF_MUTANT_OVERLAY"]))))
    return {"evaluations": len(ops), "distinct_nontrivial": len(seen), "samples": samples, "distribution": dict(dist),
            "disagreements": disagreements[:50], "predicate_failures": kept[:200], "out_of_domain_disagreements": 0,
            "exhaustive": False, "notes": notes}
