"""Shared generator helpers: registry access (from the regenerated Lean table), value
generators per data type, token rendering. All randomness comes from the rng passed in."""
import hashlib
import os
import re

ROOT = os.path.dirname(os.path.dirname(os.path.abspath(__file__)))
REG = os.path.join(ROOT, "lean", "IpfixModel", "Generated", "Registry.lean")

T = dict(octetArray=0, unsigned8=1, unsigned16=2, unsigned32=3, unsigned64=4, signed8=5, signed16=6, signed32=7,
         signed64=8, float32=9, float64=10, boolean=11, macAddress=12, string=13, dateTimeSeconds=14,
         dateTimeMilliseconds=15, dateTimeMicroseconds=16, dateTimeNanoseconds=17, ipv4Address=18, ipv6Address=19,
         basicList=20, subTemplateList=21, subTemplateMultiList=22, invalid=255)
WIDTH = {1: 1, 2: 2, 3: 4, 4: 8, 5: 1, 6: 2, 7: 4, 8: 8, 9: 4, 10: 8, 14: 4, 15: 8}
SUPPORTED = [0, 1, 2, 3, 4, 5, 6, 7, 8, 9, 10, 11, 12, 13, 14, 15, 18, 19]
UNSUPPORTED = [16, 17, 20, 21, 22, 255]


class IE:
    __slots__ = ("ent", "id", "ty", "len", "name")

    def __init__(self, ent, id, ty, len, name):
        self.ent, self.id, self.ty, self.len, self.name = ent, id, ty, len, name

    def tok(self):
        return "%d:%d:%d:%d:%s" % (self.ent, self.id, self.ty, self.len, hexs(self.name.encode()))

    def __repr__(self):
        return "IE(%s)" % self.tok()


def hexs(b):
    return b.hex() if b else "-"


_registry = None


def registry():
    """list of IE from Generated.registryByID"""
    global _registry
    if _registry is None:
        txt = open(REG).read()
        txt = txt[txt.index("def registryByID"):]
        _registry = [IE(int(e), int(i), int(t), int(l), n) for e, i, t, l, n in
                     re.findall(r'\((\d+), (\d+), (\d+), (\d+), "([^"]*)"\)', txt)]
    return _registry


def registry_supported():
    return [ie for ie in registry() if ie.ty in SUPPORTED]


def by_type():
    d = {}
    for ie in registry():
        d.setdefault(ie.ty, []).append(ie)
    return d


F32_SPECIAL = [0, 0x80000000, 0x3f800000, 0xbf800000, 0x7f800000, 0xff800000, 0x7fc00000, 0x7fc00001, 0x7f800001,
               0xffc00000, 0x7fffffff, 0x00000001, 0x007fffff, 0x00800000, 0x7f7fffff, 0xff7fffff]
F64_SPECIAL = [0, 1 << 63, 0x3ff0000000000000, 0xbff0000000000000, 0x7ff0000000000000, 0xfff0000000000000,
               0x7ff8000000000000, 0x7ff8000000000001, 0x7ff0000000000001, 0xfff8000000000000, 0x7fffffffffffffff,
               1, 0x000fffffffffffff, 0x0010000000000000, 0x7fefffffffffffff]


def num_boundaries(w):
    m = 1 << (8 * w)
    c = [0, 1, 2, m - 1, m - 2, m // 2, m // 2 - 1, m // 2 + 1, 255, 256, 65535, 65536, (1 << 32) - 1, 1 << 32,
         (1 << 32) + 1, (1 << 61) - 1, (1 << 61) + 1]
    return sorted(set(x for x in c if 0 <= x < m))


def rand_num(rng, ty):
    w = WIDTH[ty]
    r = rng.random()
    if ty == 9 and r < 0.3:
        return rng.choice(F32_SPECIAL)
    if ty == 10 and r < 0.3:
        return rng.choice(F64_SPECIAL)
    if r < 0.35:
        return rng.choice(num_boundaries(w))
    if r < 0.5:
        return rng.getrandbits(rng.randint(1, 8 * w))
    return rng.getrandbits(8 * w)


def rand_bytes(rng, n):
    return bytes(rng.getrandbits(8) for _ in range(n)) if n < 64 else rng.getrandbits(8 * n).to_bytes(n, "big")


VAR_BOUNDARY = [0, 1, 2, 253, 254, 255, 256, 257, 300, 1000]
VAR_BIG = [65534, 65535]


def rand_var_len(rng, big_ok=True, maxlen=400):
    r = rng.random()
    if r < 0.4:
        return rng.choice(VAR_BOUNDARY)
    if big_ok and r < 0.43:
        return rng.choice(VAR_BIG)
    if r < 0.8:
        return rng.randint(0, 40)
    return rng.randint(0, maxlen)


def well_typed_value(rng, ie, big_ok=True, maxlen=400):
    """a value token the element can carry"""
    ty = ie.ty
    if ty in WIDTH:
        return "n%d" % rand_num(rng, ty)
    if ty == 11:
        return rng.choice(["t", "f"])
    if ty == 12:
        return "x" + hexs(rand_bytes(rng, 6))
    if ty == 13:
        n = rand_var_len(rng, big_ok, maxlen)
        if rng.random() < 0.5:
            return "x" + hexs(bytes(rng.choice(b"abcdefghijklmnopqrstuvwxyz-/0123456789") for _ in range(n)))
        return "x" + hexs(rand_bytes(rng, n))
    if ty == 0:
        if ie.len < 65535:
            return "x" + hexs(rand_bytes(rng, ie.len))
        return "x" + hexs(rand_bytes(rng, rand_var_len(rng, big_ok, maxlen)))
    if ty == 18:
        b = rand_bytes(rng, 4) if rng.random() < 0.8 else rng.choice([b"\0\0\0\0", b"\xff\xff\xff\xff", b"\x7f\0\0\1"])
        if rng.random() < 0.2:
            b = b"\0" * 10 + b"\xff\xff" + b  # 16-byte v4-mapped form of the same address
        return "x" + hexs(b)
    if ty == 19:
        r = rng.random()
        if r < 0.7:
            return "x" + hexs(rand_bytes(rng, 16))
        if r < 0.8:
            return "x" + hexs(b"\0" * 16)
        if r < 0.9:
            return "x" + hexs(b"\0" * 10 + b"\xff\xff" + rand_bytes(rng, 4))
        return "x" + hexs(rand_bytes(rng, 4))  # To16 maps a 4-byte address into ::ffff:a.b.c.d
    return "x-"


def ill_typed_value(rng, ie):
    """(token, kind) for a value the element cannot carry, or None if the type has none"""
    ty = ie.ty
    if ty == 12:
        n = rng.choice([0, 1, 3, 5, 7, 8, 12])
        return "x" + hexs(rand_bytes(rng, n)), "mac-len-%s" % ("short" if n < 6 else "long")
    if ty == 18:
        r = rng.random()
        if r < 0.5:
            b = rand_bytes(rng, 16)
            if b[:12] == b"\0" * 10 + b"\xff\xff":
                b = b"\x20" + b[1:]
            return "x" + hexs(b), "ipv4-elem-ipv6-value"
        n = rng.choice([0, 1, 3, 5, 15, 17])
        return "x" + hexs(rand_bytes(rng, n)), "ipv4-elem-bad-length"
    if ty == 19:
        n = rng.choice([0, 1, 3, 5, 15, 17, 32])
        return "x" + hexs(rand_bytes(rng, n)), "ipv6-elem-bad-length"
    if ty == 0 and ie.len < 65535:
        n = rng.choice([x for x in (0, 1, ie.len - 1, ie.len + 1, ie.len * 2) if x >= 0 and x != ie.len])
        return "x" + hexs(rand_bytes(rng, n)), "octets-fixed-len-mismatch"
    if ty in (13, 0):
        n = rng.choice([65536, 65537, 70000])
        return "x" + hexs(rand_bytes(rng, n)), "varlen-too-long"
    return None


def case_hash(ops):
    h = hashlib.blake2b(digest_size=8)
    for o in ops:
        h.update(o.encode())
        h.update(b"\n")
    return h.digest()


class Counter(dict):
    def add(self, k, n=1):
        self[k] = self.get(k, 0) + n
