"""C08 - exporter sequence numbers and header bookkeeping across a session."""
import random

from check import Case
from gen import common as G
from gen import expcommon as X
from gen.simple import run_simple


class SPEC:
    rule = ("engine exp: sessions of <= 30 successful template and data SendSet calls with 1..200 records, half of the sessions starting "
            "within 500 of 2^32 (overlay setter VerifSetSeq) so that they cross the wrap; every transmitted header is parsed by the "
            "independent parser and compared with the tracker (records of data messages transmitted so far mod 2^32, configured domain, "
            "export time inside the wall-clock window of the call, returned byte count = bytes written, exactly one message per call). "
            "Non-trivial = >= 2 data messages; distinct by hash.")
    assumptions = ["failed SendSet attempts are outside C08 (a failed oversize data send advances the counter: failed_send_bumps_seq)"]
    trusted = []


def run(ctx):
    rng = random.Random(ctx.seed * 1000003 + 8)
    sup = G.registry_supported()
    small = [ie for ie in sup if ie.ty in (1, 2, 3)]
    cases = []
    n = 1200 if ctx.tier == "quick" else 60000
    for k in range(n):
        ops = ["exp new %d" % rng.getrandbits(32)]
        if k % 2 == 0:
            ops.append("exp seq %d" % (2 ** 32 - rng.randint(1, 500)))
        ies = [rng.choice(small) for _ in range(rng.randint(1, 3))]
        ops.append(X.send_template(rng, 256, ies))
        ndata = 0
        for _ in range(rng.randint(1, 30)):
            r = rng.random()
            if r < 0.12:
                ops.append(X.send_template(rng, 256, ies))
            elif r < 0.2:
                # a pass of the UDP template refresher: its messages carry the CURRENT counter and wall-clock second too
                ops.append("exp refresh")
            else:
                ops.append(X.send_data(rng, 256, ies, rng.choice([1, 2, 5, 50, 200, rng.randint(1, 200)])))
                ndata += 1
        ops.append("exp getseq")
        cases.append(Case(ops, "wrap" if k % 2 == 0 else "plain", ndata >= 2, True))
    res = run_simple(ctx, cases, "C08", chk_filter=lambda op: True, stateful_chk=True,
                     signature=lambda c, oi, v, agrees: "C08:%s" % " ".join(v.split(" ")[:2]))
    res["evaluations"] = sum(1 for c in cases for o in c.ops if o.startswith("exp send"))
    return res
