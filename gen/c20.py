"""C20 - the standalone collector's bounded, ordered record store: correspondence generator and runner.

The code under test is `package main` (cmd/collector), so the implementation driver is a test
binary of that package built with an overlay `_test.go` (harness/overlay/cmdcollector); a small
wrapper script gives it the line protocol on stdin/stdout. The model side is the Lean
executable `driver_store` (Driver/MainStore.lean); the `chk` pass evaluates Ipfix.C20.verdict on
the implementation's observations, session by session (the tracker is stateful).
"""
import os
import random
import stat

import check
from check import Case
from gen import common as G

CAP = None  # read from the regenerated constants


def cap():
    global CAP
    if CAP is None:
        import re
        txt = open(os.path.join(check.LEAN, "IpfixModel", "Generated", "Consts.lean")).read()
        CAP = int(re.search(r"def cmaxFlowRecords : Nat := (\d+)", txt).group(1))
    return CAP


class SPEC:
    driver_target = "driver_store"
    rule = ("engine store: sessions of operations on the real package-level store of cmd/collector, every session starting "
            "with POST /reset: arrivals (`addIPFIXMessage` on template / data messages built with the public entities API; "
            "header fields at their uint16/uint32 boundaries, 0..3 records, 0..10 fields drawn by type from the registry plus "
            "user-defined elements of every non-float supported type, UTF-8 strings with JSON-sensitive characters, "
            "4/16-byte/v4-mapped/odd-length addresses), GET /records with count in {absent, empty, 0, 1, small, exactly "
            "stored, stored+1, huge, negative, -0, +n, leading zeros, non-numeric, > int64} x format in {absent, empty, json, "
            "text, invalid} through net/http/httptest, wrong methods on both endpoints, POST /reset. Session kinds: small "
            "(0..40 ops), boundary (fill to cap-2..cap+3 with queries around the cap), flood (more than 3 x cap arrivals of "
            "tiny entries with queries and, in some, a reset on the way), huge (one legal message of 600..3000 records of 20..64 one- or "
            "two-octet fields - at most 65535 octets on the wire, more than a mebibyte rendered - queried in both formats). Observations: entries held + newest entry after "
            "every arrival, status + full body for every request; compared byte for byte with the Lean model; "
            "Ipfix.C20.verdict evaluated on every implementation observation. A session is non-trivial if its arrivals "
            "exceed the cap or it contains a valid query; distinct by hash of the ops.")
    assumptions = [
        "string-typed values and element names are valid UTF-8 (a Lean String cannot hold other byte strings; Go copies the bytes verbatim)",
        "time.Local = time.UTC in the driver (the model renders time.Unix(t,0) in UTC); export time < 2^32",
        "float32/float64 fields are not generated and not demanded by the predicate: Go's %v shortest float formatting is not modelled",
        "every session starts with POST /reset: the Go store is nil before the first reset (JSON null), the model starts from the empty slice",
        "handlers are called directly through httptest (no ServeMux, no real socket): routing and HEAD handling of net/http are out of scope",
        "one goroutine: the mutex discipline of the store is not part of C20's model",
    ]
    trusted = [
        "cmd/collector test binary built with -overlay (harness/overlay/cmdcollector/verif_driver_test.go) + wrapper script .bin/harness-cmdcollector.sh",
        "modelled, not verified: strconv.Atoi, encoding/json string escaping (escapeHTML), http.Error, net.IP.String, net.HardwareAddr.String, fmt %v of integers/bools/[]byte, time.Time.String in UTC",
    ]


# ----------------------------------------------------------------------------------------
# harness


def build_harness():
    """test binary of /repo/cmd/collector with the overlay driver; returns (ok, err, wrapper path)"""
    with check.Lock("harness-cmdcollector"):
        os.makedirs(check.BIN, exist_ok=True)
        ov = check.write_overlay()
        binp = os.path.join(check.BIN, "harness-cmdcollector")
        r = check.run(["go", "test", "-c", "-vet=off", "-tags", "verif", "-overlay", ov, "-o", binp, "./cmd/collector"],
                      cwd=check.REPO, env=check.GOENV, timeout=1800)
        if r.returncode != 0:
            return False, r.stderr, binp
        wrapper = os.path.join(check.BIN, "harness-cmdcollector.sh")
        txt = ("#!/bin/sh\n"
               "# line protocol on stdin/stdout: observations are written to fd 3 (= our stdout); the test binary's own\n"
               "# output (PASS / ok) is dropped\n"
               "exec 3>&1\n"
               "VERIF_OPS_STDIN=1 exec %s -test.run '^TestVerifDriver$' -test.timeout 0 >/dev/null 2>&1\n" % binp)
        if not os.path.exists(wrapper) or open(wrapper).read() != txt:
            open(wrapper, "w").write(txt)
        os.chmod(wrapper, os.stat(wrapper).st_mode | stat.S_IXUSR | stat.S_IXGRP | stat.S_IXOTH)
        return True, "", wrapper


# ----------------------------------------------------------------------------------------
# generators

U16 = [0, 1, 9, 10, 11, 255, 256, 65534, 65535]
U32 = [0, 1, 255, 65535, 65536, (1 << 31) - 1, 1 << 31, (1 << 32) - 2, (1 << 32) - 1]
TIMES = [0, 1, 59, 60, 3599, 3600, 86399, 86400, 68169599, 68169600, 951782399, 951782400, 951868800, 978307199, 978307200,
         1078099199, 1078099200, 1257894000, 1709164800, 1735689599, 1735689600, (1 << 31) - 1, 1 << 31, 4107542399, 4107542400,
         4291747199, (1 << 32) - 1]

SHOWN_TYPES = [0, 1, 2, 3, 4, 5, 6, 7, 8, 11, 12, 13, 14, 15, 18, 19]      # value printed, modelled
ERROR_TYPES = [16, 17, 20, 21, 22, 255]                                     # fixed text printed
USER_NAMES = ["userElem", "x", "a b", "pct%d%s", "na:me", "n\u00e9", "\u540d\u524d", "q\"uote", "back\\slash", "<tag>&", "e\u2028l", "tab\there", ""]
# ('%': a rendered entry must never be used as a printf format; 'd', 's', 'v', '!' follow it often enough to form verbs)
STR_ALPHABET = (list("abcdefghijklmnopqrstuvwxyz-/0123456789 .:,=()[]") + ["%", "%", "%d", "%s", "%v", "%!", "%%", "100%"] +
                ["\"", "\\", "<", ">", "&", "'", "\n", "\r", "\t", "\x00", "\x01", "\x08", "\x0c", "\x1f", "\x7f", "\u00e9", "\u00ff",
                 "\u0100", "\u07ff", "\u0800", "\u2027", "\u2028", "\u2029", "\u202a", "\ufffd", "\uffff", "\U00010000",
                 "\U0001f600", "\U0010ffff"])
TLEN = {0: 65535, 13: 65535, 12: 6, 18: 4, 19: 16, 11: 1, 16: 8, 17: 8, 20: 65535, 21: 65535, 22: 65535, 255: 0}


def pick_u(rng, table, bits):
    return rng.choice(table) if rng.random() < 0.5 else rng.getrandbits(rng.randint(1, bits))


def user_ie(rng, ty):
    ln = G.WIDTH.get(ty, TLEN.get(ty, 0))
    if ty == 0 and rng.random() < 0.5:
        ln = rng.randint(1, 16)
    return G.IE(rng.choice([0, 1, 55555, 56506, (1 << 32) - 1]), rng.randint(1, 32767), ty, ln, rng.choice(USER_NAMES))


def pick_ie(rng, types, bt):
    ty = rng.choice(types)
    if ty in bt and rng.random() < 0.8:
        return rng.choice(bt[ty])
    return user_ie(rng, ty)


def utf8_string(rng, n):
    return "".join(rng.choice(STR_ALPHABET) for _ in range(n)).encode("utf-8")


def value_for(rng, ie):
    ty = ie.ty
    if ty == 13:
        r = rng.random()
        n = 0 if r < 0.1 else rng.randint(1, 12) if r < 0.8 else rng.randint(13, 300)
        return "x" + G.hexs(utf8_string(rng, n))
    if ty in ERROR_TYPES:
        return rng.choice(["x-", "n0", "t", "x0102", "n%d" % rng.getrandbits(64)])
    if ty in (12, 18, 19) and rng.random() < 0.08:
        return "x" + G.hexs(G.rand_bytes(rng, rng.choice([0, 1, 3, 5, 7, 8, 15, 17, 20])))   # odd lengths still print
    if ty == 19 and rng.random() < 0.5:
        # addresses with zero runs: the :: compression of net.IP.String
        groups = [rng.choice([0, 0, 0, 1, 0xff, 0x100, 0xabcd, 0xffff]) for _ in range(8)]
        return "x" + G.hexs(b"".join(g.to_bytes(2, "big") for g in groups))
    if ty == 0:
        n = ie.len if ie.len < 65535 else rng.choice([0, 1, 2, 3, 8, 40])
        return "x" + G.hexs(G.rand_bytes(rng, n))
    return G.well_typed_value(rng, ie, big_ok=False, maxlen=60)


def header(rng, seq=None):
    ver = 10 if rng.random() < 0.7 else pick_u(rng, U16, 16)
    dom = pick_u(rng, U32, 32)
    seq = pick_u(rng, U32, 32) if seq is None else seq
    ln = pick_u(rng, U16, 16)
    tm = rng.choice(TIMES) if rng.random() < 0.5 else rng.getrandbits(32)
    tid = rng.choice([256, 257, 65535, rng.randint(256, 65535)])
    return "%d %d %d %d %d %d" % (ver, dom, seq, ln, tm, tid)


def gen_add(rng, bt, seq=None, tiny=False):
    if tiny:
        r = rng.random()
        if r < 0.6:
            return "store add tpl %s ~" % header(rng, seq)
        if r < 0.9:
            return "store add tpl %s %s" % (header(rng, seq), rng.choice(bt[1]).tok())
        ie = rng.choice(bt[1])
        return "store add data %s %s n%d" % (header(rng, seq), ie.tok(), rng.getrandbits(8))
    if rng.random() < 0.3:
        nrec = rng.choice([0, 1, 1, 1, 2, 3])
        if nrec == 0:
            return "store add tpl %s ~" % header(rng, seq)
        groups = []
        for _ in range(nrec):
            nf = rng.choice([0, 1, 2, 3, 5, 10])
            groups.append(",".join(pick_ie(rng, SHOWN_TYPES + [9, 10] + ERROR_TYPES, bt).tok() for _ in range(nf)) or "-")
        return "store add tpl %s %s" % (header(rng, seq), ";".join(groups))
    nf = rng.choice([0, 1, 1, 2, 3, 5, 10])
    types = SHOWN_TYPES if rng.random() < 0.85 else SHOWN_TYPES + ERROR_TYPES
    ies = [pick_ie(rng, types, bt) for _ in range(nf)]
    nrec = rng.choice([0, 1, 1, 1, 2, 3])
    recs = [",".join(value_for(rng, ie) for ie in ies) or "." for _ in range(nrec)]
    return "store add data %s %s %s" % (header(rng, seq), ",".join(ie.tok() for ie in ies) or "-", ";".join(recs) or "-")


def param(s):
    return "-" if s is None else "h" + s.encode("utf-8").hex()


VALID_FORMATS = [None, "", "json", "text"]
BAD_FORMATS = ["xml", "JSON", "Text", "text ", "jso", "text,json", "\u00e9"]
BAD_COUNTS = ["-1", "-5", "abc", "1.0", "1e3", " 1", "1 ", "+", "-", "0x10", "1_0", "9223372036854775808", "-9223372036854775809",
              "99999999999999999999999", "\u0661", "1;2"]


def gen_count(rng, stored):
    """(raw parameter or None, valid?)"""
    r = rng.random()
    if r < 0.12:
        return None, True
    if r < 0.16:
        return "", True
    if r < 0.78:
        n = rng.choice([0, 1, 2, 3, stored, stored + 1, max(stored - 1, 0), stored // 2, rng.randint(0, stored + 5), cap(), cap() + 1,
                        10 ** 9, (1 << 63) - 1])
        s = str(n)
        q = rng.random()
        if q < 0.1:
            s = "+" + s
        elif q < 0.2:
            s = "00" + s
        elif q < 0.25 and n == 0:
            s = "-0"
        return s, True
    return rng.choice(BAD_COUNTS), False


def gen_query(rng, stored, small_body=False):
    """one request to /records; returns (op, is a valid query)"""
    if rng.random() < 0.08:
        m = rng.choice(["POST", "PUT", "DELETE", "HEAD", "PATCH", "get", "OPTIONS"])
        c, _ = gen_count(rng, stored)
        return "store records %s %s %s" % (m, param(c), param(rng.choice(VALID_FORMATS + BAD_FORMATS))), False
    c, okc = gen_count(rng, stored)
    if small_body and okc and (c in (None, "") or int(c) > 8):
        c = str(rng.randint(0, 8))
    if rng.random() < 0.12:
        return "store records GET %s %s" % (param(c), param(rng.choice(BAD_FORMATS))), False
    return "store records GET %s %s" % (param(c), param(rng.choice(VALID_FORMATS))), okc


def gen_reset(rng):
    if rng.random() < 0.6:
        return "store reset POST", True
    return "store reset %s" % rng.choice(["GET", "PUT", "DELETE", "HEAD", "post"]), False


class Session:
    def __init__(self, kind):
        self.kind = kind
        self.ops = ["store reset POST"]
        self.stored = 0          # arrivals since the last reset
        self.max_arrivals = 0
        self.valid_queries = 0

    def add(self, op):
        self.ops.append(op)
        self.stored += 1
        self.max_arrivals = max(self.max_arrivals, self.stored)

    def query(self, rng, small_body=False):
        op, ok = gen_query(rng, min(self.stored, cap()), small_body)
        self.ops.append(op)
        self.valid_queries += ok

    def reset(self, rng, force=False):
        op, ok = ("store reset POST", True) if force else gen_reset(rng)
        self.ops.append(op)
        if ok:
            self.stored = 0

    def case(self):
        nontrivial = self.max_arrivals > cap() or self.valid_queries > 0
        c = Case(self.ops, self.kind, nontrivial, True)
        return c


def small_session(rng, bt):
    s = Session("small")
    for _ in range(rng.choice([0, 1, 3, 8, 20, 40])):
        r = rng.random()
        if r < 0.55:
            s.add(gen_add(rng, bt))
        elif r < 0.9:
            s.query(rng)
        else:
            s.reset(rng)
    if rng.random() < 0.8:
        s.query(rng)
    return s


def boundary_session(rng, bt):
    """fill the store to just around the cap; look at it before, at and after the cap"""
    s = Session("boundary")
    target = cap() + rng.choice([-2, -1, 0, 1, 2, 3])
    i = 0
    while s.stored < target:
        s.add(gen_add(rng, bt, seq=i, tiny=True))
        i += 1
        if s.stored >= cap() - 2:
            s.query(rng, small_body=True)
    s.ops.append("store records GET - %s" % param(rng.choice(["json", "text"])))
    s.ops.append("store records GET %s %s" % (param(str(cap())), param(rng.choice(["json", "text"]))))
    s.valid_queries += 2
    s.query(rng, small_body=True)
    return s


def flood_session(rng, bt, with_reset):
    """more than 3 x cap arrivals of tiny entries (sequence number = arrival index)"""
    s = Session("flood-reset" if with_reset else "flood")
    total = 3 * cap() + rng.randint(1, 200)
    reset_at = rng.randint(cap() + 1, 2 * cap()) if with_reset else -1
    full_at = {rng.randint(cap(), total - 1), total - 1}
    for i in range(total):
        s.add(gen_add(rng, bt, seq=i, tiny=True))
        if i == reset_at:
            s.query(rng, small_body=True)
            s.reset(rng, force=True)
            s.query(rng, small_body=True)
        if i % 997 == 0 or i in (cap() - 1, cap(), 2 * cap(), 3 * cap()):
            s.query(rng, small_body=True)
        if i in full_at:
            s.ops.append("store records GET %s %s" % (param(rng.choice([None, str(cap()), str(cap() + 7)])), param(rng.choice(["json", "text"]))))
            s.valid_queries += 1
            # ... and a full-window query DURING which further messages arrive (the response must be that of
            # the store as it was; the store lock is what makes it so)
            k = rng.choice([1, 3, 5])
            s.ops.append("store recordsc GET %s %s %d" % (param(rng.choice([None, str(cap()), "10"])), param(rng.choice(["text", "text", "json"])), k))
            s.valid_queries += 1
            s.stored += k
            s.max_arrivals += k
            s.query(rng, small_body=True)
    s.ops.append("store reset GET")
    s.query(rng, small_body=True)
    s.reset(rng, force=True)
    s.ops.append("store records GET - -")
    s.valid_queries += 1
    return s


def huge_session(rng, bt):
    """one legal message (<= 65535 octets on the wire) whose RENDERING is huge: hundreds of records of dozens of short
    fields, more than a mebibyte of text - every field of every record must still be in the entry, in both formats"""
    s = Session("huge")
    if rng.random() < 0.5:
        s.add(gen_add(rng, bt))
    nf = rng.choice([20, 50, 64])
    # the first field of every record is a 32-bit counter: its line occurs ONCE in the rendering (the short fields' lines
    # repeat from record to record, and a line is demanded to occur, not to occur once per record)
    ies = [rng.choice(bt[3])] + [rng.choice(bt[1] + bt[11] + bt[2]) for _ in range(nf - 1)]
    width = sum(G.WIDTH.get(ie.ty, 1) for ie in ies)
    nrec = min((65535 - 20) // width, rng.choice([600, 1200, 3000]))
    base = rng.getrandbits(31)
    recs = [",".join(["n%d" % (base + k)] + [("n%d" % rng.getrandbits(8)) if ie.ty != 11 else rng.choice("tf") for ie in ies[1:]])
            for k in range(nrec)]
    s.add("store add data %s %s %s" % (header(rng), ",".join(ie.tok() for ie in ies), ";".join(recs)))
    for fmt in ("text", "json"):
        s.ops.append("store records GET %s %s" % (param("1"), param(fmt)))
        s.valid_queries += 1
    if rng.random() < 0.5:
        s.add(gen_add(rng, bt))
        s.ops.append("store records GET %s %s" % (param("2"), param(rng.choice(["text", "json"]))))
        s.valid_queries += 1
    return s


def gen_cases(rng, tier):
    bt = G.by_type()
    sessions = []
    nsmall, nbound, nflood = (400, 2, 3) if tier == "quick" else (120000, 48, 160)
    for _ in range(3 if tier == "quick" else 40):
        sessions.append(huge_session(random.Random(rng.getrandbits(64)), bt))
    for i in range(nflood):
        sessions.append(flood_session(rng, bt, with_reset=(i % 3 == 2)))
    for _ in range(nbound):
        sessions.append(boundary_session(rng, bt))
    for _ in range(nsmall):
        sessions.append(small_session(rng, bt))
    # spread the long sessions over the shards (exec_cases cuts the list into contiguous chunks)
    rng.shuffle(sessions)
    return [s.case() for s in sessions]


# ----------------------------------------------------------------------------------------
# runner


def why_code(v):
    p = v.split(" ")
    return p[1] if len(p) > 1 and p[0] == "fails" else p[0]


def session_fails(harness, driver, ops, code):
    """does C20's predicate still fail (with the same reason code) on this op list?"""
    impl, _ = check.run_ops(harness, ops, timeout=600)
    if len(impl) < len(ops):
        impl = impl + ["missing"] * (len(ops) - len(impl))
    chk = ["chk %s | %s" % (o, i) for o, i in zip(ops, impl)]
    verd, _ = check.run_ops(driver, chk, timeout=600)
    return any(v != "holds" and why_code(v) == code for v in verd)


def run(ctx):
    rng = random.Random(ctx.seed * 1000003 + 20)
    cases = gen_cases(rng, ctx.tier)
    shards = min(ctx.cores, 16 if ctx.tier == "thorough" else 8)
    impl, model = ctx.both(cases, shards=shards)

    dist = G.Counter()
    seen = set()
    disagreements = []
    for ci, c in enumerate(cases):
        dist.add("session:" + c.label)
        if c.nontrivial:
            seen.add(G.case_hash(c.ops))
        for oi, op in enumerate(c.ops):
            i, m = impl[ci][oi], model[ci][oi]
            p = op.split(" ")
            dist.add("op:" + " ".join(p[1:3] if p[1] != "records" else p[1:2]))
            if p[1] != "add":
                dist.add("status:" + (i or "missing").split(" ")[0])
            if i != m and len(disagreements) < 50:
                disagreements.append({"case": ci, "op_index": oi, "ops": c.ops[:oi + 1] if oi < 300 else [c.ops[0], "... %d ops ..." % (oi - 1), op],
                                      "impl": (i or "")[:400], "model": (m or "")[:400], "label": c.label})

    # predicate pass: one chk case per session (the tracker follows the session)
    chk_cases = [Case(["chk %s | %s" % (op, impl[ci][oi]) for oi, op in enumerate(c.ops)]) for ci, c in enumerate(cases)]
    verdicts = check.exec_cases(ctx.driver, chk_cases, shards=shards)
    failures = []
    fail_cases = set()
    minimised = set()
    for ci, c in enumerate(cases):
        for oi, v in enumerate(verdicts[ci]):
            if v == "holds":
                continue
            fail_cases.add(ci)
            code = why_code(v or "missing")
            sig = "C20:%s:%s" % (c.label, code)
            if len(failures) >= 50:
                break
            ops = c.ops[:oi + 1]
            note = "first failing operation of the session: #%d %s" % (oi, c.ops[oi][:200])
            if sig not in minimised and len(minimised) < 5 and len(ops) <= 400:
                minimised.add(sig)
                try:
                    tail = check.ddmin(ops[1:], lambda cand: session_fails(ctx.harness, ctx.driver, [ops[0]] + cand, code))
                    if session_fails(ctx.harness, ctx.driver, [ops[0]] + tail, code):
                        ops = [ops[0]] + tail
                        note += " (minimised to %d ops)" % len(ops)
                except Exception as e:  # minimisation is best effort
                    note += " (not minimised: %s)" % e
            failures.append({"signature": sig, "ops": ops, "impl": (impl[ci][oi] or "")[:400], "model": (model[ci][oi] or "")[:400],
                             "predicate": {"name": "Ipfix.C20.verdict", "value": v}, "note": note})
            break   # one failure per session
    for d in disagreements:
        d["explained_by_predicate_failure"] = d["case"] in fail_cases

    def sample(i):
        c = cases[i]
        return {"label": c.label, "n_ops": len(c.ops), "ops": [o[:200] for o in c.ops[:6]], "impl": [(o or "")[:200] for o in impl[i][:6]]}
    samples = [sample(i) for i in (0, len(cases) // 3, len(cases) // 2, len(cases) - 1)]
    n_ops = sum(len(c.ops) for c in cases)
    longest = max(len(c.ops) for c in cases)
    over = sum(1 for c in cases if c.label.startswith("flood"))
    return {"evaluations": len(cases), "distinct_nontrivial": len(seen), "samples": samples, "distribution": dict(dist),
            "disagreements": disagreements, "predicate_failures": failures, "exhaustive": False,
            "notes": ["%d sessions, %d operations in total, longest session %d operations; %d sessions with more than 3 x cap = %d arrivals"
                      % (len(cases), n_ops, longest, over, 3 * cap()),
                      "time.Unix rendering compared exactly (driver sets time.Local = UTC); IPv6 text form compared exactly (RFC 5952 "
                      "compression modelled); floats not generated"]}
