"""C07 - inter-node correlation: withheld until both sides seen, merged field-complete."""
import itertools
import random

from check import Case
from gen import aggcommon as AG
from gen import common as G
from gen.simple import run_simple


class SPEC:
    rule = ("engine agg under the virtual clock: for one to three flow keys, ALL arrival orders and multiplicities of source-node (S) and "
            "destination-node (D) records of length <= 5 (quick; 6 thorough) x flow kinds {inter-node needing correlation, inter-node denied at "
            "egress (drop / reject), inter-node rejected at ingress, intra-node, to-external} x emptiness patterns of the correlate fields on "
            "either side (plus: both records of a flow in ONE data set, in both orders, encoded by the exporter code and decoded by a collecting process - "
            "the production path), with expiry scans placed after every prefix (deadlines reached by advancing the clock, so unready flows go through the "
            "retry / drop path) and a dump after every step; plus random mixes. The correlation spec Ipfix.C07.checkShown (ready iff both sides "
            "seen or no correlation needed; never exported unready; every field non-empty on either side is non-empty in the merged record and "
            "comes from one of them; filled flag) is evaluated on every exported and dumped record of the implementation. Non-trivial = records "
            "from both nodes or a retry.")
    assumptions = ["all records of one flow agree on whether correlation is needed (a flow whose records disagree behaves order-dependently; outside 'a flow that needs correlation')"]
    trusted = ["the overlay's mechanical rewrite time.Now() -> verifNow() in pkg/intermediate"]


A, I = 100, 250
STATS = [10, 5, 1000, 500, 3, 1, 300, 100]

KINDS = {
    "inter": dict(ft=2, ingress=0, egress=0),
    "inter-allow": dict(ft=2, ingress=1, egress=1),
    "egress-drop": dict(ft=2, ingress=0, egress=2),
    "egress-reject": dict(ft=2, ingress=0, egress=3),
    "ingress-reject": dict(ft=2, ingress=3, egress=0),
    "ingress-drop": dict(ft=2, ingress=2, egress=0),
    "intra": dict(ft=1),
    "external": dict(ft=3),
}

EXTRAS = [
    (dict(src_ns="nsA", src_node="node1"), dict(dst_ns="nsB", dst_node="node2", cluster="0a600001", svc_port=443, prio=4294967295)),
    (dict(), dict()),
    (dict(src_ns="nsA", src_node="node1", cluster="0a600002", svc_port=80), dict(dst_ns="nsB")),
    (dict(src_ns="", src_node="node1", dst_ns="fromsrc"), dict(dst_node="node2", src_ns="fromdst", prio=7)),
    # IPv6 cluster address known to one side only / to both sides with different values (the later non-empty one wins)
    (dict(src_ns="nsA", cluster6="fd000000000000000000000000000001", svc_port=8080), dict(dst_ns="nsB")),
    (dict(cluster6="fd000000000000000000000000000001"), dict(cluster6="fd0000000000000000000000000000ff", cluster="0a600003")),
    (dict(), dict(cluster6="00000000000000000000ffff00000000")),
]


def record(kind, side, key, n, extras):
    k = KINDS[kind]
    stats = [x * n for x in STATS]
    if k["ft"] != 2:
        if kind == "intra":
            return AG.rec_op(key, 1, AG.corr("podA", "podB"), 100, 100 + n, stats)
        return AG.rec_op(key, 3, AG.corr("podA", ""), 100, 100 + n, stats)
    es, ed = extras
    if side == "S":
        return AG.inter_src(key, 100, 100 + n, stats, ingress=k["ingress"], egress=k["egress"], extra=es)
    return AG.inter_dst(key, 100, 100 + n, stats, ingress=k["ingress"], egress=k["egress"], extra=ed)


def gen_cases(rng, tier):
    cases = []
    maxlen = 5 if tier == "quick" else 6
    for kind in KINDS:
        for n in range(1, maxlen + 1):
            for order in itertools.product("SD", repeat=n):
                for xi, extras in enumerate(EXTRAS if KINDS[kind]["ft"] == 2 else EXTRAS[:1]):
                    if n > 3 and xi > 1:
                        continue
                    for scan_at in ([None] + list(range(1, n + 1)) if n <= 3 else [None, rng.randint(1, n)]):
                        ops = ["agg new %d %d" % (A, I)]
                        cnt = 0
                        # the two nodes need not list the fields of their records in the same order: in some cases the
                        # destination node's (or every) record is handed over with its elements permuted
                        permute = rng.choice([None, None, "D", "all"])
                        for j, side in enumerate(order):
                            cnt += 1
                            rec = record(kind, side, 1, cnt, extras)
                            if permute == "all" or permute == side:
                                rec += " p%d" % rng.randrange(1, 1 << 30)
                            ops += [rec, "agg dump"]
                            if scan_at is not None and j + 1 == scan_at:
                                # three scans at the active deadline: retries then drop for unready flows
                                for _ in range(3):
                                    ops += ["agg adv %d" % A, "agg scan - 0", "agg dump"]
                        ops += ["agg adv %d" % I, "agg scan - 1", "agg dump"]
                        nt = ("S" in order and "D" in order) or scan_at is not None
                        cases.append(Case(ops, kind, nt, True))
    nr = 300 if tier == "quick" else 20000
    kinds = list(KINDS)
    for _ in range(nr):
        ops = ["agg new %d %d" % (A, I)]
        kmap = {k: rng.choice(kinds) for k in (1, 2, 3)}
        xmap = {k: rng.choice(EXTRAS) for k in (1, 2, 3)}
        cnt = 0
        for _ in range(rng.randint(3, 60)):
            r = rng.random()
            if r < 0.6:
                key = rng.choice([1, 2, 3])
                cnt += 1
                ops += [record(kmap[key], rng.choice("SD"), key, cnt, xmap[key]), "agg dump"]
            elif r < 0.8:
                ops += ["agg adv %d" % rng.choice([1, 50, A, I - A, I]), "agg dump"]
            else:
                ops += ["agg scan %s %d" % (rng.choice(["-", "-", "1", "2"]), rng.choice([0, 1])), "agg dump"]
        cases.append(Case(ops, "random", True, True))
    cases += msg_cases(random.Random(rng.randrange(1 << 30)), tier)
    return cases


def msg_cases(rng, tier):
    """the source-node and the destination-node record of a flow arrive in ONE data set, decoded by a collecting
    process (`agg msg`), in both orders; alone, with a record of another flow between / before them, with a third
    record of the flow, and after / before a record that came alone"""
    cases = []
    shapes = [("SD", None), ("DS", None), ("SxD", None), ("DxS", None), ("xSD", None), ("SDS", None), ("DSD", None),
              ("SD", "S"), ("DS", "D"), ("D", "S"), ("S", "D"), ("Sx", "D"), ("xD", "S")]
    for kind in KINDS:
        for xi, extras in enumerate(EXTRAS if KINDS[kind]["ft"] == 2 else EXTRAS[:1]):
            for shape, alone in shapes:
                for scans in (False, True):
                    ops = ["agg new %d %d" % (A, I)]
                    cnt = 0
                    if alone and rng.random() < 0.5:          # the single record first, then the message
                        cnt += 1
                        ops += [record(kind, alone, 1, cnt, extras), "agg dump"]
                        alone = None
                    recs = []
                    for ch in shape:
                        cnt += 1
                        recs.append(record("intra" if cnt % 2 else kind, "S", 2, cnt, extras) if ch == "x" else record(kind, ch, 1, cnt, extras))
                    ops += [AG.msg_op(recs, rng.choice([None, None, rng.randrange(1, 1 << 30)])), "agg dump"]
                    if scans:
                        for _ in range(3):
                            ops += ["agg adv %d" % A, "agg scan - 0", "agg dump"]
                    if alone:
                        cnt += 1
                        ops += [record(kind, alone, 1, cnt, extras), "agg dump"]
                    ops += ["agg adv %d" % I, "agg scan - 1", "agg dump"]
                    cases.append(Case(ops, kind + "-msg", True, True))
    kinds = list(KINDS)
    for _ in range(60 if tier == "quick" else 4000):
        ops = ["agg new %d %d" % (A, I)]
        kmap = {k: rng.choice(kinds) for k in (1, 2, 3)}
        xmap = {k: rng.choice(EXTRAS) for k in (1, 2, 3)}
        cnt = 0
        for _ in range(rng.randint(3, 40)):
            r = rng.random()
            if r < 0.6:
                recs = []
                for _ in range(rng.choice([1, 2, 2, 3, 4])):
                    key = rng.choice([1, 2, 3])
                    cnt += 1
                    recs.append(record(kmap[key], rng.choice("SD"), key, cnt, xmap[key]))
                ops += [AG.msg_op(recs) if len(recs) > 1 or rng.random() < 0.3 else recs[0], "agg dump"]
            elif r < 0.8:
                ops += ["agg adv %d" % rng.choice([1, 50, A, I - A, I]), "agg dump"]
            else:
                ops += ["agg scan %s %d" % (rng.choice(["-", "-", "1", "2"]), rng.choice([0, 1])), "agg dump"]
        cases.append(Case(ops, "random-msg", True, True))
    return cases


def run(ctx):
    rng = random.Random(ctx.seed * 1000003 + 7)
    cases = gen_cases(rng, ctx.tier)
    res = run_simple(ctx, cases, "C07", chk_filter=lambda op: True, stateful_chk=True,
                     chk_variant=lambda op: "aggc" + op[3:],
                     signature=lambda c, oi, v, agrees: "C07:%s:%s" % (c.label, " ".join(v.split(" ")[:3])))
    return res
