"""C07 - inter-node correlation: withheld until both sides seen, merged field-complete."""
import itertools
import random

from check import Case
from gen import aggcommon as AG
from gen import common as G
from gen.simple import run_simple


class SPEC:
    rule = ("engine agg under the virtual clock: for one to three flow keys, ALL arrival orders and multiplicities of source-node (S) and "
            "destination-node (D) records of length <= 5 (quick; 6 thorough) x flow kinds {inter-node needing correlation, inter-node denied at "
            "egress (drop / reject), inter-node rejected at ingress, intra-node, to-external} x emptiness patterns of the correlate fields on "
            "either side (plus: both records of a flow in ONE data set, in both orders, encoded by the exporter code and decoded by a collecting process - "
            "the production path), with expiry scans placed after every prefix (deadlines reached by advancing the clock, so unready flows go through the "
            "retry / drop path) and a dump after every step; plus random mixes; plus a family of records that LACK correlate fields (the two nodes "
            "export with different templates; value token `~`): every rule-action field absent x every value of the other action, pod-name fields "
            "absent, every other field absent on the stored record / on the incoming one / on both with the other side's value empty or not, random "
            "subsets, in both arrival orders, hand-built and through the exporter-collector path, with retries and drops; plus a family in which the "
            "value of the IPv4 element destinationClusterIPv4 is handed over in the 16-byte form of net.IP (net.IPv4zero, net.ParseIP: what in-process "
            "callers build elements with) on the first record, the second or both - empty (0.0.0.0) and non-empty, against 4-byte values, both arrival "
            "orders, also through the exporter-collector path (which decodes the 4-byte form); every second history creates the process from the same "
            "configuration with its lists in another order (`cfg<n>`). The correlation spec Ipfix.C07.checkShown (ready iff both sides "
            "seen or no correlation needed; never exported unready; every field non-empty on either side is non-empty in the merged record and "
            "comes from one of them; the merged record carries a field exactly when one of the two records does; filled flag) is evaluated on every exported and dumped record of the implementation. Non-trivial = records "
            "from both nodes or a retry.")
    assumptions = ["all records of one flow agree on whether correlation is needed (a flow whose records disagree behaves order-dependently; outside 'a flow that needs correlation')"]
    trusted = ["the overlay's mechanical rewrite time.Now() -> verifNow() in pkg/intermediate"]


A, I = 100, 250
STATS = [10, 5, 1000, 500, 3, 1, 300, 100]

KINDS = {
    "inter": dict(ft=2, ingress=0, egress=0),
    "inter-allow": dict(ft=2, ingress=1, egress=1),
    "egress-drop": dict(ft=2, ingress=0, egress=2),
    "egress-reject": dict(ft=2, ingress=0, egress=3),
    "ingress-reject": dict(ft=2, ingress=3, egress=0),
    "ingress-drop": dict(ft=2, ingress=2, egress=0),
    "intra": dict(ft=1),
    "external": dict(ft=3),
}
# ... and every other pair of rule actions (0 none, 1 allow, 2 drop, 3 reject) on an inter-node flow: the decision looks at
# BOTH actions (allowed at egress yet rejected at ingress is ready at once; dropped at ingress is not a reason)
for _i in range(4):
    for _e in range(4):
        if not any(k.get("ingress") == _i and k.get("egress") == _e for k in KINDS.values()):
            KINDS["act-i%d-e%d" % (_i, _e)] = dict(ft=2, ingress=_i, egress=_e)

EXTRAS = [
    (dict(src_ns="nsA", src_node="node1"), dict(dst_ns="nsB", dst_node="node2", cluster="0a600001", svc_port=443, prio=4294967295)),
    (dict(), dict()),
    (dict(src_ns="nsA", src_node="node1", cluster="0a600002", svc_port=80), dict(dst_ns="nsB")),
    (dict(src_ns="", src_node="node1", dst_ns="fromsrc"), dict(dst_node="node2", src_ns="fromdst", prio=7)),
    # IPv6 cluster address known to one side only / to both sides with different values (the later non-empty one wins)
    (dict(src_ns="nsA", cluster6="fd000000000000000000000000000001", svc_port=8080), dict(dst_ns="nsB")),
    (dict(cluster6="fd000000000000000000000000000001"), dict(cluster6="fd0000000000000000000000000000ff", cluster="0a600003")),
    (dict(), dict(cluster6="00000000000000000000ffff00000000")),
]


def record(kind, side, key, n, extras, absent=None):
    """absent = positions of the correlate fields the record does not carry"""
    k = KINDS[kind]
    stats = [x * n for x in STATS]
    if k["ft"] != 2:
        if kind == "intra":
            return AG.rec_op(key, 1, AG.corr("podA", "podB", absent=absent), 100, 100 + n, stats)
        return AG.rec_op(key, 3, AG.corr("podA", "", absent=absent), 100, 100 + n, stats)
    es, ed = extras
    if side == "S":
        return AG.inter_src(key, 100, 100 + n, stats, ingress=k["ingress"], egress=k["egress"], extra=es, absent=absent)
    return AG.inter_dst(key, 100, 100 + n, stats, ingress=k["ingress"], egress=k["egress"], extra=ed, absent=absent)


def gen_cases(rng, tier):
    cases = []
    maxlen = 5 if tier == "quick" else 6
    for kind in KINDS:
        for n in range(1, maxlen + 1):
            for order in itertools.product("SD", repeat=n):
                for xi, extras in enumerate(EXTRAS if KINDS[kind]["ft"] == 2 else EXTRAS[:1]):
                    if n > 3 and xi > 1:
                        continue
                    for scan_at in ([None] + list(range(1, n + 1)) if n <= 3 else [None, rng.randint(1, n)]):
                        ops = ["agg new %d %d" % (A, I)]
                        cnt = 0
                        # the two nodes need not list the fields of their records in the same order: in some cases the
                        # destination node's (or every) record is handed over with its elements permuted
                        permute = rng.choice([None, None, "D", "all"])
                        for j, side in enumerate(order):
                            cnt += 1
                            rec = record(kind, side, 1, cnt, extras)
                            if permute == "all" or permute == side:
                                rec += " p%d" % rng.randrange(1, 1 << 30)
                            ops += [rec, "agg dump"]
                            if scan_at is not None and j + 1 == scan_at:
                                # three scans at the active deadline: retries then drop for unready flows
                                for _ in range(3):
                                    ops += ["agg adv %d" % A, "agg scan - 0", "agg dump"]
                        ops += ["agg adv %d" % I, "agg scan - 1", "agg dump"]
                        nt = ("S" in order and "D" in order) or scan_at is not None
                        cases.append(Case(ops, kind, nt, True))
    nr = 300 if tier == "quick" else 20000
    kinds = list(KINDS)
    for _ in range(nr):
        ops = ["agg new %d %d" % (A, I)]
        kmap = {k: rng.choice(kinds) for k in (1, 2, 3)}
        xmap = {k: rng.choice(EXTRAS) for k in (1, 2, 3)}
        cnt = 0
        for _ in range(rng.randint(3, 60)):
            r = rng.random()
            if r < 0.6:
                key = rng.choice([1, 2, 3])
                cnt += 1
                ops += [record(kmap[key], rng.choice("SD"), key, cnt, xmap[key]), "agg dump"]
            elif r < 0.8:
                ops += ["agg adv %d" % rng.choice([1, 50, A, I - A, I]), "agg dump"]
            else:
                ops += ["agg scan %s %d" % (rng.choice(["-", "-", "1", "2"]), rng.choice([0, 1])), "agg dump"]
        cases.append(Case(ops, "random", True, True))
    cases += msg_cases(random.Random(rng.randrange(1 << 30)), tier)
    cases += absent_cases(random.Random(rng.randrange(1 << 30)), tier)
    return cases


# ---- records that lack correlate fields (the two nodes of a flow export with different templates) ----

# a value for every non-pod correlate field, as the `extra` / ingress / egress arguments of AG.corr
FULL = dict(src_ns="nsA", src_node="node1", dst_ns="nsB", dst_node="node2", cluster="0a600001", svc_port=443, prio=7,
            cluster6="fd000000000000000000000000000001")
FULL2 = dict(src_ns="nsX", src_node="node9", dst_ns="nsY", dst_node="node8", cluster="0a600063", svc_port=8443, prio=9,
             cluster6="fd0000000000000000000000000000ff")
ACTIONS = [0, 1, 2, 3]       # none, Allow, Drop, Reject


def raw(key, n, src_pod, dst_pod, ingress=0, egress=0, extra=None, absent=(), ft=2):
    return AG.rec_op(key, ft, AG.corr(src_pod, dst_pod, ingress, egress, extra, absent=list(absent)), 100, 100 + n, [x * n for x in STATS])


def session(recs, rng, scans_after=(), via_msg=False, final=True):
    """recs: `agg rec` ops of one session in order; scans_after: indices after which the clock reaches the active
    deadline three times with a scan each (retry, retry, drop of a flow that still waits); via_msg: every record
    travels alone in a data set through exporter encoding and collector decoding"""
    ops = ["agg new %d %d" % (A, I)]
    for j, r in enumerate(recs):
        if via_msg:
            ops += [AG.msg_op([r], rng.choice([None, rng.randrange(1, 1 << 30)])), "agg dump"]
        else:
            ops += [r + (" p%d" % rng.randrange(1, 1 << 30) if rng.random() < 0.3 else ""), "agg dump"]
        if j in scans_after:
            for _ in range(3):
                ops += ["agg adv %d" % A, "agg scan - 0", "agg dump"]
    if final:
        ops += ["agg adv %d" % I, "agg scan - 1", "agg dump"]
    return ops


def absent_cases(rng, tier):
    cases = []
    thorough = tier != "quick"

    def add(label, recs, **kw):
        for via_msg in (False, True):
            cases.append(Case(session(recs, rng, via_msg=via_msg, **kw), "absent-" + label + ("-msg" if via_msg else ""), True, True))

    # 1. a rule-action field is absent: it is not consulted. Every value of the other action, on a source-node and on a
    #    destination-node first record; alone (ready at once or withheld, retried, dropped), then a record of the other
    #    node which carries all fields / lacks the same field / lacks the other action
    for side in "SD":
        pods = ("podA", "") if side == "S" else ("", "podB")
        opods = ("", "podB") if side == "S" else ("podA", "")
        for absent, vals in ([((AG.EGRESS,), [(i, 0) for i in ACTIONS]), ((AG.INGRESS,), [(0, e) for e in ACTIONS]),
                              ((AG.INGRESS, AG.EGRESS), [(0, 0)]), ((AG.EGRESS, AG.PRIO), [(3, 0), (2, 0)])]):
            for ingress, egress in vals:
                first = raw(1, 1, pods[0], pods[1], ingress, egress, FULL, absent)
                add("action-alone", [first], scans_after=(0,))
                add("action-alone", [first, raw(1, 2, pods[0], pods[1], ingress, egress, FULL, absent)], scans_after=(1,))
                for oabsent in ((), absent, (AG.INGRESS,), (AG.EGRESS,)):
                    for oi, oe in ((ingress, egress), (0, 0), (1, 1)):
                        second = raw(1, 2, opods[0], opods[1], oi, oe, FULL2, oabsent)
                        add("action-pair", [first, second, raw(1, 3, pods[0], pods[1], ingress, egress, FULL, absent)],
                            scans_after=rng.choice([(), (1,), (0,)]))
                        if thorough or rng.random() < 0.3:
                            add("action-pair", [second, first], scans_after=rng.choice([(), (1,)]))
    # 2. pod-name fields absent: without sourcePodName a record is not from the source node (whatever else it says),
    #    an absent destinationPodName counts as empty
    shapes = [
        ("podA", "", (AG.DST_POD,)),      # from source
        ("", "podB", (AG.SRC_POD,)),      # from destination
        ("", "", (AG.SRC_POD,)),          # from neither
        ("", "", (AG.DST_POD,)),          # from neither
        ("", "", (AG.SRC_POD, AG.DST_POD)),
        ("", "podB", ()), ("podA", "", ()), ("podA", "podB", (AG.SRC_POD,)), ("podA", "podB", (AG.DST_POD,)),
    ]
    for a in shapes:
        for b in shapes:
            if not a[2] and not b[2]:
                continue
            r1 = raw(1, 1, a[0], a[1], 0, 0, FULL, a[2])
            r2 = raw(1, 2, b[0], b[1], 0, 0, FULL2, b[2])
            r3 = raw(1, 3, "podA", "", 0, 0, FULL)
            add("pod", [r1, r2], scans_after=rng.choice([(), (0,), (1,)]))
            if thorough or rng.random() < 0.4:
                add("pod", [r1, r2, r3, raw(1, 4, "", "podB", 0, 0, FULL2)], scans_after=rng.choice([(), (1,), (2,)]))
    # 3. one field at a time: the stored record lacks it and the other node carries it non-empty / empty; the stored
    #    record carries it (non-empty / empty) and the other node lacks it; both lack it
    empty = dict()
    for pos in AG.NON_POD_POSITIONS:
        for first_side in "SD":
            pods = ("podA", "") if first_side == "S" else ("", "podB")
            opods = ("", "podB") if first_side == "S" else ("podA", "")
            # rule actions: Allow on either side keeps both records in need of correlation
            for (fa, fx, fv), (sa, sx, sv) in [(((pos,), FULL, 1), ((), FULL2, 1)), (((pos,), FULL, 1), ((), empty, 0)),
                                               (((), FULL, 1), ((pos,), FULL2, 1)), (((), empty, 0), ((pos,), FULL2, 1)),
                                               (((pos,), FULL, 1), ((pos,), FULL2, 1)), (((pos,), empty, 0), ((), empty, 0))]:
                r1 = raw(1, 1, pods[0], pods[1], fv, fv, fx, fa)
                r2 = raw(1, 2, opods[0], opods[1], sv, sv, sx, sa)
                add("field%d" % pos, [r1, r2, raw(1, 3, pods[0], pods[1], fv, fv, fx, fa)], scans_after=rng.choice([(), (), (0,), (1,)]))
    # 4. random subsets of absent fields on the first record, on the second, on both (same or different positions)
    kinds = list(KINDS)
    for _ in range(150 if not thorough else 6000):
        kind = rng.choice(["inter", "inter", "inter-allow", rng.choice(kinds)])
        extras = rng.choice([(FULL, FULL2), (FULL, empty), (empty, FULL2), rng.choice(EXTRAS)])

        def subset():
            return rng.sample(range(AG.N_CORR), rng.choice([0, 1, 1, 2, 3, 6])) if rng.random() < 0.8 else []
        sa, sb = subset(), subset()
        if rng.random() < 0.3:
            sb = list(sa)
        order = [rng.choice("SD") for _ in range(rng.randint(1, 5))]
        masks = {"S": sa, "D": sb}
        recs = [record(kind, side, 1, j + 1, extras, absent=masks[side]) for j, side in enumerate(order)]
        scans = tuple(j for j in range(len(recs)) if rng.random() < 0.25)
        add("subset", recs, scans_after=scans)
    # 5. mixes over three keys; a message holds records that lack the same fields
    for _ in range(120 if not thorough else 6000):
        ops = ["agg new %d %d" % (A, I)]
        kmap = {k: rng.choice(kinds) for k in (1, 2, 3)}
        xmap = {k: rng.choice([(FULL, FULL2), (FULL, empty), (empty, FULL2), rng.choice(EXTRAS)]) for k in (1, 2, 3)}
        # per (key, side) a template, i.e. a set of absent fields
        tmpl = {(k, sd): (rng.sample(range(AG.N_CORR), rng.choice([1, 1, 2, 3])) if rng.random() < 0.6 else []) for k in (1, 2, 3) for sd in "SD"}
        shared = rng.sample(range(AG.N_CORR), rng.choice([1, 2]))
        cnt = 0
        for _ in range(rng.randint(3, 50)):
            r = rng.random()
            if r < 0.45:
                key, side = rng.choice([1, 2, 3]), rng.choice("SD")
                cnt += 1
                ops += [record(kmap[key], side, key, cnt, xmap[key], absent=tmpl[(key, side)]), "agg dump"]
            elif r < 0.6:
                recs = []
                mask = rng.choice([shared, [], tmpl[(rng.choice([1, 2, 3]), rng.choice("SD"))]])
                for _ in range(rng.choice([1, 2, 2, 3])):
                    key = rng.choice([1, 2, 3])
                    cnt += 1
                    recs.append(record(kmap[key], rng.choice("SD"), key, cnt, xmap[key], absent=mask))
                ops += [AG.msg_op(recs, rng.choice([None, rng.randrange(1, 1 << 30)])), "agg dump"]
            elif r < 0.8:
                ops += ["agg adv %d" % rng.choice([1, 50, A, I - A, I]), "agg dump"]
            else:
                ops += ["agg scan %s %d" % (rng.choice(["-", "-", "1", "2"]), rng.choice([0, 1])), "agg dump"]
        cases.append(Case(ops, "absent-random", True, True))
    # a data set whose records disagree on the fields they carry cannot exist: refused on both sides
    r1 = raw(1, 1, "podA", "", 0, 0, FULL, (AG.EGRESS,))
    r2 = raw(2, 2, "", "podB", 0, 0, FULL2, (AG.PRIO,))
    cases.append(Case(["agg new %d %d" % (A, I), "agg msg " + " + ".join(o[len("agg rec "):] for o in (r1, r2)), "agg dump"],
                      "absent-mixed-templates", False, True, False))
    return cases


def ip16_cases(rng, tier):
    """the value of the IPv4 correlate field destinationClusterIPv4 in the 16-byte form of net.IP (IPv4-mapped):
    the same address as its 4-byte form - 0.0.0.0 is empty in either form; a dump shows the value object as it is"""
    cases = []
    z4, v4, w4 = "00000000", "0a600001", "0a600063"
    forms = [("z4", z4), ("z16", AG.ip16(z4)), ("v4", v4), ("v16", AG.ip16(v4)), ("w16", AG.ip16(w4))]
    for (na, ca), (nb, cb) in itertools.product(forms, repeat=2):
        if "16" not in na + nb:
            continue
        for first_side in "SD":
            other = "D" if first_side == "S" else "S"
            for via_msg in (False, True):
                for kind in ("inter", "inter-allow"):
                    if kind == "inter-allow" and (via_msg or rng.random() < 0.5):
                        continue
                    xa = dict(src_ns="nsA", cluster=ca, svc_port=80)
                    xb = dict(dst_ns="nsB", cluster=cb)
                    ex = {first_side: xa, other: xb}
                    recs = [record(kind, first_side, 1, 1, (ex["S"], ex["D"])), record(kind, other, 1, 2, (ex["S"], ex["D"])),
                            record(kind, first_side, 1, 3, (ex["S"], ex["D"]))]
                    scans = rng.choice([(), (), (0,), (1,)])
                    cases.append(Case(session(recs, rng, scans_after=scans, via_msg=via_msg), "ip16" + ("-msg" if via_msg else ""), True, True))
    # flows that need no correlation keep what their first record says, whatever its form; mixes over three keys
    kinds = list(KINDS)
    vals = [c for _, c in forms]
    for _ in range(60 if tier == "quick" else 3000):
        ops = ["agg new %d %d" % (A, I)]
        kmap = {k: rng.choice(["inter", "inter", "inter-allow", rng.choice(kinds)]) for k in (1, 2, 3)}
        cnt = 0
        for _ in range(rng.randint(3, 30)):
            r = rng.random()
            if r < 0.65:
                key, side = rng.choice([1, 2, 3]), rng.choice("SD")
                cnt += 1
                x = dict(cluster=rng.choice(vals), svc_port=rng.choice([0, 443]))
                rec = record(kmap[key], side, key, cnt, (x, x))
                ops += [AG.msg_op([rec]) if rng.random() < 0.2 else rec, "agg dump"]
            elif r < 0.8:
                ops += ["agg adv %d" % rng.choice([1, 50, A, I - A, I]), "agg dump"]
            else:
                ops += ["agg scan %s %d" % (rng.choice(["-", "-", "1", "2"]), rng.choice([0, 1])), "agg dump"]
        cases.append(Case(ops, "ip16-random", True, True))
    return cases


def msg_cases(rng, tier):
    """the source-node and the destination-node record of a flow arrive in ONE data set, decoded by a collecting
    process (`agg msg`), in both orders; alone, with a record of another flow between / before them, with a third
    record of the flow, and after / before a record that came alone"""
    cases = []
    shapes = [("SD", None), ("DS", None), ("SxD", None), ("DxS", None), ("xSD", None), ("SDS", None), ("DSD", None),
              ("SD", "S"), ("DS", "D"), ("D", "S"), ("S", "D"), ("Sx", "D"), ("xD", "S")]
    for kind in KINDS:
        for xi, extras in enumerate(EXTRAS if KINDS[kind]["ft"] == 2 else EXTRAS[:1]):
            for shape, alone in shapes:
                for scans in (False, True):
                    ops = ["agg new %d %d" % (A, I)]
                    cnt = 0
                    if alone and rng.random() < 0.5:          # the single record first, then the message
                        cnt += 1
                        ops += [record(kind, alone, 1, cnt, extras), "agg dump"]
                        alone = None
                    recs = []
                    for ch in shape:
                        cnt += 1
                        recs.append(record("intra" if cnt % 2 else kind, "S", 2, cnt, extras) if ch == "x" else record(kind, ch, 1, cnt, extras))
                    ops += [AG.msg_op(recs, rng.choice([None, None, rng.randrange(1, 1 << 30)])), "agg dump"]
                    if scans:
                        for _ in range(3):
                            ops += ["agg adv %d" % A, "agg scan - 0", "agg dump"]
                    if alone:
                        cnt += 1
                        ops += [record(kind, alone, 1, cnt, extras), "agg dump"]
                    ops += ["agg adv %d" % I, "agg scan - 1", "agg dump"]
                    cases.append(Case(ops, kind + "-msg", True, True))
    kinds = list(KINDS)
    for _ in range(60 if tier == "quick" else 4000):
        ops = ["agg new %d %d" % (A, I)]
        kmap = {k: rng.choice(kinds) for k in (1, 2, 3)}
        xmap = {k: rng.choice(EXTRAS) for k in (1, 2, 3)}
        cnt = 0
        for _ in range(rng.randint(3, 40)):
            r = rng.random()
            if r < 0.6:
                recs = []
                for _ in range(rng.choice([1, 2, 2, 3, 4])):
                    key = rng.choice([1, 2, 3])
                    cnt += 1
                    recs.append(record(kmap[key], rng.choice("SD"), key, cnt, xmap[key]))
                ops += [AG.msg_op(recs) if len(recs) > 1 or rng.random() < 0.3 else recs[0], "agg dump"]
            elif r < 0.8:
                ops += ["agg adv %d" % rng.choice([1, 50, A, I - A, I]), "agg dump"]
            else:
                ops += ["agg scan %s %d" % (rng.choice(["-", "-", "1", "2"]), rng.choice([0, 1])), "agg dump"]
        cases.append(Case(ops, "random-msg", True, True))
    return cases


STATS_ONLY = ["packetTotalCount", "packetDeltaCount", "octetTotalCount", "octetDeltaCount", "reversePacketTotalCount",
              "reversePacketDeltaCount", "reverseOctetTotalCount", "reverseOctetDeltaCount", "tcpState", "flowEndReason",
              "flowEndSeconds", "flowStartSeconds"]


def refused_second_cases(rng, tier):
    """the record of the SECOND node is one the statistics update refuses (its template lacks a counter, tcpState, ...):
    both sides have been seen all the same - correlation comes before the statistics - so the flow is complete: ready,
    filled, every non-empty correlate field of either side present; it must not be retried and dropped. Outside the
    model (it has no refused records): judged by the C07 tracker only."""
    cases = []
    for name in STATS_ONLY:
        for first in "SD":
            for extra_ok in (False, True):
                src = raw(1, 1, "podA", "", extra=FULL)
                dst = raw(1, 2, "", "podB", ingress=1, extra=FULL2)
                a, b = (src, dst) if first == "S" else (dst, src)
                recs = [a, b + " omit=" + name]
                if extra_ok:            # a further, ordinary record of the second node afterwards
                    recs.append(raw(1, 3, "", "podB", ingress=1, extra=FULL2) if first == "S" else raw(1, 3, "podA", "", extra=FULL))
                ops = ["agg new %d %d" % (A, I)]
                for r in recs:
                    ops += [r, "agg dump"]
                for _ in range(3):
                    ops += ["agg adv %d" % A, "agg scan - 0", "agg dump"]
                cases.append(Case(ops, "refused-second", True, False, True))
    return cases


def rereport_cases(rng, tier):
    """the bound on the retries holds whatever arrives in between: a flow reported by ONE node only, that node reporting it
    again between the expiry scans (each scan finds it due and still uncorrelated). It is dropped by the scan after the
    last retry all the same - never kept for ever, never exported half-filled - and what the node reports after that
    starts a new flow."""
    cases = []
    for side in "SD":
        for kind in ("inter", "inter-allow", "ingress-drop"):
            for pattern in ("rs" * 6, "rsrrsrsrs", "srsrsrs", "rssrsrs", "rsrsrsrrrsrsrs"):
                for _ in range(1 if tier == "quick" else 8):
                    extras = rng.choice(EXTRAS)
                    ops, n = ["agg new %d %d" % (A, I), record(kind, side, 1, 1, extras), "agg dump"], 1
                    for ch in pattern:
                        if ch == "r":
                            n += 1
                            ops += ["agg adv %d" % rng.choice([1, 5, 20]), record(kind, side, 1, n, extras), "agg dump"]
                        else:
                            ops += ["agg adv %d" % A, "agg scan - %d" % rng.choice([0, 1]), "agg dump", "agg snap"]
                    cases.append(Case(ops, "retry-with-rereports", True, True))
    return cases


def run(ctx):
    rng = random.Random(ctx.seed * 1000003 + 7)
    cases = gen_cases(rng, ctx.tier)
    cases += rereport_cases(random.Random(ctx.seed * 1000003 + 709), ctx.tier)
    cases += refused_second_cases(random.Random(ctx.seed * 1000003 + 708), ctx.tier)
    # own stream of random numbers: the histories above are the ones the seed generated before
    cases += ip16_cases(random.Random(ctx.seed * 1000003 + 707), ctx.tier)
    AG.with_cfg(cases)
    res = run_simple(ctx, cases, "C07", chk_filter=lambda op: True, stateful_chk=True,
                     chk_variant=lambda op: "aggc" + op[3:],
                     signature=lambda c, oi, v, agrees: "C07:%s:%s" % (c.label, " ".join(v.split(" ")[:3])))
    return res
