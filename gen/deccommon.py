"""Shared runner for the properties decided on the collector's packet decoder (engine `dec`)."""
from check import Case, exec_cases
from gen import common as G


def run_dec(ctx, cases, prop, signature, nontrivial_rule=None, relation=None, use_spec=True):
    """cases: Case lists of `dec ...` ops. Compares implementation and model observations
    (correspondence) and evaluates the specification (`chk dec`) on the implementation's trace.
    signature(case, op_index, verdict) -> str used to match known findings."""
    import os
    cdir = os.path.join(os.path.dirname(os.path.dirname(os.path.abspath(__file__))), "corpus", prop)
    if os.path.isdir(cdir):
        corpus = []
        for f in sorted(os.listdir(cdir)):
            if f.endswith(".ops"):
                ops = [l.rstrip("\n") for l in open(os.path.join(cdir, f)) if l.strip() and not l.startswith("#")]
                if ops:
                    corpus.append(Case(ops, "corpus:" + f[:-4], True, True))
        cases = corpus + list(cases)
    impl, model = ctx.both(cases)
    chk_cases = []
    for ci, c in enumerate(cases):
        chk_cases.append(Case(["chk %s | %s" % (op if use_spec else "decm" + op[3:], impl[ci][oi]) for oi, op in enumerate(c.ops)]))
    shards = ctx.cores if ctx.tier == "thorough" else min(8, ctx.cores)
    verdicts = exec_cases(ctx.driver, chk_cases, shards=shards)
    dist = G.Counter()
    seen = set()
    disagreements, failures = [], []
    ood = 0
    for ci, c in enumerate(cases):
        dist.add(c.label)
        if c.nontrivial:
            seen.add(G.case_hash(c.ops))
        bad_pred = None
        for oi, op in enumerate(c.ops):
            i, m, v = impl[ci][oi], model[ci][oi], verdicts[ci][oi]
            dist.add("impl:" + " ".join((i or "missing").split(" ")[:1] + (i or "").split(" ")[5:6]))
            if v not in ("holds", "na") and bad_pred is None:
                bad_pred = (oi, v)
        for oi, op in enumerate(c.ops):
            i, m = impl[ci][oi], model[ci][oi]
            agree = (i == m) if relation is None else relation(op, i, m)
            if not agree:
                if not c.in_domain:
                    ood += 1
                else:
                    disagreements.append({"case": ci, "op_index": oi, "ops": [o[:2000] for o in c.ops], "impl": i[:400], "model": m[:400],
                                          "label": c.label, "explained_by_predicate_failure": bad_pred is not None})
                break
        if bad_pred is not None and c.in_domain:
            oi, v = bad_pred
            agrees = all(impl[ci][k] == model[ci][k] for k in range(len(c.ops)))
            failures.append({"signature": signature(c, oi, v, agrees), "ops": list(c.ops), "case_index": ci, "impl": impl[ci][oi][:400],
                             "model": model[ci][oi][:400], "op_index": oi,
                             "predicate": {"name": "Ipfix.C04.decodePacketSpec (expected observation)", "value": v[:300]}})
    # shrink the first failure of each signature: keep the mode, the packets that changed the
    # template state, and the failing packet; fall back to the whole prefix if that does not fail
    from check import run_ops
    done = set()
    for f in failures:
        if f["signature"] in done or len(done) >= 8:
            continue
        done.add(f["signature"])
        ci = f["case_index"]
        c, oi = cases[ci], f["op_index"]
        keep = [k for k in range(oi) if k == 0 or " tpl " in impl[ci][k] or impl[ci][k] == "err" and c.ops[k][8:].startswith("000a") and c.ops[k][8 + 32:8 + 36] == "0002"]
        for cand in ([c.ops[k] for k in keep] + [c.ops[oi]], c.ops[:oi + 1]):
            io, _ = run_ops(ctx.harness, cand)
            pre = "chk dec" if use_spec else "chk decm"
            vo, _ = run_ops(ctx.driver, ["%s%s | %s" % (pre, o[3:], x) for o, x in zip(cand, io)])
            if vo and vo[-1] not in ("holds", "na"):
                f["ops"], f["impl"], f["shrunk"] = cand, io[-1][:400], True
                mo, _ = run_ops(ctx.driver, cand)
                f["model"] = mo[-1][:400] if mo else ""
                break
    idx = [0, len(cases) // 3, len(cases) // 2, len(cases) - 1] if cases else []
    samples = [{"label": cases[i].label, "ops": [o[:160] for o in cases[i].ops[:6]], "impl": [o[:160] for o in impl[i][:6]]} for i in idx]
    # keep the failures diverse: one per signature first
    bysig = {}
    for f in failures:
        bysig.setdefault(f["signature"], f)
    ordered = list(bysig.values()) + [f for f in failures if bysig[f["signature"]] is not f]
    return {"evaluations": len(cases), "distinct_nontrivial": len(seen), "samples": samples, "distribution": dict(dist),
            "disagreements": disagreements[:50], "predicate_failures": ordered[:60], "out_of_domain_disagreements": ood,
            "exhaustive": False, "notes": []}
