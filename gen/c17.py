"""C17 - unknown information elements: strict rejects, keep preserves, drop omits exactly."""
import random

from check import Case, exec_cases
from gen import common as G
from gen import ipfix as W


class SPEC:
    rule = ("engine dec: the same template and data bytes decoded under the three modes, plus (strict mode) the template and data with "
            "the unknown fields cut out. Templates interleave known registry elements with unknown IANA / unknown-enterprise / "
            "known-enterprise-unknown-id elements at every position; unknown lengths 1, 2, 7, 300, 65535 (variable, payloads 0/1/254/255/300 "
            "bytes) and 0 (rejected). Sessions are preceded, at random, by another template that gives the same unknown elements other "
            "lengths, by a known predecessor of the SAME (domain, id), or by a predecessor of the same (domain, id) with the same element ids "
            "in the same order but other lengths for the unknown ones (a re-definition, not a refresh); the collector is configured for tcp "
            "or udp (`dec new <mode> udp`). Some unknown elements are ids that exist under a SIBLING enterprise only (an IANA element "
            "without reverse twin asked for under 29305, and the like); one session in five is repeated on a collector whose DecodingMode "
            "was left unset (`dec new default`: documented to mean strict). Also: registry dump cross-check - every (enterprise, id) of the three registries x 65536 ids is "
            "looked up on both sides. Non-trivial = at least one unknown element between known ones; distinct by hash.")
    assumptions = ["an empty element name marks an unknown element (the code's convention); the registry has no decodable element with an empty name (tie_no_empty_names)"]
    trusted = []


_TWINLESS = None


def twinless():
    """(enterprise, id) pairs that are NOT in the registry although the same id exists under a sibling enterprise: IANA elements
    without a reverse twin asked for under the reverse enterprise 29305 (flowId 148, paddingOctets 210, ...), reverse / Antrea
    ids asked for under IANA or under each other - an implementation that falls back to the sibling registry finds them"""
    global _TWINLESS
    if _TWINLESS is None:
        have = {(ie.ent, ie.id) for ie in G.registry()}
        ids = {}
        for ent, i in have:
            ids.setdefault(ent, set()).add(i)
        out = []
        for ent in (0, 29305, 56506):
            for other in (0, 29305, 56506):
                if other != ent:
                    out += [(ent, i) for i in sorted(ids.get(other, ())) if (ent, i) not in have and 0 < i < 32768]
        _TWINLESS = out
    return _TWINLESS


def unknown_ie(rng):
    ln = rng.choice([1, 2, 7, 300, 65535, 65535, 4, 16])
    r = rng.random()
    if r < 0.15 and twinless():
        ent, i = rng.choice(twinless())
        return G.IE(ent, i, 0, ln if rng.random() < 0.7 else rng.choice([1, 2, 4, 8]), "")
    if r < 0.27:
        # the id AND the length of a registry element, under an enterprise that does not have it: only the enterprise
        # number tells the two apart (see the identity-swapped predecessor in gen_cases)
        twin = rng.choice(G.registry_supported())
        return G.IE(rng.choice([55555, 4294967295, 1]), twin.id, 0, twin.len, "")
    if r < 0.4:
        return G.IE(0, rng.randint(600, 32767), 0, ln, "")
    if r < 0.7:
        return G.IE(rng.choice([55555, 1, 4294967295]), rng.randint(1, 32767), 0, ln, "")
    return G.IE(rng.choice([56506, 29305]), rng.randint(2000, 32767), 0, ln, "")


def unknown_value(rng, ie):
    if ie.len == 65535:
        n = rng.choice([0, 1, 5, 254, 255, 300])
        return "x" + G.hexs(G.rand_bytes(rng, n))
    return "x" + G.hexs(G.rand_bytes(rng, ie.len))


def gen_cases(rng, tier):
    sup = G.registry_supported()
    cases = []
    n = 15000 if tier == "quick" else 300000
    for _ in range(n):
        k = rng.randint(1, 6)
        layout = [rng.random() < 0.4 for _ in range(k)]  # True = unknown
        if rng.random() < 0.1:
            layout = [False] * k
        ies = [unknown_ie(rng) if u else rng.choice(sup) for u in layout]
        zero = rng.random() < 0.04 and any(layout)
        if zero:
            i = layout.index(True)
            ies[i] = G.IE(ies[i].ent, ies[i].id, 0, 0, "")
        dom, tid = rng.choice([1, 7]), rng.choice([256, 300])
        nrec = rng.randint(1, 3)
        recs = []
        for _ in range(nrec):
            recs.append([unknown_value(rng, ie) if u else G.well_typed_value(rng, ie, big_ok=False, maxlen=300) for ie, u in zip(ies, layout)])
        tpl = W.message(dom, 2, W.template_body(tid, ies))
        # (some variable-length values travel in the three-octet length form although they are short)
        data = W.message(dom, tid, b"".join(W.record_bytes(ies, r, rng, 0.15) for r in recs))
        known = [ie for ie, u in zip(ies, layout) if not u]
        tpl_k = W.message(dom, 2, W.template_body(tid, known))
        data_k = W.message(dom, tid, b"".join(W.record_bytes(known, [v for v, u in zip(r, layout) if not u]) for r in recs))
        # one collector usually sees MANY templates. Before the template under test each session may get
        # (a) another template (other id) that mentions the same unknown (enterprise, id) pairs with a
        #     DIFFERENT length - the element created for the first must not leak into the second;
        # (b) an accepted, fully known PREDECESSOR with the SAME (domain, id): in strict mode the template
        #     under test is then a rejected re-definition, and the data that follows must be rejected too
        #     (not decoded with the predecessor); in keep / drop mode it simply replaces the predecessor
        pres = []
        if any(layout) and rng.random() < 0.5:
            other = []
            for ie, u in zip(ies, layout):
                if u:
                    ln = rng.choice([x for x in (1, 2, 3, 7, 12, 300, 65535) if x != ie.len])
                    other.append(G.IE(ie.ent, ie.id, 0, ln, ""))
                else:
                    other.append(ie)
            pres.append("dec pkt " + W.message(dom, 2, W.template_body(tid + 1 if tid < 65535 else 256, other)).hex())
        if any(layout) and rng.random() < 0.35:
            pred = known if known and rng.random() < 0.5 else [rng.choice(sup) for _ in range(rng.randint(1, 4))]
            pres.append("dec pkt " + W.message(dom, 2, W.template_body(tid, pred)).hex())
        # (c) the SAME (domain, id) defined before with the same element ids in the same order but OTHER lengths for the
        #     unknown ones (what an exporter that changes a field from fixed to variable length sends): a re-definition, not
        #     a refresh - the data that follows is laid out by the new lengths
        if any(layout) and rng.random() < 0.35:
            other = []
            for ie, u in zip(ies, layout):
                if u:
                    ln = rng.choice([x for x in (1, 2, 3, 7, 12, 300, 65535) if x != ie.len])
                    other.append(G.IE(ie.ent, ie.id, 0, ln, ""))
                else:
                    other.append(ie)
            pres.append("dec pkt " + W.message(dom, 2, W.template_body(tid, other)).hex())
        # (d) the SAME (domain, id) defined before with the same element ids AND lengths in the same order, but other
        #     ENTERPRISE numbers: where the template under test has an unknown element the predecessor had the registry
        #     element with that id and length (when there is one), where it has a known element the predecessor had an
        #     unknown one. A re-definition again: nothing of the predecessor's elements may survive it.
        if rng.random() < 0.3:
            by_id_len = {}
            for e in sup:
                by_id_len.setdefault((e.id, e.len), e)
            other, swapped = [], False
            for ie, u in zip(ies, layout):
                if u and (ie.id, ie.len) in by_id_len:
                    other.append(by_id_len[(ie.id, ie.len)])
                    swapped = True
                elif not u and rng.random() < 0.6:
                    other.append(G.IE(55555, ie.id, 0, ie.len, ""))
                    swapped = True
                else:
                    other.append(ie)
            if swapped:
                pres.append("dec pkt " + W.message(dom, 2, W.template_body(tid, other)).hex())
        # the collector is configured for tcp or for udp (templates with a lifetime, refreshed by re-sending them)
        proto = rng.choice(["", " udp", " tcp"])
        ops = []
        for mode in ("strict", "keep", "drop"):
            ops += ["dec new " + mode + proto] + pres + ["dec pkt " + tpl.hex(), "dec pkt " + data.hex(), "dec keys"]
        ops += ["dec new strict" + proto, "dec pkt " + tpl_k.hex(), "dec pkt " + data_k.hex()]
        if rng.random() < 0.2:
            # a collector whose DecodingMode was left unset: documented to be strict
            ops += ["dec new default" + proto] + pres + ["dec pkt " + tpl.hex(), "dec pkt " + data.hex(), "dec keys"]
        inner = any(layout[i] and any(not x for x in layout[:i]) and any(not x for x in layout[i + 1:]) for i in range(k))
        label = "zero-len" if zero else ("all-known" if not any(layout) else ("all-unknown" if all(layout) else "mixed"))
        cases.append(Case(ops, label, inner, True))
    return cases


def registry_dump_case():
    # exhaustive registry cross-check: 3 registries x 65536 ids (+ an unsupported enterprise)
    ops = []
    for ent in (0, 29305, 56506, 55555):
        for lo in range(0, 65536, 4096):
            ops.append("reg dump %d %d %d" % (ent, lo, lo + 4096))
    return Case(ops, "registry-dump", False, True)


def run(ctx):
    rng = random.Random(ctx.seed * 1000003 + 17)
    cases = gen_cases(rng, ctx.tier)
    allc = cases + [registry_dump_case()]
    impl, model = ctx.both(allc)
    chk_cases = []
    for ci, c in enumerate(cases):
        i = impl[ci]
        # positions of (template, data) in the strict / keep / drop sessions and in the stripped strict session
        pos = [k for k, o in enumerate(c.ops) if o.startswith("dec new")]
        def td(start, end):
            pk = [k for k in range(start, end) if c.ops[k].startswith("dec pkt")]
            return pk[-2], pk[-1]
        a = td(pos[0], pos[1]); b = td(pos[1], pos[2]); d = td(pos[2], pos[3]); e = td(pos[3], pos[4] if len(pos) > 4 else len(c.ops))
        lines = ["chk c17 %s %s | %s" % (c.ops[a[0]][8:], c.ops[a[1]][8:], " | ".join([i[a[0]], i[a[1]], i[b[0]], i[b[1]], i[d[0]], i[d[1]], i[e[0]], i[e[1]]]))]
        if len(pos) > 4:
            # the collector with the UNSET mode is judged as the strict one
            a2 = td(pos[4], len(c.ops))
            lines.append("chk c17 %s %s | %s" % (c.ops[a[0]][8:], c.ops[a[1]][8:], " | ".join([i[a2[0]], i[a2[1]], i[b[0]], i[b[1]], i[d[0]], i[d[1]], i[e[0]], i[e[1]]])))
        chk_cases.append(Case(lines))
    shards = ctx.cores if ctx.tier == "thorough" else min(8, ctx.cores)
    verdicts = exec_cases(ctx.driver, chk_cases, shards=shards)
    dist = G.Counter()
    seen = set()
    disagreements, failures = [], []
    for ci, c in enumerate(allc):
        dist.add(c.label)
        if c.nontrivial:
            seen.add(G.case_hash(c.ops))
        agrees = True
        for oi, op in enumerate(c.ops):
            if impl[ci][oi] != model[ci][oi]:
                agrees = False
                disagreements.append({"case": ci, "op_index": oi, "ops": [o[:3000] for o in c.ops[:oi + 1][-4:]], "impl": impl[ci][oi][:400],
                                      "model": model[ci][oi][:400], "label": c.label})
                break
        if ci < len(cases):
            v = verdicts[ci][0]
            if v == "holds" and len(verdicts[ci]) > 1 and verdicts[ci][1] != "holds":
                v = verdicts[ci][1] + " (decoding mode left unset)"
            dist.add("verdict:" + v.split(" ")[0])
            if v != "holds":
                failures.append({"signature": "C17:%s:%s" % (c.label, " ".join(v.split(" ")[:2])), "ops": list(c.ops), "impl": " | ".join(impl[ci])[:600],
                                 "model": " | ".join(model[ci])[:600], "predicate": {"name": "Ipfix.C17.holdsCase", "value": v[:300]}})
    fset = {tuple(f["ops"]) for f in failures}
    for d in disagreements:
        d["explained_by_predicate_failure"] = any(tuple(allc[d["case"]].ops) == t for t in fset)
    idx = [0, len(cases) // 2, len(cases) - 1]
    samples = [{"label": cases[i].label, "ops": [o[:140] for o in cases[i].ops[:4]], "impl": [o[:140] for o in impl[i][:4]]} for i in idx]
    return {"evaluations": len(allc), "distinct_nontrivial": len(seen), "samples": samples, "distribution": dict(dist),
            "disagreements": disagreements[:50], "predicate_failures": failures[:50], "exhaustive": False,
            "notes": ["registry cross-check: GetInfoElementFromID vs the regenerated table for 4 x 65536 (enterprise, id) pairs, exhaustive"]}
